(* Properties/C01.v — Block import is deterministic and accepts only self-consistent blocks.
   Only statements closed by `exact`, with Print Assumptions under each.

   Vocabulary (Import/ImportModel.v; every definition names the Go function it follows):
     H                        crypto.Keccak256 — every theorem holds for every H
     R, O                     a state as the node holds it (StateDB over cached tries) / the
                              choices that are not inputs (Go map iteration orders over dirty
                              accounts and storage, trie cache generations, resident nodes)
     apply_msg block_start finalize root_of
                              ApplyMessage+Finalise of one transaction, the hard-fork mutations,
                              Engine.Finalize's rewards, StateDB.IntermediateRoot — parameters:
                              the theorems hold for every execution layer; what they need of it
                              is the explicit premise `exec_respects_content` (same content =>
                              same gas / status / logs / root and states of equal content, for
                              any two representations and any two sets of choices: C06/C07 over
                              C09's getters, C09.4, C10.3)
     okO                      which implementation choices can occur (e.g. "a duplicate-free permutation
                              of the dirty set"); the premise and the theorems are relative to it
     derive_sha               types.DeriveSha = the C10 specification root of {rlp(i) -> item_i}
     calc_uncle_hash, receipts_bloom, receipts_root
                              CalcUncleHash, CreateBloom (C16's model), DeriveSha(Receipts)
     import_block o s b       ValidateBody(commitments) -> Process on parent state s -> ValidateState
     build_block              worker.commitNewWork / BlockGen: commitTransactions + Finalize + NewBlock
     insert_block, insert_chain  one iteration / the loop of insertChain2 over a store
                              (head, blocks with receipts and states); header and uncle
                              verification (C13), block hash and fork choice (C02) are parameters

   The arrival history of a block (alone / in a batch, after a competing fork, across a
   restart, archive / pruning, warm / cold caches) reaches import only through (a) the
   representation of the parent state and (b) the implementation choices: theorem
   C01_import_depends_on_content_only quantifies over both.  That the Go node indeed
   hands import a parent state with the right content under all those histories is
   checked on the implementation by harness/cmd/c01 (8 histories per chain). *)
From AQ Require Import Lib.Bytes Lib.Keccak Rlp.RlpSpec Trie.MptSpec Bloom.BloomModel
  Import.ImportModel Import.ImportProofs Import.DeriveShaCode Import.DeriveShaProofs.
From AQ Require Trie.TrieModel State.StateSpec State.StateModel.
From AQ Require Import Import.ImportC09 Import.ImportRel Import.ImportTx Import.ImportTxProofs Import.UncleModel Import.UncleProofs.
From Coq Require Import Permutation.
Local Open Scope N_scope.

(* 1. a block is accepted iff the transactions all apply and every commitment of the
      header is the recomputed one; the result is then the recomputed one *)
Theorem C01_accept_iff_commitments :
  forall (H : bytes -> bytes) (R O : Type)
         (apply_msg : O -> exec_env -> N -> R -> N -> bytes -> option (msg_result R))
         (block_start : O -> exec_env -> R -> R) (finalize : O -> exec_env -> list header -> R -> R)
         (root_of : O -> R -> bytes) (o : O) (s : R) (b : block) (r : results R),
  import_block H R O apply_msg block_start finalize root_of o s b = Accepted R r <->
  exists p, process R O apply_msg block_start finalize o s b = Some p /\
    h_uncle_hash (b_header b) = calc_uncle_hash H (b_uncles b) /\
    h_tx_hash (b_header b) = derive_sha H (b_txs b) /\
    h_gas_used (b_header b) = p_used R p /\
    h_bloom (b_header b) = receipts_bloom H (p_receipts R p) /\
    h_receipt_hash (b_header b) = receipts_root H (p_receipts R p) /\
    h_root (b_header b) = root_of o (p_state R p) /\
    r = mkRes R (p_state R p) (p_receipts R p) (p_used R p) (root_of o (p_state R p)).
Proof. exact accept_iff_commitments. Qed.
Print Assumptions C01_accept_iff_commitments.

(* ... and a rejection names the first commitment, in the code's order, that differs *)
Theorem C01_reject_names_first_mismatch :
  forall (H : bytes -> bytes) (R O : Type)
         (apply_msg : O -> exec_env -> N -> R -> N -> bytes -> option (msg_result R))
         (block_start : O -> exec_env -> R -> R) (finalize : O -> exec_env -> list header -> R -> R)
         (root_of : O -> R -> bytes) (o : O) (s : R) (b : block) (why : reject),
  import_block H R O apply_msg block_start finalize root_of o s b = Rejected R why ->
  match why with
  | RejUncleHash => h_uncle_hash (b_header b) <> calc_uncle_hash H (b_uncles b)
  | RejTxRoot => h_tx_hash (b_header b) <> derive_sha H (b_txs b)
  | RejProcess => process R O apply_msg block_start finalize o s b = None
  | RejGasUsed => exists p, process R O apply_msg block_start finalize o s b = Some p /\
                            h_gas_used (b_header b) <> p_used R p
  | RejBloom => exists p, process R O apply_msg block_start finalize o s b = Some p /\
                          h_bloom (b_header b) <> receipts_bloom H (p_receipts R p)
  | RejReceiptRoot => exists p, process R O apply_msg block_start finalize o s b = Some p /\
                                h_receipt_hash (b_header b) <> receipts_root H (p_receipts R p)
  | RejStateRoot => exists p, process R O apply_msg block_start finalize o s b = Some p /\
                              h_root (b_header b) <> root_of o (p_state R p)
  | _ => False
  end.
Proof. exact reject_names_first_mismatch. Qed.
Print Assumptions C01_reject_names_first_mismatch.

(* 2. a rejected block leaves head, blocks, receipts and states exactly as they were *)
Theorem C01_reject_leaves_store :
  forall (H : bytes -> bytes) (R O : Type)
         (apply_msg : O -> exec_env -> N -> R -> N -> bytes -> option (msg_result R))
         (block_start : O -> exec_env -> R -> R) (finalize : O -> exec_env -> list header -> R -> R)
         (root_of : O -> R -> bytes) (hash_of : header -> bytes)
         (verify_header : store R -> header -> bool) (verify_uncles fork_choice : store R -> block -> bool)
         (o : O) (st : store R) (b : block) (st' : store R) (why : reject),
  insert_block H R O apply_msg block_start finalize root_of hash_of verify_header verify_uncles fork_choice o st b
    = (st', Failed R why) -> st' = st.
Proof. exact reject_leaves_store. Qed.
Print Assumptions C01_reject_leaves_store.

(* ... so does a block that is already known *)
Theorem C01_known_block_leaves_store :
  forall (H : bytes -> bytes) (R O : Type)
         (apply_msg : O -> exec_env -> N -> R -> N -> bytes -> option (msg_result R))
         (block_start : O -> exec_env -> R -> R) (finalize : O -> exec_env -> list header -> R -> R)
         (root_of : O -> R -> bytes) (hash_of : header -> bytes)
         (verify_header : store R -> header -> bool) (verify_uncles fork_choice : store R -> block -> bool)
         (o : O) (st : store R) (b : block) (st' : store R),
  insert_block H R O apply_msg block_start finalize root_of hash_of verify_header verify_uncles fork_choice o st b
    = (st', Ignored R) -> st' = st.
Proof. exact known_block_leaves_store. Qed.
Print Assumptions C01_known_block_leaves_store.

(* ... a block is written only after import_block accepted it on the stored state of its
   parent; what is written is that block with the recomputed receipts and state; the head
   stays or becomes that block *)
Theorem C01_inserted_only_if_accepted :
  forall (H : bytes -> bytes) (R O : Type)
         (apply_msg : O -> exec_env -> N -> R -> N -> bytes -> option (msg_result R))
         (block_start : O -> exec_env -> R -> R) (finalize : O -> exec_env -> list header -> R -> R)
         (root_of : O -> R -> bytes) (hash_of : header -> bytes)
         (verify_header : store R -> header -> bool) (verify_uncles fork_choice : store R -> block -> bool)
         (o : O) (st : store R) (b : block) (st' : store R) (r : results R),
  insert_block H R O apply_msg block_start finalize root_of hash_of verify_header verify_uncles fork_choice o st b
    = (st', Inserted R r) ->
  exists parent, lookup_block R (h_parent (b_header b)) (st_blocks R st) = Some parent /\
    import_block H R O apply_msg block_start finalize root_of o (sb_state R parent) b = Accepted R r /\
    st_blocks R st' = (hash_of (b_header b), mkStored R b (res_receipts R r) (res_state R r)) :: st_blocks R st /\
    (st_head R st' = st_head R st \/ st_head R st' = hash_of (b_header b)).
Proof. exact inserted_only_if_accepted. Qed.
Print Assumptions C01_inserted_only_if_accepted.

(* ... and for a batch (InsertChain): when block number i is rejected, the store is exactly
   the store after the i good blocks before it — the bad block and everything behind it
   left no trace *)
Theorem C01_failed_batch_is_good_prefix :
  forall (H : bytes -> bytes) (R O : Type)
         (apply_msg : O -> exec_env -> N -> R -> N -> bytes -> option (msg_result R))
         (block_start : O -> exec_env -> R -> R) (finalize : O -> exec_env -> list header -> R -> R)
         (root_of : O -> R -> bytes) (hash_of : header -> bytes)
         (verify_header : store R -> header -> bool) (verify_uncles fork_choice : store R -> block -> bool)
         (chain : list block) (o : O) (st : store R) (i0 : N) (st' : store R) (i : N) (why : reject),
  insert_chain H R O apply_msg block_start finalize root_of hash_of verify_header verify_uncles fork_choice o st i0 chain
    = (st', Some (i, why)) ->
  exists good bad rest, chain = good ++ bad :: rest /\ i = i0 + lenN good /\
    insert_chain H R O apply_msg block_start finalize root_of hash_of verify_header verify_uncles fork_choice o st i0 good
      = (st', None) /\
    insert_block H R O apply_msg block_start finalize root_of hash_of verify_header verify_uncles fork_choice o st' bad
      = (st', Failed R why).
Proof. exact failed_batch_is_good_prefix. Qed.
Print Assumptions C01_failed_batch_is_good_prefix.

(* 3. a block assembled by the node's own building path — for every list of candidate
   transactions (inapplicable ones are skipped as the worker does), every uncle list,
   every parent state — is accepted by the import path, with the builder's receipts,
   gas and root and a state of the same content; the importing node may hold the
   parent state in another representation and make other choices *)
Theorem C01_built_block_imports :
  forall (H : bytes -> bytes) (R O S : Type) (content : R -> S) (okO : O -> Prop)
         (apply_msg : O -> exec_env -> N -> R -> N -> bytes -> option (msg_result R))
         (block_start : O -> exec_env -> R -> R) (finalize : O -> exec_env -> list header -> R -> R)
         (root_of : O -> R -> bytes),
  exec_respects_content R O S content okO apply_msg block_start finalize root_of ->
  forall (tx_gas : N) (o1 o2 : O) (s1 s2 : R) (tmpl : header) (cands : list bytes) (uncles : list header)
         (b : block) (r : results R),
  okO o1 -> okO o2 -> content s1 = content s2 -> h_bloom tmpl = 0 ->
  build_block H R O apply_msg block_start finalize root_of tx_gas o1 s1 tmpl cands uncles = (b, r) ->
  exists r', import_block H R O apply_msg block_start finalize root_of o2 s2 b = Accepted R r' /\
             res_equiv R S content r r'.
Proof. exact built_imports. Qed.
Print Assumptions C01_built_block_imports.

(* 4. the verdict, the receipts (hence logs), the gas used, the post-state root and the
   post-state content are a function of the block and of the parent state's content:
   independent of the representation and of every implementation choice *)
Theorem C01_import_depends_on_content_only :
  forall (H : bytes -> bytes) (R O S : Type) (content : R -> S) (okO : O -> Prop)
         (apply_msg : O -> exec_env -> N -> R -> N -> bytes -> option (msg_result R))
         (block_start : O -> exec_env -> R -> R) (finalize : O -> exec_env -> list header -> R -> R)
         (root_of : O -> R -> bytes),
  exec_respects_content R O S content okO apply_msg block_start finalize root_of ->
  forall (o1 o2 : O) (s1 s2 : R) (b : block), okO o1 -> okO o2 -> content s1 = content s2 ->
  import_equiv R S content (import_block H R O apply_msg block_start finalize root_of o1 s1 b)
                           (import_block H R O apply_msg block_start finalize root_of o2 s2 b).
Proof. exact import_content_only. Qed.
Print Assumptions C01_import_depends_on_content_only.

(* The root conjunct of the premise, discharged from C09 for the orders a Go run can take:
   states = C09 states in canonical form, content = the state, choices = schedulers (for every
   state an order over the dirty-object map) that produce permutations of a duplicate-free
   reference order, root = IntermediateRoot = Finalise in that order then (any function `enc`
   of) the account map.  `_partial`: the three execution conjuncts of exec_respects_content
   (EVM execution sees the state through its getters only) and representations that differ in
   caches are not discharged — they remain premises of theorems 3 and 4. *)
Theorem C01_root_premise_from_C09_partial :
  forall (H : bytes -> bytes) (del_empty : bool)
         (enc : StateSpec.res (list (N * StateModel.acct)) -> bytes) (reference : sched)
         (o1 o2 : sched) (r1 r2 : wf_state),
  ok_sched reference o1 -> ok_sched reference o2 -> state_of r1 = state_of r2 ->
  c09_root H del_empty enc o1 r1 = c09_root H del_empty enc o2 r2.
Proof. exact c09_root_content. Qed.
Print Assumptions C01_root_premise_from_C09_partial.

(* the value a receipt contributes to the receipt trie determines its status / post-state,
   its cumulative gas and its logs in order (address, topics, data) *)
Theorem C01_receipt_commits_to_status_and_log_order :
  forall (H : bytes -> bytes) (r1 r2 : receipt), receipt_item H r1 = receipt_item H r2 ->
  r_post r1 = r_post r2 /\ r_cumulative r1 = r_cumulative r2 /\
  map log_item (r_logs r1) = map log_item (r_logs r2).
Proof. exact receipt_item_commits. Qed.
Print Assumptions C01_receipt_commits_to_status_and_log_order.

(* DeriveSha as the code computes it — trie.Update(rlp(i), item_i) for i = 0.. on an empty
   trie (any node database), then trie.Hash, over the code-shaped trie of Trie/TrieModel.v —
   is the `derive_sha` used above (the C10 specification root of the listing): for every hash
   with 32-byte output, every list shorter than 2^64 of non-empty items (every RLP encoding
   is non-empty).  Built on C10's history / hash / byte-key theorems. *)
Theorem C01_derive_sha_code_is_spec :
  forall (H : bytes -> bytes), (forall x, length (H x) = 32%nat) ->
  forall (items : list bytes) (d : TrieModel.db),
  lenN items <= RlpSpec.two64 -> Forall (fun x => x <> []) items ->
  derive_sha_code H d items = TrieModel.Ok (derive_sha H items).
Proof. exact derive_sha_code_is_spec. Qed.
Print Assumptions C01_derive_sha_code_is_spec.

(* ... in particular the receipt root of ValidateState / NewBlock, for every receipt list *)
Theorem C01_receipts_root_code_is_spec :
  forall (H : bytes -> bytes), (forall x, length (H x) = 32%nat) ->
  forall (rs : list receipt) (d : TrieModel.db), lenN rs <= RlpSpec.two64 ->
  derive_sha_code H d (map (receipt_rlp H) rs) = TrieModel.Ok (receipts_root H rs).
Proof. exact receipts_root_code_is_spec. Qed.
Print Assumptions C01_receipts_root_code_is_spec.

(* non-vacuity, with the Gallina Keccak-256: a toy execution layer satisfies the premise;
   the builder keeps 2 of 3 candidates (one is inapplicable) and one uncle; the block
   imports with the builder's results; each single corruption is rejected by the check
   that owns it; a different parent content is a state-root mismatch *)
Example C01_example :
  exec_respects_content N unit N (fun s => s) (fun _ => True) ex_apply ex_start ex_finalize ex_root /\
  let imp := import_block keccak256 N unit ex_apply ex_start ex_finalize ex_root tt in
  let '(b, r) := build_block keccak256 N unit ex_apply ex_start ex_finalize ex_root 21000 tt 500
                             ex_template ex_cands [ex_uncle] in
  b_txs b = [[x01; x02; x03]; [x04]] /\ res_used N r = 42004 /\
  imp 500 b = Accepted N r /\
  imp 500 (with_header b (set_gas_used (b_header b) 42005)) = Rejected N RejGasUsed /\
  imp 500 (with_header b (set_bloom (b_header b) 0)) = Rejected N RejBloom /\
  imp 500 (mkBlock (b_header b) (rev (b_txs b)) (b_uncles b)) = Rejected N RejTxRoot /\
  imp 500 (mkBlock (b_header b) (b_txs b) []) = Rejected N RejUncleHash /\
  imp 501 b = Rejected N RejStateRoot.
Proof.
  split; [exact ex_respects|].
  vm_compute.
  split; [reflexivity|]. split; [reflexivity|]. split; [reflexivity|]. split; [reflexivity|].
  split; [reflexivity|]. split; [reflexivity|]. split; reflexivity.
Qed.

(* ================================================================================================
   The composed model (Import/ImportTx.v): the execution layer is C06's state transition
   (Tx/Transition.v) and the state root is the C10 specification root of the account listing.
   Remaining parameters = primitives: H (Keccak), run (the EVM interpreter below the depth-0
   shell), decode_tx (RLP decoding + sender recovery: the signature oracle), logs_of (the logs a
   successful execution emitted).  Vocabulary: same_map s1 s2 = two listings of the same finite
   map of accounts; ok_order o = o feeds the accounts to the trie in some permutation;
   run_respects run = the interpreter sees the state as a finite map; logs_respect likewise.
   ================================================================================================ *)

(* composed 1: a block is accepted iff re-executing its transactions with C06's transition on the
   parent state gives the header's gas used, bloom, receipt root and state root (and the body
   commitments hold) — no premise at all *)
Theorem C01_composed_accept_iff :
  forall (H : bytes -> bytes) (cfg : Transition.chain_cfg) (dealloc : list Transition.addr) (run : Transition.runner)
         (decode_tx : bytes -> option Transition.message) (logs_of : exec_env -> N -> Transition.state -> Transition.message -> list log)
         (o : O) (s : Transition.state) (b : block) (r : results Transition.state),
  import_block_tx H cfg dealloc run decode_tx logs_of o s b = Accepted Transition.state r <->
  exists p, process_tx H cfg dealloc run decode_tx logs_of o s b = Some p /\
    h_uncle_hash (b_header b) = calc_uncle_hash H (b_uncles b) /\
    h_tx_hash (b_header b) = derive_sha H (b_txs b) /\
    h_gas_used (b_header b) = p_used Transition.state p /\
    h_bloom (b_header b) = receipts_bloom H (p_receipts Transition.state p) /\
    h_receipt_hash (b_header b) = receipts_root H (p_receipts Transition.state p) /\
    h_root (b_header b) = tx_state_root H o (p_state Transition.state p) /\
    r = mkRes Transition.state (p_state Transition.state p) (p_receipts Transition.state p) (p_used Transition.state p) (tx_state_root H o (p_state Transition.state p)).
Proof. exact composed_accept_iff. Qed.
Print Assumptions C01_composed_accept_iff.

(* ... where that re-execution IS Tx.Transition.process on the decoded messages (adapter: if C06's
   model is swapped for an interpreter-free one, only this lemma is re-proved) *)
Theorem C01_composed_process_is_tx_process :
  forall (H : bytes -> bytes) (cfg : Transition.chain_cfg) (dealloc : list Transition.addr) (run : Transition.runner)
         (decode_tx : bytes -> option Transition.message) (logs_of : exec_env -> N -> Transition.state -> Transition.message -> list log)
         (o : O) (s : Transition.state) (b : block) (msgs : list Transition.message),
  Forall2 (fun tx m => decode_tx tx = Some m) (b_txs b) msgs ->
  h_gas_limit (b_header b) <= Transition.max_u64 ->
  match process_tx H cfg dealloc run decode_tx logs_of o s b,
        Transition.process cfg dealloc run s (hdr_of_env (env_of (b_header b))) msgs (map uncle_of (b_uncles b)) with
  | Some p, Transition.BlockOk s' rs used =>
      p_state Transition.state p = s' /\ p_used Transition.state p = used /\ Forall2 (rcpt_rel H o) (p_receipts Transition.state p) rs
  | None, Transition.BlockErr _ _ => True
  | None, Transition.BlockPanic => True
  | _, _ => False
  end.
Proof. exact process_adapter. Qed.
Print Assumptions C01_composed_process_is_tx_process.

(* composed 2a: the state root does not depend on the order in which the accounts are listed or
   fed to the trie (Go map iteration in Commit); primitive premise: the account-key hash does not
   collide on addresses *)
Theorem C01_composed_root_order_independent :
  forall (H : bytes -> bytes), (forall a b : Transition.addr, acct_key H a = acct_key H b -> a = b) ->
  forall (o1 o2 : O) (s1 s2 : Transition.state), ok_order o1 -> ok_order o2 -> same_map s1 s2 ->
  tx_state_root H o1 s1 = tx_state_root H o2 s2.
Proof. exact tx_state_root_same. Qed.
Print Assumptions C01_composed_root_order_independent.

(* composed 2b: the premise of theorems 3 and 4 (relational form) holds of the composed model:
   C06's layer (pre-checks, gas purchase, nonce, Call/Create shells, refund, fee, Finalise,
   hard-fork mutations, rewards) and the root are discharged; what remains is the interpreter *)
Theorem C01_composed_premise_discharged :
  forall (H : bytes -> bytes) (cfg : Transition.chain_cfg) (dealloc : list Transition.addr) (run : Transition.runner)
         (decode_tx : bytes -> option Transition.message) (logs_of : exec_env -> N -> Transition.state -> Transition.message -> list log),
  (forall a b : Transition.addr, acct_key H a = acct_key H b -> a = b) -> run_respects run -> logs_respect logs_of ->
  exec_respects_rel Transition.state O (tx_apply_msg H cfg run decode_tx logs_of) (tx_block_start cfg dealloc)
                    tx_finalize (tx_state_root H) same_map ok_order.
Proof. exact composed_respects. Qed.
Print Assumptions C01_composed_premise_discharged.

(* composed 2c: two nodes importing the same block on the same parent state — held as any two
   listings, committed in any two orders — reach the same verdict, receipts, gas, root and
   post-state map *)
Theorem C01_composed_import_deterministic :
  forall (H : bytes -> bytes) (cfg : Transition.chain_cfg) (dealloc : list Transition.addr) (run : Transition.runner)
         (decode_tx : bytes -> option Transition.message) (logs_of : exec_env -> N -> Transition.state -> Transition.message -> list log),
  (forall a b : Transition.addr, acct_key H a = acct_key H b -> a = b) -> run_respects run -> logs_respect logs_of ->
  forall (o1 o2 : O) (s1 s2 : Transition.state) (b : block), ok_order o1 -> ok_order o2 -> same_map s1 s2 ->
  import_rel Transition.state same_map
    (import_block_tx H cfg dealloc run decode_tx logs_of o1 s1 b)
    (import_block_tx H cfg dealloc run decode_tx logs_of o2 s2 b).
Proof. exact composed_import_deterministic. Qed.
Print Assumptions C01_composed_import_deterministic.

(* composed 3: mined_block_is_valid — for every sequence of candidate transactions the worker
   tries (whatever order the price/nonce heap hands them out; undecodable, inapplicable and failing
   ones are skipped, the loop stops when the pool is below TxGas), every uncle list and every parent
   state, the block commitNewWork assembles is accepted by import on any node holding the same map *)
Theorem C01_mined_block_is_valid :
  forall (H : bytes -> bytes) (cfg : Transition.chain_cfg) (dealloc : list Transition.addr) (run : Transition.runner)
         (decode_tx : bytes -> option Transition.message) (logs_of : exec_env -> N -> Transition.state -> Transition.message -> list log),
  (forall a b : Transition.addr, acct_key H a = acct_key H b -> a = b) -> run_respects run -> logs_respect logs_of ->
  forall (tx_gas : N) (o1 o2 : O) (s1 s2 : Transition.state) (tmpl : header) (cands : list bytes) (uncles : list header)
         (b : block) (r : results Transition.state),
  ok_order o1 -> ok_order o2 -> same_map s1 s2 -> h_bloom tmpl = 0 ->
  build_block_tx H cfg dealloc run decode_tx logs_of tx_gas o1 s1 tmpl cands uncles = (b, r) ->
  exists r', import_block_tx H cfg dealloc run decode_tx logs_of o2 s2 b = Accepted Transition.state r' /\
             res_rel Transition.state same_map r r'.
Proof. exact composed_mined_block_is_valid. Qed.
Print Assumptions C01_mined_block_is_valid.

(* non-vacuity of the composed statements (Gallina Keccak): an interpreter and a log function that
   meet the premises; two different listings of one map (one with a shadowed duplicate); the
   builder keeps 2 of 4 candidates (one undecodable, one overdrawn); the block built on the first
   listing with one commit order is accepted on the second listing with the reversed order, with
   the same root *)
Example C01_composed_example :
  run_respects ex_run /\ logs_respect ex_logs /\ same_map ex_state1 ex_state2 /\
  ok_order (fun s => s) /\ ok_order (@rev _) /\
  let tmpl := template (be_fixed 32 7) (be_fixed 20 9) 1 1 8000000 10 [] in
  let '(b, r) := build_block_tx keccak256 ex_cfg [] ex_run ex_decode ex_logs 21000 (fun s => s) ex_state1 tmpl
                                [[x01; x03; x05]; [x09]; [x02; x01; x09]; [x01; x02; x01]] [] in
  length (b_txs b) = 2%nat /\
  match import_block_tx keccak256 ex_cfg [] ex_run ex_decode ex_logs (@rev _) ex_state2 b with
  | Accepted _ r' => res_root Transition.state r' = res_root Transition.state r /\ res_used Transition.state r' = 44000
  | Rejected _ _ => False
  end.
Proof.
  split; [exact ex_run_respects|]. split; [exact ex_logs_respect|]. split; [exact ex_same|].
  split; [exact ok_order_id|]. split; [exact ok_order_rev|].
  vm_compute. split; [reflexivity|]. split; reflexivity.
Qed.

(* ================================================================================================
   The miner's uncle selection (Import/UncleModel.v: worker.makeCurrent's ancestors/family sets,
   commitUncle, the loop of commitNewWork over the possibleUncles map in ANY order) against the
   structural checks of the engine's VerifyUncles (count limits, duplicate, uncle-is-ancestor,
   dangling).  `ancs` = the 7 blocks from the parent back, each with its hash and the hashes of
   the uncles it included (identity of an uncle = its hash under the version of its own height).
   ================================================================================================ *)

(* whatever the map order, the uncles the worker takes pass VerifyUncles' structural checks on the
   block that carries them.  Premises: no possible uncle is a child of the head (commitUncle does
   not check it — such a block would have become the head instead of a side block), and the new
   block's hash is none of the candidates' hashes.  The uncle's own header validity is C13's. *)
Theorem C01_selected_uncles_verify :
  forall (hf5 : bool) (ancs : list anc) (head : anc) (rest : list anc) (cands picked bad : list cand) (block_hash : bytes),
  ancs = head :: rest ->
  (forall c, In c cands -> c_parent c <> a_hash head) ->
  (forall c, In c cands -> c_hash c <> block_hash) ->
  select_uncles ancs cands [] [] [] = (picked, bad) ->
  verify_uncles_struct hf5 ancs block_hash (a_hash head) picked = None.
Proof. exact selected_uncles_verify. Qed.
Print Assumptions C01_selected_uncles_verify.

(* an uncle one of the 7 ancestors already included, or an ancestor itself, is never taken (again) *)
Theorem C01_included_uncle_not_reselected :
  forall (ancs : list anc) (cands picked bad : list cand) (c : cand),
  select_uncles ancs cands [] [] [] = (picked, bad) -> In c picked ->
  ~ In (c_hash c) (flat_map a_uncles ancs) /\ ~ In (c_hash c) (ancestors ancs).
Proof. exact included_uncle_not_reselected. Qed.
Print Assumptions C01_included_uncle_not_reselected.

(* non-vacuity: three ancestors, the nearest of which included uncle 0xa1; candidates: that uncle
   again (in family), an unknown-parent block, an ancestor, a valid sibling of the head, a second
   valid one.  The worker takes exactly the first valid one and finds three bad; VerifyUncles'
   structure accepts it; re-including 0xa1 would be a duplicate *)
Example C01_uncle_example :
  let h (n : N) := be_fixed 32 n in
  let ancs := [mkAnc (h 13) [h 161]; mkAnc (h 12) []; mkAnc (h 11) []] in
  let cands := [mkCand (h 161) (h 11); mkCand (h 200) (h 99); mkCand (h 12) (h 11);
                mkCand (h 170) (h 12); mkCand (h 171) (h 11)] in
  select_uncles ancs cands [] [] [] =
    ([mkCand (h 170) (h 12)], [mkCand (h 161) (h 11); mkCand (h 200) (h 99); mkCand (h 12) (h 11)]) /\
  verify_uncles_struct true ancs (h 14) (h 13) [mkCand (h 170) (h 12)] = None /\
  verify_uncles_struct true ancs (h 14) (h 13) [mkCand (h 161) (h 11)] = Some VDuplicate /\
  verify_uncles_struct true ancs (h 14) (h 13) [mkCand (h 180) (h 13)] = Some VDangling /\
  verify_uncles_struct true ancs (h 14) (h 13) [mkCand (h 170) (h 12); mkCand (h 171) (h 11)] = Some VTooMany.
Proof. vm_compute. split; [reflexivity|]. split; [reflexivity|]. split; [reflexivity|]. split; reflexivity. Qed.
