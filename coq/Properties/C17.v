(* Properties/C17.v — network input is authenticated or rejected, and never fatal.
   Only statements closed by `exact`, with Print Assumptions under each.

   Primitives are explicit premises: H (Keccak-256 of what a MAC hash absorbed),
   aes_block (macCipher.Encrypt), ks (AES-CTR key stream shared by both sides),
   snappy_enc/snappy_dec, recover (ECDSA public-key recovery), sign. *)
From AQ Require Import Lib.Bytes Lib.Keccak Rlp.RlpSpec Generated.GenParamsNet Rlp.Typed Generated.GenAquaMsgs Net.Frame Net.FrameIO Net.Discover Net.Limits Net.Handshake Net.Messages Net.ProtoHs Net.DiscState Net.NetProofs Net.FrameIOProofs Net.MessagesProofs Net.ProtoHsProofs Net.DiscStateProofs.
Local Open Scope N_scope.

(* ---- RLPx frames ---- *)

(* What one side writes is what the other reads: for every message sequence
   (codes < 2^64, payloads that WriteMsg accepted), reading the written stream
   from the same initial (key-stream offset, MAC state) returns exactly the
   messages, leaves the rest of the stream untouched, and ends in the writer's
   final state — reader and writer are in lockstep after every frame. *)
(* Lifetime of delivered data.  read_n returns a LIST OF VALUES: once message i is in
   the list nothing the session does later (reading frames i+1.., reusing buffers)
   can change it — in Gallina this needs no theorem, values are immutable.  The
   implementation hands out a reader over memory it owns (Msg.Payload), slices of
   its read buffer (discovery) and reads the caller's buffer (WriteMsg); that these
   behave like values is therefore part of the model/implementation tie, and it is
   what the correspondence "ReadMsg session, deferred consumption ~ read_n" checks:
   the implementation's consumers read their payloads only AFTER later ReadMsg
   calls (all reads first, reverse order, lagging, partially, or discarding), the
   writer scribbles over its payload buffer after every WriteMsg, and what the
   consumers eventually see is compared with read_n's output for the whole session
   and with what was written (harness/cmd/c17/lifetime.go). *)
Theorem C17_frame_roundtrip :
  forall (H aes_block : bytes -> bytes) (ks : N -> byte)
         (snappy_enc : bytes -> bytes) (snappy_dec : bytes -> option bytes),
  (forall m, length (H m) = 32%nat) ->
  (forall p, snappy_dec (snappy_enc p) = Some p) ->
  (forall p, lenN p <= max_uint24 -> snappy_declen (snappy_enc p) = Some (lenN p)) ->
  forall (snappy : bool) (ms : list (N * bytes)) (pos : N) (mac out : bytes) (st' : wstate) (rest : bytes),
  Forall (msg_ok snappy_enc snappy) ms ->
  write_all H aes_block ks snappy_enc snappy (mk_wstate pos mac) ms = Some (out, st') ->
  read_n H aes_block ks snappy_dec snappy (length ms) (mk_rstate pos mac) (out ++ rest) =
    (ms, None, mk_rstate (w_pos st') (w_mac st'), rest).
Proof. exact frame_roundtrip. Qed.
Print Assumptions C17_frame_roundtrip.

(* Tampering is detected before anything is delivered.  The reader is in
   lockstep with the writer (same offset and MAC state) and the writer has
   emitted the frame  hc || hm || ct || fm  for a body of fsize bytes.  The
   reader is handed ANY four fields of these lengths followed by anything.
   If the header ciphertext or the header tag (but not both) differ, ReadMsg
   fails at the header MAC; if the header is intact and the frame ciphertext or
   the frame tag (but not both) differ, it fails at the frame MAC — before the
   frame is decrypted.  Premises: the 16-byte tag is collision-free on the
   absorbed strings; the AES block is 16 bytes.
   (Replacing data AND its tag consistently is forging a MAC: that needs the
   secrecy of the MAC key, which no premise about H expresses — partial, see
   props/C17.json.  Byte drops/insertions shift later fields and fall in that
   class; the harness checks them on the implementation at every position.) *)
Theorem C17_frame_tamper_detected :
  forall (H aes_block : bytes -> bytes) (ks : N -> byte) (snappy_dec : bytes -> option bytes),
  (forall m, length (H m) = 32%nat) ->
  (forall a b, firstn 16 (H a) = firstn 16 (H b) -> a = b) ->
  (forall b, length (aes_block b) = 16%nat) ->
  forall (snappy : bool) (pos : N) (mac : bytes) (fsize : N) (body hc' hm' ct' fm' rest : bytes),
  fsize <= max_uint24 -> lenN body = frame_buf_size fsize ->
  length hc' = 16%nat -> length hm' = 16%nat -> length ct' = length body -> length fm' = 16%nat ->
  let hc := f_hc ks pos fsize in let hm := f_hm H aes_block ks pos mac fsize in
  let ct := f_ct ks pos body in let fm := f_fm H aes_block ks pos mac fsize body in
  let s' := hc' ++ hm' ++ ct' ++ fm' ++ rest in
  ((hc' <> hc /\ hm' = hm) \/ (hc' = hc /\ hm' <> hm) ->
     read_msg H aes_block ks snappy_dec snappy (mk_rstate pos mac) s' = RErr RHeaderMac) /\
  (hc' = hc /\ hm' = hm /\ ((ct' <> ct /\ fm' = fm) \/ (ct' = ct /\ fm' <> fm)) ->
     read_msg H aes_block ks snappy_dec snappy (mk_rstate pos mac) s' = RErr RFrameMac).
Proof. exact frame_field_tamper_detected. Qed.
Print Assumptions C17_frame_tamper_detected.

(* Corollary, in the words of the property: ANY single byte of a written frame
   replaced by a different value — at any position of header, header tag,
   ciphertext or frame tag, for any continuation of the stream — makes ReadMsg
   return a MAC error and deliver nothing.  Together with C17_frame_roundtrip
   (lockstep after every intact frame) this covers a flip at or after frame i of
   a session: frames before it are read back unchanged, frame i is refused. *)
Theorem C17_frame_byte_flip_detected :
  forall (H aes_block : bytes -> bytes) (ks : N -> byte) (snappy_dec : bytes -> option bytes),
  (forall m, length (H m) = 32%nat) ->
  (forall a b, firstn 16 (H a) = firstn 16 (H b) -> a = b) ->
  (forall b, length (aes_block b) = 16%nat) ->
  forall (snappy : bool) (pos : N) (mac : bytes) (fsize : N) (body rest : bytes) (i : nat) (b : byte),
  fsize <= max_uint24 -> lenN body = frame_buf_size fsize ->
  (i < length (frame H aes_block ks pos mac fsize body))%nat ->
  nth i (frame H aes_block ks pos mac fsize body) x00 <> b ->
  exists e, read_msg H aes_block ks snappy_dec snappy (mk_rstate pos mac)
              (set_nth i b (frame H aes_block ks pos mac fsize body) ++ rest) = RErr e /\
            (e = RHeaderMac \/ e = RFrameMac).
Proof. exact frame_byte_flip_detected. Qed.
Print Assumptions C17_frame_byte_flip_detected.

(* Any strict prefix of a written frame (connection cut, bytes withheld) is a
   short-read error: nothing is delivered. *)
Theorem C17_frame_truncation_detected :
  forall (H aes_block : bytes -> bytes) (ks : N -> byte) (snappy_dec : bytes -> option bytes),
  (forall m, length (H m) = 32%nat) ->
  forall (snappy : bool) (pos : N) (mac : bytes) (fsize : N) (body : bytes) (k : nat),
  fsize <= max_uint24 -> lenN body = frame_buf_size fsize ->
  (k < length (frame H aes_block ks pos mac fsize body))%nat ->
  read_msg H aes_block ks snappy_dec snappy (mk_rstate pos mac)
    (firstn k (frame H aes_block ks pos mac fsize body)) = RErr RShort.
Proof. exact frame_truncation_detected. Qed.
Print Assumptions C17_frame_truncation_detected.

(* Session level.  The writer sends ms1, then (c, p) as frame F, then anything.
   One byte of F is altered on the wire.  However many reads the receiver
   attempts (n > |ms1|): the messages before F are delivered unchanged, reading F
   fails a MAC check with the reader still in the state it had before F, and
   nothing after it is delivered. *)
Theorem C17_session_tamper_detected :
  forall (H aes_block : bytes -> bytes) (ks : N -> byte)
         (snappy_enc : bytes -> bytes) (snappy_dec : bytes -> option bytes),
  (forall m, length (H m) = 32%nat) ->
  (forall a b, firstn 16 (H a) = firstn 16 (H b) -> a = b) ->
  (forall b, length (aes_block b) = 16%nat) ->
  (forall p, snappy_dec (snappy_enc p) = Some p) ->
  (forall p, lenN p <= max_uint24 -> snappy_declen (snappy_enc p) = Some (lenN p)) ->
  forall (snappy : bool) (ms1 : list (N * bytes)) (c : N) (p : bytes) (pos : N) (mac out1 : bytes)
         (st1 : wstate) (F : bytes) (st2 : wstate) (i : nat) (b : byte) (rest : bytes) (n : nat),
  Forall (msg_ok snappy_enc snappy) ms1 -> msg_ok snappy_enc snappy (c, p) ->
  write_all H aes_block ks snappy_enc snappy (mk_wstate pos mac) ms1 = Some (out1, st1) ->
  write_msg H aes_block ks snappy_enc snappy st1 c p = WOk F st2 ->
  (i < length F)%nat -> nth i F x00 <> b -> (length ms1 < n)%nat ->
  exists e, read_n H aes_block ks snappy_dec snappy n (mk_rstate pos mac) (out1 ++ set_nth i b F ++ rest) =
              (ms1, Some e, mk_rstate (w_pos st1) (w_mac st1), set_nth i b F ++ rest) /\
            (e = RHeaderMac \/ e = RFrameMac).
Proof. exact session_tamper_detected. Qed.
Print Assumptions C17_session_tamper_detected.

(* the same for a session cut off inside frame F *)
Theorem C17_session_truncation_detected :
  forall (H aes_block : bytes -> bytes) (ks : N -> byte)
         (snappy_enc : bytes -> bytes) (snappy_dec : bytes -> option bytes),
  (forall m, length (H m) = 32%nat) ->
  (forall p, snappy_dec (snappy_enc p) = Some p) ->
  (forall p, lenN p <= max_uint24 -> snappy_declen (snappy_enc p) = Some (lenN p)) ->
  forall (snappy : bool) (ms1 : list (N * bytes)) (c : N) (p : bytes) (pos : N) (mac out1 : bytes)
         (st1 : wstate) (F : bytes) (st2 : wstate) (k n : nat),
  Forall (msg_ok snappy_enc snappy) ms1 -> msg_ok snappy_enc snappy (c, p) ->
  write_all H aes_block ks snappy_enc snappy (mk_wstate pos mac) ms1 = Some (out1, st1) ->
  write_msg H aes_block ks snappy_enc snappy st1 c p = WOk F st2 ->
  (k < length F)%nat -> (length ms1 < n)%nat ->
  read_n H aes_block ks snappy_dec snappy n (mk_rstate pos mac) (out1 ++ firstn k F) =
    (ms1, Some RShort, mk_rstate (w_pos st1) (w_mac st1), firstn k F).
Proof. exact session_truncation_detected. Qed.
Print Assumptions C17_session_truncation_detected.

(* The frame reader on EVERY byte stream.  read_msg_io is ReadMsg as a function of the bytes still
   to come from the connection, together with its I/O account: bytes taken from conn, the sizes
   passed to make / the decompressor, the frame size the header declared.  Its result component
   IS read_msg.  For every state, every finite stream, with and without snappy, whatever H, AES,
   key stream and decompressor are:
   - it never takes more than the stream holds nor more than 32 + (2^24+15) + 16 bytes;
   - every buffer is sized from a header that passed its MAC, the declared size is <= 2^24-1,
     total allocation <= 32 + 2^24+15 (+ 2*(2^24-1) with snappy);
   - a header-MAC failure costs 32 bytes of input and allocation, nothing is sized from it;
   - a short read means the stream was exhausted;
   - a delivered message consumed exactly header + padded frame + MAC, leaves the rest of the
     stream untouched, advances the key-stream offset by 16 + padded frame, and its payload is
     shorter than the declared frame size (snappy: the compressed payload is, the plain one was
     declared <= 2^24-1 and is what the decompressor returned).
   (A Go panic is not a possible outcome: every slice expression of ReadMsg is covered by the
   preceding exact-size make / ReadFull, which is what takeN models.) *)
Theorem C17_read_msg_io_is_read_msg :
  forall (H aes_block : bytes -> bytes) (ks : N -> byte) (snappy_dec : bytes -> option bytes)
         (snappy : bool) (st : rstate) (s : bytes),
  fst (read_msg_io H aes_block ks snappy_dec snappy st s) = read_msg H aes_block ks snappy_dec snappy st s.
Proof. exact read_msg_io_result. Qed.
Print Assumptions C17_read_msg_io_is_read_msg.

Theorem C17_read_msg_total_bounded :
  forall (H aes_block : bytes -> bytes) (ks : N -> byte) (snappy_dec : bytes -> option bytes)
         (snappy : bool) (st : rstate) (s : bytes),
  let res := fst (read_msg_io H aes_block ks snappy_dec snappy st s) in
  let io := snd (read_msg_io H aes_block ks snappy_dec snappy st s) in
  io_consumed io <= lenN s /\
  io_consumed io <= 32 + 16777231 + 16 /\
  io_alloc io <= 32 + 16777231 + (if snappy then 2 * max_uint24 else 0) /\
  (forall f, io_declared io = Some f -> f <= max_uint24 /\ io_alloc io >= 32 + frame_buf_size f) /\
  match res with
  | RErr RShort => io_consumed io = lenN s
  | RErr RHeaderMac => io_consumed io = 32 /\ io_declared io = None /\ io_alloc io = 32
  | RErr _ => exists f, io_declared io = Some f /\ io_consumed io = 32 + frame_buf_size f + 16
  | ROk code payload st' rest =>
    exists f, io_declared io = Some f /\ f <= max_uint24 /\
      io_consumed io = 32 + frame_buf_size f + 16 /\
      s = firstn (N.to_nat (io_consumed io)) s ++ rest /\
      r_pos st' = r_pos st + 16 + frame_buf_size f /\
      (snappy = false -> lenN payload < f) /\
      (snappy = true -> exists c n, lenN c < f /\ snappy_declen c = Some n /\ n <= max_uint24 /\
                                    snappy_dec c = Some payload /\ io_alloc io = 32 + frame_buf_size f + lenN c + n)
  end.
Proof. exact read_msg_total_bounded. Qed.
Print Assumptions C17_read_msg_total_bounded.

(* `frame` (= f_hc ++ f_hm ++ f_ct ++ f_fm) is exactly what WriteMsg emits *)
Theorem C17_write_msg_is_frame :
  forall (H aes_block : bytes -> bytes) (ks : N -> byte) (snappy_enc : bytes -> bytes)
         (snappy : bool) (pos : N) (mac : bytes) (code : N) (payload out : bytes) (st' : wstate),
  msg_ok snappy_enc snappy (code, payload) ->
  write_msg H aes_block ks snappy_enc snappy (mk_wstate pos mac) code payload = WOk out st' ->
  let fsize := fsize_of snappy_enc snappy code payload in
  let body := body_of snappy_enc snappy code payload in
  fsize <= max_uint24 /\
  out = frame H aes_block ks pos mac fsize body /\
  st' = mk_wstate (pos + 16 + lenN body) (f_mac3 H aes_block ks pos mac fsize body) /\
  (snappy = true -> lenN payload <= max_uint24).
Proof. exact write_msg_frame. Qed.
Print Assumptions C17_write_msg_is_frame.

(* Allocation: the only buffer sized from network bytes is framebuf; whatever
   the three size bytes say it is at most 2^24 + 15 bytes. *)
Theorem C17_frame_alloc_bounded : forall hp : bytes,
  frame_buf_size (N_of_be (firstn 3 hp)) <= 16777231.
Proof. exact frame_alloc_bounded. Qed.
Print Assumptions C17_frame_alloc_bounded.

(* a snappy payload declaring more than 2^24-1 bytes is refused, independently of the decompressor *)
Theorem C17_snappy_overlimit_refused :
  forall (snappy_dec : bytes -> option bytes) (code : N) (payload : bytes) (st' : rstate) (rest : bytes) (n : N),
  snappy_declen payload = Some n -> max_uint24 < n ->
  deliver snappy_dec true code payload st' rest = RErr RTooLarge.
Proof. exact snappy_overlimit_refused. Qed.
Print Assumptions C17_snappy_overlimit_refused.

Theorem C17_plain_delivered_bounded :
  forall (H aes_block : bytes -> bytes) (ks : N -> byte) (snappy_dec : bytes -> option bytes)
         (st : rstate) (s : bytes) (c : N) (p : bytes) (st' : rstate) (r : bytes),
  read_msg H aes_block ks snappy_dec false st s = ROk c p st' r -> lenN p <= max_uint24.
Proof. exact plain_delivered_bounded. Qed.
Print Assumptions C17_plain_delivered_bounded.

(* ---- discovery datagrams ---- *)

(* accepted => the hash matched and the signature recovered exactly the returned identity *)
Theorem C17_packet_authentic :
  forall (H : bytes -> bytes) (recover : bytes -> bytes -> option bytes)
         (netcompat : bool) (buf : bytes) (m : dmsg) (id hash : bytes),
  decode_packet H recover netcompat buf = DOk m id hash ->
  hash = firstn 32 buf /\ H (skipn 32 buf) = hash /\
  recover (H (skipn 97 buf)) (firstn 65 (skipn 32 buf)) = Some id /\ 98 <= lenN buf.
Proof. exact packet_authentic. Qed.
Print Assumptions C17_packet_authentic.

(* The typed codec: decoding the encoding of any well-formed request of the four
   kinds gives it back (trailing bytes ignored, as Stream.Decode does).
   wf_msg: integers fit their Go types (uint / uint64 / uint16), node ids and the
   findnode target have 64 bytes, byte strings are shorter than 2^32, every
   forward-compatibility element is a non-empty value Stream.Raw reads back as itself. *)
Theorem C17_dec_msg_encode : forall (m : dmsg) (r : bytes),
  wf_msg m -> dec_msg (msg_type m) (encode_msg m ++ r) = Some m.
Proof. exact dec_msg_encode. Qed.
Print Assumptions C17_dec_msg_encode.

(* decodePacket (encodePacket req) = req, with the identity `recover` yields for the
   signature `sign` made and the packet hash — aqua mode with type bytes 134..137,
   netcompat mode with 134..137 or the original 1..4. *)
Theorem C17_packet_roundtrip :
  forall (H : bytes -> bytes) (recover : bytes -> bytes -> option bytes) (sign : bytes -> bytes -> bytes),
  (forall m, length (H m) = 32%nat) ->
  forall (netcompat : bool) (key : bytes) (ptype : N) (m : dmsg) (id : bytes),
  wf_msg m ->
  ptype = msg_type m \/ (netcompat = true /\ ptype + 133 = msg_type m) ->
  let sigdata := sigdata_of netcompat ptype m in
  let sig := sign key (H sigdata) in
  length sig = 65%nat ->
  recover (H sigdata) sig = Some id ->
  decode_packet H recover netcompat (encode_packet H sign netcompat key ptype m) =
    DOk m id (H (sig ++ sigdata)).
Proof. exact packet_roundtrip. Qed.
Print Assumptions C17_packet_roundtrip.

(* decodePacket never panics: for EVERY byte string, in both network modes,
   whatever H and recover are.  (Until commit f90a10c "fix: discover decodePacket
   rejects datagrams whose signed data is shorter than the type byte plus network
   tag" this clause was refuted: sigdata[1+4:] was sliced unchecked.) *)
Theorem C17_decode_packet_never_panics :
  forall (H : bytes -> bytes) (recover : bytes -> bytes -> option bytes) (netcompat : bool) (buf : bytes),
  decode_packet H recover netcompat buf <> DPanic.
Proof. exact decode_packet_never_panics. Qed.
Print Assumptions C17_decode_packet_never_panics.

(* the datagrams that used to crash the node: correctly hashed and signed, 1..4
   bytes of signed data, known type byte — now rejected, with the signer identified *)
Theorem C17_decode_packet_short_sigdata_rejected :
  forall (H : bytes -> bytes) (recover : bytes -> bytes -> option bytes),
  (forall m, length (H m) = 32%nat) ->
  forall (sig sigdata : bytes) (t0 : byte) (id : bytes),
  length sig = 65%nat -> hd_error sigdata = Some t0 -> (length sigdata < 5)%nat ->
  134 <= b2n t0 <= 137 ->
  recover (H sigdata) sig = Some id ->
  decode_packet H recover false (H (sig ++ sigdata) ++ sig ++ sigdata) = DTooSmallBody id.
Proof. exact decode_packet_short_sigdata_rejected. Qed.
Print Assumptions C17_decode_packet_short_sigdata_rejected.

(* ---- RLPx encryption handshake reader (framing only; no claim about the key agreement) ----
   Whatever the remote sends and whatever ECIES decryption answers, readHandshakeMsg
   buffers at most size+2 <= 65537 bytes (its uint16 subtraction cannot wrap), and
   when it gets as far as decrypting an EIP-8 packet it has consumed exactly the
   size+2 bytes the prefix declares, all of which were actually received. *)
Theorem C17_handshake_buffer_bounded :
  forall (dec_plain : bytes -> option bytes) (dec_eip8 : bytes -> bytes -> option bytes) (body_ok : bytes -> bool)
         (plain_size : N) (s : bytes) (c : hclass) (n : N),
  2 <= plain_size < two16 ->
  read_handshake_msg dec_plain dec_eip8 body_ok plain_size s = (c, n) ->
  n <= 65537 /\ plain_size <= n /\
  (c = HOk \/ c = HBadBody \/ c = HDecryptErr -> n <= lenN s /\ n = N_of_be (firstn 2 s) + 2).
Proof. exact handshake_buffer_bounded. Qed.
Print Assumptions C17_handshake_buffer_bounded.

(* receiverEncHandshake answers only for a packet readHandshakeMsg accepted and whose
   initiator id is a curve point, whose static key agreement succeeded and whose
   signature recovers a key (the three primitives are parameters; the staging is the claim) *)
Theorem C17_receiver_handshake_ok : forall (read : hclass) (id_on_curve ecdh_ok sig_recovers : bool),
  receiver_handshake read id_on_curve ecdh_ok sig_recovers = RcOk ->
  (read = HPlain \/ read = HOk) /\ id_on_curve = true /\ ecdh_ok = true /\ sig_recovers = true.
Proof. exact receiver_handshake_ok. Qed.
Print Assumptions C17_receiver_handshake_ok.

(* readProtocolHandshake accepts only a message of at most 2 KiB with code 0 whose body
   decodes as protoHandshake and carries a non-zero 64-byte node id *)
Theorem C17_protocol_handshake_ok : forall (code size : N) (payload id : bytes),
  read_protocol_handshake code size payload = PhOk id ->
  size <= 2048 /\ code = 0 /\ lenN id = 64 /\ exists b, In b id /\ b2n b <> 0.
Proof. exact protocol_handshake_ok. Qed.
Print Assumptions C17_protocol_handshake_ok.

(* The protocol handshake as an interleaving system (Net/ProtoHs.v): the writer goroutine samples
   rw.snappy once when WriteMsg starts; the reader reads the remote handshake, waits for the writer
   (<-werr) and only then sets rw.snappy.  In EVERY interleaving (every state reachable by
   arbitrarily scheduled atomic steps): our handshake frame is never compressed, the flag is false
   until the reader's last step, and on completion the writer has finished and
   rw.snappy = (their.Version >= 5).  (With the flag set before <-werr there is an interleaving that
   compresses the handshake — Example below — which an honest v5 peer cannot read.) *)
Theorem C17_proto_handshake_safe : forall (v : N) (s : hstate), reach false v s ->
  (forall b, sampled_of s = Some b -> b = false) /\
  (hs_r s <> RDone -> hs_flag s = false) /\
  (hs_r s = RDone -> writer_done s = true /\ hs_flag s = (snappy_protocol_version <=? v)).
Proof. exact proto_handshake_safe. Qed.
Print Assumptions C17_proto_handshake_safe.

(* ---- discovery as a packet-history state machine (Net/DiscState.v): bond table, pending-reply
   matcher, expiration, neighbors chunking; `step` handles one event (an authenticated inbound
   datagram from any id, the node issuing findnode, the clock advancing), `run` a whole history.
   All statements hold in EVERY state, hence after every history. *)
Theorem C17_disc_expired_rejected : forall (s : dstate) (from : N) (p : inpkt),
  pkt_expired s (exp_of p) = true -> step s (EvIn from p) = (s, VExpired, []).
Proof. exact expired_rejected. Qed.
Print Assumptions C17_disc_expired_rejected.

(* findnode is answered only to a node with a valid bond (last solicited pong within the bond
   expiration); otherwise errUnknownNode, nothing sent, nothing changed *)
Theorem C17_disc_findnode_needs_bond : forall (s : dstate) (from exp : N) (s' : dstate) (v : verdict) (o : list outpkt),
  step s (EvIn from (InFindnode exp)) = (s', v, o) ->
  s' = s /\
  (o <> [] -> has_bond s from = true /\ pkt_expired s exp = false /\ v = VOk) /\
  (pkt_expired s exp = false -> has_bond s from = false -> v = VUnknownNode /\ o = []).
Proof. exact findnode_needs_bond. Qed.
Print Assumptions C17_disc_findnode_needs_bond.

(* a pong / neighbors packet without a matching outstanding request of that sender is
   errUnsolicitedReply and changes no state *)
Theorem C17_disc_unsolicited_pong_ignored : forall (s : dstate) (from tok exp : N),
  pkt_expired s exp = false -> existsb (is_pong_wait from) (d_pending s) = false ->
  step s (EvIn from (InPong tok exp)) = (s, VUnsolicited, []).
Proof. exact unsolicited_pong_ignored. Qed.
Print Assumptions C17_disc_unsolicited_pong_ignored.
Theorem C17_disc_unsolicited_neighbors_ignored : forall (s : dstate) (from n exp : N),
  pkt_expired s exp = false -> existsb (is_neigh_wait from) (d_pending s) = false ->
  step s (EvIn from (InNeighbors n exp)) = (s, VUnsolicited, []).
Proof. exact unsolicited_neighbors_ignored. Qed.
Print Assumptions C17_disc_unsolicited_neighbors_ignored.

(* the bond table changes for id only through a live pong from id that carries the token of a ping
   the node sent to id and is still waiting for *)
Theorem C17_disc_bond_only_by_solicited_pong : forall (s : dstate) (e : event) (s' : dstate) (v : verdict) (o : list outpkt) (id : N),
  step s e = (s', v, o) -> bond_time id (d_bonds s') <> bond_time id (d_bonds s) ->
  exists tok exp, e = EvIn id (InPong tok exp) /\ pkt_expired s exp = false /\
    existsb (fun p => is_pong_wait id p && match p_expect p with PxPong t => t =? tok | _ => false end) (d_pending s) = true.
Proof. exact bond_only_by_solicited_pong. Qed.
Print Assumptions C17_disc_bond_only_by_solicited_pong.

(* every neighbors packet the node sends has at most maxNeighbors (generated: 12) entries — the
   count for which udp.go's init established that a packet stays under 1280 bytes *)
Theorem C17_disc_outgoing_neighbors_bounded : forall (s : dstate) (e : event) (s' : dstate) (v : verdict) (o : list outpkt),
  step s e = (s', v, o) ->
  Forall (fun x => match x with OutNeighbors _ c => c <= max_neighbors | _ => True end) o.
Proof. exact outgoing_neighbors_bounded. Qed.
Print Assumptions C17_disc_outgoing_neighbors_bounded.

(* over every history the pending list holds no more entries than requests (pings, findnodes) the
   node itself has sent *)
Theorem C17_disc_pending_bounded : forall (h : list event) (s s' : dstate) (r : list (verdict * list outpkt)),
  run s h = (s', r) -> lenN (d_pending s') <= lenN (d_pending s) + requests (all_outs r).
Proof. exact pending_bounded_by_own_requests. Qed.
Print Assumptions C17_disc_pending_bounded.

(* ---- aqua sub-protocol limits ---- *)
Theorem C17_gate_rejects_oversize : forall code size,
  protocol_max_msg_size < size -> handle_gate code size = GTooLarge.
Proof. exact gate_rejects_oversize. Qed.
Print Assumptions C17_gate_rejects_oversize.

Theorem C17_serve_bounded : forall limit l count bytes lookups c b k maxsz,
  count <= limit -> bytes < soft_response_limit + maxsz ->
  (forall n, In (EHash (Some n)) l -> n <= maxsz) ->
  serve limit count bytes lookups l = SOk c b k ->
  c <= limit /\ b < soft_response_limit + maxsz /\ k <= lookups + lenN l /\ count <= c.
Proof. exact serve_bounded. Qed.
Print Assumptions C17_serve_bounded.

(* GetBlockHeaders, all four modes (origin by hash | number) x (forward | reverse), every value
   of Amount and Skip (with the uint64 / int wrap-arounds of the code): at most MaxHeaderFetch
   headers, at most int(Amount), every one of them an existing header of the chain 0..H. *)
Theorem C17_serve_headers_bounded : forall (H : N) (hashmode : bool) (origin : option N) (amount skip : N) (reverse : bool),
  lenN (serve_headers H hashmode origin amount skip reverse) <= max_header_fetch /\
  (Z.of_N (lenN (serve_headers H hashmode origin amount skip reverse)) <= Z.max 0 (int_of_u64 amount))%Z /\
  Forall (fun n => n <= H) (serve_headers H hashmode origin amount skip reverse).
Proof. exact serve_headers_bounded. Qed.
Print Assumptions C17_serve_headers_bounded.

(* the disconnect reason taken from a discMsg can be any uint64 (so DiscReason.String must be,
   and since fix 1d41c1a is, total over uint64) *)
Theorem C17_disc_reason_range : forall payload : bytes, disc_reason payload < two64.
Proof. exact disc_reason_range. Qed.
Print Assumptions C17_disc_reason_range.

(* a skeleton-fill header delivery (queue.DeliverHeaders) is accepted only as a whole: a pending
   request, exactly MaxHeaderFetch headers, anchored at the requested origin and at the skeleton
   header, contiguous in number and parent link — otherwise an error value, never a partial batch *)
Theorem C17_headers_fill_accept_only_full : forall (pending : bool) (count : N) (first_ok last_ok chain_ok : bool) (n : N),
  headers_fill_rule pending count first_ok last_ok chain_ok = HfAccepted n ->
  pending = true /\ n = max_header_fetch /\ count = max_header_fetch /\ first_ok = true /\ last_ok = true /\ chain_ok = true.
Proof. exact headers_fill_accept_only_full. Qed.
Print Assumptions C17_headers_fill_accept_only_full.

(* Downloader deliveries (aqua/downloader/queue.go deliver, behind DeliverBodies and
   DeliverReceipts): whatever a peer returns — more, fewer, or other entries than
   were requested, or a reply nobody asked for — the accepted entries are a prefix of
   the request, each matching its header: never more than requested, never more than
   sent, nothing at all when no request is in flight. *)
Theorem C17_deliver_rule_bounded : forall (pending : option nat) (matches : list bool) (a : N) (c : dlv_class),
  deliver_rule pending matches = (a, c) ->
  match pending with
  | None => a = 0 /\ c = DlvNoFetch
  | Some req => a <= N.of_nat req /\ a <= lenN matches /\
                firstn (N.to_nat a) matches = repeat true (N.to_nat a) /\
                (c = DlvOk -> a = N.min (N.of_nat req) (lenN matches)) /\
                (c = DlvStale -> a = 0)
  end.
Proof. exact deliver_rule_bounded. Qed.
Print Assumptions C17_deliver_rule_bounded.

(* ---- per-message decoding of handleMsg.  The decode target of every `msg.Decode(&v)` branch
   is generated by reflection (Generated/GenAquaMsgs.v, typed descriptors of C11); with C11's
   typed theorems: whatever the payload, a message is rejected or decoded to a value v whose
   canonical encoding c IS a prefix of the payload (nothing in v that was not sent; |c| <= msg.Size
   <= ProtocolMaxMsgSize; a decoded list has at most |c| elements), and decoding c again gives v. *)
Theorem C17_handle_decode_bounded : forall (code size : N) (payload : bytes) (v : val) (c : bytes),
  handle_decode code size payload = HdAccept v c ->
  size <= protocol_max_msg_size /\ code <> 0 /\
  exists t rest, msg_decode_type code = Some t /\ wf t = true /\
    payload = c ++ rest /\ enc_typed t v = Some c /\ dec_typed t c = Some v /\
    lenN c <= lenN payload /\ (size <= lenN payload -> lenN c <= size) /\
    (forall l, v = VList l -> match t with TSlice _ => N.of_nat (length l) <= lenN c | _ => True end).
Proof. exact handle_decode_bounded. Qed.
Print Assumptions C17_handle_decode_bounded.

(* a response to GetBlockBodies / GetNodeData / GetReceipts: at most the fetch limit of that request
   (itself <= 384) entries, total size within one entry of softResponseLimit, at most one lookup per
   request element — for every request *)
Theorem C17_response_bounded : forall (code limit : N) (l : list elem) (c b k maxsz : N),
  fetch_limit code = Some limit ->
  (forall n, In (EHash (Some n)) l -> n <= maxsz) ->
  serve limit 0 0 0 l = SOk c b k ->
  c <= limit /\ limit <= 384 /\ b < soft_response_limit + maxsz /\ k <= lenN l.
Proof. exact response_bounded. Qed.
Print Assumptions C17_response_bounded.

(* the per-peer known-transaction / known-block sets stay within maxKnownTxs / maxKnownBlocks *)
Theorem C17_mark_known_bounded : forall (max card : N) (already popped_self : bool),
  0 < max -> card <= max -> mark_known max card already popped_self <= max.
Proof. exact mark_known_bounded. Qed.
Print Assumptions C17_mark_known_bounded.

(* the generated decode table: codes, well-formedness of every descriptor, the caps, and that it
   covers exactly the codes handleMsg dispatches on — re-checked against the regenerated files *)
Theorem C17_aqua_msgs_pinned :
  map fst aqua_msg_types = [0; 1; 2; 4; 6; 7; 14; 16] /\ aqua_hash_stream_codes = [5; 13; 15] /\ aqua_custom_codes = [3] /\
  forallb (fun p => wf (snd p)) aqua_msg_types = true /\
  g_max_known_txs = 32768 /\ g_max_known_blocks = 1024 /\
  forallb (fun c => existsb (N.eqb c) (map fst aqua_msg_types ++ aqua_hash_stream_codes ++ aqua_custom_codes)) g_aqua_codes = true /\
  forallb (fun c => existsb (N.eqb c) g_aqua_codes) (map fst aqua_msg_types ++ aqua_hash_stream_codes ++ aqua_custom_codes) = true.
Proof. exact aqua_msgs_pinned. Qed.
Print Assumptions C17_aqua_msgs_pinned.

(* ---- constants regenerated from /repo on every run (Generated/GenParamsNet.v),
        pinned to the documented values and to the relations the models use ---- *)
Theorem C17_net_params_pinned :
  g_max_uint24 = 2 ^ 24 - 1 /\ map n2b g_zero_header = [xc2; x80; x80] /\
  g_protocol_max_msg_size = 10 * 1024 * 1024 /\ g_protocol_max_msg_size <= g_max_uint24 /\
  g_base_protocol_max_msg_size = 2048 /\ g_base_protocol_length = 16 /\
  g_soft_response_limit = 2 * 1024 * 1024 /\ g_soft_response_limit + g_protocol_max_msg_size <= g_max_uint24 /\
  g_est_header_rlp_size = 500 /\
  g_max_hash_fetch = 512 /\ g_max_block_fetch = 128 /\ g_max_header_fetch = 192 /\
  g_max_receipt_fetch = 256 /\ g_max_state_fetch = 384 /\
  g_max_header_fetch * g_est_header_rlp_size <= g_soft_response_limit /\
  g_aqua_codes = [0; 1; 2; 3; 4; 5; 6; 7; 13; 14; 15; 16] /\
  Forall (fun l => Forall (fun c => c < l) g_aqua_codes) g_protocol_lengths /\
  g_mac_size = 32 /\ g_sig_size = 65 /\ g_head_size = g_mac_size + g_sig_size /\ g_head_size = 97 /\
  g_aqua_ping = 134 /\ g_aqua_pong = 135 /\ g_aqua_findnode = 136 /\ g_aqua_neighbors = 137 /\
  g_eth_ping + 133 = g_aqua_ping /\ g_eth_neighbors + 133 = g_aqua_neighbors /\
  g_expiration_ms = 4000 /\ g_resp_timeout_ms = 4000 /\ g_bond_expiration_ms = 3600 * 1000 /\
  g_max_neighbors = 12 /\
  g_auth_msg_len = 65 + 32 + 64 + 32 + 1 /\ g_auth_resp_len = 64 + 32 + 1 /\ g_ecies_overhead = 65 + 16 + 32 /\
  g_enc_auth_msg_len = g_auth_msg_len + g_ecies_overhead /\ g_enc_auth_resp_len = g_auth_resp_len + g_ecies_overhead /\
  g_enc_auth_msg_len = 307 /\ g_enc_auth_resp_len = 210 /\
  g_handshake_timeout_ms = 5000 /\ g_frame_read_timeout_ms = 30000 /\
  g_disc_table_len = 17.
Proof. exact net_params_pinned. Qed.
Print Assumptions C17_net_params_pinned.

(* ---- non-vacuity: a concrete session with Keccak-256, a toy block cipher and key stream ---- *)
Example C17_example_session :
  let aes := fun b : bytes => map (fun x => bxor x x5a) (firstn 16 (b ++ repeat x00 16)) in
  let ks := fun n : N => n2b (n * 7 + 3) in
  let ms := [(16, [x01; x02; x03]); (0, []); (255, repeat xaa 17)] in
  match write_all keccak256 aes ks (fun p => p) false (mk_wstate 0 [x11; x22]) ms with
  | Some (out, st') =>
      lenN out = 208 /\
      read_n keccak256 aes ks (fun p => Some p) false 3 (mk_rstate 0 [x11; x22]) (out ++ [xff]) =
        (ms, None, mk_rstate (w_pos st') (w_mac st'), [xff])
  | None => False
  end.
Proof. vm_compute. split; reflexivity. Qed.

Example C17_example_packet :
  let recover := fun (_ _ : bytes) => Some (repeat x07 64) in
  let sign := fun (_ _ : bytes) => repeat x01 65 in
  let m := Findnode (repeat x09 64) 1700000000 [] in
  match decode_packet keccak256 recover false (encode_packet keccak256 sign false [] 136 m) with
  | DOk m' id _ => m' = m /\ id = repeat x07 64
  | _ => False
  end.
Proof. vm_compute. split; reflexivity. Qed.

(* wf_msg is inhabited by requests with forward-compatibility elements *)
Example C17_example_wf_msg :
  wf_msg (Ping 4 (mk_endpoint [x7f; x00; x00; x01] 30303 30303) (mk_endpoint [] 0 65535) 1700000000 [[x05]; [x7f]]).
Proof.
  split; [|vm_compute; reflexivity].
  repeat split; try (vm_compute; reflexivity); repeat constructor; try discriminate; intros x; reflexivity.
Qed.

(* the I/O account on a concrete stream: a 4-byte frame (code 16, payload 01 02 03) followed by one
   more byte: 64 bytes consumed, 32 + 16 bytes of buffers, declared size 4; on 40 bytes of noise:
   header MAC failure after exactly 32 bytes, nothing sized from the header *)
Example C17_example_read_io :
  let aes := fun b : bytes => map (fun x => bxor x x5a) (firstn 16 (b ++ repeat x00 16)) in
  let ks := fun n : N => n2b (n * 7 + 3) in
  match write_msg keccak256 aes ks (fun p => p) false (mk_wstate 0 [x11; x22]) 16 [x01; x02; x03] with
  | WOk out _ =>
      snd (read_msg_io keccak256 aes ks (fun p => Some p) false (mk_rstate 0 [x11; x22]) (out ++ [xff])) = mk_rio 64 48 (Some 4) /\
      read_msg_io keccak256 aes ks (fun p => Some p) false (mk_rstate 0 [x11; x22]) (repeat x07 40) = (RErr RHeaderMac, mk_rio 32 32 None)
  | WErr _ => False
  end.
Proof. vm_compute. split; reflexivity. Qed.

(* a NewBlockHashes payload with one announcement and trailing garbage is accepted, its value re-encodes
   to the 36-byte prefix; the same bytes under the Transactions code are rejected *)
Example C17_example_handle_decode :
  let ann := encode (Lst [Lst [Str (repeat x07 32); Str [x09]]]) in
  match handle_decode 1 100 (ann ++ [xff; xff]) with
  | HdAccept (VList [VList [VStr h; VNum 9]]) c => c = ann /\ lenN c = 36 /\ h = repeat x07 32
  | _ => False
  end /\ handle_decode 2 100 (ann ++ [xff; xff]) = HdReject /\ handle_decode 1 10485761 ann = HdTooLarge.
Proof. vm_compute. repeat split; reflexivity. Qed.

(* the outcome sets of the handshake, computed over all interleavings: as written exactly one outcome;
   with the flag set before the writer is joined, a compressed handshake is reachable *)
Example C17_example_proto_handshake :
  (forall o, In o (handshake_outcomes false 5) -> o = (false, true)) /\
  (forall o, In o (handshake_outcomes false 4) -> o = (false, false)) /\
  In (true, true) (handshake_outcomes true 5) /\
  reach false 5 (mk_hs false (W1 false) R0).
Proof.
  split; [exact handshake_outcomes_v5|split; [exact handshake_outcomes_v4|split; [exact early_set_breaks_it|]]].
  apply (reach_step false 5 hs_init); [apply reach_init|vm_compute; auto].
Qed.

(* a history: findnode before any bond is refused; a ping makes the node ping back; the pong with that
   ping's token creates the bond; now findnode is answered; 3700 s later it is refused again *)
Example C17_example_disc_history :
  let h := [EvIn 1 (InFindnode 100); EvIn 1 (InPing 100); EvIn 1 (InPong 7 100); EvIn 1 (InPong 0 100);
            EvIn 1 (InFindnode 100); EvTick 3700; EvIn 1 (InFindnode 5000)] in
  map fst (snd (run d_init h)) = [VUnknownNode; VOk; VOk; VOk; VOk; VLocal; VUnknownNode] /\
  nth 1 (map snd (snd (run d_init h))) [] = [OutPong 1; OutPing 1 0] /\
  nth 4 (map snd (snd (run d_init h))) [] = [OutNeighbors 1 1].
Proof. vm_compute. repeat split; reflexivity. Qed.
