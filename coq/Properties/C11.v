(* Properties/C11.v — RLP is a canonical, total and bounded codec.
   Only statements closed by `exact`, with Print Assumptions under each. *)
From AQ Require Import Lib.Bytes Rlp.RlpSpec Rlp.RlpProofs.
Local Open Scope N_scope.

(* decoding an encoding returns the value (and leaves the rest of the input) *)
Theorem C11_decode_encode : forall x r, fits x = true -> decode (encode x ++ r) = Some (x, r).
Proof. exact decode_encode. Qed.
Print Assumptions C11_decode_encode.

(* whatever is accepted is the canonical encoding of what it yields *)
Theorem C11_decode_canonical : forall b x r, decode b = Some (x, r) -> b = encode x ++ r /\ fits x = true.
Proof. exact decode_canonical. Qed.
Print Assumptions C11_decode_canonical.

Theorem C11_one_encoding_per_value : forall b1 b2 x,
  decode_exact b1 = Some x -> decode_exact b2 = Some x -> b1 = b2.
Proof. exact decode_injective. Qed.
Print Assumptions C11_one_encoding_per_value.

Theorem C11_uint_roundtrip : forall n, n < two64 ->
  option_map (fun x => item_to_uint 64 x) (decode_exact (encode_uint n)) = Some (Some n).
Proof. exact uint_roundtrip. Qed.
Print Assumptions C11_uint_roundtrip.

Theorem C11_uint_canonical : forall bits b x n,
  decode_exact b = Some x -> item_to_uint bits x = Some n -> b = encode_uint n.
Proof. exact uint_canonical. Qed.
Print Assumptions C11_uint_canonical.

(* non-vacuity: a nested value with a 56-byte string meets `fits` and round-trips *)
Example C11_example :
  let x := Lst [Str []; Str [x7f]; Str [x80]; Lst [Str (repeat x01 56)]; Lst []] in
  fits x = true /\ decode_exact (encode x) = Some x.
Proof. vm_compute. split; reflexivity. Qed.
