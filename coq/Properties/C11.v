(* Properties/C11.v — RLP is a canonical, total and bounded codec.
   Only statements closed by `exact`, with Print Assumptions under each. *)
From AQ Require Import Lib.Bytes Rlp.RlpSpec Rlp.RlpProofs.
Local Open Scope N_scope.

(* decoding an encoding returns the value (and leaves the rest of the input) *)
Theorem C11_decode_encode : forall x r, fits x = true -> decode (encode x ++ r) = Some (x, r).
Proof. exact decode_encode. Qed.
Print Assumptions C11_decode_encode.

(* whatever is accepted is the canonical encoding of what it yields *)
Theorem C11_decode_canonical : forall b x r, decode b = Some (x, r) -> b = encode x ++ r /\ fits x = true.
Proof. exact decode_canonical. Qed.
Print Assumptions C11_decode_canonical.

Theorem C11_one_encoding_per_value : forall b1 b2 x,
  decode_exact b1 = Some x -> decode_exact b2 = Some x -> b1 = b2.
Proof. exact decode_injective. Qed.
Print Assumptions C11_one_encoding_per_value.

Theorem C11_uint_roundtrip : forall n, n < two64 ->
  option_map (fun x => item_to_uint 64 x) (decode_exact (encode_uint n)) = Some (Some n).
Proof. exact uint_roundtrip. Qed.
Print Assumptions C11_uint_roundtrip.

Theorem C11_uint_canonical : forall bits b x n,
  decode_exact b = Some x -> item_to_uint bits x = Some n -> b = encode_uint n.
Proof. exact uint_canonical. Qed.
Print Assumptions C11_uint_canonical.

(* non-vacuity: a nested value with a 56-byte string meets `fits` and round-trips *)
Example C11_example :
  let x := Lst [Str []; Str [x7f]; Str [x80]; Lst [Str (repeat x01 56)]; Lst []] in
  fits x = true /\ decode_exact (encode x) = Some x.
Proof. vm_compute. split; reflexivity. Qed.

(* ---- typed layer: Go values of RLP-serialisable types (structs, tags, integers,
   byte arrays, pointers, rlp:"nil", rlp:"tail") ---- *)
From AQ Require Import Rlp.Typed Rlp.TypedProofs Rlp.TypedGen Generated.GenRlpTypes.

Theorem C11_typed_roundtrip : forall t v x, wf t = true -> to_item t v = Some x -> fits x = true ->
  dec_typed t (encode x) = Some v.
Proof. exact typed_bytes_roundtrip. Qed.
Print Assumptions C11_typed_roundtrip.

Theorem C11_typed_canonical : forall t b v, wf t = true -> dec_typed t b = Some v -> enc_typed t v = Some b.
Proof. exact typed_bytes_canonical. Qed.
Print Assumptions C11_typed_canonical.

Theorem C11_typed_one_encoding : forall t b1 b2 v, wf t = true ->
  dec_typed t b1 = Some v -> dec_typed t b2 = Some v -> b1 = b2.
Proof. exact typed_one_encoding. Qed.
Print Assumptions C11_typed_one_encoding.

(* every consensus / storage type descriptor regenerated from the source is in the
   fragment the typed theorems cover (finite: the generated list) *)
Theorem C11_generated_types_wf : forall name t, In (name, t) rlp_types -> wf t = true.
Proof.
  assert (H : all_wf = true) by (vm_compute; reflexivity).
  intros name t Hin. unfold all_wf in H. rewrite forallb_forall in H. exact (H (name, t) Hin).
Qed.
Print Assumptions C11_generated_types_wf.

Theorem C11_consensus_types_canonical : forall name t b v, In (name, t) rlp_types ->
  dec_typed t b = Some v -> enc_typed t v = Some b.
Proof. intros name t b v Hin. apply typed_bytes_canonical. exact (C11_generated_types_wf name t Hin). Qed.
Print Assumptions C11_consensus_types_canonical.

(* non-vacuity: a contract-creation transaction (nil recipient) round-trips through ty_Transaction;
   and the wrong-kind empty recipient (0xC0) is rejected *)
Example C11_typed_example :
  let v := VList [VNum 1; VNum 4; VNum 3; VNil; VNum 2; VStr [x05]; VNum 0; VNum 0; VNum 0] in
  option_map (fun b => dec_typed ty_Transaction b) (enc_typed ty_Transaction v) = Some (Some v)
  /\ dec_typed ty_Transaction [xc9;x01;x04;x03;xc0;x02;x05;x80;x80;x80] = None
  /\ enc_typed ty_Transaction v = Some [xc9;x01;x04;x03;x80;x02;x05;x80;x80;x80].
Proof. vm_compute. repeat split; reflexivity. Qed.

(* bounded: the decoded value (all its strings together) is no larger than the input *)
Theorem C11_decode_bounded : forall b x r, decode b = Some (x, r) -> item_bytes x + lenN r <= lenN b.
Proof. exact decode_bounded. Qed.
Print Assumptions C11_decode_bounded.
