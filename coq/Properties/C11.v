(* Properties/C11.v — RLP is a canonical, total and bounded codec.
   Only statements closed by `exact`, with Print Assumptions under each. *)
From AQ Require Import Lib.Bytes Rlp.RlpSpec Rlp.RlpProofs.
Local Open Scope N_scope.

(* decoding an encoding returns the value (and leaves the rest of the input) *)
Theorem C11_decode_encode : forall x r, fits x = true -> decode (encode x ++ r) = Some (x, r).
Proof. exact decode_encode. Qed.
Print Assumptions C11_decode_encode.

(* whatever is accepted is the canonical encoding of what it yields *)
Theorem C11_decode_canonical : forall b x r, decode b = Some (x, r) -> b = encode x ++ r /\ fits x = true.
Proof. exact decode_canonical. Qed.
Print Assumptions C11_decode_canonical.

Theorem C11_one_encoding_per_value : forall b1 b2 x,
  decode_exact b1 = Some x -> decode_exact b2 = Some x -> b1 = b2.
Proof. exact decode_injective. Qed.
Print Assumptions C11_one_encoding_per_value.

Theorem C11_uint_roundtrip : forall n, n < two64 ->
  option_map (fun x => item_to_uint 64 x) (decode_exact (encode_uint n)) = Some (Some n).
Proof. exact uint_roundtrip. Qed.
Print Assumptions C11_uint_roundtrip.

Theorem C11_uint_canonical : forall bits b x n,
  decode_exact b = Some x -> item_to_uint bits x = Some n -> b = encode_uint n.
Proof. exact uint_canonical. Qed.
Print Assumptions C11_uint_canonical.

(* non-vacuity: a nested value with a 56-byte string meets `fits` and round-trips *)
Example C11_example :
  let x := Lst [Str []; Str [x7f]; Str [x80]; Lst [Str (repeat x01 56)]; Lst []] in
  fits x = true /\ decode_exact (encode x) = Some x.
Proof. vm_compute. split; reflexivity. Qed.

(* ---- typed layer: Go values of RLP-serialisable types (structs, tags, integers,
   byte arrays, pointers, rlp:"nil", rlp:"tail") ---- *)
From AQ Require Import Rlp.Typed Rlp.TypedProofs Rlp.TypedGen Generated.GenRlpTypes.

Theorem C11_typed_roundtrip : forall t v x, wf t = true -> to_item t v = Some x -> fits x = true ->
  dec_typed t (encode x) = Some v.
Proof. exact typed_bytes_roundtrip. Qed.
Print Assumptions C11_typed_roundtrip.

Theorem C11_typed_canonical : forall t b v, wf t = true -> dec_typed t b = Some v -> enc_typed t v = Some b.
Proof. exact typed_bytes_canonical. Qed.
Print Assumptions C11_typed_canonical.

Theorem C11_typed_one_encoding : forall t b1 b2 v, wf t = true ->
  dec_typed t b1 = Some v -> dec_typed t b2 = Some v -> b1 = b2.
Proof. exact typed_one_encoding. Qed.
Print Assumptions C11_typed_one_encoding.

(* every consensus / storage type descriptor regenerated from the source is in the
   fragment the typed theorems cover (finite: the generated list) *)
Theorem C11_generated_types_wf : forall name t, In (name, t) rlp_types -> wf t = true.
Proof.
  assert (H : all_wf = true) by (vm_compute; reflexivity).
  intros name t Hin. unfold all_wf in H. rewrite forallb_forall in H. exact (H (name, t) Hin).
Qed.
Print Assumptions C11_generated_types_wf.

Theorem C11_consensus_types_canonical : forall name t b v, In (name, t) rlp_types ->
  dec_typed t b = Some v -> enc_typed t v = Some b.
Proof. intros name t b v Hin. apply typed_bytes_canonical. exact (C11_generated_types_wf name t Hin). Qed.
Print Assumptions C11_consensus_types_canonical.

(* non-vacuity: a contract-creation transaction (nil recipient) round-trips through ty_Transaction;
   and the wrong-kind empty recipient (0xC0) is rejected *)
Example C11_typed_example :
  let v := VList [VNum 1; VNum 4; VNum 3; VNil; VNum 2; VStr [x05]; VNum 0; VNum 0; VNum 0] in
  option_map (fun b => dec_typed ty_Transaction b) (enc_typed ty_Transaction v) = Some (Some v)
  /\ dec_typed ty_Transaction [xc9;x01;x04;x03;xc0;x02;x05;x80;x80;x80] = None
  /\ enc_typed ty_Transaction v = Some [xc9;x01;x04;x03;x80;x02;x05;x80;x80;x80].
Proof. vm_compute. repeat split; reflexivity. Qed.

(* bounded: the decoded value (all its strings together) is no larger than the input *)
Theorem C11_decode_bounded : forall b x r, decode b = Some (x, r) -> item_bytes x + lenN r <= lenN b.
Proof. exact decode_bounded. Qed.
Print Assumptions C11_decode_bounded.

(* ---- the Stream state machine (rlp/decode.go type Stream), code-shaped model
   Rlp/StreamModel.v: Kind / List / ListEnd / Bytes / Raw / Uint / Bool over the Go
   struct fields (remaining, limited, stack of listpos, cached kind/size/byteval/kinderr) ---- *)
From AQ Require Import Rlp.StreamModel Rlp.StreamProofs Rlp.StreamProofs2.

(* REFINEMENT.  The generic walker (Kind; a list is List, elements until EOL, ListEnd;
   anything else is Bytes — decodeInterface / every hand-written DecodeRLP) over a fresh
   Stream on the byte slice b returns the value x and leaves r in the reader exactly when
   the specification decoder does: with the input limit set to len(b), with the limit
   discovered from a bytes.Reader, and with no limit at all.  So every theorem above about
   `decode` (canonical, one encoding per value, round trip, bounded) holds for the Stream API.
   The premise concerns only the two limited modes: a limited Stream allocates a declared
   size (checked against the limit) in one make, which Go refuses beyond max_alloc = 2^48
   bytes.  Without a limit no premise is needed (next theorem). *)
Theorem C11_stream_refines_decode : forall b x r, lenN b <= max_alloc ->
  (stream_walk b (lenN b) true = Some (SOk x, r) <-> decode b = Some (x, r)) /\
  (stream_walk b 0 true = Some (SOk x, r) <-> decode b = Some (x, r)) /\
  (stream_walk b 0 false = Some (SOk x, r) <-> decode b = Some (x, r)).
Proof. exact stream_refines_decode. Qed.
Print Assumptions C11_stream_refines_decode.

(* a reader of unknown length, no input limit (rlp.Decode on a file or a connection):
   unconditional — the content buffer grows with the data that arrives (readContent) *)
Theorem C11_stream_refines_decode_unlimited : forall b x r,
  stream_walk b 0 false = Some (SOk x, r) <-> decode b = Some (x, r).
Proof. exact stream_refines_decode_unlimited. Qed.
Print Assumptions C11_stream_refines_decode_unlimited.

(* total: without an input limit no operation panics, in any state satisfying the invariant,
   whatever sizes the input declares (Uint is called with maxbits <= 64 by every caller) *)
Theorem C11_stream_unlimited_no_panic : forall o s, Inv s -> s_lim s = false ->
  (forall bits, o = OpUint bits -> bits <= 64) -> fst (st_op o s) <> SPanic.
Proof. exact stream_unlimited_no_panic. Qed.
Print Assumptions C11_stream_unlimited_no_panic.

(* soundness alone needs no premise and holds for every input limit and reader kind *)
Theorem C11_stream_walk_canonical : forall b input_limit bytes_reader x r,
  stream_walk b input_limit bytes_reader = Some (SOk x, r) -> b = encode x ++ r /\ fits x = true.
Proof. exact stream_walk_canonical. Qed.
Print Assumptions C11_stream_walk_canonical.

(* the same in any state (inside lists, any limit): a successful walk has consumed exactly
   the canonical encoding of its result and advanced the list position / the limit by it *)
Theorem C11_stream_walk_sound : forall f s x s', Inv0 s -> s_kind s = None ->
  walk f s = Some (SOk x, s') -> reads s (encode x) s' /\ fits x = true /\ s_kind s' = None.
Proof. exact walk_sound. Qed.
Print Assumptions C11_stream_walk_sound.

(* INVARIANT, preserved by every operation in every state (any order of calls, cached
   kinds, sticky errors, after errors): Inv = the list stack is well formed (each pos <= size
   < 2^64, an inner list ends inside the unread part of the outer one), a limited stream has
   `remaining` >= everything the open lists may still read (so `remaining` never underflows),
   and a cached size without error fits the innermost list / the limit (cache_ok). *)
Theorem C11_stream_invariant : forall o s, Inv s -> Inv (snd (st_op o s)).
Proof. exact stream_invariant. Qed.
Print Assumptions C11_stream_invariant.

Theorem C11_stream_invariant_initial : forall b input_limit bytes_reader, Inv (new_stream b input_limit bytes_reader).
Proof. exact new_stream_Inv. Qed.
Print Assumptions C11_stream_invariant_initial.

(* bounded: a size that Kind() returns without error — the size Bytes()/Raw() then allocate —
   is below 2^64 and fits what is left of the innermost open list, or of the input limit at
   top level (`within`; nothing is known only for a toplevel value of an unlimited stream) *)
Theorem C11_stream_kind_bounded : forall s k n s1, Inv s -> st_kind s = (SOk (k, n), s1) ->
  n < two64 /\ within n s1 /\ Inv s1.
Proof. exact stream_kind_bounded. Qed.
Print Assumptions C11_stream_kind_bounded.

(* Uint (8 <= maxbits <= 64) at a value position, against the item-level specification.
   `uint_next bits s x v`: the unread input starts with `encode x`, that encoding lies inside
   the innermost open list and inside the input limit, and `item_to_uint bits x = Some v`
   (x is a string without leading zero of at most bits/8 bytes, v its big-endian value).
   (1) Uint returns v iff there is such an x; (2) it has then consumed exactly `encode x`
   (list position and limit advanced by it, next header re-armed); (3) it returns an error
   iff there is no such x (wrong kind, leading zero, non-canonical single byte or size, too
   wide, truncated, beyond the list or the limit); (4) it never panics.
   (Was C11_stream_uint_partial = conjunct (2) alone; the converse is
   StreamProofs2.stream_uint_complete.) *)
Theorem C11_stream_uint : forall bits s, Inv0 s -> s_kind s = None -> 8 <= bits <= 64 ->
  (forall v, (exists s', st_uint bits s = (SOk v, s')) <-> (exists x, uint_next bits s x v)) /\
  (forall v s', st_uint bits s = (SOk v, s') ->
     exists x, uint_next bits s x v /\ reads s (encode x) s' /\ fits x = true /\ s_kind s' = None) /\
  ((exists e s', st_uint bits s = (SErr e, s')) <-> ~ (exists x v, uint_next bits s x v)) /\
  fst (st_uint bits s) <> SPanic.
Proof. exact stream_uint. Qed.
Print Assumptions C11_stream_uint.

(* non-vacuity: inside a list, after a first element, a 2-byte integer followed by another
   element satisfies uint_next and Uint(16) returns it; Uint(8) refuses the same value
   (errUintOverflow), a leading zero is ErrCanonInt, a list is ErrExpectedString *)
Example C11_stream_uint_example :
  let s0 := new_stream [xc5; x05; x82; x01; x00; x80] 0 true in
  let s1 := snd (st_uint 8 (snd (st_list s0))) in
  Inv0 s1 /\ s_kind s1 = None /\
  uint_next 16 s1 (Str [x01; x00]) 256 /\
  fst (st_uint 16 s1) = SOk 256 /\ s_in (snd (st_uint 16 s1)) = [x80] /\
  fst (st_uint 8 s1) = SErr EUintOverflow /\
  (forall x v, ~ uint_next 8 s1 x v) /\
  fst (st_uint 64 (new_stream [x82; x00; x01] 0 true)) = SErr ECanonInt /\
  fst (st_uint 64 (new_stream [xc0] 0 true)) = SErr EExpectedString.
Proof. exact stream_uint_example. Qed.

(* Raw returns exactly the bytes it consumed (header ++ content) ... *)
Theorem C11_stream_raw : forall s raw s', Inv0 s -> s_kind s = None -> st_raw s = (SOk raw, s') ->
  reads s raw s' /\ s_kind s' = None.
Proof. exact stream_raw_exact. Qed.
Print Assumptions C11_stream_raw.
(* ... and they are the canonical encoding of the value the walker yields there.  (Raw by
   itself does not validate: it accepts the non-canonical 0x81 0x05 and unparsed list
   content — C11_stream_raw_noncanonical_example below; RawValue fields keep bytes as they are.) *)
Theorem C11_stream_raw_is_encode : forall f s raw s' x s'', Inv0 s -> s_kind s = None ->
  st_raw s = (SOk raw, s') -> walk f s = Some (SOk x, s'') -> raw = encode x.
Proof. exact stream_raw_is_encode. Qed.
Print Assumptions C11_stream_raw_is_encode.

(* non-vacuity: a nested value with a 56-byte string is walked from a limited and from an
   unlimited Stream, leaving the trailing byte; an operation sequence in a wrong order hits
   the sticky/internal errors; Raw on 0x8105 succeeds although the walker rejects it *)
Example C11_stream_example :
  let x := Lst [Str []; Str [x7f]; Lst [Str (repeat x01 56); Lst []]; Str [x80]] in
  let b := encode x ++ [xc0] in
  stream_walk b (lenN b) true = Some (SOk x, [xc0]) /\
  stream_walk b 0 false = Some (SOk x, [xc0]) /\
  Inv (new_stream b 0 true) /\
  fst (st_list_end (new_stream b 0 true)) = SErr ENotInList /\
  fst (st_bytes (new_stream b 0 true)) = SErr EExpectedString /\
  fst (st_uint 64 (new_stream [x82; x00; x01] 0 true)) = SErr ECanonInt.
Proof. vm_compute. repeat split; try reflexivity; intros; discriminate. Qed.

Example C11_stream_raw_noncanonical_example :
  fst (st_raw (new_stream [x81; x05] 0 true)) = SOk [x81; x05] /\
  stream_walk [x81; x05] 0 true = Some (SErr ECanonSize, []) /\
  decode [x81; x05] = None.
Proof. vm_compute. repeat split; reflexivity. Qed.
