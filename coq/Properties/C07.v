(* C07 — EVM execution is total, gas-bounded and sandboxed for every program.
   Model: Evm/Interp.v (interpreter loop, Call/CallCode/DelegateCall/StaticCall/Create, precompile
   dispatch, world with snapshot = copy) running on the instruction tables regenerated from
   core/vm/jump_table.go (Interp.ctbl_xxx = map compile GenJumpTables.tbl_xxx, InterpProofs.ctbl_is_compiled).
   [wf_env e] = the table of e is one of those five and the gas-table prices are positive; it holds
   of every environment [env_of cfg height ...] (C07_env_wf).  Statements only; proofs in Evm/InterpProofs*.v. *)
From Coq Require Import ZArith List Bool.
From AQ Require Import Evm.OpsModel Evm.Interp Evm.InterpProofs Evm.InterpProofs2 Evm.InterpProofs3 Evm.InterpProofsStatic Evm.InterpProofsMemInv Evm.InterpProofsPanic Evm.InterpProofsExec Evm.InterpProofsDepth Evm.InterpProofsSane Evm.OpsProofsJumpdest.
Import ListNotations.
Local Open Scope Z_scope.

Theorem C07_env_wf : forall fc num origin gasprice coinbase gaslimit time difficulty bh pc tr,
  wf_env (env_of fc num origin gasprice coinbase gaslimit time difficulty bh pc tr).
Proof. exact env_of_wf. Qed.
Print Assumptions C07_env_wf.

(* (1)(2)(3) for vm.EVM.Call: for every code, world, input, value and gas: the gas handed back is between
   0 and the gas given; with fuel above the gas the model never runs out of fuel (the execution
   terminates); every executed instruction ran at evm.depth between 1 and CallCreateDepth+1, i.e. at
   Yellow-Paper depth <= 1024. *)
Theorem C07_call_gas_bounded_total_depth_bounded : forall fuel e w caller addr input gas value, wf_env e -> 0 <= gas ->
  let o := call_top fuel e w caller addr input gas value in
  0 <= o_gas o <= gas /\
  (gas < Z.of_nat fuel -> o_res o <> R_fuel) /\
  Forall (fun t => 1 <= t_depth t <= CallCreateDepth + 1) (o_trace o).
Proof. exact call_top_good. Qed.
Print Assumptions C07_call_gas_bounded_total_depth_bounded.

(* the same for vm.EVM.Create *)
Theorem C07_create_gas_bounded_total_depth_bounded : forall fuel e w caller code gas value, wf_env e -> 0 <= gas ->
  let o := create_top fuel e w caller code gas value in
  0 <= o_gas o <= gas /\
  (gas < Z.of_nat fuel -> o_res o <> R_fuel) /\
  Forall (fun t => 1 <= t_depth t <= CallCreateDepth + 1) (o_trace o).
Proof. exact create_top_good. Qed.
Print Assumptions C07_create_gas_bounded_total_depth_bounded.

(* (1) within a frame (at any depth): an iteration of the loop after which the frame goes on leaves
   strictly less gas than there was before it — whatever a child frame handed back is less than the
   call cost (63/64 rule, stipend 2300 < CallValueTransferGas 9000), and every non-halting
   instruction of the regenerated tables costs at least 1 (InterpProofs.tables_ok) *)
Theorem C07_frame_gas_strictly_decreases : forall fuel e w fr w' fr', wf_env e -> 0 <= f_gas fr ->
  1 <= f_depth fr <= CallCreateDepth + 1 ->
  step (interp fuel e) e w fr = S_next w' fr' -> 0 <= f_gas fr' < f_gas fr.
Proof. exact frame_gas_decreases. Qed.
Print Assumptions C07_frame_gas_strictly_decreases.

(* (4) a frame that ends with an error (errExecutionReverted or any other) hands back the world it was
   entered with — for every call kind, at every depth, whatever the interpreter [rec] does *)
Theorem C07_failed_call_reverts : forall rec e w rd tr depth ro caller addr input gas value,
  let o := do_call rec e w rd tr depth ro caller addr input gas value in
  failed (o_res o) = true -> o_world o = w.
Proof. exact call_failed_reverts. Qed.
Print Assumptions C07_failed_call_reverts.
Theorem C07_failed_callcode_reverts : forall rec e w rd tr depth ro caller addr input gas value,
  let o := do_callcode rec e w rd tr depth ro caller addr input gas value in
  failed (o_res o) = true -> o_world o = w.
Proof. exact callcode_failed_reverts. Qed.
Print Assumptions C07_failed_callcode_reverts.
Theorem C07_failed_delegatecall_reverts : forall rec e w rd tr depth ro self pcaller pvalue addr input gas,
  let o := do_delegatecall rec e w rd tr depth ro self pcaller pvalue addr input gas in
  failed (o_res o) = true -> o_world o = w.
Proof. exact delegatecall_failed_reverts. Qed.
Print Assumptions C07_failed_delegatecall_reverts.
Theorem C07_failed_staticcall_reverts : forall rec e w rd tr depth ro caller addr input gas,
  let o := do_staticcall rec e w rd tr depth ro caller addr input gas in
  failed (o_res o) = true -> o_world o = w.
Proof. exact staticcall_failed_reverts. Qed.
Print Assumptions C07_failed_staticcall_reverts.
(* a failed creation additionally keeps the creator's nonce increment (Homestead rules: a code-store
   failure is an error) *)
Theorem C07_failed_create_reverts : forall rec e w rd tr depth ro caller code gas value, e_homestead e = true ->
  let o := do_create rec e w rd tr depth ro caller code gas value in
  failed (o_res o) = true ->
  o_world o = w \/ o_world o = set_nonce w caller (wrap64 (get_nonce w caller + 1)).
Proof. exact create_failed_reverts. Qed.
Print Assumptions C07_failed_create_reverts.

(* (5) static frames: under Byzantium rules (chainRules.IsByzantium, which is what enforceRestrictions
   tests), for every code, input, gas and fuel, at every depth and from every mode, the frame of a
   STATICCALL — and more generally every frame that runs with readOnly set, with everything below it —
   hands back a world in which every address has the same balance, nonce, code and storage and the logs
   are the same (same_obs; what may differ: an empty account may have come into existence through a
   value-less CALL, exactly as in the code).  Uses, from the regenerated tables: the state-changing
   instructions carry `writes`, and opCall is bound at 0xf1 only (InterpProofsStatic.call_pos_all). *)
Theorem C07_static_is_readonly : forall fuel e w rd tr depth ro caller addr input gas,
  wf_env e -> e_byzantium e = true ->
  let w' := o_world (do_staticcall (interp fuel e) e w rd tr depth ro caller addr input gas) in
  (forall a, get_balance w a = get_balance w' a /\ get_nonce w a = get_nonce w' a /\ get_code w a = get_code w' a /\
             forall k, get_state w a k = get_state w' a k) /\
  w_logs w = w_logs w'.
Proof. exact static_is_readonly. Qed.
Print Assumptions C07_static_is_readonly.
Theorem C07_readonly_frame_is_readonly : forall fuel e w fr,
  wf_env e -> e_byzantium e = true -> f_ro fr = true -> same_obs w (o_world (interp fuel e w fr)).
Proof. exact readonly_frame_is_readonly. Qed.
Print Assumptions C07_readonly_frame_is_readonly.

(* interpreter.readOnly is mutable interpreter state in the code (StaticCall sets it when it is off and a
   deferred function switches it off again exactly then); the model threads it the same way (o_ro / f_ro,
   Interp.do_staticcall).  For every code and every call kind, at every depth: the flag a call hands back
   is the flag it was entered with — a STATICCALL made inside an already static frame leaves the
   protection on for the rest of that frame.  (C07_static_is_readonly rests on it.) *)
Theorem C07_readonly_flag_discipline : forall fuel e w rd tr depth ro caller addr input code gas value self pcaller pvalue,
  o_ro (do_call (interp fuel e) e w rd tr depth ro caller addr input gas value) = ro /\
  o_ro (do_callcode (interp fuel e) e w rd tr depth ro caller addr input gas value) = ro /\
  o_ro (do_delegatecall (interp fuel e) e w rd tr depth ro self pcaller pvalue addr input gas) = ro /\
  o_ro (do_staticcall (interp fuel e) e w rd tr depth ro caller addr input gas) = ro /\
  o_ro (do_create (interp fuel e) e w rd tr depth ro caller code gas value) = ro.
Proof. exact flag_discipline. Qed.
Print Assumptions C07_readonly_flag_discipline.

(* the single-step form: a state-changing instruction met in a read-only frame ends the frame at once *)
Theorem C07_static_write_rejected : forall rec e w fr, wf_env e -> e_byzantium e = true -> f_ro fr = true ->
  exec_writes (c_exec (nth (Z.to_nat (get_op (f_code fr) (f_pc fr))) (e_tbl e) invalid_cop)) = true ->
  exists o, step rec e w fr = S_done o /\ o_world o = w /\ is_failure (o_res o) = true.
Proof. exact static_write_rejected. Qed.
Print Assumptions C07_static_write_rejected.

(* The premise e_byzantium e = true cannot be dropped.  REFUTED for the mainnet schedule between HF5 (22800) and HF7 (36050): the Spring instruction set
   makes STATICCALL valid from HF5 while chainRules.IsByzantium — which is what enforceRestrictions
   tests — only holds from HF7.  At height 30000 the program  0xbb: STATICCALL(gas,0xcc,0,0,0,0) STOP,
   0xcc: SSTORE(1,0x2a) STOP  succeeds and changes the storage of 0xcc inside the static call. *)
Theorem C07_static_is_readonly_refuted :
  let o := demo_run 30000 in
  e_byzantium (demo_env 30000) = false /\ o_res o = R_ok [] /\
  get_state demo_world 0xcc 1 = 5 /\ get_state (o_world o) 0xcc 1 = 0x2a.
Proof. exact static_call_writes_between_hf5_and_hf7. Qed.
Print Assumptions C07_static_is_readonly_refuted.

(* (6) memory: along the run of every frame (frame_reach = the iterations of the loop of Interpreter.Run
   starting from the fresh frame that Call/CallCode/DelegateCall/StaticCall/Create build; nested frames
   start the same way), whatever the code, the memory held is a whole number w of 32-byte words and
   Gmemory*w + w^2/512 <= the gas the frame has spent so far.  Premise gas < 2^32 (any block gas limit is far
   below): above 2^32 words the uint64 square of memoryGasCost wraps (C08: memoryGasCost_refuted).  Uses,
   from the regenerated tables: every instruction with a memorySize function has a gas function that charges
   memoryGasCost (InterpProofsMemInv.tables_mem_ok). *)
Theorem C07_memory_bounded : forall fuel e code input self caller value gas ro depth tr w0 w fr,
  wf_env e -> 0 <= gas < 2^32 -> 1 <= depth <= CallCreateDepth + 1 ->
  frame_reach (interp fuel e) e w0 (new_frame code input self caller value gas ro depth tr) w fr ->
  exists words, 0 <= words /\ blen (f_mem fr) = 32 * words /\
                3 * words + words * words / 512 <= gas - f_gas fr /\ 0 <= f_gas fr.
Proof. exact memory_bounded. Qed.
Print Assumptions C07_memory_bounded.

(* the growth bound: the memory a frame holds at any point of its run is bounded by a function of the gas it was
   supplied: at most gas/3 words and at most sqrt(512*gas + 511) words *)
Theorem C07_memory_growth_bound : forall fuel e code input self caller value gas ro depth tr w0 w fr,
  wf_env e -> 0 <= gas < 2^32 -> 1 <= depth <= CallCreateDepth + 1 ->
  frame_reach (interp fuel e) e w0 (new_frame code input self caller value gas ro depth tr) w fr ->
  exists words, blen (f_mem fr) = 32 * words /\ 0 <= words /\ 3 * words <= gas /\ words * words <= 512 * gas + 511.
Proof. exact memory_growth_bound. Qed.
Print Assumptions C07_memory_growth_bound.

(* call depth, the window form (by induction on the fuel, for every environment and table): whatever a frame running at
   evm.depth d executes — itself and every frame below it, to any nesting — is recorded at a depth between d and
   CallCreateDepth+1 = 1025 (with e_trace on, every executed instruction is recorded).  So a run from evm.depth d nests
   at most 1025 - d frames below it, i.e. at most 1024 - (Yellow-Paper depth) further calls. *)
Theorem C07_depth_window : forall fuel e w fr, 1 <= f_depth fr <= CallCreateDepth + 1 ->
  exists new, o_trace (interp fuel e w fr) = new ++ f_trace fr /\
              Forall (fun t => f_depth fr <= t_depth t <= CallCreateDepth + 1) new.
Proof. exact depth_window. Qed.
Print Assumptions C07_depth_window.

(* "never crashes".
   (a) operation.execute, for EVERY instruction of the regenerated tables: once the pre-checks of Interpreter.Run
   passed — the stack holds what validateStack checked (need_exec x <= its length; the tables bind every execute
   function to an arity that covers its pops: InterpProofsExec.tables_exec_ok), the memory covers what the
   memorySize function bound to the instruction asked for ([covered]; the tables bind every execute function to
   the memorySize function that covers the ranges it touches), and the frame is one the interpreter can be in
   (stack items are non-negative integers, code is made of bytes, memory shorter than 2^62) — the execute
   function does not panic, provided the frames below and the precompiled contracts do not. *)
Theorem C07_execute_never_panics : forall rec e w fr x temp,
  (forall w' f', o_res (rec w' f') <> R_panic) ->
  (forall w' a i g rd tr ro, o_res (run_precompile e w' a i g rd tr ro) <> R_panic) ->
  need_exec x <= blen (f_stack fr) -> need_exec x <= 17 -> exec_param_ok x = true ->
  Forall (fun v => 0 <= v) (f_stack fr) -> Forall byteval (f_code fr) -> blen (f_mem fr) < 2 ^ 62 ->
  covered x (f_stack fr) (f_mem fr) ->
  exec rec e w fr x temp <> X_panic.
Proof. exact exec_no_panic. Qed.
Print Assumptions C07_execute_never_panics.

(* (b) a whole iteration of the loop of Interpreter.Run on the regenerated tables: lookup, validateStack,
   enforceRestrictions, memorySize + overflow checks, gas function, UseGas, Resize, execute.  The pre-checks
   establish the premises of (a): the memory size charged for is <= 0xffffffffe0 (memoryGasCost), covers the
   big.Int the memorySize function returned (run_memorySize_ge), and the memory is resized to it. *)
Theorem C07_iteration_never_panics : forall rec e w fr o, wf_env e ->
  (forall w' f', o_res (rec w' f') <> R_panic) ->
  (forall w' a i g rd tr ro, o_res (run_precompile e w' a i g rd tr ro) <> R_panic) ->
  frame_sane fr ->
  step rec e w fr = S_done o -> o_res o <> R_panic.
Proof. exact step_no_panic. Qed.
Print Assumptions C07_iteration_never_panics.

(* (c) precompiled contracts: all but bigModExp cannot panic whatever the oracle answers *)
Theorem C07_precompiles_never_panic_but_modexp : forall e w a i g rd tr ro, a <> 5 ->
  o_res (run_precompile e w a i g rd tr ro) <> R_panic.
Proof. exact run_precompile_safe. Qed.
Print Assumptions C07_precompiles_never_panic_but_modexp.

(* (d) REFUTED without a bound on the gas: bigModExp with a 1-byte modulus and a declared exponent length of 2^60
   costs 461168601842738790 gas (< 2^64); given 2^63 gas, Run asks getData for a 2^60-byte buffer and make() panics;
   with a block's worth of gas the call just runs out of gas.  (Outside the property's quantifier — gas up to the
   block limit — and reachable only through RPC calls without a gas cap; observed on the implementation with
   expLen 2^40: fatal out-of-memory.) *)
Theorem C07_never_panics_needs_gas_bound_refuted :
  modexp_gas modexp_huge_input = Ok 461168601842738790 /\
  o_res (run_precompile (demo_env 40000) demo_world 5 modexp_huge_input (2 ^ 63) [] [] false) = R_panic /\
  o_res (run_precompile (demo_env 40000) demo_world 5 modexp_huge_input 8000000 [] [] false) = R_err (IE_op ErrOutOfGas) [].
Proof. exact modexp_panics_with_huge_gas. Qed.
Print Assumptions C07_never_panics_needs_gas_bound_refuted.

(* (e0) towards the whole run: frame_sane is kept by an iteration of the loop for every instruction whose pushed value is a
   non-negative integer by construction (pushes_nonneg: all arithmetic, comparison, bitwise and shift instructions, SHA3, the
   sizes, PC, MSIZE, GAS, the block fields, POP, MSTORE, MSTORE8, SSTORE, JUMP, JUMPI, JUMPDEST, PUSHn, DUPn, SWAPn, LOGn, the copy
   instructions, CREATE, the four calls, RETURN, REVERT, SELFDESTRUCT, STOP), and a frame as the call machinery builds it is
   sane when its code is made of bytes.  The instructions that REMAIN are exactly the eleven that push a value read from
   the state: ADDRESS, ORIGIN, CALLER, CALLVALUE, GASPRICE, COINBASE (frame / environment fields), BALANCE, SLOAD (world),
   BLOCKHASH (environment function), CALLDATALOAD, MLOAD (call data / memory contents) — C07_remaining_instructions. *)
Theorem C07_frame_sane_preserved_partial : forall rec e w fr w' fr', wf_env e -> frame_sane fr -> 0 <= f_pc fr ->
  pushes_nonneg (c_exec (nth (Z.to_nat (get_op (f_code fr) (f_pc fr))) (e_tbl e) invalid_cop)) = true ->
  step rec e w fr = S_next w' fr' -> frame_sane fr' /\ 0 <= f_pc fr'.
Proof. exact step_preserves_sane. Qed.
Print Assumptions C07_frame_sane_preserved_partial.
Theorem C07_remaining_instructions : forall x, pushes_nonneg x = false -> x = E_unknown \/ In x needs_wellformed_state.
Proof. exact pushes_nonneg_complement. Qed.
Print Assumptions C07_remaining_instructions.
Theorem C07_fresh_frame_sane : forall code input self caller value gas ro depth tr, Forall byteval code ->
  frame_sane (new_frame code input self caller value gas ro depth tr) /\ 0 <= f_pc (new_frame code input self caller value gas ro depth tr).
Proof. exact new_frame_sane. Qed.
Print Assumptions C07_fresh_frame_sane.

(* (e) the whole run.  Full statement (NOT proved):
     forall fuel e w caller addr input gas value, wf_env e -> 0 <= gas < 2^32 -> (the world, the environment, the
     input and the oracle outputs are made of non-negative integers / bytes) ->
       o_res (call_top fuel e w caller addr input gas value) <> R_panic          (and the same for create_top).
   What (a)-(e0) leave open: frame_sane across the eleven state-reading instructions of C07_remaining_instructions (needs
   well-formedness of world, environment and oracle, and byte-valued memory / call data / return data as further
   invariants), that bigModExp's buffers stay below the allocator's limit when gas < 2^32, and the induction over
   the loop and the nested frames that puts the pieces together.  Proved part kept from before: nothing before execute panics, for any frame. *)
Theorem C07_run_never_panics_partial : forall rec e w fr o, wf_env e ->
  (forall w1 fr1 x temp, exec rec e w1 fr1 x temp <> X_panic) ->
  step rec e w fr = S_done o -> o_res o <> R_panic.
Proof. exact step_panics_only_in_execute. Qed.
Print Assumptions C07_run_never_panics_partial.

Example C07_frame_sane_nonvacuous : frame_sane (new_frame [0x60;1;0x60;0;0x52;0] [] 0xbb 0xaa 0 100000 false 1 []).
Proof. exact frame_sane_example. Qed.
Print Assumptions C07_frame_sane_nonvacuous.

Example C07_memory_nonvacuous : exists w fr,
  frame_reach (interp 10 (demo_env 40000)) (demo_env 40000) demo_world
              (new_frame [0x60;1;0x60;0;0x52;0] [] 0xbb 0xaa 0 100000 false 1 []) w fr /\
  blen (f_mem fr) = 32 /\ f_gas fr = 100000 - 12.
Proof. exact mem_reach_nonvacuous. Qed.
Print Assumptions C07_memory_nonvacuous.

(* non-vacuity: the same program at height 40000 (Byzantium rules on): wf_env holds, the run ends
   normally within the fuel, and the static frame could not write *)
Example C07_nonvacuous :
  wf_env (demo_env 40000) /\
  let o := demo_run 40000 in
  e_byzantium (demo_env 40000) = true /\ o_res o = R_ok [] /\ get_state (o_world o) 0xcc 1 = 5.
Proof. exact (conj (demo_env_wf 40000) static_call_protected_after_hf7). Qed.
Print Assumptions C07_nonvacuous.
