(* Properties/C09.v — State snapshots revert exactly and the state root commits to content only.
   Only statements closed by `exact`, with Print Assumptions under each.
   Model: State/StateModel.v (core/state statedb.go, state_object.go, journal.go at content level;
   H = Keccak-256 is a parameter: nothing is assumed about it except where stated). *)
From AQ Require Import Lib.Bytes State.StateSpec State.StateModel State.StateProofs State.StateRefute
  State.StateUndoLemmas State.StateRevertProof State.StatePerm State.StateCopy State.StateRoot State.StateFinal State.StateAbs State.StateAbsProofs State.StateDb State.StateDbProofs State.StatePermCodes.
From Coq Require Import Permutation.
Import ListNotations.
Local Open Scope N_scope.

(* ------------------------------------------------------------------------------------------ *)
(* Clause 1: RevertToSnapshot restores every observable.

   For ANY state s satisfying the two structural invariants below, any history `ops` without
   Finalise/Commit — arbitrary interleaving of the eleven journalled mutators, Prepare, nested
   Snapshots and RevertToSnapshots (to any id; a revert to a dead id panics and then `run` is not
   Ok) — if the snapshot `id` taken at s is still live afterwards, reverting to it does not panic
   and every getter at every address and slot, Exist, Empty, the refund counter, the logs of every
   transaction hash and the preimages read exactly as they did in s.
   (GetCodeSize is GetCode's length except for a code store that maps H [] to non-empty code.) *)

(* the invariants, spelled out *)
Theorem C09_invariants_meaning : forall s : state,
  (inv s <-> ((forall a, get_obj s a = None -> aget a (st_trie s) = None) /\
              Forall (fun e => match e with JReset _ p => o_deleted p = false | _ => True end) (st_journal s))) /\
  (rok s <-> (rsorted (st_revs s) /\
              Forall (fun r => fst r < st_nextrev s /\ snd r <= lenN (st_journal s)) (st_revs s))).
Proof. exact (fun s => conj (iff_refl _) (iff_refl _)). Qed.
Print Assumptions C09_invariants_meaning.

(* they hold of every StateDB opened at a root (statedb.go New) ... *)
Theorem C09_invariants_fresh : forall trie codes, inv (new_state trie codes) /\ rok (new_state trie codes).
Proof. exact (fun trie codes => conj (inv_new_state trie codes) (rok_new_state trie codes)). Qed.
Print Assumptions C09_invariants_fresh.

(* ... and are kept by every operation other than Finalise/Commit *)
Theorem C09_invariants_step : forall (H : bytes -> bytes) (s s1 : state) (o : op),
  inv s -> rok s -> is_fin o = false -> step H s o = Ok s1 -> inv s1 /\ rok s1.
Proof. exact invariants_step. Qed.
Print Assumptions C09_invariants_step.

Theorem C09_revert_observable :
  forall (H : bytes -> bytes) (s : state) (ops : list op) (id : N) (s1 s2 : state),
    inv s -> rok s ->
    snapshot s = (s1, id) ->
    forallb (fun o => negb (is_fin o)) ops = true ->
    run H ops s1 = Ok s2 ->
    In id (map fst (st_revs s2)) ->
    exists s3, revert_to s2 id = Ok s3 /\
      (forall a, account_view H s3 a = account_view H s a) /\
      (forall a k, get_state s3 a k = get_state s a k) /\
      (forall a, exist s3 a = exist s a) /\ (forall a, is_empty H s3 a = is_empty H s a) /\
      get_refund s3 = get_refund s /\ (forall th, get_logs s3 th = get_logs s th) /\
      (forall h, aget h (st_preimages s3) = aget h (st_preimages s)).
Proof. exact revert_observable. Qed.
Print Assumptions C09_revert_observable.

(* the journal half on its own: the rewind loop respects observational equivalence *)
Theorem C09_rewind_respects_observables :
  forall (H : bytes -> bytes) (n : nat) (s t s' : state),
    sim H s t -> undo_n n s = Ok s' -> exists t', undo_n n t = Ok t' /\ obs_eq H s' t'.
Proof. exact rewind_respects_observables. Qed.
Print Assumptions C09_rewind_respects_observables.

(* abs_simulation (full for histories without Finalise/Commit).  State/StateAbs.v is an independent
   abstract transition system: accounts are a map address -> (nonce, balance, code hash, code,
   self-destructed flag, storage map); plus refund counter, logs per tx hash, preimages; Snapshot
   pushes a COPY of the whole abstract data, RevertToSnapshot restores the copy (and forgets the
   younger snapshots); the context set by Prepare is not part of a snapshot (the code does not
   journal it).  No journal, no dirty set, no caches.  The theorem: from any StateDB without live
   snapshots (inv, 64-bit logSize), for EVERY history of CreateAccount, Add/Sub/SetBalance (incl. the
   zero-value touch), SetNonce, SetCode, SetState, Suicide, AddLog, AddRefund, AddPreimage, Prepare,
   nested Snapshot and RevertToSnapshot, the journalled model and the abstract system stay related
   step by step: the abstract run does not fail, every getter of the model reads what the abstract
   state holds, the live snapshot ids coincide, and the model can panic next only where the abstract
   system does (revert to an id that is not live).
   Boolean premise on the history = the trigger of the known findings: no Finalise / Commit inside
   it (K1-K6 need Finalise, IntermediateRoot, Commit or Copy to show).  Not covered: the abstract
   meaning of Finalise/Commit (EIP-161 deletion needs the touched set, which is exactly what K1/K3/K6
   show the code does not restore); the refuted theorems below are unchanged. *)
Theorem C09_abs_simulation :
  forall (H : bytes -> bytes) (s : state) (ops : list op) (s' : state),
    inv s -> st_revs s = [] -> st_logsize s < two64 ->
    forallb (fun o => negb (is_fin o)) ops = true -> run H ops s = Ok s' ->
    exists A', arun H ops (abs_state H s) = Ok A' /\
      (forall a, account_view H s' a = a_view (as_data A') a) /\ (forall a k, get_state s' a k = a_store (as_data A') a k) /\
      (forall a, exist s' a = a_exist (as_data A') a) /\ (forall a, is_empty H s' a = a_empty H (as_data A') a) /\
      get_refund s' = ad_refund (as_data A') /\ (forall th, get_logs s' th = ad_logs (as_data A') th) /\
      (forall h, aget h (st_preimages s') = ad_pre (as_data A') h) /\
      map fst (st_revs s') = map fst (as_snaps A') /\
      (forall o A1, is_fin o = false -> astep H A' o = Ok A1 -> exists s1, step H s' o = Ok s1).
Proof. exact abs_simulation_obs. Qed.
Print Assumptions C09_abs_simulation.

(* ------------------------------------------------------------------------------------------ *)
(* Clause 2 (hidden state), FULL-STRENGTH statement which the code does NOT satisfy:
     forall H s ops id s1 s2, snapshot s = (s1, id) -> no Finalise/Commit in ops ->
       run H (ops ++ [ORevert id]) s1 = Ok s2 -> st_dirty s2 = st_dirty s /\ st_live s2 = st_live s
   Refuted by snapshot / AddBalance(4,5) / revert on a pre-existing EMPTY account: every getter is
   back, the dirty set is not, and IntermediateRoot(true) then deletes the account.
   Go: oracle signature revert-leaves-dirty-empty-account-deleted. *)
Theorem C09_revert_hidden_refuted :
  exists (H : bytes -> bytes) (s s1 s2 : state) (id : N),
    snapshot s = (s1, id) /\ run H [OAddBal 4 5%Z; ORevert id] s1 = Ok s2 /\
    st_dirty s2 <> st_dirty s /\
    Forall (fun a => account_view H s2 a = account_view H s a) [1; 2; 3; 4; 5; 6] /\
    match intermediate_root H true s, intermediate_root H true s2 with
    | Ok (_, r), Ok (_, r2) => aget 4 r <> None /\ aget 4 r2 = None
    | _, _ => False
    end.
Proof. exact revert_hidden_refuted. Qed.
Print Assumptions C09_revert_hidden_refuted.

(* a reverted touch un-dirties the address but leaves the one-shot callback consumed, so the next
   write is lost.  Go: write-after-reverted-touch-lost. *)
Theorem C09_write_after_reverted_touch_refuted :
  exists (H : bytes -> bytes) (s s1 s2 : state) (id : N),
    snapshot s = (s1, id) /\
    run H [OAddBal 4 0%Z; ORevert id; OAddBal 4 9%Z] s1 = Ok s2 /\
    get_balance s2 4 = 9%Z /\
    match intermediate_root H true s2 with
    | Ok (_, r) => option_map a_bal (aget 4 r) = Some 0%Z
    | Panic => False
    end.
Proof. exact write_after_reverted_touch_refuted. Qed.
Print Assumptions C09_write_after_reverted_touch_refuted.

(* ------------------------------------------------------------------------------------------ *)
(* Clause 3: the root commits to content.  FULL-STRENGTH statement for histories that continue
   after Commit, which the code does NOT satisfy:
     forall H s b s' r, commit H b s = Ok (s', r) -> the leaf of r at a = what the getters of s' report at a
   Refuted: a write after Commit on the same StateDB is not folded into the next root (the one-shot
   onDirty callback was consumed, Commit cleared the dirty set).  Go: write-after-commit-lost. *)
Theorem C09_write_after_commit_refuted :
  exists (H : bytes -> bytes) (s s1 s2 s3 : state) (r1 r3 : list (N * acct)),
    commit H true (add_balance H s 1 1%Z) = Ok (s1, r1) /\
    add_balance H s1 1 1%Z = s2 /\
    commit H true s2 = Ok (s3, r3) /\
    get_balance s3 1 = 102%Z /\ get_balance s1 1 = 101%Z /\ r3 = r1 /\
    option_map a_bal (aget 1 r3) = Some 101%Z.
Proof. exact write_after_commit_refuted. Qed.
Print Assumptions C09_write_after_commit_refuted.

(* What holds instead: under the explicit hypothesis that there are NO UNMARKED WRITES (every live
   object outside the dirty set reads like its trie leaf), coherent storage write caches, and a
   code store keyed by a collision-free H, a StateDB re-opened at the committed root reads back
   identically (nil code = empty code).  The remaining hypothesis excludes the finding
   deleted-object-rewritten-by-later-finalise (a dirty, already deleted object must be one this
   Commit deletes again). *)
Theorem C09_commit_reopen :
  forall (H : bytes -> bytes), (forall x y, H x = H y -> x = y) ->
  forall b s s' r,
    commit H b s = Ok (s', r) ->
    no_unmarked H s ->
    (forall a o, aget a (st_live s) = Some o -> st_coherent o) ->
    (forall a o, aget a (st_live s) = Some o -> NoDup (akeys (o_dirtyst o))) ->
    NoDup (akeys (st_live s)) ->
    (forall a o, aget a (st_live s) = Some o -> o_deleted o = true -> nmem a (st_dirty s) = true ->
                 o_suicided o = true \/ (b = true /\ obj_empty H o = true)) ->
    (forall h c, bget h (st_codes s) = Some c -> h = H c) ->
    (forall a o c, aget a (st_live s) = Some o -> o_code o = Some c ->
                   o_ch o = H c /\ (o_dirtycode o = true \/ bget (o_ch o) (st_codes s) = Some c)) ->
    let re := new_state r (st_codes s') in
    forall a, same_account (account_view H re a) (account_view H s' a) /\
              forall k, get_state re a k = get_state s' a k.
Proof. exact commit_reopen. Qed.
Print Assumptions C09_commit_reopen.

(* From the content level down to the disk store (partial).  State/StateDb.v models what
   StateDB.Commit does to the trie node database of C10's Trie/DbModel.v: per dirty object the code
   blob is inserted under its hash (when dirtyCode) and the storage trie under its root; the account
   trie is inserted under the state root with, as child references, the storage root (unless empty)
   and the code hash (unless emptyCode) of EVERY leaf — the leaf callback; then Database.Commit(root)
   (C10's tdb_commit) flushes what is reachable through the references.  Theorem: if the account
   root node carries these references and every referenced key is in the node database (memory or
   disk) with, for code, the bytes the model's code store holds, then after the flush the root blob
   is on disk and a StateDB opened over a FRESH database on that disk (disk_state: missing storage
   opens empty, code is read from disk) reads every account's nonce, balance, code hash, CODE BYTES
   and every storage slot like the committed StateDB.  Uses C10's tdb_commit_disk (C10_db_commit_disk).
   PARTIAL: (i) a committed trie is ONE node (the inside of a trie is C10's); (ii) the two
   availability premises are not derived from the Commit loop (commit_db_one) — they are evaluated
   on the implementation by the harness (correspondence on the key set + oracle O6) and shown for a
   concrete commit in C09_example_disk; (iii) premise H collision-free and commit_premises as in
   C09_commit_reopen; (iv) Finalise in between is covered only through commit_premises. *)
Theorem C09_commit_reopen_from_disk_partial :
  forall (H : bytes -> bytes) (enc_storage : smap -> bytes) (enc_trie : list (N * acct) -> bytes),
  (forall x y, H x = H y -> x = y) ->
  forall b s s' r m d fuel limit m' d',
    commit H b s = Ok (s', r) -> commit_premises H b s ->
    let m1 := commit_db H enc_storage enc_trie b s r m in
    DbModel.mem_get m1 (tkey H r) = Some (DbModel.mkMnode (enc_trie r) (refs H r)) ->
    (forall a ac, aget a r = Some ac -> a_root ac <> [] ->
       DbModel.mem_get m1 (skey H (a_root ac)) <> None \/ DbModel.disk_get d (skey H (a_root ac)) <> None) ->
    (forall a ac, aget a r = Some ac -> a_ch ac <> H [] ->
       exists c, bget (a_ch ac) (st_codes s') = Some c /\
         ((exists n, DbModel.mem_get m1 (a_ch ac) = Some n /\ DbModel.mn_blob n = c) \/
          (DbModel.mem_get m1 (a_ch ac) = None /\ DbModel.disk_get d (a_ch ac) = Some c))) ->
    NoDup (akeys r) ->
    DbModel.tdb_commit fuel limit m1 [] d (tkey H r) = TrieModel.Ok (m', d') ->
    DbModel.disk_get d' (tkey H r) = Some (enc_trie r) /\
    forall a, same_account (account_view H (disk_state H d' r) a) (account_view H s' a) /\
              forall k, get_state (disk_state H d' r) a k = get_state s' a k.
Proof. exact commit_reopen_from_disk. Qed.
Print Assumptions C09_commit_reopen_from_disk_partial.

(* the first premise holds whenever the root is new to the memory layer (the callback's references
   are exactly `refs`) *)
Theorem C09_commit_db_root_references :
  forall (H : bytes -> bytes) enc_storage enc_trie b s r m, r <> [] ->
    DbModel.mem_get (fold_left (commit_db_one H enc_storage b s) (akeys (st_live s)) m) (tkey H r) = None ->
    DbModel.mem_get (commit_db H enc_storage enc_trie b s r m) (tkey H r) = Some (DbModel.mkMnode (enc_trie r) (refs H r)).
Proof. exact commit_db_root_node. Qed.
Print Assumptions C09_commit_db_root_references.

(* Copy reads like the original, under the same two hypotheses *)
Theorem C09_copy_obs :
  forall (H : bytes -> bytes) s c,
    copy s = Ok c -> no_unmarked H s ->
    (forall a o, aget a (st_live s) = Some o -> st_coherent o) ->
    (forall a, account_view H c a = account_view H s a) /\
    (forall a k, get_state c a k = get_state s a k) /\
    get_refund c = get_refund s /\
    (forall th, get_logs c th = get_logs s th) /\
    st_preimages c = st_preimages s.
Proof. exact copy_obs. Qed.
Print Assumptions C09_copy_obs.

(* Histories that avoid the refuted corners: from a freshly opened StateDB, any sequence of the
   journalled mutators, Prepare and Snapshot (no RevertToSnapshot, nothing after a Commit) — there
   the hidden-state premises hold by themselves and Copy reads like the original (full). *)
Theorem C09_copy_obs_straight :
  forall (H : bytes -> bytes) trie codes ops s c,
    forallb straight ops = true -> run H ops (new_state trie codes) = Ok s -> copy s = Ok c ->
    (forall a, account_view H c a = account_view H s a) /\ (forall a k, get_state c a k = get_state s a k) /\
    get_refund c = get_refund s /\ (forall th, get_logs c th = get_logs s th) /\ st_preimages c = st_preimages s.
Proof. exact copy_obs_straight. Qed.
Print Assumptions C09_copy_obs_straight.

(* History independence of the root: the content committed is a function of what the getters show
   after the Commit, whatever the two histories were, under the premises of C09_commit_reopen
   (`commit_premises`, unfolded in C09_commit_premises_meaning) and canonical maps. *)
Theorem C09_commit_premises_meaning : forall (H : bytes -> bytes) b s,
  commit_premises H b s <->
  (no_unmarked H s /\
   (forall a o, aget a (st_live s) = Some o -> st_coherent o) /\
   (forall a o, aget a (st_live s) = Some o -> NoDup (akeys (o_dirtyst o))) /\
   NoDup (akeys (st_live s)) /\
   (forall a o, aget a (st_live s) = Some o -> o_deleted o = true -> nmem a (st_dirty s) = true ->
                o_suicided o = true \/ (b = true /\ obj_empty H o = true)) /\
   (forall h c, bget h (st_codes s) = Some c -> h = H c) /\
   (forall a o c, aget a (st_live s) = Some o -> o_code o = Some c ->
                  o_ch o = H c /\ (o_dirtycode o = true \/ bget (o_ch o) (st_codes s) = Some c))).
Proof. exact (fun H b s => iff_refl _). Qed.
Print Assumptions C09_commit_premises_meaning.

Theorem C09_root_history_independent :
  forall (H : bytes -> bytes), (forall x y, H x = H y -> x = y) ->
  forall b1 b2 s1 s2 s1' s2' r1 r2,
    commit H b1 s1 = Ok (s1', r1) -> commit H b2 s2 = Ok (s2', r2) ->
    commit_premises H b1 s1 -> commit_premises H b2 s2 ->
    canon_state s1 -> canon_state s2 ->
    (forall a, same_account (account_view H s1' a) (account_view H s2' a) /\
               forall k, get_state s1' a k = get_state s2' a k) ->
    r1 = r2 /\ state_root H r1 = state_root H r2.
Proof. exact (fun H HI b1 b2 s1 s2 s1' s2' r1 r2 C1 C2 P1 P2 K1 K2 E =>
  let e := root_history_independent_canon H HI b1 b2 s1 s2 s1' s2' r1 r2 C1 C2 P1 P2 K1 K2 E in
  conj e (f_equal (state_root H) e)). Qed.
Print Assumptions C09_root_history_independent.

(* the real root: C10's specification root (Trie/MptSpec.mpt_root) of the secure-trie content —
   keys H(20-byte address) / H(32-byte slot), leaves rlp(nonce, balance, storage root, code hash) /
   rlp(value without leading zeros).  Compared with the implementation's root hashes on every run.
   NOT proved here: that C10's executable trie model fed with these leaves returns this root (the
   composition with C10_hash_is_spec_root_partial); C10 proves it for its own histories. *)
Theorem C09_state_root_is_spec_root : forall (H : bytes -> bytes) (r : list (N * acct)),
  state_root H r =
  Trie.MptSpec.mpt_root H
    (map (fun kv => (H (be_fixed 20 (fst kv)),
                     Rlp.RlpSpec.encode (Rlp.RlpSpec.Lst
                       [Rlp.RlpSpec.Str (be_of_N (a_nonce (snd kv))); Rlp.RlpSpec.Str (be_of_N (Z.to_N (a_bal (snd kv))));
                        Rlp.RlpSpec.Str (storage_root H (a_root (snd kv))); Rlp.RlpSpec.Str (a_ch (snd kv))]))) r).
Proof. exact (fun H r => eq_refl). Qed.
Print Assumptions C09_state_root_is_spec_root.

(* Commit keeps the canonical form of the content (sorted, storage without zero values) *)
Theorem C09_commit_keeps_canonical_form : forall (H : bytes -> bytes) b s s' r,
  canon_state s -> commit H b s = Ok (s', r) -> trie_canon r.
Proof. exact commit_canon. Qed.
Print Assumptions C09_commit_keeps_canonical_form.

(* ------------------------------------------------------------------------------------------ *)
(* Clause 4: Go map iteration order does not matter.  `sorted m` = the canonical form of the
   content-level maps (kept by every model operation); the orders are the explicit arguments. *)
Theorem C09_update_trie_perm : forall (o1 o2 root : smap),
  Permutation o1 o2 -> NoDup (map fst o1) -> sorted root ->
  update_trie_with o1 root = update_trie_with o2 root.
Proof. exact update_trie_perm. Qed.
Print Assumptions C09_update_trie_perm.

Theorem C09_finalise_perm : forall (H : bytes -> bytes) (b : bool) (s : state) (o1 o2 : list N),
  Permutation o1 o2 -> NoDup o1 -> sorted (st_live s) -> sorted (st_trie s) ->
  finalise_with H o1 b s = finalise_with H o2 b s.
Proof. exact finalise_perm. Qed.
Print Assumptions C09_finalise_perm.

(* Commit: everything but the ORDER of the code-store list (bset appends) — in particular the
   returned root, Panic-ness, the live objects and the dirty set — is order independent.
   Full statement `commit_with H o1 b s = commit_with H o2 b s` is false of the model's list
   representation of the code store for that reason only. *)
Theorem C09_commit_perm_partial : forall (H : bytes -> bytes) (b : bool) (s : state) (o1 o2 : list N),
  Permutation o1 o2 -> NoDup o1 -> sorted (st_live s) -> sorted (st_trie s) ->
  rmap (fun p => (erase_codes (fst p), snd p)) (commit_with H o1 b s) =
  rmap (fun p => (erase_codes (fst p), snd p)) (commit_with H o2 b s).
Proof. exact commit_perm. Qed.
Print Assumptions C09_commit_perm_partial.

(* FULL (deepening round 6): the code store too, read as the map it stands for (bget = the node
   database lookup db.ContractCode).  The list representing it depends on the iteration order, its
   meaning does not: for two iteration orders of stateObjects both Commits panic, or both succeed
   with the same root content, the same state in every other field, and code stores that answer
   every lookup identically — hence every getter incl. GetCode / GetCodeSize reads the same
   (C09_commit_perm_getters).  Premise codes_agree: two live objects never hold DIFFERENT code under
   the SAME code hash; it follows from the way SetCode computes the hash when H is collision free
   (C09_codes_agree_of_hash) and cannot be dropped for an arbitrary (colliding) parameter H. *)
Theorem C09_commit_perm : forall (H : bytes -> bytes) (b : bool) (s : state) (o1 o2 : list N),
  Permutation o1 o2 -> NoDup o1 -> sorted (st_live s) -> sorted (st_trie s) ->
  (forall a a' o o' c c', aget a (st_live s) = Some o -> aget a' (st_live s) = Some o' ->
     o_code o = Some c -> o_code o' = Some c' -> o_ch o = o_ch o' -> c = c') ->
  match commit_with H o1 b s, commit_with H o2 b s with
  | Ok (s1, r1), Ok (s2, r2) =>
      r1 = r2 /\ erase_codes s1 = erase_codes s2 /\ (forall h, bget h (st_codes s1) = bget h (st_codes s2))
  | Panic, Panic => True
  | _, _ => False
  end.
Proof. exact commit_perm_full. Qed.
Print Assumptions C09_commit_perm.

Theorem C09_commit_perm_getters : forall (H : bytes -> bytes) (s1 s2 : state),
  erase_codes s1 = erase_codes s2 -> (forall h, bget h (st_codes s1) = bget h (st_codes s2)) ->
  (forall a, account_view H s1 a = account_view H s2 a) /\ (forall a k, get_state s1 a k = get_state s2 a k) /\
  (forall a, get_code_size s1 a = get_code_size s2 a) /\ (forall a, get_code H s1 a = get_code H s2 a).
Proof. exact getters_of_erase. Qed.
Print Assumptions C09_commit_perm_getters.

Theorem C09_codes_agree_of_hash : forall (H : bytes -> bytes) (s : state),
  (forall x y, H x = H y -> x = y) ->
  (forall a o c, aget a (st_live s) = Some o -> o_code o = Some c -> o_ch o = H c) ->
  forall a a' o o' c c', aget a (st_live s) = Some o -> aget a' (st_live s) = Some o' ->
     o_code o = Some c -> o_code o' = Some c' -> o_ch o = o_ch o' -> c = c'.
Proof. exact codes_agree_of_hash. Qed.
Print Assumptions C09_codes_agree_of_hash.

Theorem C09_commit_root_perm : forall (H : bytes -> bytes) (b : bool) (s : state) (o1 o2 : list N),
  Permutation o1 o2 -> NoDup o1 -> sorted (st_live s) -> sorted (st_trie s) ->
  rmap snd (commit_with H o1 b s) = rmap snd (commit_with H o2 b s).
Proof. exact commit_root_perm. Qed.
Print Assumptions C09_commit_root_perm.

(* ------------------------------------------------------------------------------------------ *)
(* non-vacuity: a concrete state (pre-existing funded account 1 and EMPTY account 4) and a history
   with nested snapshots, a self-destruct, a re-creation of the same account, a touch of a
   non-existent account and a revert to an inner live id meet every hypothesis of
   C09_revert_observable (that the hidden state differs afterwards is C09_revert_hidden_refuted). *)
Example C09_example :
  let ops := [OSetState 4 1 7; OSnapshot; OSuicide 1; OCreate 1; OSetCode 1 [x01]; OAddLog 5; OSnapshot;
              OAddBal 9 0%Z; OAddRefund 3; ORevert 2; OSetNonce 4 8] in
  inv ex_state /\ rok ex_state /\ snapshot ex_state = (ra_s1, 0) /\
  forallb (fun o => negb (is_fin o)) ops = true /\
  match run Lib.Keccak.keccak256 ops ra_s1 with
  | Ok s2 => In 0 (map fst (st_revs s2)) /\ sorted (st_live s2) /\ sorted (st_trie s2)
  | Panic => False
  end.
Proof.
  split; [exact (inv_new_state ex_trie [])|]. split; [exact (rok_new_state ex_trie [])|].
  vm_compute. repeat split; auto.
Qed.

(* non-vacuity of the premises of C09_copy_obs and C09_commit_reopen / C09_root_history_independent:
   a reachable state with a storage write, a storage clear, new code and a fresh account
   (for commit_reopen under H = identity, which is collision free) *)
Example C09_example_copy_premises :
  (exists c, copy ex2 = Ok c) /\ no_unmarked Lib.Keccak.keccak256 ex2 /\
  (forall a o, aget a (st_live ex2) = Some o -> st_coherent o).
Proof. exact ex2_copy_premises. Qed.

Example C09_example_reopen_premises :
  (forall x y, idH x = idH y -> x = y) /\
  (exists s' r, commit idH true ex3 = Ok (s', r)) /\ commit_premises idH true ex3 /\ canon_state ex3.
Proof. exact (conj (proj1 ex3_reopen_premises) (conj (proj1 (proj2 ex3_reopen_premises)) (conj (proj2 (proj2 ex3_reopen_premises)) ex3_canon))). Qed.

(* non-vacuity of C09_abs_simulation: the nested history of C09_example from ex_state; the abstract
   run succeeds and shows the reverted inner region gone (refund 0, account 9 absent) and the
   outer writes present (slot 1 of account 4 = 7, nonce of 4 = 8, account 1 re-created with code) *)
Example C09_example_abs :
  let ops := [OSnapshot; OSetState 4 1 7; OSnapshot; OSuicide 1; OCreate 1; OSetCode 1 [x01]; OAddLog 5; OSnapshot;
              OAddBal 9 0%Z; OAddRefund 3; ORevert 2; OSetNonce 4 8] in
  inv ex_state /\ st_revs ex_state = [] /\ st_logsize ex_state < two64 /\
  forallb (fun o => negb (is_fin o)) ops = true /\
  (exists s', run Lib.Keccak.keccak256 ops ex_state = Ok s') /\
  match arun Lib.Keccak.keccak256 ops (abs_state Lib.Keccak.keccak256 ex_state) with
  | Ok A => a_store (as_data A) 4 1 = 7 /\ ad_refund (as_data A) = 0 /\ a_exist (as_data A) 9 = false /\
            option_map v_nonce (a_view (as_data A) 4) = Some 8 /\ option_map v_code (a_view (as_data A) 1) = Some (Some [x01]) /\
            map fst (as_snaps A) = [0; 1]
  | Panic => False
  end.
Proof.
  split; [exact (inv_new_state ex_trie [])|]. split; [reflexivity|]. split; [vm_compute; reflexivity|].
  split; [reflexivity|]. split; [eexists; vm_compute; reflexivity|]. vm_compute. repeat split.
Qed.

(* non-vacuity for C09_commit_reopen_from_disk_partial: the commit of ex3 (H = identity, empty node
   database and disk): the root node carries the references, every referenced key was inserted by
   this Commit (boolean forms of the two availability premises), and the flush succeeds *)
Example C09_example_disk :
  let enc := (fun _ : smap => @nil Byte.byte) in let enct := (fun _ : list (N * acct) => @nil Byte.byte) in
  match commit idH true ex3 with
  | Ok (s', r) =>
    let m1 := commit_db idH enc enct true ex3 r [] in
    DbModel.mem_get m1 (tkey idH r) = Some (DbModel.mkMnode (enct r) (refs idH r)) /\
    forallb (fun k => match DbModel.mem_get m1 k with Some _ => true | None => false end) (refs idH r) = true /\
    refs idH r <> [] /\ NoDup (akeys r) /\
    (exists m' d', DbModel.tdb_commit 10 100 m1 [] [] (tkey idH r) = TrieModel.Ok (m', d'))
  | Panic => False
  end.
Proof.
  vm_compute. split; [reflexivity|]. split; [reflexivity|]. split; [discriminate|].
  split; [repeat constructor; cbn; intuition discriminate|]. eexists. eexists. reflexivity.
Qed.
