(* Properties/C09.v — State snapshots revert exactly and the state root commits to content only.
   Only statements closed by `exact`, with Print Assumptions under each. *)
From AQ Require Import Lib.Bytes State.StateSpec State.StateModel State.StateProofs State.StateRefute.
Import ListNotations.
Local Open Scope N_scope.

(* FULL-STRENGTH clause 1 (C09_revert_observable), NOT fully proved here:
     forall H s ops id s1 s2, inv H s -> snapshot s = (s1, id) -> forallb (fun o => negb (is_fin o)) ops = true ->
       run H ops s1 = Ok s2 -> In id (map fst (st_revs s2)) ->
       exists s3, revert_to s2 id = Ok s3 /\ obs_eq H s3 s
   What is proved: (i) the rewind loop of RevertToSnapshot (journal.go undo for all eleven entry kinds,
   any number of entries) respects observational equivalence — the congruence half of the induction
   over the journal; (ii) exact restoration of every observable for a journalled balance change on an
   arbitrary state.  Missing: (ii) for the other ten mutators and the induction over op sequences with
   the validRevisions invariant (ids increasing, journal indices monotone).  The harness evaluates the
   full clause on the implementation (oracle O1) for every revert of every generated history. *)
Theorem C09_rewind_respects_observables_partial :
  forall (H : bytes -> bytes) (n : nat) (s t s' : state),
    sim H s t -> undo_n n s = Ok s' -> exists t', undo_n n t = Ok t' /\ obs_eq H s' t'.
Proof. exact rewind_respects_observables. Qed.
Print Assumptions C09_rewind_respects_observables_partial.

Theorem C09_sim_is_what_getters_see :
  forall (H : bytes -> bytes) (s t : state), sim H s t ->
    (forall a, account_view H s a = account_view H t a) /\
    (forall a k, get_state s a k = get_state t a k) /\
    (forall a, exist s a = exist t a) /\ (forall a, is_empty H s a = is_empty H t a) /\
    get_refund s = get_refund t /\ (forall th, get_logs s th = get_logs t th) /\
    (forall h, aget h (st_preimages s) = aget h (st_preimages t)).
Proof. exact sim_obs. Qed.
Print Assumptions C09_sim_is_what_getters_see.

Theorem C09_revert_set_balance_partial :
  forall (H : bytes -> bytes) (s : state) (a : N) (v : Z) (s1 : state) (id : N) (o : obj),
    inv s -> get_obj s a = Some o -> snapshot s = (s1, id) -> st_revs s = [] ->
    exists s3, run H [OSetBal a v; ORevert id] s1 = Ok s3 /\ obs_eq H s3 s.
Proof. exact revert_set_balance. Qed.
Print Assumptions C09_revert_set_balance_partial.

Theorem C09_fresh_state_invariant : forall trie codes, inv (new_state trie codes).
Proof. exact inv_new_state. Qed.
Print Assumptions C09_fresh_state_invariant.

(* FULL-STRENGTH clause 2 (hidden state), which the code does NOT satisfy:
     forall H s ops id s1 s2, snapshot s = (s1, id) -> no Finalise/Commit in ops ->
       run H (ops ++ [ORevert id]) s1 = Ok s2 -> st_dirty s2 = st_dirty s /\ st_live s2 = st_live s
   Refuted by snapshot / AddBalance(4,5) / revert on a pre-existing EMPTY account: every getter is
   back, the dirty set is not, and IntermediateRoot(true) then deletes the account.
   Go: oracle signature revert-leaves-dirty-empty-account-deleted. *)
Theorem C09_revert_hidden_refuted :
  exists (H : bytes -> bytes) (s s1 s2 : state) (id : N),
    snapshot s = (s1, id) /\ run H [OAddBal 4 5%Z; ORevert id] s1 = Ok s2 /\
    st_dirty s2 <> st_dirty s /\
    Forall (fun a => account_view H s2 a = account_view H s a) [1; 2; 3; 4; 5; 6] /\
    match intermediate_root H true s, intermediate_root H true s2 with
    | Ok (_, r), Ok (_, r2) => aget 4 r <> None /\ aget 4 r2 = None
    | _, _ => False
    end.
Proof. exact revert_hidden_refuted. Qed.
Print Assumptions C09_revert_hidden_refuted.

(* FULL-STRENGTH clause 3 (root is content, for histories that continue after Commit):
     forall H s b s' r, commit H b s = Ok (s', r) -> forall a, account leaf of r at a = what the getters of s' report at a
   Refuted: a write after Commit on the same StateDB is not folded into the next root (the one-shot
   onDirty callback was consumed, Commit cleared the dirty set).  Go: write-after-commit-lost. *)
Theorem C09_write_after_commit_refuted :
  exists (H : bytes -> bytes) (s s1 s2 s3 : state) (r1 r3 : list (N * acct)),
    commit H true (add_balance H s 1 1%Z) = Ok (s1, r1) /\
    add_balance H s1 1 1%Z = s2 /\
    commit H true s2 = Ok (s3, r3) /\
    get_balance s3 1 = 102%Z /\ get_balance s1 1 = 101%Z /\ r3 = r1 /\
    option_map a_bal (aget 1 r3) = Some 101%Z.
Proof. exact write_after_commit_refuted. Qed.
Print Assumptions C09_write_after_commit_refuted.

(* the same mechanism without a Commit: a reverted touch un-dirties the address but leaves the
   callback consumed, so the next write is lost.  Go: write-after-reverted-touch-lost. *)
Theorem C09_write_after_reverted_touch_refuted :
  exists (H : bytes -> bytes) (s s1 s2 : state) (id : N),
    snapshot s = (s1, id) /\
    run H [OAddBal 4 0%Z; ORevert id; OAddBal 4 9%Z] s1 = Ok s2 /\
    get_balance s2 4 = 9%Z /\
    match intermediate_root H true s2 with
    | Ok (_, r) => option_map a_bal (aget 4 r) = Some 0%Z
    | Panic => False
    end.
Proof. exact write_after_reverted_touch_refuted. Qed.
Print Assumptions C09_write_after_reverted_touch_refuted.

(* non-vacuity: the hypotheses of C09_revert_set_balance_partial hold of a concrete state with a
   pre-existing funded account, and the concrete history runs: the balance is back, the dirty set is not *)
Example C09_example :
  inv ex_state /\ get_obj ex_state 1 <> None /\ st_revs ex_state = [] /\
  match run Lib.Keccak.keccak256 [OSetBal 1 7%Z; ORevert 0] (fst (snapshot ex_state)) with
  | Ok s3 => get_balance s3 1 = 100%Z /\ st_dirty s3 = [1] /\ st_dirty ex_state = []
  | Panic => False
  end.
Proof. split; [exact (inv_new_state ex_trie [])|]. vm_compute. repeat split; discriminate. Qed.
