(* Properties/C16.v — Log blooms have no false negatives and log queries are exact.
   Only statements closed by `exact`, with Print Assumptions under each.
   H is the hash (crypto.Keccak256 in the code): every theorem holds for every H. *)
From AQ Require Import Lib.Bytes Lib.Keccak Generated.GenParamsBloom Bloom.BloomModel Bloom.FilterModel Bloom.BloomProofs Bloom.FilterProofs Bloom.ByteModel Bloom.ByteProofs Bloom.IndexerModel Bloom.IndexerProofs Bloom.BitutilModel Bloom.BitutilProofs Bloom.EndToEndProofs Bloom.SectionProofs.
Local Open Scope N_scope.

(* every address and every topic of every log of the receipts tests positive in
   CreateBloom of those receipts *)
Theorem C16_bloom_no_false_negative :
  forall (H : bytes -> bytes) (rs : list (list log)) (r : list log) (l : log),
  In r rs -> In l r ->
  bloom_lookup H (create_bloom H rs) (l_addr l) = true /\
  (forall t, In t (l_topics l) -> bloom_lookup H (create_bloom H rs) t = true).
Proof. exact bloom_no_false_negative. Qed.
Print Assumptions C16_bloom_no_false_negative.

(* the three indexes the bloombits matcher fetches are exactly the bits bloom9 sets *)
Theorem C16_indexes_agree :
  forall (H : bytes -> bytes) (x : bytes),
  bloom9 H x = (let '(i, j, k) := calc_bloom_indexes H x in
                N.lor (N.lor (N.lor 0 (N.shiftl 1 i)) (N.shiftl 1 j)) (N.shiftl 1 k)).
Proof. exact indexes_agree. Qed.
Print Assumptions C16_indexes_agree.

(* BloomLookup is the matcher's test of the three bits *)
Theorem C16_lookup_is_three_bits :
  forall (H : bytes -> bytes) (bloom : N) (x : bytes),
  bloom_lookup H bloom x =
  (let '(i, j, k) := calc_bloom_indexes H x in (N.testbit bloom i && N.testbit bloom j && N.testbit bloom k)%bool).
Proof. exact lookup_tri. Qed.
Print Assumptions C16_lookup_is_three_bits.

(* a header bloom that is CreateBloom of the block's receipts never excludes a
   block holding a matching log *)
Theorem C16_bloom_filter_sound :
  forall (H : bytes -> bytes) (addrs : list bytes) (tops : list (list bytes)) (blk : block),
  b_bloom blk = create_bloom H (b_receipts blk) ->
  bloom_filter H (b_bloom blk) addrs tops = false ->
  filter_logs (concat (b_receipts blk)) addrs tops = [].
Proof. exact create_bloom_block_sound. Qed.
Print Assumptions C16_bloom_filter_sound.

(* the bloombits matcher over blocks b..e returns, in ascending order, exactly the
   blocks of the range whose bloom passes bloomFilter — for every section size,
   whenever the index rows of the sections touched are the transposed blooms *)
Theorem C16_matcher_is_bloomfilter :
  forall (H : bytes -> bytes) (addrs : list bytes) (tops : list (list bytes))
         (idx : index) (size nsec : N) (B : N -> N) (b e : N),
  0 < size -> e / size < nsec ->
  (forall bit s k, s < nsec -> k < size -> vec_bit (idx bit s) k = N.testbit (B (s * size + k)) bit) ->
  matcher_run idx size (matcher_filters H addrs tops) b e
  = filter (fun n => bloom_filter H (B n) addrs tops) (range_lt b (e + 1)).
Proof. exact matcher_is_bloomfilter. Qed.
Print Assumptions C16_matcher_is_bloomfilter.

(* Filter.Logs = brute-force scan of the canonical receipts, in chain order: for
   every chain, criteria, range (with -1 ends, ends beyond head, begin > end),
   section size and index progress `sections` (index rows beyond the progress
   are unconstrained), relative to the bloom layer being sound *)
Theorem C16_logs_exact_general :
  forall (H : bytes -> bytes) (addrs : list bytes) (tops : list (list bytes))
         (c : chain) (idx : index) (size sections : N) (begin end_ : Z),
  c <> [] -> 0 < size -> sections * size <= lenN c -> (Z.of_N (lenN c) < two63)%Z ->
  (-1 <= begin < two63)%Z -> (-1 <= end_ < two63)%Z ->
  (forall bit s k, s < sections -> k < size ->
     vec_bit (idx bit s) k = N.testbit (bloom_at c (s * size + k)) bit) ->
  (forall blk, In blk c ->
     bloom_filter H (b_bloom blk) addrs tops = false -> filter_logs (concat (b_receipts blk)) addrs tops = []) ->
  filter_query H addrs tops c idx size sections begin end_ = brute_force addrs tops c begin end_.
Proof. exact logs_exact_general. Qed.
Print Assumptions C16_logs_exact_general.

(* ... and absolutely, when header blooms are CreateBloom of the receipts and the
   index is the transposition of the header blooms *)
Theorem C16_logs_exact :
  forall (H : bytes -> bytes) (addrs : list bytes) (tops : list (list bytes))
         (c : chain) (size sections : N) (begin end_ : Z),
  c <> [] -> 0 < size -> sections * size <= lenN c -> (Z.of_N (lenN c) < two63)%Z ->
  (-1 <= begin < two63)%Z -> (-1 <= end_ < two63)%Z ->
  (forall blk, In blk c -> b_bloom blk = create_bloom H (b_receipts blk)) ->
  filter_query H addrs tops c (index_of_chain c size) size sections begin end_
  = brute_force addrs tops c begin end_.
Proof. exact logs_exact. Qed.
Print Assumptions C16_logs_exact.

(* Generator: NewGenerator(size), AddBloom(0..size-1) succeed; row i holds at position k
   bit i of bloom k; Bitset(idx) returns it for idx < size, idx < 2048 and is refused
   for idx >= size *)
Theorem C16_generator_transposes :
  forall (size : N) (blooms : list N),
  size mod 8 = 0 -> lenN blooms = size ->
  exists g0 g, new_generator size = GOk g0 /\ add_blooms g0 blooms = GOk g /\
    (forall i k, (i < bloom_bit_length)%nat -> k < size ->
       N.testbit (gen_row g i) k = N.testbit (nth (N.to_nat k) blooms 0) (N.of_nat i)) /\
    (forall idx, idx < size -> idx < 2048 -> bitset g idx = GOk (gen_row g (N.to_nat idx))) /\
    (forall idx, size <= idx -> bitset g idx = GErr ErrSectionOutOfBounds).
Proof. exact generator_transposes. Qed.
Print Assumptions C16_generator_transposes.

(* the index the chain's own blooms transpose to is sound for every progress *)
Theorem C16_index_of_chain_sound :
  forall (c : chain) (size nsec bit s k : N), s < nsec -> k < size ->
  vec_bit (index_of_chain c size bit s) k = N.testbit (bloom_at c (s * size + k)) bit.
Proof. exact (fun c size nsec => index_of_chain_sound c size nsec). Qed.
Print Assumptions C16_index_of_chain_sound.

(* NOT part of C16 (queries stay exact through the unindexed path), recorded because the
   model is faithful to it — signature bloombits-bitset-bound-uses-sections.
   Full-strength statements that are FALSE of the code:
     (a) forall size blooms g idx, size mod 8 = 0 -> lenN blooms = size -> (generator g fed blooms) ->
           idx < 2048 -> bitset g idx = GOk (gen_row g (N.to_nat idx))
     (b) forall c size confirms, size mod 8 = 0 -> stored_sections c size confirms = known_sections c size confirms
   Generator.Bitset compares the bit index with `sections` instead of the bloom bit
   length, so with a section size below 2048 BloomIndexer.Commit fails at bit = size
   and the ChainIndexer never stores a section. *)
Theorem C16_bitset_reads_every_row_refuted :
  exists (size : N) (blooms : list N) (g0 g : generator) (idx : N),
    size mod 8 = 0 /\ lenN blooms = size /\ new_generator size = GOk g0 /\ add_blooms g0 blooms = GOk g /\
    idx < 2048 /\ bitset g idx = GErr ErrSectionOutOfBounds.
Proof. exact bitset_every_row_refuted. Qed.
Print Assumptions C16_bitset_reads_every_row_refuted.

Theorem C16_indexer_stores_confirmed_sections_refuted :
  exists (c : chain) (size confirms : N),
    size mod 8 = 0 /\ known_sections c size confirms = 1 /\ stored_sections c size confirms = 0.
Proof. exact indexer_progress_refuted. Qed.
Print Assumptions C16_indexer_stores_confirmed_sections_refuted.

(* the remainder: for section sizes >= 2048 (production uses 4096) a section commits and the
   stored rows are the transposed blooms *)
Theorem C16_process_section_ok_partial :
  forall (size : N) (blooms : list N),
  2048 <= size -> size mod 8 = 0 -> lenN blooms = size ->
  exists rows, process_section size blooms = GOk rows /\ length rows = bloom_bit_length /\
    forall i k, (i < bloom_bit_length)%nat -> k < size ->
      N.testbit (nth i rows 0) k = N.testbit (nth (N.to_nat k) blooms 0) (N.of_nat i).
Proof. exact process_section_ok_partial. Qed.
Print Assumptions C16_process_section_ok_partial.

(* FULL, without the restriction on the size: the complete outcome of processSection on a full section of ANY size
   that NewGenerator accepts — it commits the transposed blooms when size >= 2048, and otherwise Commit fails with
   Bitset's "section out of bounds" (at row `size`) and nothing is stored.  The unrestricted "always commits" is
   false: C16_process_section_ok_refuted (8 zero blooms; replayed by the harness on BloomIndexer.Commit at sizes
   8/64, note bloombits-bitset-bound-uses-sections). *)
Theorem C16_process_section_ok :
  forall (size : N) (blooms : list N),
  size mod 8 = 0 -> lenN blooms = size ->
  if 2048 <=? size
  then exists rows, process_section size blooms = GOk rows /\ length rows = bloom_bit_length /\
         forall i k, (i < bloom_bit_length)%nat -> k < size ->
           N.testbit (nth i rows 0) k = N.testbit (nth (N.to_nat k) blooms 0) (N.of_nat i)
  else process_section size blooms = GErr ErrSectionOutOfBounds.
Proof. exact process_section_full. Qed.
Print Assumptions C16_process_section_ok.

Theorem C16_process_section_commits_iff :
  forall (size : N) (blooms : list N),
  size mod 8 = 0 -> lenN blooms = size ->
  ((exists rows, process_section size blooms = GOk rows) <-> 2048 <= size).
Proof. exact process_section_commits_iff. Qed.
Print Assumptions C16_process_section_commits_iff.

Theorem C16_process_section_ok_refuted :
  exists (size : N) (blooms : list N),
    size mod 8 = 0 /\ lenN blooms = size /\ process_section size blooms = GErr ErrSectionOutOfBounds.
Proof. exact process_section_ok_refuted. Qed.
Print Assumptions C16_process_section_ok_refuted.

(* Byte level (Go's []byte vectors: block k at bit 7-k%8 of byte k/8; bitutil ANDBytes/ORBytes/TestBytes;
   Matcher.Start's skip of a zero byte on a byte boundary): the byte-level matcher over the packed
   rows of full sections returns exactly what the bit-list matcher returns, for every section size
   that is a multiple of 8 *)
Theorem C16_matcher_bytes_refines_bits :
  forall (c : chain) (size nsec : N) (filters : list (list (N * N * N))) (b e : N),
  0 < size -> size mod 8 = 0 -> e / size < nsec -> nsec * size <= lenN c ->
  matcher_run_b (index_b_of_chain c size) size filters b e
  = matcher_run (index_of_chain c size) size filters b e.
Proof. exact matcher_bytes_refines_bits. Qed.
Print Assumptions C16_matcher_bytes_refines_bits.

(* the loop of Matcher.Start with its zero-byte skip emits exactly the set bits of first..last *)
Theorem C16_start_loop_skip_correct :
  forall (v : bytes) (start last : N), start mod 8 = 0 ->
  forall (fuel : nat) (i : N), start <= i -> (N.to_nat (last + 1 - i) <= fuel)%nat ->
  start_loop fuel v start i last = filter (fun k => bvec_bit v (k - start)) (range_lt i (last + 1)).
Proof. exact start_loop_spec. Qed.
Print Assumptions C16_start_loop_skip_correct.

(* the bytes of a generator row (what Bitset returns / is stored): bit k of the packed row is bit k of the row *)
Theorem C16_generator_row_packed :
  forall (size row k : N), size mod 8 = 0 -> k < size ->
  bvec_bit (pack (row_bits size row)) k = N.testbit row k.
Proof. exact generator_row_packed. Qed.
Print Assumptions C16_generator_row_packed.

(* what filters.New hands to NewMatcher is the nil-free case of the raw-clause constructor, in which
   an empty clause or a clause with a nil alternative constrains nothing *)
Theorem C16_matcher_filters_is_new_matcher :
  forall (H : bytes -> bytes) (addrs : list bytes) (tops : list (list bytes)),
  matcher_filters H addrs tops
  = new_matcher_filters H (map (map Some) ((match addrs with [] => [] | _ => [addrs] end) ++ tops)).
Proof. exact matcher_filters_is_new_matcher. Qed.
Print Assumptions C16_matcher_filters_is_new_matcher.

Theorem C16_new_matcher_nil_is_wildcard :
  forall (H : bytes -> bytes) (pre post : list (list (option bytes))) (a b : list (option bytes)),
  new_matcher_filters H (pre ++ (a ++ None :: b) :: post) = new_matcher_filters H (pre ++ post)
  /\ new_matcher_filters H (pre ++ [] :: post) = new_matcher_filters H (pre ++ post).
Proof. exact new_matcher_nil_is_wildcard. Qed.
Print Assumptions C16_new_matcher_nil_is_wildcard.

(* constants regenerated from /repo by the translator on every run (Generated/GenParamsBloom.v) *)
Theorem C16_params_match :
  g_bloom_bit_length = 2048 /\ N.of_nat bloom_bit_length = g_bloom_bit_length /\
  g_bloom_byte_length * 8 = g_bloom_bit_length /\ lenN (bloom_bytes 0) = g_bloom_byte_length /\
  g_bloom9_max_bit_observed < g_bloom_bit_length /\
  g_bloom_confirms = g_params_bloom_confirms /\
  g_new_generator_accepts_production_size = true.
Proof. exact params_match_bloom. Qed.
Print Assumptions C16_params_match.

(* at the production section size (params.BloomBitsBlocks as regenerated) every section commits *)
Theorem C16_production_section_commits :
  forall blooms : list N, lenN blooms = g_bloom_bits_blocks ->
  exists rows, process_section g_bloom_bits_blocks blooms = GOk rows /\ length rows = bloom_bit_length /\
    forall i k, (i < bloom_bit_length)%nat -> k < g_bloom_bits_blocks ->
      N.testbit (nth i rows 0) k = N.testbit (nth (N.to_nat k) blooms 0) (N.of_nat i).
Proof. exact production_section_commits. Qed.
Print Assumptions C16_production_section_commits.

(* FALSE of the code (signature getlogs-toblock-pending-skips-unindexed-blocks): the full-strength
   statement with the JSON-RPC open end "pending" admitted,
     forall ... (-2 <= end_ < two63) ..., filter_query ... begin end_ = brute_force ... begin (if end_ = -2 then -1 else end_),
   fails: with toBlock = pending (-2) Filter.Logs answers from the indexed sections only and never
   scans the unindexed blocks.  C16_logs_exact(_general) above is the proved remainder (-1 <= end_). *)
Theorem C16_logs_exact_toblock_pending_refuted :
  exists (H : bytes -> bytes) (c : chain) (idx : index) (size sections : N),
    c <> [] /\ 0 < size /\ sections * size <= lenN c /\
    filter_query H [] [] c idx size sections 0 (-2) = [] /\
    brute_force [] [] c 0 (-1) <> [].
Proof. exact toblock_pending_refuted. Qed.
Print Assumptions C16_logs_exact_toblock_pending_refuted.

(* The ChainIndexer as a state machine (IndexerModel.v): over EVERY history of canonical-chain switches
   (each keeping the blocks below the common ancestor), notification deliveries (newHead(anc, true),
   newHead(n, false)) and two-phase section steps (capture section/oldHead; later process against the chain as
   it is then), for every backend whose successful commit writes the transposition of what it was fed:
   once every notification has been delivered, each stored section s has its head recorded as the CURRENT
   canonical hash of block (s+1)*size-1 and the rows stored under (s, that hash) are the transposition of the
   blooms of the current canonical headers s*size..(s+1)*size-1. *)
Theorem C16_indexer_safe :
  forall (commit : N -> list N -> gres (list N)) (size confirms : N), 0 < size ->
  (forall blooms rows, commit size blooms = GOk rows -> lenN blooms = size ->
     length rows = bloom_bit_length /\
     forall i k, (i < bloom_bit_length)%nat -> k < size ->
       N.testbit (nth i rows 0) k = N.testbit (nth (N.to_nat k) blooms 0) (N.of_nat i)) ->
  forall (c0 : hchain) (ops : list op),
  ops_valid commit size confirms (mkW c0 [] ix_init) ops ->
  let w := run_ops commit size confirms (mkW c0 [] ix_init) ops in
  w_queue w = [] ->
  forall s, s < ix_stored (w_ix w) ->
    (s + 1) * size <= lenN (w_chain w) /\
    shead (w_ix w) s = canon_hash (w_chain w) ((s + 1) * size - 1) /\
    exists rows, db_find (ix_db (w_ix w)) s (shead (w_ix w) s) = Some rows /\
      length rows = bloom_bit_length /\
      forall i k, (i < bloom_bit_length)%nat -> k < size ->
        N.testbit (nth i rows 0) k
        = N.testbit (nth (N.to_nat k) (map hb_bloom (firstn (N.to_nat size) (skipn (N.to_nat (s * size)) (w_chain w)))) 0) (N.of_nat i).
Proof. exact indexer_safe. Qed.
Print Assumptions C16_indexer_safe.

(* both backends meet the commit premise: the production BloomIndexer (Bitset bound included) and the
   harness backend used for section sizes below 2048 *)
Theorem C16_commit_premise :
  forall (size : N) (blooms rows : list N), lenN blooms = size ->
  (process_section size blooms = GOk rows \/ process_section_rows size blooms = GOk rows) ->
  length rows = bloom_bit_length /\
  forall i k, (i < bloom_bit_length)%nat -> k < size ->
    N.testbit (nth i rows 0) k = N.testbit (nth (N.to_nat k) blooms 0) (N.of_nat i).
Proof.
  exact (fun size blooms rows Hl H => match H with
    | or_introl Hp => process_section_spec size blooms rows Hp Hl
    | or_intror Hp => process_section_rows_spec size blooms rows Hp Hl end).
Qed.
Print Assumptions C16_commit_premise.

(* composed: after any such history, with every notification delivered, a query answered through the index
   the ChainIndexer built (rows fetched by (bit, section, current canonical head hash), progress =
   storedSections) is the brute-force scan of the canonical receipts.  Premises besides the history: header
   blooms are 2048-bit values and the bloom layer is sound (C16_bloom_filter_sound gives that from
   header bloom = CreateBloom(receipts)). *)
Theorem C16_indexed_logs_exact :
  forall (H : bytes -> bytes) (addrs : list bytes) (tops : list (list bytes))
         (commit : N -> list N -> gres (list N)) (size confirms : N) (c0 : hchain) (ops : list op) (begin end_ : Z),
  0 < size ->
  (forall blooms rows, commit size blooms = GOk rows -> lenN blooms = size -> rows_transposed size rows blooms) ->
  let w0 := mkW c0 [] ix_init in
  ops_valid commit size confirms w0 ops ->
  let w := run_ops commit size confirms w0 ops in
  let c := map hb_block (w_chain w) in
  w_queue w = [] ->
  c <> [] -> (Z.of_N (lenN c) < two63)%Z -> (-1 <= begin < two63)%Z -> (-1 <= end_ < two63)%Z ->
  (forall blk, In blk c -> b_bloom blk < 2 ^ 2048) ->
  (forall blk, In blk c -> bloom_filter H (b_bloom blk) addrs tops = false -> filter_logs (concat (b_receipts blk)) addrs tops = []) ->
  filter_query H addrs tops c (index_of_world size w) size (ix_stored (w_ix w)) begin end_
  = brute_force addrs tops c begin end_.
Proof. exact indexed_logs_exact. Qed.
Print Assumptions C16_indexed_logs_exact.

(* non-vacuity of the history theorems: 10 blocks indexed (section size 8), a reorg at block 4 replacing
   half of the indexed section, re-indexed; the history is valid, ends with no notification in flight, one
   stored section whose head is the new branch's block 7, and row 1 is the new branch's bit 1 *)
Example C16_indexer_example :
  ops_valid process_section_rows 8 0 (mkW (firstn 1 ex_hA) [] ix_init) ex_ops /\
  (let w := run_ops process_section_rows 8 0 (mkW (firstn 1 ex_hA) [] ix_init) ex_ops in
   w_queue w = [] /\ ix_stored (w_ix w) = 1 /\ shead (w_ix w) 0 = 108 /\
   index_of_world 8 w 1 0 = [false; false; true; true; false; true; true; true]).
Proof. split; [exact ex_ops_valid|vm_compute; repeat split; reflexivity]. Qed.

(* common/bitutil (how rows are stored): for EVERY byte string d, DecompressBytes(CompressBytes(d), len d) = d,
   and the stored form is never longer than d *)
Theorem C16_compress_roundtrip : forall d : bytes, decompress (compress d) (length d) = DOk d.
Proof. exact compress_roundtrip. Qed.
Print Assumptions C16_compress_roundtrip.

Theorem C16_compress_not_longer : forall d : bytes, (length (compress d) <= length d)%nat.
Proof. exact compress_not_longer. Qed.
Print Assumptions C16_compress_not_longer.

(* the strictness of CompressBytes' guard is needed: there is data whose encoding is exactly as long as the
   data and different from it, and DecompressBytes returns such an input unchanged *)
Theorem C16_nonstrict_guard_would_break :
  exists d : bytes, let out := encode (length d) d in
    length out = length d /\ out <> d /\ decompress out (length d) = DOk out.
Proof. exact nonstrict_guard_breaks. Qed.
Print Assumptions C16_nonstrict_guard_would_break.

(* composition with the index theorems: a row written by Commit (CompressBytes of the packed row) and read
   by the bloom handlers (DecompressBytes(_, size/8)) is the packed row, whose bit k is bit k of the row the
   indexer theorems speak about *)
Theorem C16_stored_row_reads_back :
  forall (size row : N), size mod 8 = 0 ->
  let v := pack (row_bits size row) in
  decompress (compress v) (N.to_nat (size / 8)) = DOk v /\
  forall k, k < size -> bvec_bit v k = N.testbit row k.
Proof. exact stored_row_reads_back. Qed.
Print Assumptions C16_stored_row_reads_back.

(* non-vacuity: a sparse 8-byte row is stored in 3 bytes and comes back; a dense one is stored raw *)
Example C16_compress_example :
  compress [x00; x00; x20; x00; x00; x00; x00; x01] = [x21; x20; x01] /\
  decompress [x21; x20; x01] 8 = DOk [x00; x00; x20; x00; x00; x00; x00; x01] /\
  compress [x01; x02; x03; x04; x05; x06; x07; x08] = [x01; x02; x03; x04; x05; x06; x07; x08] /\
  decompress [x21; x20] 8 = DErr ErrMissingData.
Proof. vm_compute. repeat split. Qed.

(* END TO END.  The premise `b_bloom b = create_bloom H (b_receipts b)` is what block validation enforces:
   C01_accept_iff_commitments (Properties/C01.v) gives, for every imported block,
   h_bloom header = receipts_bloom H receipts = create_bloom H (map r_logs receipts) — the same create_bloom.
   A log of a canonical validated block is returned by the query for EVERY filter that matches it and every
   range containing the block (in_range: begin <= n <= end with -1 = head), whatever part of the chain is indexed. *)
Theorem C16_validated_log_returned :
  forall (H : bytes -> bytes) (addrs : list bytes) (tops : list (list bytes))
         (c : chain) (idx : index) (size sections : N) (begin end_ : Z) (n : N) (blk : block) (l : log),
  0 < size -> sections * size <= lenN c -> (Z.of_N (lenN c) < two63)%Z ->
  (-1 <= begin < two63)%Z -> (-1 <= end_ < two63)%Z ->
  (forall bit s k, s < sections -> k < size -> vec_bit (idx bit s) k = N.testbit (bloom_at c (s * size + k)) bit) ->
  (forall b, In b c -> b_bloom b = create_bloom H (b_receipts b)) ->
  nthN c n = Some blk -> In l (concat (b_receipts blk)) -> log_matches addrs tops l = true ->
  in_range c begin end_ n ->
  In l (filter_query H addrs tops c idx size sections begin end_).
Proof. exact validated_log_returned. Qed.
Print Assumptions C16_validated_log_returned.

(* ... and through the index a ChainIndexer built over any history of reorgs, once notified *)
Theorem C16_validated_log_returned_indexed :
  forall (H : bytes -> bytes) (addrs : list bytes) (tops : list (list bytes))
         (commit : N -> list N -> gres (list N)) (size confirms : N) (c0 : hchain) (ops : list op)
         (begin end_ : Z) (n : N) (blk : block) (l : log),
  0 < size ->
  (forall blooms rows, commit size blooms = GOk rows -> lenN blooms = size -> rows_transposed size rows blooms) ->
  let w0 := mkW c0 [] ix_init in
  ops_valid commit size confirms w0 ops ->
  let w := run_ops commit size confirms w0 ops in
  let c := map hb_block (w_chain w) in
  w_queue w = [] ->
  (Z.of_N (lenN c) < two63)%Z -> (-1 <= begin < two63)%Z -> (-1 <= end_ < two63)%Z ->
  (forall b, In b c -> b_bloom b < 2 ^ 2048) ->
  (forall b, In b c -> b_bloom b = create_bloom H (b_receipts b)) ->
  nthN c n = Some blk -> In l (concat (b_receipts blk)) -> log_matches addrs tops l = true ->
  in_range c begin end_ n ->
  In l (filter_query H addrs tops c (index_of_world size w) size (ix_stored (w_ix w)) begin end_).
Proof. exact validated_log_returned_indexed. Qed.
Print Assumptions C16_validated_log_returned_indexed.

(* non-vacuity on the 17-block Keccak chain below: block 12's log matches, lies in range 0..latest *)
Example C16_validated_log_example :
  let l := mkLog (repeat x00 19 ++ [x07]) [repeat x00 31 ++ [x02]; repeat x00 31 ++ [x02]] [x01] 120 in
  log_matches [repeat x00 19 ++ [x07]] [[]; [repeat x00 31 ++ [x02]]] l = true /\
  in_range (repeat (mkBlock 0 []) 17) 0 (-1) 12.
Proof. vm_compute. repeat split; discriminate. Qed.

(* non-vacuity: a 17-block chain (section size 8, two sections indexed) with Keccak-256 as H,
   header blooms = CreateBloom(receipts) by construction (ex_blk), logs in blocks 3, 12, 15 and 16; a query by address and
   second-position topic over 0..latest meets every hypothesis of C16_logs_exact and returns
   the three matching logs (tags 30, 120, 160) in chain order, skipping the non-matching ones *)
Definition ex_addr : bytes := repeat x00 19 ++ [x07].
Definition ex_t1 : bytes := repeat x00 31 ++ [x01].
Definition ex_t2 : bytes := repeat x00 31 ++ [x02].
Definition ex_blk (ls : list log) : block := mkBlock (create_bloom keccak256 [ls]) [ls].
Definition ex_chain : chain :=
  repeat (ex_blk []) 3 ++ [ex_blk [mkLog ex_addr [ex_t1; ex_t2] [] 30; mkLog ex_addr [ex_t2] [] 31]]
  ++ repeat (ex_blk []) 8 ++ [ex_blk [mkLog ex_addr [ex_t2; ex_t2] [x01] 120]]
  ++ repeat (ex_blk []) 2 ++ [ex_blk [mkLog ex_t1 [ex_t1; ex_t2] [] 150]]
  ++ [ex_blk [mkLog ex_addr [ex_t1; ex_t2; ex_t1] [] 160]].
Example C16_example :
  lenN ex_chain = 17 /\ 2 * 8 <= lenN ex_chain /\
  map l_tag (filter_query keccak256 [ex_addr] [[]; [ex_t2]] ex_chain (index_of_chain ex_chain 8) 8 2 0 (-1)) = [30; 120; 160] /\
  map l_tag (brute_force [ex_addr] [[]; [ex_t2]] ex_chain 0 (-1)) = [30; 120; 160] /\
  matcher_run (index_of_chain ex_chain 8) 8 (matcher_filters keccak256 [ex_addr] [[]; [ex_t2]]) 0 15 = [3; 12].
Proof. vm_compute. repeat split; try discriminate; reflexivity. Qed.
