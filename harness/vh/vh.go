// Package vh is the shared library of the verification harness: deterministic
// PRNG, hex helpers, the line protocol to the extracted Coq model (modelrun),
// and the result.json that ./check turns into a verdict and evidence.
package vh

import (
	"bufio"
	"encoding/hex"
	"encoding/json"
	"flag"
	"fmt"
	"io"
	"os"
	"os/exec"
	"path/filepath"
	"sort"
	"strings"
	"time"
)

// ---------------------------------------------------------------- context

type Ctx struct {
	Property string
	Seed     uint64
	Tier     string // quick | thorough
	OutDir   string
	ModelBin string
	Replay   string
	Rng      *RNG
	Res      *Result
	start    time.Time
	distinct map[string]struct{}
}

func Init(property string) *Ctx {
	seed := flag.Uint64("seed", 1, "PRNG seed")
	tier := flag.String("tier", "quick", "quick|thorough")
	out := flag.String("out", "", "output directory (result.json is written there)")
	model := flag.String("model", "", "path of the modelrun binary for this area")
	replay := flag.String("replay", "", "replay file to re-run instead of generating")
	flag.Parse()
	if *out == "" {
		fmt.Fprintln(os.Stderr, "missing -out")
		os.Exit(2)
	}
	os.MkdirAll(*out, 0o755)
	c := &Ctx{Property: property, Seed: *seed, Tier: *tier, OutDir: *out, ModelBin: *model, Replay: *replay,
		Rng: NewRNG(*seed), start: time.Now(), distinct: map[string]struct{}{}}
	c.Res = &Result{Property: property, Seed: *seed, Tier: *tier, Distribution: map[string]int{}}
	return c
}

func (c *Ctx) Thorough() bool { return c.Tier == "thorough" }

// Scale picks a count by tier.
func (c *Ctx) Scale(quick, thorough int) int {
	if c.Thorough() {
		return thorough
	}
	return quick
}

// ---------------------------------------------------------------- result

type Disagreement struct {
	Correspondence string `json:"correspondence"`
	Case           string `json:"case"`
	Observed       string `json:"observed"`
	Model          string `json:"model"`
}

type Violation struct {
	Signature string      `json:"signature"` // stable id of the failing input class; matched against known_findings.json
	What      string      `json:"what"`
	Replay    interface{} `json:"replay"` // concrete input / history + expected + observed
}

type Result struct {
	Property         string         `json:"property"`
	Seed             uint64         `json:"seed"`
	Tier             string         `json:"tier"`
	Evaluations      int            `json:"evaluations"`
	DistinctNontriv  int            `json:"distinct_nontrivial"`
	Rule             string         `json:"rule"`
	Distribution     map[string]int `json:"distribution"`
	Samples          []interface{}  `json:"samples"`
	Correspondences  []string       `json:"correspondences"`
	CorrCases        int            `json:"correspondence_cases"`
	NDisagreements   int            `json:"n_disagreements"`
	Disagreements    []Disagreement `json:"disagreements"`
	Violations       []Violation    `json:"violations"`
	Assumptions      []string       `json:"assumptions"`
	Notes            []string       `json:"notes"`
	WallS            float64        `json:"wall_s"`
	Exhaustive       bool           `json:"exhaustive"`
	HarnessError     string         `json:"harness_error,omitempty"`
	violSeen         map[string]int
}

// Eval counts one evaluated case, tallies its class in the distribution and, if
// nontrivialKey != "", counts it as distinct non-trivial when the key is new.
func (c *Ctx) Eval(class string, nontrivialKey string) {
	c.Res.Evaluations++
	if class != "" {
		c.Res.Distribution[class]++
	}
	if nontrivialKey != "" {
		if _, ok := c.distinct[nontrivialKey]; !ok {
			c.distinct[nontrivialKey] = struct{}{}
			c.Res.DistinctNontriv++
		}
	}
}

func (c *Ctx) Count(class string) { c.Res.Distribution[class]++ }

func (c *Ctx) Sample(s interface{}) {
	if len(c.Res.Samples) < 12 {
		if b, err := json.Marshal(s); err == nil && len(b) > 1500 {
			s = string(b[:1500]) + "...(clipped)"
		}
		c.Res.Samples = append(c.Res.Samples, s)
	}
}

// Correspond records one model/implementation comparison on a case.
func (c *Ctx) Correspond(name, cas, observed, model string) bool {
	c.Res.CorrCases++
	found := false
	for _, n := range c.Res.Correspondences {
		if n == name {
			found = true
		}
	}
	if !found {
		c.Res.Correspondences = append(c.Res.Correspondences, name)
	}
	if observed == model {
		return true
	}
	c.Res.NDisagreements++
	if len(c.Res.Disagreements) < 40 {
		c.Res.Disagreements = append(c.Res.Disagreements, Disagreement{name, clip(cas), clip(observed), clip(model)})
	}
	return false
}

func clip(s string) string {
	if len(s) > 4000 {
		return s[:4000] + "...(clipped)"
	}
	return s
}

// Violate records a concrete failure of the property itself on the implementation.
// At most 5 replays are kept per signature.
func (c *Ctx) Violate(signature, what string, replay interface{}) {
	if c.Res.violSeen == nil {
		c.Res.violSeen = map[string]int{}
	}
	c.Res.violSeen[signature]++
	// keep up to 3 replays per signature; past 60 entries keep only the first replay of each NEW signature
	if c.Res.violSeen[signature] > 3 || (len(c.Res.Violations) > 60 && c.Res.violSeen[signature] > 1) {
		return
	}
	c.Res.Violations = append(c.Res.Violations, Violation{signature, what, replay})
}

func (c *Ctx) Note(format string, a ...interface{}) {
	c.Res.Notes = append(c.Res.Notes, fmt.Sprintf(format, a...))
}

func (c *Ctx) Assume(s string) { c.Res.Assumptions = append(c.Res.Assumptions, s) }

func (c *Ctx) Finish() {
	c.Res.WallS = time.Since(c.start).Seconds()
	if c.Res.Violations == nil {
		c.Res.Violations = []Violation{}
	}
	if c.Res.Disagreements == nil {
		c.Res.Disagreements = []Disagreement{}
	}
	b, _ := json.MarshalIndent(c.Res, "", " ")
	if err := os.WriteFile(filepath.Join(c.OutDir, "result.json"), b, 0o644); err != nil {
		fmt.Fprintln(os.Stderr, err)
		os.Exit(2)
	}
	keys := make([]string, 0, len(c.Res.Distribution))
	for k := range c.Res.Distribution {
		keys = append(keys, k)
	}
	sort.Strings(keys)
	fmt.Printf("[%s] evaluations=%d distinct_nontrivial=%d corr_cases=%d disagreements=%d violations=%d wall=%.1fs\n",
		c.Property, c.Res.Evaluations, c.Res.DistinctNontriv, c.Res.CorrCases, c.Res.NDisagreements, len(c.Res.Violations), c.Res.WallS)
}

// Fatal reports a harness-level failure (not a verdict): ./check exits 2.
func (c *Ctx) Fatal(format string, a ...interface{}) {
	c.Res.HarnessError = fmt.Sprintf(format, a...)
	fmt.Fprintln(os.Stderr, "HARNESS ERROR:", c.Res.HarnessError)
	c.Finish()
	os.Exit(2)
}

// ---------------------------------------------------------------- PRNG (splitmix64)

type RNG struct{ s uint64 }

func NewRNG(seed uint64) *RNG {
	// mix the seed through the output function so that consecutive seeds give unrelated streams
	r := &RNG{s: seed ^ 0x5851F42D4C957F2D}
	r.s = r.Uint64() ^ (seed * 0xD6E8FEB86659FD93)
	return r
}
func (r *RNG) Uint64() uint64 {
	r.s += 0x9E3779B97F4A7C15
	z := r.s
	z = (z ^ (z >> 30)) * 0xBF58476D1CE4E5B9
	z = (z ^ (z >> 27)) * 0x94D049BB133111EB
	return z ^ (z >> 31)
}
func (r *RNG) Intn(n int) int {
	if n <= 0 {
		return 0
	}
	return int(r.Uint64() % uint64(n))
}
func (r *RNG) Bool() bool      { return r.Uint64()&1 == 1 }
func (r *RNG) Chance(p int) bool { return r.Intn(100) < p } // p percent
func (r *RNG) Bytes(n int) []byte {
	b := make([]byte, n)
	for i := range b {
		b[i] = byte(r.Uint64())
	}
	return b
}
func (r *RNG) Pick(n int) int { return r.Intn(n) }

// Fork derives an independent stream (so sub-generators do not perturb each other).
func (r *RNG) Fork() *RNG { return NewRNG(r.Uint64()) }

// ---------------------------------------------------------------- hex

func Hex(b []byte) string { return "0x" + hex.EncodeToString(b) }
func UnHex(s string) []byte {
	s = strings.TrimPrefix(s, "0x")
	b, err := hex.DecodeString(s)
	if err != nil {
		panic("vh.UnHex: " + err.Error() + ": " + s)
	}
	return b
}

// ---------------------------------------------------------------- model process

type Model struct {
	cmd *exec.Cmd
	in  io.WriteCloser
	out *bufio.Reader
}

func (c *Ctx) StartModel() *Model {
	if c.ModelBin == "" {
		c.Fatal("no -model binary given")
	}
	// the extracted model recurses on lists (non tail-recursive): give it a large stack
	cmd := exec.Command("sh", "-c", "ulimit -s 4000000 2>/dev/null || ulimit -s unlimited 2>/dev/null; exec \"$0\"", c.ModelBin)
	in, _ := cmd.StdinPipe()
	out, _ := cmd.StdoutPipe()
	cmd.Stderr = os.Stderr
	if err := cmd.Start(); err != nil {
		c.Fatal("cannot start model: %v", err)
	}
	return &Model{cmd, in, bufio.NewReaderSize(out, 1<<20)}
}

// Ask sends one request line and returns the one-line answer.
func (m *Model) Ask(line string) string {
	if _, err := io.WriteString(m.in, line+"\n"); err != nil {
		return "model-dead " + err.Error()
	}
	s, err := m.out.ReadString('\n')
	if err != nil {
		return "model-dead " + err.Error()
	}
	return strings.TrimRight(s, "\n")
}

// AskAll pipelines many requests (writer goroutine + reader), preserving order.
func (m *Model) AskAll(lines []string) []string {
	res := make([]string, len(lines))
	done := make(chan struct{})
	go func() {
		w := bufio.NewWriterSize(m.in, 1<<20)
		for _, l := range lines {
			w.WriteString(l)
			w.WriteByte('\n')
		}
		w.Flush()
		close(done)
	}()
	for i := range lines {
		s, err := m.out.ReadString('\n')
		if err != nil {
			res[i] = "model-dead " + err.Error()
			continue
		}
		res[i] = strings.TrimRight(s, "\n")
	}
	<-done
	return res
}

func (m *Model) Close() {
	m.in.Close()
	m.cmd.Wait()
}

// CatchPanic runs f and reports whether it panicked (and with what).
func CatchPanic(f func()) (panicked bool, val interface{}) {
	defer func() {
		if r := recover(); r != nil {
			panicked, val = true, r
		}
	}()
	f()
	return false, nil
}
