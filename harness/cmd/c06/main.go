// c06: correspondence between core.ApplyTransaction / StateProcessor.Process and
// the Coq model coq/Tx/Transition.v, plus the direct oracle for property C06
// (exact charging, nonce, gas accounting, failure leaves only fees, invalid
// transactions invalidate the block, receipt format).
package main

import (
	"context"
	"fmt"
	"math/big"
	"strings"

	"gitlab.com/aquachain/aquachain/aquadb"
	"gitlab.com/aquachain/aquachain/common"
	"gitlab.com/aquachain/aquachain/consensus/aquahash"
	"gitlab.com/aquachain/aquachain/common/log"
	"gitlab.com/aquachain/aquachain/core"
	"gitlab.com/aquachain/aquachain/core/types"
	"gitlab.com/aquachain/aquachain/core/vm"
	"gitlab.com/aquachain/aquachain/crypto"
	"gitlab.com/aquachain/aquachain/params"
	. "gitlab.com/aquachain/aquachain/verifharness/cmd/c06/txlib"
	"gitlab.com/aquachain/aquachain/verifharness/vh"
)

var (
	keyA, _  = crypto.HexToBtcec("b71c71a67e1177ad4e901695e1b4b9ee17ae16c6668d313eac2f96dbcda3f291")
	keyB, _  = crypto.HexToBtcec("8a1f9a8f95be41cd7ccb6168179afb4504aefe388d1e14474d32c45c72ce7b7a")
	addrA    = crypto.PubkeyToAddress(keyA.PubKey())
	addrB    = crypto.PubkeyToAddress(keyB.PubKey())
	coinbase = common.HexToAddress("0xc01bba5e00000000000000000000000000000001")
	sink     = common.HexToAddress("0x5111c00000000000000000000000000000000002")
	fresh    = common.HexToAddress("0xf7e5400000000000000000000000000000000003")
	callee   = common.HexToAddress("0xca11ee0000000000000000000000000000000004")
	inner    = common.HexToAddress("0x1111e70000000000000000000000000000000005")
	inner2   = common.HexToAddress("0x2222e70000000000000000000000000000000006")
	drvAddr  = common.HexToAddress("0xd71ce70000000000000000000000000000000007")
	loopAddr = common.HexToAddress("0x100be70000000000000000000000000000000008")
)

// scenario = what the transaction calls / creates
type scenario struct {
	name     string
	create   bool
	to       common.Address
	code     []byte          // callee code (calls) or init code (creations)
	storage  map[byte]byte   // callee storage
	calleeBal *big.Int
	extra    []Acct          // additional accounts
	needGas  uint64          // execution gas that is certainly enough
	loopCreate bool          // the callee CREATEs in a loop: its creation addresses belong to the universe
	wantCounter *uint64      // refund counter the execution must end with when it runs to completion (independent expectation)
	byzOnly  bool            // uses REVERT
}

func scenarios(sender common.Address, senderNonce uint64) []scenario {
	A := func() *Asm { return &Asm{} }
	clear := func(k, r int) scenario {
		st := map[byte]byte{}
		a := A()
		for i := 0; i < k; i++ {
			st[byte(i)] = 1
			a.SStore(uint64(i), 0)
		}
		for i := 0; i < r; i++ {
			st[byte(k+i)] = 1
			a.SStore(uint64(k+i), 2)
		}
		return scenario{name: fmt.Sprintf("sstore-clear%d-reset%d", k, r), to: callee, code: a.Op(STOP).B, storage: st, needGas: 100000}
	}
	createdAddr := crypto.CreateAddress(sender, senderNonce)
	base := []scenario{
		{name: "eoa-fresh", to: fresh, needGas: 0},
		{name: "eoa-existing", to: sink, needGas: 0},
		{name: "to-self", to: sender, needGas: 0},
		{name: "to-coinbase", to: coinbase, needGas: 0},
		{name: "precompile-identity", to: common.BytesToAddress([]byte{4}), needGas: 1000},
		{name: "precompile-ripemd", to: common.BytesToAddress([]byte{3}), needGas: 2000},
		{name: "precompile-sha256", to: common.BytesToAddress([]byte{2}), needGas: 1000},
		{name: "sstore-set", to: callee, code: A().SStore(0, 1).Op(STOP).B, needGas: 30000},
		{name: "revert", to: callee, code: A().SStore(0, 1).Push(0).Push(0).Op(REVERT).B, needGas: 30000, byzOnly: true},
		{name: "oog-loop", to: callee, code: A().Op(JUMPDEST).SStore(0, 1).Push(0).Op(JUMP).B, needGas: 60000},
		{name: "invalid-opcode", to: callee, code: A().SStore(0, 1).Op(INVALID).B, needGas: 30000},
		clear(1, 0), clear(3, 0), clear(1, 2), clear(2, 3), clear(7, 0),
		{name: "log-ok", to: callee, code: A().Push(0).Push(0).Op(LOG0).Op(STOP).B, needGas: 5000},
		{name: "log-sstore-then-invalid", to: callee, code: A().Push(0).Push(0).Op(LOG0).SStore(1, 1).Call(0, sink, 1).Op(INVALID).B, calleeBal: big.NewInt(10), needGas: 80000},
		{name: "pay-sink", to: callee, code: A().Call(0, sink, 3).Op(STOP).B, calleeBal: big.NewInt(10), needGas: 60000},
		{name: "pay-back-sender", to: callee, code: A().Push(0).Push(0).Push(0).Push(0).Push(3).Op(CALLER).Push(0).Op(0xf1).Op(STOP).B, calleeBal: big.NewInt(10), needGas: 60000},
		{name: "pay-coinbase", to: callee, code: A().Call(0, coinbase, 3).Op(STOP).B, calleeBal: big.NewInt(10), needGas: 60000},
		{name: "selfdestruct-to-sink", to: callee, code: A().PushAddr(sink).Op(SELFDESTRUCT).B, calleeBal: big.NewInt(10), storage: map[byte]byte{0: 1}, needGas: 60000},
		{name: "selfdestruct-zero-to-fresh", to: callee, code: A().PushAddr(fresh).Op(SELFDESTRUCT).B, needGas: 60000},
		{name: "selfdestruct-to-sender", to: callee, code: A().Op(CALLER).Op(SELFDESTRUCT).B, calleeBal: big.NewInt(10), needGas: 60000},
		{name: "selfdestruct-to-self", to: callee, code: A().Op(ADDRESS).Op(SELFDESTRUCT).B, calleeBal: big.NewInt(10), needGas: 60000},
		{name: "selfdestruct-coinbase-is-callee", to: coinbase, code: A().PushAddr(sink).Op(SELFDESTRUCT).B, calleeBal: big.NewInt(10), needGas: 60000},
		{name: "inner-call-reverts", to: callee, code: A().Call(30000, inner, 2).Op(POP).SStore(2, 1).Op(STOP).B, calleeBal: big.NewInt(10),
			extra: []Acct{{Addr: inner, Code: A().SStore(0, 1).Op(INVALID).B}}, needGas: 120000},
		{name: "inner-create-value", to: callee, code: A().Create(2, A().SStore(0, 1).Op(STOP).B).Op(POP).Op(STOP).B, calleeBal: big.NewInt(10), needGas: 120000},
		// refund counter hazards: refunds earned in a frame that fails must not be credited; SSTORE clears and a
		// SELFDESTRUCT refund together exceed the cap; a second SELFDESTRUCT of the same contract earns nothing
		{name: "refund:inner-clear-then-fail", to: callee, code: A().Call(60000, inner, 0).Op(POP).SStore(2, 1).Op(STOP).B,
			extra: []Acct{{Addr: inner, Code: A().SStore(0, 0).Op(INVALID).B, Storage: map[byte]byte{0: 1}}}, needGas: 150000, wantCounter: u64p(0)},
		{name: "refund:inner-clear-then-revert", to: callee, code: A().Call(60000, inner, 0).Op(POP).SStore(2, 1).Op(STOP).B, byzOnly: true,
			extra: []Acct{{Addr: inner, Code: A().SStore(0, 0).Push(0).Push(0).Op(REVERT).B, Storage: map[byte]byte{0: 1}}}, needGas: 150000, wantCounter: u64p(0)},
		{name: "refund:clear2-and-selfdestruct", to: callee, code: A().SStore(0, 0).SStore(1, 0).PushAddr(sink).Op(SELFDESTRUCT).B,
			storage: map[byte]byte{0: 1, 1: 1}, calleeBal: big.NewInt(10), needGas: 150000, wantCounter: u64p(2*15000 + 24000)},
		{name: "refund:selfdestruct-twice", to: callee, code: A().Call(60000, inner, 0).Op(POP).Call(60000, inner, 1).Op(POP).Call(60000, inner, 0).Op(POP).Op(STOP).B, calleeBal: big.NewInt(10),
			extra: []Acct{{Addr: inner, Code: A().PushAddr(sink).Op(SELFDESTRUCT).B, Bal: big.NewInt(5)}}, needGas: 250000, wantCounter: u64p(24000)},
		{name: "refund:selfdestruct-in-failed-frame", to: callee, code: A().Call(90000, inner2, 0).Op(POP).SStore(2, 1).Op(STOP).B,
			extra: []Acct{{Addr: inner2, Code: A().Call(60000, inner, 0).Op(POP).SStore(0, 0).Op(INVALID).B, Storage: map[byte]byte{0: 1}},
				{Addr: inner, Code: A().PushAddr(sink).Op(SELFDESTRUCT).B, Bal: big.NewInt(5)}}, needGas: 250000, wantCounter: u64p(0)},
		{name: "refund:failed-frame-then-real-clear", to: callee, code: A().Call(60000, inner, 0).Op(POP).SStore(0, 0).Op(STOP).B, storage: map[byte]byte{0: 1},
			extra: []Acct{{Addr: inner, Code: A().SStore(0, 0).SStore(1, 0).Op(INVALID).B, Storage: map[byte]byte{0: 1, 1: 1}}}, needGas: 150000, wantCounter: u64p(15000)},
		{name: "create-ok", create: true, code: InitReturning(A().SStore(0, 1).Op(STOP).B), needGas: 60000},
		{name: "create-empty-init", create: true, code: nil, needGas: 1000},
		{name: "create-init-sstore", create: true, code: A().SStore(0, 1).Op(STOP).B, needGas: 60000},
		{name: "create-revert", create: true, code: A().SStore(0, 1).Push(0).Push(0).Op(REVERT).B, needGas: 60000, byzOnly: true},
		{name: "create-invalid", create: true, code: A().SStore(0, 1).Op(INVALID).B, needGas: 60000},
		{name: "create-code-deposit", create: true, code: InitReturningZeros(100), needGas: 20200},
		{name: "create-collision", create: true, code: A().SStore(0, 1).Op(STOP).B, extra: []Acct{{Addr: createdAddr, Nonce: 1}}, needGas: 60000},
		{name: "create-on-funded-address", create: true, code: InitReturning(A().Op(STOP).B), extra: []Acct{{Addr: createdAddr, Bal: big.NewInt(5)}}, needGas: 60000},
	}
	return append(base, loopScenarios()...)
}

// loopScenarios: the callee runs 10..40 iterations of one call-family instruction (CALL, CALLCODE, DELEGATECALL, STATICCALL,
// CREATE) with value 0 / 1 and gas operand 0 (so a value-bearing call runs on the stipend alone), to a callee without
// code, with trivial code, a precompile, or the contract itself: gas must be conserved through every frame
func loopScenarios() []scenario {
	A := func() *Asm { return &Asm{} }
	trivial := inner2 // holds `STOP`
	type tgt struct {
		name string
		a    common.Address
	}
	tgts := []tgt{{"no-code", sink}, {"trivial-code", trivial}, {"precompile", common.BytesToAddress([]byte{4})}, {"self", callee}, {"missing", fresh}}
	var out []scenario
	k := 0
	loop := func(body func(a *Asm), n uint64) []byte {
		a := A().Push(n).Op(JUMPDEST) // counter; loop head at offset 2
		body(a)
		return a.Push(1).Op(0x90, 0x03, 0x80).Push(2).Op(JUMPI, STOP).B // PUSH1 1 SWAP1 SUB DUP1 PUSH1 2 JUMPI STOP
	}
	for _, op := range []struct {
		name string
		code byte
		val  bool
	}{{"CALL", 0xf1, true}, {"CALLCODE", 0xf2, true}, {"DELEGATECALL", 0xf4, false}, {"STATICCALL", 0xfa, false}} {
		for _, t := range tgts {
			for _, v := range []uint64{0, 1} {
				if v == 1 && !op.val {
					continue
				}
				if t.name == "self" && v == 0 && op.code == 0xf1 {
					continue // unbounded recursion through the gas operand is not the point here
				}
				k++
				n := uint64(10 + (k*7)%31)
				opc, target, val, hasVal := op.code, t.a, v, op.val
				code := loop(func(a *Asm) {
					a.Push(0).Push(0).Push(0).Push(0)
					if hasVal {
						a.Push(val)
					}
					a.PushAddr(target).Push(0).Op(opc).Op(POP)
				}, n)
				out = append(out, scenario{name: fmt.Sprintf("loop:%s:value=%d:%s:x%d", op.name, v, t.name, n), to: callee, code: code, calleeBal: big.NewInt(100),
					extra: []Acct{{Addr: trivial, Code: []byte{STOP}}}, needGas: 40*36000 + 20000, loopCreate: false})
			}
		}
	}
	for _, v := range []uint64{0, 1} {
		k++
		n := uint64(10 + (k*7)%31)
		val := v
		code := loop(func(a *Asm) { a.Create(val, A().Op(STOP).B).Op(POP) }, n)
		out = append(out, scenario{name: fmt.Sprintf("loop:CREATE:value=%d:x%d", v, n), to: callee, code: code, calleeBal: big.NewInt(100), needGas: 41*60000, loopCreate: true})
	}
	return out
}

func u64p(x uint64) *uint64 { return &x }

type cfgChoice struct {
	cfg  Cfg
	num  uint64
	name string
}

func cfgChoices() []cfgChoice {
	b := func(x int64) *big.Int { return big.NewInt(x) }
	return []cfgChoice{
		{Builtin(4), 9, "test@9(byzantium)"},
		{Builtin(5), 1, "all@1(byzantium)"},
		{Builtin(0), 36050, "mainnet@36050(byzantium)"},
		{Builtin(0), 36049, "mainnet@36049(pre-byzantium)"},
		{Builtin(0), 100, "mainnet@100(pre-byzantium)"},
		{Builtin(1), 24, "testnet@24(pre-byzantium)"},
		{Builtin(1), 25, "testnet@25(byzantium)"},
		{Custom(b(0), b(10), b(20), nil, nil), 15, "custom eip158@10 byz@20 @15"},
		{Custom(b(0), b(10), b(20), nil, nil), 5, "custom eip158@10 byz@20 @5"},
		{Custom(b(0), b(10), b(20), nil, nil), 20, "custom eip158@10 byz@20 @20"},
	}
}

type txCase struct {
	cc       cfgChoice
	sc       scenario
	pool     uint64
	cum      uint64
	world    []Acct
	u        Universe
	key      int // 0 = A
	sender   common.Address
	stNonce  uint64
	txNonce  uint64
	price    *big.Int
	value    *big.Int
	limit    uint64
	fullRun  bool // the gas limit is certainly enough for the scenario to run to completion
	data     []byte
	bal      *big.Int
	coinbase common.Address
	class    string
	emptyMask int // which of the candidate accounts exist-but-empty in the pre-state
}

func pickBig(c *vh.Ctx, xs ...*big.Int) *big.Int { return xs[c.Rng.Intn(len(xs))] }

// own evaluation of the intrinsic-gas clause (from the property: base + per-byte costs)
func intrinsicSpec(data []byte, create bool) uint64 {
	g := uint64(21000)
	if create {
		g = 53000
	}
	for _, b := range data {
		if b == 0 {
			g += 4
		} else {
			g += 68
		}
	}
	return g
}

func genCase(c *vh.Ctx) *txCase {
	r := c.Rng
	k := &txCase{sender: addrA, coinbase: coinbase}
	ccs := cfgChoices()
	k.cc = ccs[r.Intn(len(ccs))]
	byz := k.cc.cfg.C.IsByzantium(new(big.Int).SetUint64(k.cc.num))
	// nonce lattice
	switch r.Intn(40) {
	case 0, 1, 2:
		k.stNonce = 7
	case 3, 4, 5:
		k.stNonce = 1
	case 6:
		k.stNonce = ^uint64(0) // the largest nonce an account can hold
	default:
		k.stNonce = 0
	}
	scs := scenarios(k.sender, k.stNonce)
	for {
		k.sc = scs[r.Intn(len(scs))]
		if !k.sc.byzOnly || byz || r.Intn(4) == 0 { // pre-Byzantium REVERT is an invalid opcode: keep a few
			break
		}
	}
	nclass := "nonce="
	switch r.Intn(10) {
	case 0:
		k.txNonce = k.stNonce + 1
		nclass += "+1"
	case 1:
		if k.stNonce > 0 {
			k.txNonce = k.stNonce - 1
			nclass += "-1"
		} else {
			k.txNonce = k.stNonce
			nclass += "ok"
		}
	default:
		k.txNonce = k.stNonce
		nclass += "ok"
	}
	// price / value
	k.price = pickBig(c, big.NewInt(0), big.NewInt(1), big.NewInt(1), big.NewInt(1000000000), Big("18446744073709551619"))
	k.value = pickBig(c, big.NewInt(0), big.NewInt(0), big.NewInt(1), big.NewInt(7), Big("1000000000000000000"))
	// data
	if k.sc.create {
		k.data = k.sc.code
	} else {
		n := []int{0, 0, 1, 2, 5, 33}[r.Intn(6)]
		k.data = make([]byte, n)
		for i := range k.data {
			if r.Bool() {
				k.data[i] = byte(1 + r.Intn(255))
			}
		}
	}
	intr := intrinsicSpec(k.data, k.sc.create)
	// gas limit lattice
	lclass := "limit="
	switch r.Intn(12) {
	case 0:
		k.limit = intr - 1
		lclass += "intrinsic-1"
	case 1:
		k.limit = intr
		lclass += "intrinsic"
	case 2:
		k.limit = intr + 1
		lclass += "intrinsic+1"
	case 3:
		k.limit = intr + uint64(r.Intn(int(k.sc.needGas)+1))
		lclass += "partial"
	case 4:
		k.limit = intr + k.sc.needGas + 100000
		lclass += "ample"
		k.fullRun = true
	default:
		k.limit = intr + k.sc.needGas
		lclass += "enough"
		k.fullRun = true
	}
	// arithmetic-width lattice: (limit, price) pairs whose products limit*price, used*price and remaining*price land
	// just below / at / just above 2^64 and 2^128 while each factor may or may not fit 64 bits; values near 2^64, 2^128, 2^256
	wide := false
	if r.Intn(4) == 0 {
		wide = true
		two := func(n uint) *big.Int { return new(big.Int).Lsh(big.NewInt(1), n) }
		T := []*big.Int{two(64), two(64), two(128)}[r.Intn(3)]
		enough := intr + k.sc.needGas
		wclass := "width:"
		if r.Bool() {
			// choose the limit, derive the price from the factor that is to cross the boundary
			ls := []uint64{enough, enough, 1 << 31, 1 << 32, 1<<63 - 1}
			if enough <= 32768 {
				ls = append(ls, 32768)
			}
			k.limit = ls[r.Intn(len(ls))]
			f, fname := U(k.limit), "limit*price"
			switch r.Intn(3) {
			case 0:
				f, fname = U(intr), "intrinsic*price"
			case 1:
				if k.limit > intr {
					f, fname = U(k.limit-intr), "(limit-intrinsic)*price"
				}
			}
			k.price = Add(new(big.Int).Div(T, f), big.NewInt(int64(r.Intn(4))-1))
			wclass += fname
		} else {
			// choose the price, derive the limit
			ps := []*big.Int{two(31), two(32), two(48), two(49), two(63), Sub(two(64), big.NewInt(1)), two(64), Add(two(64), big.NewInt(1)), two(128)}
			k.price = ps[r.Intn(len(ps))]
			q := new(big.Int).Div(T, k.price)
			k.limit = enough
			if q.IsUint64() && q.Uint64() >= enough && q.Uint64() < 1<<63 {
				k.limit = q.Uint64() + uint64(r.Intn(3)) - 1
			}
			wclass += "price=2^k,limit~T/price"
		}
		if k.price.Sign() < 0 {
			k.price = big.NewInt(0)
		}
		if T.BitLen() > 65 {
			wclass += "~2^128"
		} else {
			wclass += "~2^64"
		}
		if k.limit > 5000000 && k.sc.name == "oog-loop" {
			k.limit = enough // an endless loop must not be given 2^31 gas
		}
		k.fullRun = k.limit >= enough
		lclass = "limit=wide"
		c.Count(wclass)
	}
	// refund*price and used*price steered exactly: a dry run at price 1 tells the refund and the gas used of this
	// scenario, then the price is set so that refund*price (or used*price) lands at 2^64 / 2^128 -1, +0, +1, +2
	if !wide && r.Intn(12) == 0 && (strings.HasPrefix(k.sc.name, "sstore-clear") || strings.HasPrefix(k.sc.name, "refund:") || r.Intn(4) == 0) {
		k.limit = intr + k.sc.needGas
		k.fullRun = true
		if refund, used, ok := probe(k); ok {
			T := new(big.Int).Lsh(big.NewInt(1), []uint{64, 64, 128}[r.Intn(3)])
			f, fname := used, "used*price"
			if refund > 0 && r.Intn(3) != 0 {
				f, fname = refund, "refund*price"
			}
			k.price = Add(new(big.Int).Div(T, U(f)), big.NewInt(int64(r.Intn(4))-1))
			wide = true
			lclass = "limit=wide"
			c.Count("width:" + fname + "(exact, from a dry run)")
		}
	}
	if r.Intn(8) == 0 {
		one := big.NewInt(1)
		k.value = []*big.Int{Sub(new(big.Int).Lsh(one, 64), one), new(big.Int).Lsh(one, 64), new(big.Int).Lsh(one, 128), Sub(new(big.Int).Lsh(one, 256), one)}[r.Intn(4)]
		c.Count("width:value~2^64/2^128/2^256")
	}
	// pool lattice
	pclass := "pool="
	switch r.Intn(12) {
	case 0:
		k.pool = k.limit - 1
		pclass += "limit-1"
	case 1:
		k.pool = k.limit
		pclass += "limit"
	case 2:
		k.pool = k.limit + 1
		pclass += "limit+1"
	default:
		k.pool = 8000000
		if wide && k.limit+100000 > k.pool {
			k.pool = k.limit + 100000
		}
		pclass += "big"
	}
	if r.Intn(5) == 0 {
		k.cum = 100000
	}
	// balance lattice
	mg := Mul(U(k.limit), k.price)
	bclass := "bal="
	switch r.Intn(14) {
	case 0:
		k.bal = Sub(mg, big.NewInt(1))
		bclass += "lp-1"
	case 1:
		k.bal = mg
		bclass += "lp"
	case 2:
		k.bal = Add(mg, big.NewInt(1))
		bclass += "lp+1"
	case 3:
		k.bal = Sub(Add(mg, k.value), big.NewInt(1))
		bclass += "lp+v-1"
	case 4:
		k.bal = Add(mg, k.value)
		bclass += "lp+v"
	case 5:
		k.bal = Add(Add(mg, k.value), big.NewInt(1))
		bclass += "lp+v+1"
	default:
		k.bal = Add(Add(mg, k.value), Big("5000000000000000000"))
		bclass += "big"
	}
	if k.bal.Sign() < 0 {
		k.bal = big.NewInt(0)
	}
	// sender == coinbase sometimes
	if r.Intn(15) == 0 && k.sc.to != coinbase {
		k.coinbase = k.sender
		bclass += ",coinbase=sender"
	}
	if r.Intn(3) == 0 {
		k.emptyMask = r.Intn(64)
		c.Count("pre-state has empty existing accounts")
	}
	k.finish(byz)
	c.Count("cfg:" + k.cc.name)
	c.Count(nclass)
	c.Count(lclass)
	c.Count(pclass)
	c.Count(bclass)
	c.Count("price:" + k.price.String())
	return k
}

// finish builds the world and the universe of a case whose parameters are chosen
func (k *txCase) finish(byz bool) {
	k.world = []Acct{{Addr: k.sender, Bal: k.bal, Nonce: k.stNonce}, {Addr: sink, Bal: big.NewInt(1000)}}
	if !k.sc.create && (len(k.sc.code) > 0 || k.sc.calleeBal != nil) {
		k.world = append(k.world, Acct{Addr: k.sc.to, Bal: k.sc.calleeBal, Code: k.sc.code, Storage: k.sc.storage})
	}
	k.world = append(k.world, k.sc.extra...)
	// accounts that exist but are empty (left-overs from before EIP-158): recipient, coinbase, precompiles, bystander
	for i, a := range []common.Address{fresh, coinbase, common.BytesToAddress([]byte{2}), common.BytesToAddress([]byte{3}), common.BytesToAddress([]byte{4}), inner} {
		if k.emptyMask&(1<<uint(i)) != 0 {
			present := false
			for _, w := range k.world {
				if w.Addr == a {
					present = true
				}
			}
			if !present {
				k.world = append(k.world, Acct{Addr: a})
			}
		}
	}
	k.u = Universe{k.sender, coinbase, sink, fresh, callee, inner, inner2, common.BytesToAddress([]byte{4}), common.BytesToAddress([]byte{3}), common.BytesToAddress([]byte{2}),
		crypto.CreateAddress(k.sender, k.stNonce), crypto.CreateAddress(callee, 0), crypto.CreateAddress(callee, 1)}
	if k.sc.loopCreate {
		for n := uint64(0); n < 44; n++ {
			k.u = append(k.u, crypto.CreateAddress(callee, n))
		}
	}
	k.u = k.u.Sorted()
	fmtByz := "pre-byz"
	if byz {
		fmtByz = "byz"
	}
	k.class = k.sc.name + "|" + fmtByz
}

// directed cases, run on every seed: the sender holds the largest nonce (2^64-1) and sends a valid
// call / creation (the known finding nonce-wraps-at-max-uint64), on both receipt formats
const nDirected = 14

func directedCase(i int) *txCase {
	ccs := cfgChoices()
	type spec struct {
		cc        int    // index into cfgChoices
		scenario  string
		maxNonce  bool
		value     int64
		extraGas  int64  // gas above intrinsic; -1 = what the scenario needs
		emptyMask int
		tag       string
		price     int64
	}
	specs := []spec{
		{0, "eoa-existing", true, 1, -1, 0, "max-nonce", 1}, {3, "create-ok", true, 1, -1, 0, "max-nonce", 1},
		{2, "sstore-set", true, 1, -1, 0, "max-nonce", 1}, {5, "create-init-sstore", true, 1, -1, 0, "max-nonce", 1},
		// a failing call (precompile out of gas) whose recipient is an existing empty account, after EIP-158: with value ...
		{0, "precompile-identity", false, 1, 5, 1 << 4, "failed-call-existing-empty-recipient", 1},
		// ... and the same on SHA-256
		{7, "precompile-sha256", false, 3, 5, 1 << 2, "failed-call-existing-empty-recipient", 1},
		// a failing call to a recipient that does not exist yet, before EIP-158
		{4, "precompile-sha256", false, 0, 5, 0, "failed-call-missing-recipient-pre-eip158", 1},
		{5, "precompile-identity", false, 0, 5, 0, "failed-call-missing-recipient-pre-eip158", 1},
		// EIP-161 touch cases (theorems C06_finalise_deletion_rule / C06_add_balance_touches / C06_empty_coinbase_deleted,
		// Example C06_touch_cases): zero-value transfer to an existing empty account, after and before EIP-158
		{0, "eoa-fresh", false, 0, -1, 1 << 0, "touch:zero-value-transfer-to-existing-empty", 1},
		{4, "eoa-fresh", false, 0, -1, 1 << 0, "touch:zero-value-transfer-to-existing-empty", 1},
		// zero fee to an existing empty coinbase, after and before EIP-158
		{2, "eoa-existing", false, 1, -1, 1 << 1, "touch:zero-fee-to-existing-empty-coinbase", 0},
		{3, "eoa-existing", false, 1, -1, 1 << 1, "touch:zero-fee-to-existing-empty-coinbase", 0},
		// SELFDESTRUCT paying zero to an existing empty beneficiary
		{0, "selfdestruct-zero-to-fresh", false, 0, -1, 1 << 0, "touch:zero-selfdestruct-payout-to-existing-empty", 1},
		// a failed zero-value call to the existing empty RIPEMD-160 precompile (its reverted touch is kept)
		{0, "precompile-ripemd", false, 0, 5, 1 << 3, "touch:reverted-touch-of-ripemd", 1},
	}
	sp := specs[i%len(specs)]
	k := &txCase{sender: addrA, coinbase: coinbase, cc: ccs[sp.cc], price: big.NewInt(sp.price), value: big.NewInt(sp.value), pool: 8000000, emptyMask: sp.emptyMask}
	if sp.maxNonce {
		k.stNonce, k.txNonce = ^uint64(0), ^uint64(0)
	}
	for _, sc := range scenarios(k.sender, k.stNonce) {
		if sc.name == sp.scenario {
			k.sc = sc
		}
	}
	if k.sc.create {
		k.data = k.sc.code
	} else {
		k.data = []byte{1, 0, 2}
	}
	k.limit = intrinsicSpec(k.data, k.sc.create) + k.sc.needGas
	if sp.extraGas >= 0 {
		k.limit = intrinsicSpec(k.data, k.sc.create) + uint64(sp.extraGas)
	}
	k.fullRun = sp.extraGas < 0
	k.bal = Add(Mul(U(k.limit), k.price), Big("5000000000000000000"))
	k.finish(k.cc.cfg.C.IsByzantium(new(big.Int).SetUint64(k.cc.num)))
	k.class = "directed:" + sp.tag + ":" + k.class
	return k
}

// code-deposit boundary family, run on every seed: a contract creation with value > 0 whose init code returns N bytes
// (N in {1,10,100}); the creation is first run with ample gas to measure gasUsed_ok, then re-run from the same
// pre-state with gas limits in a window around the 200*N code-deposit boundary (init code completes, the deposit
// cannot be paid: ErrCodeStoreOutOfGas), on every (configuration, height) point of cfgChoices
var depositNs = []uint64{1, 10, 100}

const depositSteps = 8

func nDeposit() int { return len(cfgChoices()) * len(depositNs) * depositSteps }

func depositCase(c *vh.Ctx, i int) *txCase {
	ccs := cfgChoices()
	step := i % depositSteps
	n := depositNs[(i/depositSteps)%len(depositNs)]
	cc := ccs[(i/(depositSteps*len(depositNs)))%len(ccs)]
	k := &txCase{sender: addrA, coinbase: coinbase, cc: cc, price: big.NewInt(2), value: big.NewInt(1000), pool: 8000000}
	k.sc = scenario{name: fmt.Sprintf("create-code-deposit-%d", n), create: true, code: InitReturningZeros(n), needGas: 200*n + 1000}
	k.data = k.sc.code
	k.limit = intrinsicSpec(k.data, true) + k.sc.needGas + 50000
	_, usedOK, ok := probe(k)
	if !ok || usedOK <= intrinsicSpec(k.data, true)+200*n {
		c.Violate("deposit-probe-failed/"+k.sc.name, fmt.Sprintf("the creation with ample gas did not complete as expected (used %d)", usedOK), map[string]interface{}{"cfg": cc.name})
		usedOK = k.limit
	}
	d := 200 * n
	offs := []uint64{d + 1, d, d - 1, d / 2, 2, 1, 0}
	if step < len(offs) {
		k.limit = usedOK - offs[step]
	} else {
		k.limit = usedOK + 1
	}
	k.fullRun = k.limit >= usedOK
	k.bal = Add(Mul(U(k.limit), k.price), Big("5000000000000000000"))
	k.finish(k.cc.cfg.C.IsByzantium(new(big.Int).SetUint64(k.cc.num)))
	k.class = fmt.Sprintf("deposit:ok%+d:", int64(k.limit)-int64(usedOK)) + k.class
	return k
}

// probe runs the case's transaction once at gas price 1 with ample balance and pool and reports the refund applied
// and the gas used (only used to choose the price of the real case)
func probe(k *txCase) (refund, used uint64, ok bool) {
	p := *k
	p.price, p.txNonce, p.pool, p.cum = big.NewInt(1), k.stNonce, p.limit+1000000, 0
	p.bal = Add(Add(U(p.limit), k.value), Big("1000000000000000000"))
	p.coinbase = coinbase
	p.finish(false)
	sdb := BuildState(p.world)
	gp := new(core.GasPool).AddGas(p.pool)
	var u uint64
	run := ApplyTx(p.cc.cfg.C, nil, p.header(), sdb, gp, &u, p.tx(), 0, p.u)
	if run.Err != nil || run.Panic != nil || !run.T.Ended {
		return 0, 0, false
	}
	return (p.limit - run.Receipt.GasUsed) - run.T.GasLeft, run.Receipt.GasUsed, run.Receipt.GasUsed > 0
}

func (k *txCase) tx() *types.Transaction {
	var tx *types.Transaction
	if k.sc.create {
		tx = types.NewContractCreation(k.txNonce, k.value, k.limit, k.price, k.data)
	} else {
		tx = types.NewTransaction(k.txNonce, k.sc.to, k.value, k.limit, k.price, k.data)
	}
	signer := types.MakeSigner(k.cc.cfg.C, new(big.Int).SetUint64(k.cc.num))
	stx, err := types.SignTx(tx, signer, keyA)
	if err != nil {
		panic(err)
	}
	return stx
}

func (k *txCase) header() *types.Header {
	return &types.Header{Number: new(big.Int).SetUint64(k.cc.num), Coinbase: k.coinbase, GasLimit: 8000000,
		Time: big.NewInt(1000), Difficulty: big.NewInt(1)}
}

func kv(s, key string) string {
	for _, f := range strings.Fields(s) {
		if strings.HasPrefix(f, key+"=") {
			return f[len(key)+1:]
		}
	}
	return ""
}

func stripKeys(s string, keys ...string) string {
	var out []string
	for _, f := range strings.Fields(s) {
		drop := false
		for _, k := range keys {
			if strings.HasPrefix(f, k+"=") {
				drop = true
			}
		}
		if !drop {
			out = append(out, f)
		}
	}
	return strings.Join(out, " ")
}

func outcomeClass(run *TxRun, t *Tracer, traced bool) string {
	switch {
	case run.Err != nil:
		return "err"
	case run.Receipt.Status != types.ReceiptStatusSuccessful:
		return "failed:" + t.Status()
	default:
		return "ok"
	}
}

func runCase(c *vh.Ctx, m *vh.Model, k *txCase) {
	cfg := k.cc.cfg.C
	num := new(big.Int).SetUint64(k.cc.num)
	sdb := BuildState(k.world)
	pre := SnapAll(sdb, k.u)
	preDump := DumpState(sdb, k.u)
	tx := k.tx()
	// the composed model (EVM of Evm/Interp.v inside the transaction model) applies to message calls under the mainnet
	// configuration whose callee is not a precompile (the composed environment has no precompile oracle)
	composed := k.cc.cfg.Token == "b0" && !k.sc.create && !strings.HasPrefix(k.sc.name, "precompile") && !strings.Contains(k.sc.name, ":precompile:") && k.emptyMask&0x1c == 0
	preContent := ""
	if composed {
		preContent = DumpContent(sdb, k.u, true)
	}
	gp := new(core.GasPool).AddGas(k.pool)
	used := k.cum
	run := ApplyTx(cfg, nil, k.header(), sdb, gp, &used, tx, 0, k.u)
	t := run.T
	traced := t.Started && t.Ended
	var observed string
	switch {
	case run.Panic != nil:
		observed = "panic"
	case run.Err != nil:
		observed = "err " + ErrName(run.Err)
	default:
		failed := run.Receipt.Status != types.ReceiptStatusSuccessful
		observed = "ok receipt=" + ReceiptTok(run.Receipt) + " pool=" + HexU(gp.Gas()) + " failed=" + map[bool]string{true: "1", false: "0"}[failed]
		if traced {
			gl := t.GasLeft
			observed += " intrinsic=" + HexU(k.limit-t.GasGiven) + " gasleft=" + HexU(gl) + " refund=" + HexU((k.limit-run.Receipt.GasUsed)-gl)
		}
		observed += " state=" + DumpState(sdb, k.u)
	}
	req := fmt.Sprintf("tx %s %d %s %s %s %s %s %s", k.cc.cfg.Token, k.cc.num, HexAddr(k.coinbase), HexU(k.pool), HexU(k.cum), preDump,
		MsgTok(k.sender, tx), t.Oracle())
	ans := m.Ask(req)
	if !traced {
		ans = stripKeys(ans, "intrinsic", "gasleft", "refund")
	}
	outcome := "ok"
	if run.Err != nil {
		outcome = "err:" + ErrName(run.Err)
	} else if run.Panic != nil {
		outcome = "panic"
	} else if run.Receipt.Status != types.ReceiptStatusSuccessful {
		outcome = "failed:" + t.Status()
		if !traced {
			outcome = "failed:not-run"
		}
	}
	c.Eval(k.class+"|"+outcome, k.class+"|"+outcome+"|"+k.price.String()+"|"+fmt.Sprint(k.limit))
	c.Correspond("core.ApplyTransaction~apply_transaction", req, observed, ans)
	if composed && run.Panic == nil && !t.StepCapHit && !t.StepsExceedGas {
		obsI := observed
		if run.Err == nil {
			obsI = stripKeys(observed, "state") + " state=" + DumpContent(sdb, k.u, false)
		}
		reqI := fmt.Sprintf("txi %d %s %s %s %s %s 8000000 1000 1 400000", k.cc.num, HexAddr(k.coinbase), HexU(k.pool), HexU(k.cum), preContent, MsgTok(k.sender, tx))
		ansI := m.Ask(reqI)
		if !traced {
			ansI = stripKeys(ansI, "intrinsic", "gasleft", "refund")
		}
		c.Correspond("core.ApplyTransaction(with the real EVM)~apply_transaction_i(Tx model + Evm/Interp.v)", reqI, obsI, ansI)
		c.Count("composed:" + outcomeClass(run, t, traced))
	}
	if len(c.Res.Samples) < 6 && c.Res.Evaluations%97 == 0 {
		c.Sample(map[string]string{"request": req, "observed": observed})
	}

	// ------------------------------------------------ direct oracle (independent of the model)
	replay := map[string]interface{}{"request": req, "observed": observed, "scenario": k.sc.name, "cfg": k.cc.name}
	if run.Panic != nil {
		c.Violate("apply-transaction-panic/"+k.sc.name, fmt.Sprintf("core.ApplyTransaction panics: %v", run.Panic), replay)
		return
	}
	mg := Mul(U(k.limit), k.price)
	intr := intrinsicSpec(k.data, k.sc.create)
	var why []string
	if k.txNonce != k.stNonce {
		why = append(why, "wrong-nonce")
	}
	if k.bal.Cmp(mg) < 0 {
		why = append(why, "cannot-prepay-gas")
	} else if Sub(k.bal, mg).Cmp(k.value) < 0 {
		why = append(why, "cannot-pay-value-after-prepay")
	}
	if k.limit < intr {
		why = append(why, "limit-below-intrinsic")
	}
	if k.limit > k.pool {
		why = append(why, "limit-above-pool")
	}
	if len(why) > 0 {
		c.Count("oracle:invalid:" + strings.Join(why, "+"))
		if run.Err == nil {
			c.Violate("invalid-tx-accepted/"+strings.Join(why, "+"), "a transaction that must invalidate the block was applied", replay)
		} else {
			// the state must be untouched as far as consensus goes: the block is dropped, nothing to check
		}
		return
	}
	if run.Err != nil {
		c.Violate("valid-tx-rejected/"+ErrName(run.Err), "a transaction meeting every precondition was rejected", replay)
		return
	}
	rc := run.Receipt
	failed := rc.Status != types.ReceiptStatusSuccessful
	post := SnapAll(sdb, k.u)
	usedGas := rc.GasUsed
	fee := Mul(U(usedGas), k.price)
	recipient := k.sc.to
	if k.sc.create {
		recipient = crypto.CreateAddress(k.sender, k.stNonce)
	}
	// exec's own effect on an account (zero when the execution failed: it was reverted)
	execDelta := func(a common.Address) *big.Int {
		if !traced || failed {
			return new(big.Int)
		}
		return Sub(t.End[a].Bal, t.Start[a].Bal)
	}
	suicided := func(a common.Address) bool {
		for _, x := range t.Suicided {
			if x == a && !failed {
				return true
			}
		}
		return false
	}
	// 0. existence (EIP-161), independent of the model
	deleteEmpty := cfg.IsByzantium(num) || cfg.IsEIP158(num)
	// EIP-161: touched = sender, coinbase, and the recipient unless the execution failed (a reverted touch does not count)
	involved := map[common.Address]bool{k.sender: true, k.coinbase: true}
	if !failed {
		involved[recipient] = true
	}
	for _, a := range k.u {
		p, q := pre[a], post[a]
		execTouched := traced && (!t.Start[a].Eq(t.End[a]) || t.End[a].Dirty != t.Start[a].Dirty || t.End[a].Exists != t.Start[a].Exists)
		switch {
		case deleteEmpty && involved[a] && q.Exists && q.Empty():
			c.Violate("empty-touched-account-survives/"+k.sc.name, "an empty account touched by the transaction still exists after EIP-158: "+a.Hex(), replay)
		case !deleteEmpty && p.Exists && !q.Exists && !suicided(a):
			c.Violate("account-deleted-without-eip158/"+k.sc.name, "an account disappeared before EIP-158 without self-destructing: "+a.Hex(), replay)
		case failed && a == recipient && p.Exists && !q.Exists && k.value.Sign() == 0 && a == common.BytesToAddress([]byte{3}):
			// journal.go keeps a reverted zero-value touch of the RIPEMD-160 precompile on purpose (the Ethereum
			// mainnet consensus quirk of EIP-161); counted, not reported
			c.Count("oracle:ripemd-touch-survives-revert(consensus quirk)")
		case failed && a == recipient && !p.Exists && q.Exists && !deleteEmpty:
			// st.to() does CreateAccount(recipient) before evm.Call takes its snapshot: the new empty account survives the revert
			c.Violate("failed-tx-creates-empty-recipient", "before EIP-158 a failed execution leaves a newly created empty recipient account "+a.Hex()+" in the state (only the fee and the nonce may survive a failure)", replay)
		case failed && a == recipient && !involved[a] && p.Exists && !q.Exists && k.value.Sign() == 0:
			// a reverted zero-value touch must leave the account alone (touchChange.undo): not the known finding
			c.Violate("failed-tx-deletes-empty-recipient-after-zero-value-touch/"+k.sc.name, "a failed zero-value call removed the pre-existing empty recipient "+a.Hex(), replay)
		case failed && a == recipient && !involved[a] && p.Exists && !q.Exists:
			// same root cause as the C09 finding: balanceChange.undo leaves the object in stateObjectsDirty (and the
			// RIPEMD special case keeps a reverted touch), so Finalise deletes an account the failed call only touched
			c.Violate("failed-tx-deletes-empty-recipient", "a failed execution removed the pre-existing empty recipient "+a.Hex()+" from the state (only the fee and the nonce may survive a failure)", replay)
		case !involved[a] && !(execTouched && !failed) && p.Exists != q.Exists:
			c.Violate("untouched-account-existence-changed/"+k.sc.name, "existence of an account the transaction did not touch changed: "+a.Hex(), replay)
		case !q.Exists && !q.Empty():
			c.Violate("content-without-account/"+k.sc.name, "a non-existent account has content: "+a.Hex(), replay)
		}
		if p.Exists && p.Empty() && !q.Exists {
			c.Count("oracle:pre-existing-empty-account-deleted")
		}
		if q.Exists && q.Empty() {
			c.Count("oracle:empty-account-exists-after")
		}
	}
	// 1. nonce
	if pre[k.sender].Nonce == ^uint64(0) && post[k.sender].Nonce == 0 {
		c.Count("oracle:nonce-wrap")
		c.Violate("nonce-wraps-at-max-uint64", "sender nonce 2^64-1 wraps to 0 instead of being incremented (SetNonce(GetNonce()+1) on uint64)", replay)
	} else if post[k.sender].Nonce != pre[k.sender].Nonce+1 {
		c.Violate("nonce-not-incremented-by-one/"+k.sc.name, fmt.Sprintf("sender nonce %d -> %d", pre[k.sender].Nonce, post[k.sender].Nonce), replay)
	}
	// 2. sender pays used*price (+ value iff ok)
	if k.sender != k.coinbase && k.sender != recipient && execDelta(k.sender).Sign() == 0 {
		want := Sub(pre[k.sender].Bal, fee)
		if !failed {
			want = Sub(want, k.value)
		}
		if post[k.sender].Bal.Cmp(want) != 0 {
			c.Violate("sender-charge/"+k.sc.name, fmt.Sprintf("sender balance %s want %s", post[k.sender].Bal, want), replay)
		}
		c.Count("oracle:sender-equation-checked")
	}
	// 3. coinbase is credited used*price
	if k.coinbase != k.sender && k.coinbase != recipient && execDelta(k.coinbase).Sign() == 0 && !suicided(k.coinbase) {
		want := Add(pre[k.coinbase].Bal, fee)
		if post[k.coinbase].Bal.Cmp(want) != 0 {
			c.Violate("coinbase-credit/"+k.sc.name, fmt.Sprintf("coinbase balance %s want %s", post[k.coinbase].Bal, want), replay)
		}
		c.Count("oracle:coinbase-equation-checked")
	}
	// 4. gas accounting
	if usedGas > k.limit {
		c.Violate("gas-used-above-limit/"+k.sc.name, fmt.Sprintf("used %d limit %d", usedGas, k.limit), replay)
	}
	if rc.CumulativeGasUsed != k.cum+usedGas || used != k.cum+usedGas {
		c.Violate("cumulative-gas/"+k.sc.name, fmt.Sprintf("cumulative %d want %d", rc.CumulativeGasUsed, k.cum+usedGas), replay)
	}
	if gp.Gas() != k.pool-usedGas {
		c.Violate("gas-pool/"+k.sc.name, fmt.Sprintf("pool %d want %d", gp.Gas(), k.pool-usedGas), replay)
	}
	if traced {
		if k.limit-t.GasGiven != intr {
			c.Violate("intrinsic-gas/"+k.sc.name, fmt.Sprintf("charged %d want %d", k.limit-t.GasGiven, intr), replay)
		}
		if t.GasLeft > k.limit-intr || t.GasLeft > t.GasGiven {
			c.Violate("tx-gas-left-exceeds-limit/"+k.sc.name, fmt.Sprintf("the execution ended with %d gas, it was given %d (limit %d, intrinsic %d)", t.GasLeft, t.GasGiven, k.limit, intr), replay)
		}
		if t.StepCapHit {
			c.Count("undecided:step-cap-hit")
		}
		if t.StepsExceedGas {
			c.Violate("more-instructions-than-gas/"+k.sc.name, fmt.Sprintf("the transaction executed more than %d instructions with a gas limit of %d (every instruction costs at least 1): run cancelled", t.Steps-1, k.limit), replay)
		}
		if t.GasIncreased != "" {
			c.Violate("frame-gas-increases/"+k.sc.name, "inside one frame the gas available rose between two instructions (a callee handed back more than it was given plus the stipend paid for): "+t.GasIncreased, replay)
		}
		consumed := k.limit - t.GasLeft
		refund := consumed - usedGas
		if consumed < intr || consumed > k.limit || t.GasLeft > t.GasGiven {
			c.Violate("gas-consumed-out-of-range/"+k.sc.name, fmt.Sprintf("consumed %d intrinsic %d limit %d", consumed, intr, k.limit), replay)
		}
		if usedGas > consumed || refund > consumed/2 {
			c.Violate("refund-above-half/"+k.sc.name, fmt.Sprintf("refund %d consumed %d", refund, consumed), replay)
		}
		wantRefund := consumed / 2
		if !failed && t.Refund < wantRefund {
			wantRefund = t.Refund
		}
		if failed {
			wantRefund = 0
		}
		if refund != wantRefund {
			c.Violate("refund-amount/"+k.sc.name, fmt.Sprintf("refund %d want %d (counter %d)", refund, wantRefund, t.Refund), replay)
		}
		if k.sc.wantCounter != nil && k.fullRun && !failed && (!k.sc.byzOnly || cfg.IsByzantium(num)) {
			if t.Refund != *k.sc.wantCounter {
				c.Violate("refund-counter/"+k.sc.name, fmt.Sprintf("refund counter %d at the end of the execution, the scenario earns %d (refunds of failed frames must not count, a contract's second SELFDESTRUCT earns nothing)", t.Refund, *k.sc.wantCounter), replay)
			}
			c.Count("oracle:refund-counter-checked")
		}
		if refund > 0 && refund == consumed/2 {
			c.Count("oracle:refund-at-cap")
		} else if refund > 0 {
			c.Count("oracle:refund-below-cap")
		}
		if failed && t.Status() == "fail" && t.GasLeft != 0 {
			c.Violate("failure-keeps-gas/"+k.sc.name, "non-revert failure left gas", replay)
		}
		if usedGas < intr {
			c.Count("oracle:literal-intrinsic<=gasUsed-is-false(spec-behaviour: refund)")
		}
	}
	// 5. failure leaves only fees
	homestead := cfg.IsHomestead(num)
	if failed && homestead {
		if len(rc.Logs) != 0 {
			c.Violate("failed-tx-keeps-logs/"+k.sc.name, "logs survive a failed execution", replay)
		}
		for _, a := range k.u {
			p, q := pre[a], post[a]
			switch {
			case a == k.sender:
				if q.Code != p.Code || q.Stor != p.Stor {
					c.Violate("failed-tx-leaves-more-than-fees/"+k.sc.name, "sender code/storage changed", replay)
				}
				if a != k.coinbase {
					if q.Bal.Cmp(Sub(p.Bal, fee)) != 0 {
						c.Violate("failed-tx-leaves-more-than-fees/"+k.sc.name, "sender balance not pre - fee", replay)
					}
				} else if q.Bal.Cmp(p.Bal) != 0 {
					c.Violate("failed-tx-leaves-more-than-fees/"+k.sc.name, "sender=coinbase balance changed", replay)
				}
			case a == k.coinbase:
				if q.Code != p.Code || q.Stor != p.Stor || q.Nonce != p.Nonce || q.Bal.Cmp(Add(p.Bal, fee)) != 0 {
					c.Violate("failed-tx-leaves-more-than-fees/"+k.sc.name, "coinbase changed beyond the fee", replay)
				}
			default:
				if !p.Eq(q) {
					c.Violate("failed-tx-leaves-more-than-fees/"+k.sc.name, "account "+a.Hex()+" changed by a failed transaction", replay)
				}
			}
		}
		c.Count("oracle:failed-leaves-only-fees-checked")
	}
	// 6. receipt format
	if cfg.IsByzantium(num) {
		if len(rc.PostState) != 0 {
			c.Violate("receipt-format/byzantium-has-root", "Byzantium receipt carries a root", replay)
		}
	} else {
		root := sdb.IntermediateRoot(cfg.IsEIP158(num))
		if len(rc.PostState) != 32 || common.BytesToHash(rc.PostState) != root {
			c.Violate("receipt-format/pre-byzantium-root", "pre-Byzantium receipt does not carry the intermediate root", replay)
		}
	}
	if k.sc.create && rc.ContractAddress != crypto.CreateAddress(k.sender, k.stNonce) {
		c.Violate("receipt-contract-address/"+k.sc.name, "wrong contract address in receipt", replay)
	}
	// 7. the real state root against a fresh state built from the expected content (only when the
	//    universe-restricted comparison agreed: this catches what that comparison cannot see)
	if observed == ans {
		want, err := ExpectedRoot(sdb, kv(ans, "state"))
		got := sdb.IntermediateRoot(cfg.IsEIP158(num))
		if err != nil || want != got {
			c.Violate("state-root-differs-from-expected-content/"+k.sc.name, fmt.Sprintf("real root %x, root of the expected content %x (%v)", got, want, err), replay)
		}
		c.Count("oracle:state-root-checked")
	}
	// the universe must be complete: nothing outside it holds anything
	_, addrs := Supply(sdb, cfg.IsEIP158(num))
	in := map[common.Address]bool{}
	for _, a := range k.u {
		in[a] = true
	}
	for _, a := range addrs {
		if !in[a] {
			c.Violate("account-outside-universe/"+a.Hex()+"/"+k.sc.name, "the state holds an account that no step of this transaction can have created (every address the scenario can reach is in the compared universe)", replay)
		}
	}
}

// ------------------------------------------------------------------ blocks

type blockCase struct {
	cc     cfgChoice
	world  []Acct
	u      Universe
	txs    []*types.Transaction
	froms  []common.Address
	limit  uint64 // block gas limit
	claimMode string // how the header's GasUsed is tampered: "", "+1", "-1", "zero", "limit"
	class  string
}

func genBlock(c *vh.Ctx) *blockCase {
	r := c.Rng
	ccs := cfgChoices()
	b := &blockCase{cc: ccs[r.Intn(len(ccs))]}
	num := new(big.Int).SetUint64(b.cc.num)
	byz := b.cc.cfg.C.IsByzantium(num)
	signer := types.MakeSigner(b.cc.cfg.C, num)
	A := func() *Asm { return &Asm{} }
	calleeCode := A().SStore(0, 0).SStore(1, 1).Op(STOP).B // clears slot 0 (refund), sets slot 1
	failing := A().SStore(2, 1).Op(INVALID).B
	b.world = []Acct{{Addr: addrA, Bal: Big("1000000000000000000"), Nonce: 3}, {Addr: addrB, Bal: Big("1000000000000000000")},
		{Addr: callee, Code: calleeCode, Storage: map[byte]byte{0: 1}}, {Addr: inner, Code: failing}, {Addr: sink, Bal: big.NewInt(1)}}
	// a target that accepts calls carrying value and self-destructs (to sink) on calls without, clearing a slot first; and a
	// driver that destructs it, funds it, and destructs it three more times: SSTORE-clear + SELFDESTRUCT refunds in one transaction
	target := A().Op(0x34, ISZERO).Push(6).Op(JUMPI, STOP, JUMPDEST).SStore(0, 0).PushAddr(sink).Op(SELFDESTRUCT).B
	driver := A()
	for _, v := range []uint64{0, 5, 0, 0, 0} {
		driver.Call(70000, inner2, v).Op(POP)
	}
	// a contract that loops a value-bearing CALLCODE / CALL (gas operand 0: stipend only) onto an account without code
	lp := A().Push(uint64(12 + r.Intn(25))).Op(JUMPDEST)
	lp.Push(0).Push(0).Push(0).Push(0).Push(1).PushAddr(sink).Push(0).Op([]byte{0xf2, 0xf1}[r.Intn(2)]).Op(POP)
	b.world = append(b.world, Acct{Addr: loopAddr, Code: lp.Push(1).Op(0x90, 0x03, 0x80).Push(2).Op(JUMPI, STOP).B, Bal: big.NewInt(100)})
	b.world = append(b.world, Acct{Addr: inner2, Code: target, Bal: big.NewInt(10), Storage: map[byte]byte{0: 1}}, Acct{Addr: drvAddr, Code: driver.Op(STOP).B, Bal: big.NewInt(30)})
	nonce := map[common.Address]uint64{addrA: 3, addrB: 0}
	n := r.Intn(5) // 0..4 transactions: empty blocks too
	sum := uint64(0)
	var kinds []string
	for i := 0; i < n; i++ {
		from, key := addrA, keyA
		if r.Intn(3) == 0 {
			from, key = addrB, keyB
		}
		price := big.NewInt(int64(r.Intn(3)))
		var tx *types.Transaction
		kind := r.Intn(7)
		limit := uint64(100000)
		switch kind {
		case 0:
			tx = types.NewTransaction(nonce[from], sink, big.NewInt(5), 21000, price, nil)
			limit = 21000
		case 1:
			tx = types.NewTransaction(nonce[from], callee, big.NewInt(0), limit, price, []byte{1, 0})
		case 2:
			tx = types.NewTransaction(nonce[from], inner, big.NewInt(1), limit, price, nil)
		case 6:
			limit = 900000
			tx = types.NewTransaction(nonce[from], loopAddr, big.NewInt(0), limit, big.NewInt(int64(1+r.Intn(2))), nil)
		case 5:
			limit = 500000
			tx = types.NewTransaction(nonce[from], drvAddr, big.NewInt(0), limit, price, nil)
		case 3:
			tx = types.NewContractCreation(nonce[from], big.NewInt(1), limit, price, InitReturning(A().Op(STOP).B))
		default:
			tx = types.NewTransaction(nonce[from], fresh, big.NewInt(0), 21000, price, nil)
			limit = 21000
		}
		kinds = append(kinds, []string{"transfer", "call-clear", "call-fail", "create", "zero-to-fresh", "multi-destruct-driver", "call-family-loop"}[kind])
		// sometimes break the nonce sequence
		if r.Intn(25) == 0 {
			tx = types.NewTransaction(nonce[from]+1, sink, big.NewInt(5), 21000, price, nil)
			kinds[len(kinds)-1] = "nonce-gap"
		}
		stx, err := types.SignTx(tx, signer, key)
		if err != nil {
			panic(err)
		}
		b.txs = append(b.txs, stx)
		b.froms = append(b.froms, from)
		nonce[from]++
		sum += limit
	}
	// block gas limit: ample, or just around the sum of the limits so that the last one hits the pool
	switch r.Intn(4) {
	case 0:
		b.limit = sum - 1
		kinds = append(kinds, "pool-tight")
	case 1:
		b.limit = sum
		kinds = append(kinds, "pool-exact")
	default:
		b.limit = 8000000
	}
	if sum == 0 {
		b.limit = 8000000
	}
	if r.Intn(3) == 0 {
		b.claimMode = []string{"+1", "-1", "zero", "limit"}[r.Intn(4)]
		kinds = append(kinds, "claimed-gas-used:"+b.claimMode)
	}
	b.u = Universe{addrA, addrB, coinbase, sink, fresh, callee, inner, inner2, drvAddr, loopAddr,
		crypto.CreateAddress(addrA, 3), crypto.CreateAddress(addrA, 4), crypto.CreateAddress(addrA, 5), crypto.CreateAddress(addrA, 6), crypto.CreateAddress(addrA, 7),
		crypto.CreateAddress(addrB, 0), crypto.CreateAddress(addrB, 1), crypto.CreateAddress(addrB, 2), crypto.CreateAddress(addrB, 3), crypto.CreateAddress(addrB, 4)}.Sorted()
	fmtByz := "pre-byz"
	if byz {
		fmtByz = "byz"
	}
	b.class = fmt.Sprintf("block[%s]|%s", strings.Join(kinds, ","), fmtByz)
	return b
}

// claimedGas: the GasUsed a (possibly dishonest) header claims
func claimedGas(mode string, trueUsed, limit uint64) uint64 {
	switch mode {
	case "+1":
		return trueUsed + 1
	case "-1":
		return trueUsed - 1 // wraps to 2^64-1 for an empty block
	case "zero":
		return 0
	case "limit":
		return limit
	}
	return trueUsed
}

var chains = map[string]*core.BlockChain{}

func chainFor(cc cfgChoice) *core.BlockChain {
	if bc, ok := chains[cc.cfg.Token]; ok {
		return bc
	}
	bc := NewChain(cc.cfg.C)
	chains[cc.cfg.Token] = bc
	return bc
}

func runBlock(c *vh.Ctx, m *vh.Model, b *blockCase) {
	cfg := b.cc.cfg.C
	num := new(big.Int).SetUint64(b.cc.num)
	bc := chainFor(b.cc)
	header := &types.Header{Number: num, Coinbase: coinbase, GasLimit: b.limit, Time: big.NewInt(1000), Difficulty: big.NewInt(1), Version: cfg.GetBlockVersion(num)}
	// A: transaction by transaction (records the oracle table)
	sdbA := BuildState(b.world)
	preDump := DumpState(sdbA, b.u)
	preSupply, _ := Supply(sdbA, false)
	gp := new(core.GasPool).AddGas(b.limit)
	used := uint64(0)
	var oracles, msgs, rtoks []string
	var receipts types.Receipts
	errIdx, errName := -1, ""
	sumUsed := uint64(0)
	for i, tx := range b.txs {
		run := ApplyTx(cfg, bc, header, sdbA, gp, &used, tx, i, b.u)
		msgs = append(msgs, MsgTok(b.froms[i], tx))
		oracles = append(oracles, run.T.Oracle())
		if run.Panic != nil {
			c.Violate("apply-transaction-panic/block", fmt.Sprintf("panic: %v", run.Panic), map[string]interface{}{"class": b.class})
			return
		}
		if run.Err != nil {
			errIdx, errName = i, ErrName(run.Err)
			break
		}
		receipts = append(receipts, run.Receipt)
		rtoks = append(rtoks, ReceiptTok(run.Receipt))
		sumUsed += run.Receipt.GasUsed
		if run.Receipt.CumulativeGasUsed != sumUsed {
			c.Violate("cumulative-gas/block", fmt.Sprintf("receipt %d cumulative %d, sum of gas used %d", i, run.Receipt.CumulativeGasUsed, sumUsed), map[string]interface{}{"class": b.class})
		}
	}
	for len(msgs) < len(b.txs) {
		i := len(msgs)
		msgs = append(msgs, MsgTok(b.froms[i], b.txs[i]))
		oracles = append(oracles, "-")
	}
	// B: the real StateProcessor.Process on the same pre-state
	sdbB := BuildState(b.world)
	header.GasUsed = claimedGas(b.claimMode, sumUsed, b.limit)
	tampered := header.GasUsed != sumUsed
	block := types.NewBlock(header, b.txs, nil, nil)
	var pr types.Receipts
	var pused uint64
	var perr error
	pan, pv := vh.CatchPanic(func() {
		guard := &StepGuard{Max: b.limit}
		pr, _, pused, perr = bc.Processor().Process(block, sdbB, vm.Config{Debug: true, Tracer: guard})
		if guard.Exceeded {
			c.Violate("more-instructions-than-gas/block", "a transaction of the block executed more instructions than the block gas limit: run cancelled", map[string]interface{}{"class": b.class})
		}
	})
	var observed string
	switch {
	case pan:
		observed = "panic"
		c.Violate("process-panic", fmt.Sprintf("StateProcessor.Process panics: %v", pv), map[string]interface{}{"class": b.class})
	case perr != nil:
		observed = fmt.Sprintf("err %d %s", errIdx, ErrName(perr))
		if errIdx < 0 || ErrName(perr) != errName {
			c.Violate("process-differs-from-apply-loop", "Process failed where the transaction loop did not (or differently)", map[string]interface{}{"class": b.class, "process": perr.Error()})
		}
	default:
		if errIdx >= 0 {
			c.Violate("process-differs-from-apply-loop", "Process succeeded where the transaction loop failed", map[string]interface{}{"class": b.class})
		}
		var ptoks []string
		for _, r := range pr {
			ptoks = append(ptoks, ReceiptTok(r))
		}
		rs := "-"
		if len(ptoks) > 0 {
			rs = strings.Join(ptoks, ";")
		}
		if strings.Join(ptoks, ";") != strings.Join(rtoks, ";") || pused != sumUsed {
			c.Violate("process-differs-from-apply-loop", "receipts / gas of Process differ from the transaction loop", map[string]interface{}{"class": b.class})
		}
		// ValidateState: gas used claimed by the header
		hdr := block.Header()
		hdr.Bloom = types.CreateBloom(pr)
		hdr.ReceiptHash = types.DeriveSha(pr)
		hdr.Root = sdbB.IntermediateRoot(cfg.IsEIP158(num))
		verr := bc.Validator().ValidateState(types.NewBlockWithHeader(hdr), nil, sdbB, pr, pused)
		valid := "1"
		if verr != nil {
			valid = "0"
		}
		if tampered != (verr != nil) {
			c.Violate(fmt.Sprintf("validate-state-gas-used/txs=%d/claim=%s", len(b.txs), b.claimMode), fmt.Sprintf("header claims gas used %d, the receipts sum to %d, ValidateState says %v", header.GasUsed, sumUsed, verr), map[string]interface{}{"class": b.class})
		}
		sumBig := new(big.Int)
		for _, r := range pr {
			sumBig.Add(sumBig, U(r.GasUsed))
			if r.GasUsed > 8000000 {
				c.Violate("receipt-gas-used-above-any-limit/block", fmt.Sprintf("a receipt reports gas used %d", r.GasUsed), map[string]interface{}{"class": b.class})
			}
		}
		if sumBig.Cmp(U(pused)) != 0 || sumBig.Cmp(U(b.limit)) > 0 {
			c.Violate("block-gas-sum-wraps/block", fmt.Sprintf("sum of the receipts' gas used %s (exact), block reports %d, limit %d", sumBig, pused, b.limit), map[string]interface{}{"class": b.class})
		}
		if pused > b.limit {
			c.Violate("block-gas-above-limit", fmt.Sprintf("used %d limit %d", pused, b.limit), map[string]interface{}{"class": b.class})
		}
		postSupply, _ := Supply(sdbB, cfg.IsEIP158(num))
		observed = "ok used=" + HexU(pused) + " valid=" + valid + " receipts=" + rs + " supply=" + HexBig(postSupply) + " state=" + DumpState(sdbB, b.u)
		_ = preSupply
	}
	txs := "-"
	if len(msgs) > 0 {
		txs = strings.Join(msgs, ";")
	}
	orc := "-"
	if len(oracles) > 0 {
		orc = strings.Join(oracles, ";")
	}
	req := fmt.Sprintf("block %s - %d %s %s %s %s %s - %s", b.cc.cfg.Token, b.cc.num, HexAddr(coinbase), HexU(b.limit), HexU(header.GasUsed), preDump, txs, orc)
	ans := m.Ask(req)
	out := "ok"
	if perr != nil {
		out = "err:" + ErrName(perr)
	} else if tampered {
		out = "gas-used-mismatch"
	}
	c.Eval(b.class+"|"+out, b.class+"|"+out)
	c.Correspond("StateProcessor.Process+ValidateState~process", req, observed, ans)
	if observed == ans && perr == nil && !pan {
		want, err := ExpectedRoot(sdbB, kv(ans, "state"))
		got := sdbB.IntermediateRoot(cfg.IsEIP158(num))
		if err != nil || want != got {
			c.Violate("state-root-differs-from-expected-content/block", fmt.Sprintf("real root %x, root of the expected content %x (%v)", got, want, err), map[string]interface{}{"class": b.class, "request": req})
		}
		c.Count("oracle:state-root-checked")
	}
}

// ------------------------------------------------------------------ tampered headers through BlockChain.InsertChain

// runInsert builds a valid block 1 with 0, 1 or 3 transactions on a genesis holding the world (core.GenerateChain),
// re-seals it with a tampered GasUsed (faked proof of work) and offers it to BlockChain.InsertChain: the block must be
// accepted exactly when the claimed gas used is the sum over the receipts.  The model's block_valid is compared on it.
func runInsert(c *vh.Ctx, m *vh.Model, idx int) {
	r := c.Rng
	ccs := []cfgChoice{{Builtin(4), 1, "test@1"}, {Builtin(0), 1, "mainnet@1"}, {Builtin(5), 1, "all@1"}}
	cc := ccs[idx%3]
	cfg := cc.cfg.C
	A := func() *Asm { return &Asm{} }
	world := []Acct{{Addr: addrA, Bal: Big("1000000000000000000"), Nonce: 3}, {Addr: addrB, Bal: Big("1000000000000000000")},
		{Addr: callee, Code: A().SStore(0, 0).SStore(1, 1).Op(STOP).B, Storage: map[byte]byte{0: 1}}, {Addr: inner, Code: A().SStore(2, 1).Op(INVALID).B}, {Addr: sink, Bal: big.NewInt(1)}}
	alloc := core.GenesisAlloc{}
	for _, a := range world {
		ga := core.GenesisAccount{Balance: new(big.Int), Nonce: a.Nonce, Code: a.Code}
		if a.Bal != nil {
			ga.Balance = a.Bal
		}
		if len(a.Storage) > 0 {
			ga.Storage = map[common.Hash]common.Hash{}
			for k, v := range a.Storage {
				ga.Storage[common.BytesToHash([]byte{k})] = common.BytesToHash([]byte{v})
			}
		}
		alloc[a.Addr] = ga
	}
	db := aquadb.NewMemDatabase()
	gspec := &core.Genesis{Config: cfg, Alloc: alloc, GasLimit: 8000000, Difficulty: big.NewInt(1)}
	genesis := gspec.MustCommit(db)
	n := []int{0, 0, 1, 3}[(idx/3)%4]
	mode := []string{"", "+1", "-1", "zero", "limit"}[(idx/12)%5]
	if idx >= 60 {
		n, mode = []int{0, 1, 3}[r.Intn(3)], []string{"", "+1", "-1", "zero", "limit"}[r.Intn(5)]
	}
	signer := types.MakeSigner(cfg, big.NewInt(1))
	var txs []*types.Transaction
	var froms []common.Address
	nonceA := uint64(3)
	for i := 0; i < n; i++ {
		var tx *types.Transaction
		price := big.NewInt(int64(r.Intn(3)))
		switch r.Intn(4) {
		case 0:
			tx = types.NewTransaction(nonceA, sink, big.NewInt(5), 21000, price, nil)
		case 1:
			tx = types.NewTransaction(nonceA, callee, big.NewInt(0), 100000, price, []byte{1, 0})
		case 2:
			tx = types.NewTransaction(nonceA, inner, big.NewInt(1), 100000, price, nil)
		default:
			tx = types.NewContractCreation(nonceA, big.NewInt(1), 100000, price, InitReturning(A().Op(STOP).B))
		}
		stx, err := types.SignTx(tx, signer, keyA)
		if err != nil {
			panic(err)
		}
		txs, froms, nonceA = append(txs, stx), append(froms, addrA), nonceA+1
	}
	var blocks []*types.Block
	if pan, v := vh.CatchPanic(func() {
		blocks, _ = core.GenerateChain(context.Background(), cfg, genesis, aquahash.NewFaker(), db, 1, func(i int, g *core.BlockGen) {
			g.SetCoinbase(coinbase)
			for _, tx := range txs {
				g.AddTx(tx)
			}
		})
	}); pan {
		c.Fatal("GenerateChain panicked: %v", v)
	}
	good := blocks[0]
	trueUsed := good.GasUsed()
	hdr := good.Header()
	hdr.GasUsed = claimedGas(mode, trueUsed, hdr.GasLimit)
	tampered := hdr.GasUsed != trueUsed
	offered := types.NewBlockWithHeader(hdr).WithBody(txs, nil)
	bc, err := core.NewBlockChain(context.Background(), db, nil, cfg, aquahash.NewFaker(), vm.Config{})
	if err != nil {
		c.Fatal("NewBlockChain: %v", err)
	}
	defer bc.Stop()
	var ierr error
	if pan, v := vh.CatchPanic(func() { _, ierr = bc.InsertChain(types.Blocks{offered}) }); pan {
		c.Violate("insert-chain-panic", fmt.Sprintf("InsertChain panics: %v", v), map[string]interface{}{"txs": n, "claim": mode})
		return
	}
	class := fmt.Sprintf("insert|%s|txs=%d|claim=%s", cc.name, n, mode)
	replay := map[string]interface{}{"class": class, "true_gas_used": trueUsed, "claimed_gas_used": hdr.GasUsed, "gas_limit": hdr.GasLimit, "insert_error": fmt.Sprint(ierr)}
	c.Eval(class, class)
	switch {
	case tampered && ierr == nil:
		c.Violate(fmt.Sprintf("tampered-gas-used-accepted/txs=%d/claim=%s", n, mode), fmt.Sprintf("a block of %d transactions whose header claims gas used %d (the receipts sum to %d, gas limit %d) was accepted by InsertChain", n, hdr.GasUsed, trueUsed, hdr.GasLimit), replay)
	case !tampered && ierr != nil:
		c.Violate(fmt.Sprintf("honest-block-rejected/txs=%d", n), "InsertChain rejected a block built by GenerateChain: "+ierr.Error(), replay)
	}
	// the model on the same block: oracle table from a transaction-by-transaction run on the same pre-state
	u := Universe{addrA, addrB, coinbase, sink, fresh, callee, inner, crypto.CreateAddress(addrA, 3), crypto.CreateAddress(addrA, 4), crypto.CreateAddress(addrA, 5)}.Sorted()
	sdb := BuildState(world)
	preDump := DumpState(sdb, u)
	gp := new(core.GasPool).AddGas(hdr.GasLimit)
	used := uint64(0)
	var msgs, oracles []string
	for i, tx := range txs {
		run := ApplyTx(cfg, bc, good.Header(), sdb, gp, &used, tx, i, u)
		if run.Err != nil || run.Panic != nil {
			c.Fatal("insert part: generated transaction failed: %v %v", run.Err, run.Panic)
		}
		msgs, oracles = append(msgs, MsgTok(froms[i], tx)), append(oracles, run.T.Oracle())
	}
	tt, oo := "-", "-"
	if len(msgs) > 0 {
		tt, oo = strings.Join(msgs, ";"), strings.Join(oracles, ";")
	}
	req := fmt.Sprintf("block %s - 1 %s %s %s %s %s - %s", cc.cfg.Token, HexAddr(coinbase), HexU(hdr.GasLimit), HexU(hdr.GasUsed), preDump, tt, oo)
	ans := m.Ask(req)
	mv := kv(ans, "valid")
	if !strings.HasPrefix(ans, "ok ") {
		mv = "0"
	}
	ov := "1"
	if ierr != nil {
		ov = "0"
	}
	c.Correspond("BlockChain.InsertChain~block_valid", req, "valid="+ov, "valid="+mv)
}

func main() {
	c := vh.Init("C06")
	log.Root().SetHandler(log.DiscardHandler())
	m := c.StartModel()
	defer m.Close()
	c.Res.Rule = "single transactions through core.ApplyTransaction over the lattice sender balance {limit*price-1,..,limit*price+value+1,big} x nonce {-1,0,+1} x price {0,1,1e9,2^64+3} x limit {intrinsic-1,intrinsic,intrinsic+1,partial,enough,ample} x pool {limit-1,limit,limit+1,big} x data zero/non-zero mixes x callee program (plain, precompile, SSTORE set/clear at and below the refund cap, REVERT, out-of-gas, invalid, logs then failure, value out to sink/sender/coinbase, SELFDESTRUCT variants, inner failing call, inner CREATE, creations: ok/empty/revert/invalid/code-deposit/collision/funded address) x 10 (config,height) points on both sides of Byzantium; plus blocks of 1-4 transactions from two senders through StateProcessor.Process and ValidateState with tight/exact/ample block gas limits and wrong claimed gas used. A case is distinct by (scenario, receipt format, outcome, price, limit)."
	c.Assume("cumulative gas cannot approach 2^64 inside a block: every transaction's gas limit is taken from the pool, which starts at the header's uint64 gas limit (theorem C06_gas_accounting_block, premise h_gas_limit < 2^64), so that sum is not given a width lattice; limit*price, used*price, remaining*price and value are")
	c.Assume("transactions are signed with valid keys (signature recovery is C12); block numbers, gas price and value are non-negative")
	c.Assume("the direct oracle's 'failed execution leaves only fees' clause is evaluated on Homestead configurations (every built-in configuration has HomesteadBlock = 0)")
	// self-checks of the model's primitives against the implementation
	for i := 0; i < 20; i++ {
		a := common.BytesToAddress(c.Rng.Bytes(20))
		n := c.Rng.Uint64() >> uint(c.Rng.Intn(64))
		c.Correspond("crypto.CreateAddress~create_address", fmt.Sprintf("%s %d", a.Hex(), n), HexAddr(crypto.CreateAddress(a, n)), m.Ask("createaddr "+HexAddr(a)+" "+HexU(n)))
	}
	for i := 0; i < 200; i++ {
		d := make([]byte, c.Rng.Intn(40))
		for j := range d {
			if c.Rng.Bool() {
				d[j] = byte(c.Rng.Intn(256))
			}
		}
		cr, hs := c.Rng.Bool(), c.Rng.Bool()
		g, err := core.IntrinsicGas(d, cr, hs)
		obs := "ok " + HexU(g)
		if err != nil {
			obs = "err"
		}
		b := map[bool]string{true: "1", false: "0"}
		c.Correspond("core.IntrinsicGas~intrinsic_gas", HexBytes(d), obs, m.Ask("intrinsic "+HexBytes(d)+" "+b[cr]+" "+b[hs]))
		if hs && g != intrinsicSpec(d, cr) {
			c.Violate("intrinsic-gas-formula/"+HexBytes(d), "IntrinsicGas differs from base + 68*nonzero + 4*zero", map[string]string{"data": HexBytes(d)})
		}
	}
	_ = params.TxGas
	seed := c.Seed
	one := func(part string, i int) {
		from := len(c.Res.Violations)
		CaseRng(c, seed, part, i)
		switch part {
		case "directed":
			runCase(c, m, directedCase(i))
		case "deposit":
			runCase(c, m, depositCase(c, i))
		case "tx":
			runCase(c, m, genCase(c))
		case "block":
			runBlock(c, m, genBlock(c))
		case "insert":
			runInsert(c, m, i)
		default:
			c.Fatal("unknown replay part %q", part)
		}
		TagViolations(c, from, seed, part, i)
	}
	if rp := LoadReplay(c); rp != nil {
		seed = rp.Seed
		one(rp.Part, rp.Index)
		c.Note("replayed case seed=%d part=%s index=%d", rp.Seed, rp.Part, rp.Index)
		c.Finish()
		return
	}
	for i := 0; i < nDirected; i++ {
		one("directed", i)
	}
	for i := 0; i < nDeposit(); i++ {
		one("deposit", i)
	}
	n := c.Scale(2500, 60000)
	for i := 0; i < n; i++ {
		one("tx", i)
	}
	nb := c.Scale(400, 10000)
	for i := 0; i < nb; i++ {
		one("block", i)
	}
	// indices 0..59 enumerate {3 configurations} x {0,0,1,3 transactions} x {honest,+1,-1,zero,limit}: directed on every seed
	ni := c.Scale(72, 1200)
	for i := 0; i < ni; i++ {
		one("insert", i)
	}
	c.Finish()
}
