package txlib

import (
	"encoding/json"
	"os"

	"gitlab.com/aquachain/aquachain/verifharness/vh"
)

// Every generated case owns a generator derived from (seed, part, index), so a single
// case can be regenerated and re-run alone: that triple is what a replay file records.

func mix64(x uint64) uint64 {
	x ^= x >> 33
	x *= 0xff51afd7ed558ccd
	x ^= x >> 33
	x *= 0xc4ceb9fe1a85ec53
	x ^= x >> 33
	return x
}

// CaseRng installs the generator of case (part, idx) as c.Rng.
func CaseRng(c *vh.Ctx, seed uint64, part string, idx int) {
	h := mix64(seed + 0x9E3779B97F4A7C15)
	for _, b := range []byte(part) {
		h = mix64(h ^ uint64(b))
	}
	c.Rng = vh.NewRNG(mix64(h ^ uint64(idx)*0x2545F4914F6CDD1D))
}

// TagViolations adds (seed, part, index) to the replay object of every violation recorded since `from`.
func TagViolations(c *vh.Ctx, from int, seed uint64, part string, idx int) {
	for i := from; i < len(c.Res.Violations); i++ {
		v := &c.Res.Violations[i]
		m, ok := v.Replay.(map[string]interface{})
		if !ok {
			m = map[string]interface{}{"detail": v.Replay}
		}
		m["seed"], m["part"], m["index"] = seed, part, idx
		m["how"] = "re-run with: ./check " + c.Property + " --replay <this file>  (the harness regenerates case (seed, part, index) and runs only it)"
		v.Replay = m
	}
}

type ReplaySpec struct {
	Seed  uint64 `json:"seed"`
	Part  string `json:"part"`
	Index int    `json:"index"`
}

// LoadReplay reads the file given with -replay (as written by ./check: {"replay": {...}}) — nil when not replaying.
func LoadReplay(c *vh.Ctx) *ReplaySpec {
	if c.Replay == "" {
		return nil
	}
	b, err := os.ReadFile(c.Replay)
	if err != nil {
		c.Fatal("cannot read replay file: %v", err)
	}
	var f struct {
		Replay ReplaySpec `json:"replay"`
	}
	if err := json.Unmarshal(b, &f); err != nil || f.Replay.Part == "" {
		c.Fatal("replay file has no (seed, part, index): %v", err)
	}
	return &f.Replay
}
