// Package txlib is shared by the C06 and C05 harnesses: small in-memory worlds,
// EVM byte-code helpers, the tracer that records what the real EVM did for a
// transaction (the oracle table handed to the Coq model), canonical renderings
// of states / receipts / messages in the line protocol of ocaml/tx/driver.ml.
package txlib

import (
	"bytes"
	"context"
	"fmt"
	"math/big"
	"sort"
	"strings"
	"time"

	"gitlab.com/aquachain/aquachain/aquadb"
	"gitlab.com/aquachain/aquachain/common"
	"gitlab.com/aquachain/aquachain/consensus/aquahash"
	"gitlab.com/aquachain/aquachain/core"
	"gitlab.com/aquachain/aquachain/core/state"
	"gitlab.com/aquachain/aquachain/core/types"
	"gitlab.com/aquachain/aquachain/core/vm"
	"gitlab.com/aquachain/aquachain/crypto"
	"gitlab.com/aquachain/aquachain/params"
)

// ------------------------------------------------------------------ numbers

func HexBig(b *big.Int) string {
	if b.Sign() < 0 {
		return "-0x" + new(big.Int).Neg(b).Text(16)
	}
	return "0x" + b.Text(16)
}
func HexU(u uint64) string             { return fmt.Sprintf("0x%x", u) }
func AddrN(a common.Address) *big.Int  { return new(big.Int).SetBytes(a.Bytes()) }
func HexAddr(a common.Address) string  { return HexBig(AddrN(a)) }
func Big(s string) *big.Int            { b, _ := new(big.Int).SetString(s, 0); return b }
func U(u uint64) *big.Int              { return new(big.Int).SetUint64(u) }
func Mul(a, b *big.Int) *big.Int       { return new(big.Int).Mul(a, b) }
func Add(a, b *big.Int) *big.Int       { return new(big.Int).Add(a, b) }
func Sub(a, b *big.Int) *big.Int       { return new(big.Int).Sub(a, b) }
func HexBytes(b []byte) string         { return "0x" + common.Bytes2Hex(b) }

// ------------------------------------------------------------------ byte code

type Asm struct{ B []byte }

func (a *Asm) Op(ops ...byte) *Asm { a.B = append(a.B, ops...); return a }
func (a *Asm) Push(v uint64) *Asm {
	b := new(big.Int).SetUint64(v).Bytes()
	if len(b) == 0 {
		b = []byte{0}
	}
	a.B = append(a.B, byte(0x60+len(b)-1))
	a.B = append(a.B, b...)
	return a
}
func (a *Asm) PushBytes(b []byte) *Asm {
	if len(b) == 0 || len(b) > 32 {
		panic("PushBytes size")
	}
	a.B = append(a.B, byte(0x60+len(b)-1))
	a.B = append(a.B, b...)
	return a
}
func (a *Asm) PushAddr(x common.Address) *Asm { return a.PushBytes(x.Bytes()) }

// SStore(slot, val)
func (a *Asm) SStore(slot, val uint64) *Asm { return a.Push(val).Push(slot).Op(0x55) }

// Call(gas, to, value): CALL with no input/output; result left on the stack
func (a *Asm) Call(gas uint64, to common.Address, value uint64) *Asm {
	return a.Push(0).Push(0).Push(0).Push(0).Push(value).PushAddr(to).Push(gas).Op(0xf1)
}

// Create(value, initcode): stores initcode (<=32 bytes) in memory and CREATEs
func (a *Asm) Create(value uint64, init []byte) *Asm {
	if len(init) > 32 {
		panic("init too long")
	}
	pad := make([]byte, 32)
	copy(pad, init) // left-aligned at memory 0
	return a.PushBytes(pad).Push(0).Op(0x52).Push(uint64(len(init))).Push(0).Push(value).Op(0xf0)
}

const (
	STOP = 0x00; POP = 0x50; JUMP = 0x56; JUMPDEST = 0x5b; CALLER = 0x33; ADDRESS = 0x30; COINBASE = 0x41
	LOG0 = 0xa0; RETURN = 0xf3; REVERT = 0xfd; INVALID = 0xfe; SELFDESTRUCT = 0xff; ISZERO = 0x15; JUMPI = 0x57
)

// InitReturning builds init code that deploys `runtime` (any length up to 255) by CODECOPY
func InitReturning(runtime []byte) []byte {
	a := &Asm{}
	// PUSH1 len PUSH1 off PUSH1 0 CODECOPY PUSH1 len PUSH1 0 RETURN ; off = 12
	a.Push(uint64(len(runtime))).Push(12).Push(0).Op(0x39).Push(uint64(len(runtime))).Push(0).Op(RETURN)
	for len(a.B) < 12 {
		a.Op(STOP)
	}
	return append(a.B, runtime...)
}

// InitReturningZeros returns n bytes of zero memory as the deployed code (code-deposit cost 200*n)
func InitReturningZeros(n uint64) []byte {
	return (&Asm{}).Push(n).Push(0).Op(RETURN).B
}

// ------------------------------------------------------------------ worlds

type Acct struct {
	Addr    common.Address
	Bal     *big.Int
	Nonce   uint64
	Code    []byte
	Storage map[byte]byte // slot -> value, slots < 8
}

func NewMemState() *state.StateDB {
	sdb, err := state.New(common.Hash{}, state.NewDatabase(aquadb.NewMemDatabase()))
	if err != nil {
		panic(err)
	}
	return sdb
}

func BuildState(w []Acct) *state.StateDB {
	sdb := NewMemState()
	for _, a := range w {
		sdb.CreateAccount(a.Addr) // also gives empty accounts an existence
		if a.Bal != nil {
			sdb.SetBalance(a.Addr, new(big.Int).Set(a.Bal))
		}
		sdb.SetNonce(a.Addr, a.Nonce)
		if len(a.Code) > 0 {
			sdb.SetCode(a.Addr, a.Code)
		}
		for k, v := range a.Storage {
			sdb.SetState(a.Addr, common.BytesToHash([]byte{k}), common.BytesToHash([]byte{v}))
		}
	}
	// settle: commit so that storage is in the tries and the journal is clear
	root, err := sdb.Commit(false)
	if err != nil {
		panic(err)
	}
	sdb2, err := state.New(root, sdb.Database())
	if err != nil {
		panic(err)
	}
	return sdb2
}

// Snap is the model's view of one account.
type Snap struct {
	Exists bool // StateDB.Exist
	Dirty  bool // member of stateObjectsDirty (hook of the C09 package)
	Bal   *big.Int
	Nonce uint64
	Code  uint64 // first 8 bytes of the code hash, 0 when there is no code
	Stor  uint64 // digest of slots 0..7, 0 when all are zero
}

func (s Snap) Empty() bool { return s.Bal.Sign() == 0 && s.Nonce == 0 && s.Code == 0 && s.Stor == 0 }
func (s Snap) Eq(o Snap) bool {
	return s.Bal.Cmp(o.Bal) == 0 && s.Nonce == o.Nonce && s.Code == o.Code && s.Stor == o.Stor
}

var emptyCodeHash = crypto.Keccak256Hash(nil)

func u64of(b []byte) uint64 {
	var x uint64
	for i := 0; i < 8; i++ {
		x = x<<8 | uint64(b[i])
	}
	if x == 0 {
		x = 1
	}
	return x
}

func SnapOf(sdb vm.StateDB, a common.Address) Snap {
	s := Snap{Bal: new(big.Int).Set(sdb.GetBalance(a)), Nonce: sdb.GetNonce(a), Exists: sdb.Exist(a)}
	if full, ok := sdb.(*state.StateDB); ok {
		s.Dirty = full.VerifIsDirty(a)
	}
	ch := sdb.GetCodeHash(a)
	if ch != (common.Hash{}) && ch != emptyCodeHash {
		s.Code = u64of(ch[:])
	}
	var buf []byte
	nz := false
	for i := 0; i < 8; i++ {
		v := sdb.GetState(a, common.BytesToHash([]byte{byte(i)}))
		if v != (common.Hash{}) {
			nz = true
		}
		buf = append(buf, v[:]...)
	}
	if nz {
		s.Stor = u64of(crypto.Keccak256(buf))
	}
	return s
}

type Universe []common.Address

func (u Universe) Sorted() Universe {
	seen := map[common.Address]bool{}
	var out Universe
	for _, a := range u {
		if !seen[a] {
			seen[a] = true
			out = append(out, a)
		}
	}
	sort.Slice(out, func(i, j int) bool { return bytes.Compare(out[i][:], out[j][:]) < 0 })
	return out
}

func SnapAll(sdb vm.StateDB, u Universe) map[common.Address]Snap {
	m := make(map[common.Address]Snap, len(u))
	for _, a := range u {
		m[a] = SnapOf(sdb, a)
	}
	return m
}

func snapTok(a common.Address, s Snap) string {
	return HexAddr(a) + ":" + HexBig(s.Bal) + ":" + HexU(s.Nonce) + ":" + HexU(s.Code) + ":" + HexU(s.Stor)
}

// DumpState renders the state over the universe exactly as ocaml/tx/driver.ml dump_exact does:
// every EXISTING account (also the empty ones), sorted by address.
func DumpState(sdb vm.StateDB, u Universe) string {
	var parts []string
	for _, a := range u.Sorted() {
		s := SnapOf(sdb, a)
		if s.Exists {
			parts = append(parts, snapTok(a, s))
		} else if !s.Empty() {
			parts = append(parts, snapTok(a, s)+"!nonexistent-with-content")
		}
	}
	if len(parts) == 0 {
		return "-"
	}
	return strings.Join(parts, ",")
}

// DumpStateLoose drops empty accounts (driver.ml dump_state): for requests that carry no existence information.
func DumpStateLoose(sdb vm.StateDB, u Universe) string {
	var parts []string
	for _, a := range u.Sorted() {
		s := SnapOf(sdb, a)
		if !s.Empty() {
			parts = append(parts, snapTok(a, s))
		}
	}
	if len(parts) == 0 {
		return "-"
	}
	return strings.Join(parts, ",")
}

// ExpectedRoot builds a FRESH state from the content the model expects (its `state=` dump: existing accounts
// with balance, nonce, code digest, storage digest) and returns its root.  Code and the eight modelled storage
// slots are copied from the real state when their digests agree with the expected ones (otherwise they are
// left out, so the roots differ).  Equality with the real root means the whole real state — every account of
// the trie, every storage slot — is exactly the expected content.
func ExpectedRoot(real *state.StateDB, dump string) (common.Hash, error) {
	sdb := NewMemState()
	if i := strings.Index(dump, " "); i >= 0 {
		dump = dump[:i]
	}
	if dump != "-" && dump != "" {
		for _, e := range strings.Split(dump, ",") {
			f := strings.Split(e, ":")
			if len(f) != 5 {
				return common.Hash{}, fmt.Errorf("bad dump entry %q", e)
			}
			a := common.BigToAddress(Big(f[0]))
			bal, nonce, code, stor := Big(f[1]), Big(f[2]), Big(f[3]), Big(f[4])
			if bal == nil || nonce == nil || code == nil || stor == nil || bal.Sign() < 0 {
				return common.Hash{}, fmt.Errorf("bad dump entry %q", e)
			}
			sdb.CreateAccount(a)
			sdb.SetBalance(a, bal)
			sdb.SetNonce(a, nonce.Uint64())
			rs := SnapOf(real, a)
			if code.Sign() != 0 && code.Uint64() == rs.Code {
				sdb.SetCode(a, real.GetCode(a))
			}
			if stor.Sign() != 0 && stor.Uint64() == rs.Stor {
				for i := 0; i < 8; i++ {
					k := common.BytesToHash([]byte{byte(i)})
					if v := real.GetState(a, k); v != (common.Hash{}) {
						sdb.SetState(a, k, v)
					}
				}
			}
		}
	}
	return sdb.Commit(false)
}

// Supply sums every balance of the committed form of the state (RawDump over a finalised copy).
// It also returns the addresses found, so that callers can check their universe is complete.
func Supply(sdb *state.StateDB, deleteEmpty bool) (*big.Int, []common.Address) {
	cp := sdb.Copy()
	cp.IntermediateRoot(deleteEmpty)
	d := cp.RawDump()
	sum := new(big.Int)
	var addrs []common.Address
	for k, acc := range d.Accounts {
		b, ok := new(big.Int).SetString(acc.Balance, 10)
		if !ok {
			panic("bad balance in dump")
		}
		sum.Add(sum, b)
		addrs = append(addrs, common.HexToAddress(k))
	}
	return sum, addrs
}

// ------------------------------------------------------------------ configs

type Cfg struct {
	Token string // b<id> or c:h,e,b,f4,f5
	C     *params.ChainConfig
}

func Builtin(id int) Cfg {
	cs := []*params.ChainConfig{params.MainnetChainConfig, params.TestnetChainConfig, params.Testnet2ChainConfig,
		params.Testnet3ChainConfig, params.TestChainConfig, params.AllAquahashProtocolChanges}
	return Cfg{fmt.Sprintf("b%d", id), cs[id]}
}

func optTok(b *big.Int) string {
	if b == nil {
		return "-"
	}
	return b.String()
}

// Custom builds a configuration with the given fork heights (nil = never).
func Custom(homestead, eip158, byzantium, hf4, hf5 *big.Int) Cfg {
	hf := params.ForkMap{}
	if hf4 != nil {
		hf[4] = hf4
	}
	if hf5 != nil {
		hf[5] = hf5
	}
	c := &params.ChainConfig{ChainId: big.NewInt(1337), HomesteadBlock: homestead, EIP150Block: big.NewInt(0),
		EIP155Block: eip158, EIP158Block: eip158, ByzantiumBlock: byzantium, Aquahash: new(params.AquahashConfig), HF: hf}
	return Cfg{"c:" + optTok(homestead) + "," + optTok(eip158) + "," + optTok(byzantium) + "," + optTok(hf4) + "," + optTok(hf5), c}
}

// ------------------------------------------------------------------ messages

func MsgTok(from common.Address, tx *types.Transaction) string {
	to := "-"
	if tx.To() != nil {
		to = HexAddr(*tx.To())
	}
	return HexAddr(from) + ":" + to + ":" + HexU(tx.Nonce()) + ":" + HexBig(tx.GasPrice()) + ":" + HexU(tx.Gas()) + ":" +
		HexBig(tx.Value()) + ":" + HexBytes(tx.Data()) + ":1"
}

// ------------------------------------------------------------------ tracer = oracle recorder

type Tracer struct {
	Sdb      *state.StateDB
	U        Universe
	TxHash   common.Hash
	Started  bool
	Ended    bool
	GasGiven uint64
	GasLeft  uint64
	Err      error
	Refund   uint64
	Logs     int
	Start    map[common.Address]Snap
	End      map[common.Address]Snap
	Suicided []common.Address
	SawSelfdestruct bool
	SawCreate       bool
	NSelfdestruct   int      // SELFDESTRUCT instructions executed (also in frames that revert later)
	SelfBeneficiary bool     // some SELFDESTRUCT named the destructing contract itself as beneficiary (its balance is burnt)
	TxGas           uint64   // the transaction's gas limit
	Steps           uint64   // instructions executed (all frames)
	StepsExceedGas  bool     // more instructions were executed than the transaction had gas (every instruction costs >= 1): the run was cancelled
	StepCapHit      bool     // the run was cut after StepCap instructions (undecided, not a verdict)
	GasIncreased    string   // non-empty: inside one frame the gas available rose from one instruction to the next (what happened)
	lastGas         map[int]uint64
	lastOp          map[int]vm.OpCode
	BurnAtEnd       *big.Int // sum of the balances that accounts flagged suicided hold when the execution ends (deleted with them)
}

func (t *Tracer) CaptureStart(from common.Address, to common.Address, create bool, input []byte, gas uint64, value *big.Int) error {
	t.Started = true
	t.GasGiven = gas
	t.Start = SnapAll(t.Sdb, t.U)
	return nil
}
func (t *Tracer) CaptureState(env *vm.EVM, pc uint64, op vm.OpCode, gas, cost uint64, memory *vm.Memory, stack *vm.Stack, contract *vm.Contract, depth int, err error) error {
	// every instruction costs at least one unit of gas, so a transaction cannot execute more instructions than its gas limit;
	// if it does, gas is being created somewhere: stop the run (deterministic bound, no clock involved)
	t.Steps++
	if t.TxGas > 0 && t.Steps > t.TxGas && !t.StepsExceedGas {
		t.StepsExceedGas = true
		env.Cancel()
	}
	if t.Steps > StepCap && !t.StepCapHit {
		t.StepCapHit = true // an enormous gas limit: stop after StepCap instructions and count the case as undecided
		env.Cancel()
	}
	// gas conservation inside a frame: every instruction costs something and a callee cannot hand back more than it was
	// given (plus the stipend the caller paid for), so the gas seen at one depth never rises
	if t.lastGas == nil {
		t.lastGas, t.lastOp = map[int]uint64{}, map[int]vm.OpCode{}
	}
	if prev, ok := t.lastGas[depth]; ok && gas > prev && t.GasIncreased == "" {
		t.GasIncreased = fmt.Sprintf("depth %d pc %d: gas %d after %s, %d before it", depth, pc, gas, t.lastOp[depth], prev)
	}
	for d := range t.lastGas {
		if d > depth {
			delete(t.lastGas, d)
			delete(t.lastOp, d)
		}
	}
	t.lastGas[depth], t.lastOp[depth] = gas, op
	if op == vm.SELFDESTRUCT {
		t.SawSelfdestruct = true
		t.NSelfdestruct++
		if d := stack.Data(); len(d) > 0 && common.BigToAddress(d[len(d)-1]) == contract.Address() {
			t.SelfBeneficiary = true
		}
	}
	if op == vm.CREATE {
		t.SawCreate = true
	}
	return nil
}
func (t *Tracer) CaptureFault(env *vm.EVM, pc uint64, op vm.OpCode, gas, cost uint64, memory *vm.Memory, stack *vm.Stack, contract *vm.Contract, depth int, err error) error {
	return nil
}
func (t *Tracer) CaptureEnd(output []byte, gasUsed uint64, d time.Duration, err error) error {
	t.Ended = true
	t.GasLeft = t.GasGiven - gasUsed
	t.Err = err
	t.Refund = t.Sdb.GetRefund()
	t.Logs = len(t.Sdb.GetLogs(t.TxHash))
	t.End = SnapAll(t.Sdb, t.U)
	t.BurnAtEnd = new(big.Int)
	for _, a := range t.U {
		if t.Sdb.HasSuicided(a) {
			t.Suicided = append(t.Suicided, a)
			t.BurnAtEnd.Add(t.BurnAtEnd, t.Sdb.GetBalance(a))
		}
	}
	return nil
}

func (t *Tracer) Status() string {
	switch {
	case t.Err == nil:
		return "ok"
	case t.Err.Error() == "evm: execution reverted":
		return "revert"
	case t.Err == vm.ErrCodeStoreOutOfGas:
		return "csoog"
	default:
		return "fail"
	}
}

// Oracle renders the record for the model: status:gasleft:refund:logs:suicided:delta ("-" when run was never reached).
func (t *Tracer) Oracle() string {
	if !t.Started || !t.Ended {
		return "-"
	}
	su := "-"
	if len(t.Suicided) > 0 {
		var p []string
		for _, a := range Universe(t.Suicided).Sorted() {
			p = append(p, HexAddr(a))
		}
		su = strings.Join(p, "+")
	}
	var d []string
	for _, a := range t.U.Sorted() {
		s, e := t.Start[a], t.End[a]
		if !s.Eq(e) {
			dn := new(big.Int).Sub(U(e.Nonce), U(s.Nonce))
			d = append(d, HexAddr(a)+"/"+HexBig(Sub(e.Bal, s.Bal))+"/"+HexBig(dn)+"/"+HexU(e.Code)+"/"+HexU(e.Stor))
		}
	}
	ds := "-"
	if len(d) > 0 {
		ds = strings.Join(d, "+")
	}
	var cr, di []string
	for _, a := range t.U.Sorted() {
		s, e := t.Start[a], t.End[a]
		if e.Exists && !s.Exists {
			cr = append(cr, HexAddr(a))
		}
		if e.Dirty && !s.Dirty {
			di = append(di, HexAddr(a))
		}
	}
	crs, dis := "-", "-"
	if len(cr) > 0 {
		crs = strings.Join(cr, "+")
	}
	if len(di) > 0 {
		dis = strings.Join(di, "+")
	}
	return fmt.Sprintf("%s:%s:%s:%s:%s:%s:%s:%s", t.Status(), HexU(t.GasLeft), HexU(t.Refund), HexU(uint64(t.Logs)), su, ds, crs, dis)
}

// ------------------------------------------------------------------ running one transaction

type TxRun struct {
	Receipt *types.Receipt
	Gas     uint64
	Err     error
	Panic   interface{}
	T       *Tracer
}

// ErrName maps a consensus error of ApplyTransaction to the model's enum (never compares strings of amounts).
func ErrName(err error) string {
	switch {
	case err == nil:
		return ""
	case err == core.ErrNonceTooHigh:
		return "nonce-too-high"
	case err == core.ErrNonceTooLow:
		return "nonce-too-low"
	case err == core.ErrGasLimitReached:
		return "gas-limit-reached"
	case err == vm.ErrInsufficientBalance:
		return "insufficient-balance"
	case err == vm.ErrOutOfGas:
		return "intrinsic-gas" // useGas(intrinsic) failed (IntrinsicGas overflow needs 2^58 bytes of data)
	case strings.Contains(err.Error(), "insufficient balance to pay for gas"):
		return "insufficient-balance-for-gas"
	default:
		return "other:" + err.Error()
	}
}

// ApplyTx runs core.ApplyTransaction with the recording tracer.
func ApplyTx(cfg *params.ChainConfig, bc *core.BlockChain, header *types.Header, sdb *state.StateDB, gp *core.GasPool, usedGas *uint64,
	tx *types.Transaction, idx int, u Universe) *TxRun {
	t := &Tracer{Sdb: sdb, U: u, TxHash: tx.Hash(), TxGas: tx.Gas()}
	r := &TxRun{T: t}
	func() {
		defer func() {
			if p := recover(); p != nil {
				r.Panic = p
			}
		}()
		sdb.Prepare(tx.Hash(), common.Hash{}, idx)
		r.Receipt, r.Gas, r.Err = core.ApplyTransaction(cfg, bc, nil, gp, sdb, header, tx, usedGas, vm.Config{Debug: true, Tracer: t})
	}()
	return r
}

// ReceiptTok renders a receipt as driver.ml render_receipt does.
func ReceiptTok(r *types.Receipt) string {
	post := ""
	switch {
	case len(r.PostState) == 32:
		post = "root"
	case len(r.PostState) == 0 && r.Status == types.ReceiptStatusSuccessful:
		post = "status1"
	case len(r.PostState) == 0:
		post = "status0"
	default:
		post = fmt.Sprintf("badpost%d", len(r.PostState))
	}
	st := "0"
	if r.Status == types.ReceiptStatusSuccessful {
		st = "1"
	}
	ca := "-"
	if r.ContractAddress != (common.Address{}) {
		ca = HexAddr(r.ContractAddress)
	}
	return post + "/" + st + "/" + HexU(r.CumulativeGasUsed) + "/" + HexU(r.GasUsed) + "/" + ca + "/" + HexU(uint64(len(r.Logs)))
}

// ------------------------------------------------------------------ chains (for StateProcessor.Process / engine.Finalize)

// NewChain makes an in-memory BlockChain (faked proof of work) whose genesis is empty.
func NewChain(cfg *params.ChainConfig) *core.BlockChain {
	db := aquadb.NewMemDatabase()
	g := &core.Genesis{Config: cfg, Difficulty: big.NewInt(1), GasLimit: 8000000}
	g.MustCommit(db)
	bc, err := core.NewBlockChain(context.Background(), db, nil, cfg, aquahash.NewFaker(), vm.Config{})
	if err != nil {
		panic(err)
	}
	return bc
}

// ------------------------------------------------------------------ content dump (for the composed model, request `txi`)

// codeEnc / storEnc are Tx/Compose.v dg_c / sg_c: 0 when empty, else the number whose big-endian bytes are 0x01 || content.
func codeEnc(code []byte) string {
	if len(code) == 0 {
		return "0x0"
	}
	return HexBig(new(big.Int).SetBytes(append([]byte{1}, code...)))
}

func storEnc(sdb *state.StateDB, a common.Address) string {
	type kv struct{ k, v common.Hash }
	var l []kv
	seen := map[common.Hash]bool{}
	sdb.ForEachStorage(a, func(k, v common.Hash) bool {
		if !seen[k] {
			seen[k] = true
			if cur := sdb.GetState(a, k); cur != (common.Hash{}) {
				l = append(l, kv{k, cur})
			}
		}
		return true
	})
	if len(l) == 0 {
		return "0x0"
	}
	sort.Slice(l, func(i, j int) bool { return bytes.Compare(l[i].k[:], l[j].k[:]) < 0 })
	b := []byte{1}
	for _, e := range l {
		b = append(b, e.k[:]...)
		b = append(b, e.v[:]...)
	}
	return HexBig(new(big.Int).SetBytes(b))
}

// DumpContent renders addr:balance:nonce:code:storage with code and storage as content encodings.
// withEmpty: list every existing account (pre-states); otherwise only accounts that hold something (post-states).
func DumpContent(sdb *state.StateDB, u Universe, withEmpty bool) string {
	var parts []string
	for _, a := range u.Sorted() {
		s := SnapOf(sdb, a)
		ce, se := codeEnc(sdb.GetCode(a)), storEnc(sdb, a)
		empty := s.Bal.Sign() == 0 && s.Nonce == 0 && ce == "0x0" && se == "0x0"
		if (withEmpty && s.Exists) || !empty {
			parts = append(parts, HexAddr(a)+":"+HexBig(s.Bal)+":"+HexU(s.Nonce)+":"+ce+":"+se)
		}
	}
	if len(parts) == 0 {
		return "-"
	}
	return strings.Join(parts, ",")
}

// StepCap bounds the instructions of one transaction in the harness (no generated scenario comes near it on a correct EVM)
const StepCap = 3000000

// StepGuard is a minimal tracer for runs that are not recorded (StateProcessor.Process): it counts instructions and cancels
// a transaction that executes more instructions than Max (the block gas limit: every instruction costs at least 1 gas).
type StepGuard struct {
	Max      uint64
	steps    uint64
	Exceeded bool
}

func (g *StepGuard) CaptureStart(from common.Address, to common.Address, create bool, input []byte, gas uint64, value *big.Int) error {
	g.steps = 0
	return nil
}
func (g *StepGuard) CaptureState(env *vm.EVM, pc uint64, op vm.OpCode, gas, cost uint64, memory *vm.Memory, stack *vm.Stack, contract *vm.Contract, depth int, err error) error {
	g.steps++
	if g.steps > StepCap && !g.Exceeded {
		env.Cancel()
	}
	if g.steps > g.Max && !g.Exceeded {
		g.Exceeded = true
		env.Cancel()
	}
	return nil
}
func (g *StepGuard) CaptureFault(env *vm.EVM, pc uint64, op vm.OpCode, gas, cost uint64, memory *vm.Memory, stack *vm.Stack, contract *vm.Contract, depth int, err error) error {
	return nil
}
func (g *StepGuard) CaptureEnd(output []byte, gasUsed uint64, d time.Duration, err error) error { return nil }
