// Package c18node starts a real node.Node with the aqua service on a throw-away
// data directory, the way opt/console's tests and subcommands/aaafuncs.go do
// (node.New + Register(aqua.New) + Start).  Shared by the C18 harness child
// process and by the translator (gen_apis.go), so both see exactly the API list
// that node.startRPC gathers.
package c18node

import (
	"context"
	"fmt"
	"math/big"
	"os"
	"path/filepath"
	"time"

	"gitlab.com/aquachain/aquachain/aqua"
	"gitlab.com/aquachain/aquachain/aqua/accounts"
	"gitlab.com/aquachain/aquachain/aqua/accounts/keystore"
	"gitlab.com/aquachain/aquachain/common"
	"gitlab.com/aquachain/aquachain/consensus/aquahash"
	"gitlab.com/aquachain/aquachain/core"
	"gitlab.com/aquachain/aquachain/crypto"
	"gitlab.com/aquachain/aquachain/node"
	"gitlab.com/aquachain/aquachain/p2p"
	"gitlab.com/aquachain/aquachain/params"
)

const (
	ChainID       = 18018
	PassUnlocked  = "pw-unlocked-c18"
	PassLocked    = "pw-locked-c18"
	keyUnlockedHx = "18c18c18c18c18c18c18c18c18c18c18c18c18c18c18c18c18c18c18c18c18c1"
	keyLockedHx   = "28c18c18c18c18c18c18c18c18c18c18c18c18c18c18c18c18c18c18c18c18c2"
)

// Options selects the parts of node.Config the property ranges over.
type Options struct {
	Dir         string   // data dir ("" = ephemeral: memory databases, no instance lock)
	NoDefaults  bool     // if true use HTTPModules/WSModules below verbatim; else node.NewDefaultConfig()'s lists
	HTTPModules []string // whitelist for startHTTP
	WSModules   []string // whitelist for startWS
	WSExposeAll bool
	Transports  bool // open IPC, HTTP and WS endpoints (in-proc is always there)
	Clique      bool // proof-of-authority chain (miner_start authorises the keystore wallet as block signer)
	NoKeys      bool // node.Config.NoKeys: no keystore, no account manager
	OnlyIPC     bool // with Transports: open the IPC endpoint only (HTTP/WS are started later through admin_startRPC/admin_startWS)
}

// Env is a running node.
type Env struct {
	Stack    *node.Node
	Aqua     *aqua.Aquachain
	Unlocked common.Address
	Locked   common.Address
	IPC      string
	HTTP     string
	WS       string
	// TempKeyDir is the scratch keystore directory created for an ephemeral node ("" otherwise)
	TempKeyDir string
	cancel     context.CancelFunc
}

// Addresses returns the two deterministic keystore accounts (unlocked, locked).
func Addresses() (common.Address, common.Address) {
	k1, _ := crypto.HexToBtcec(keyUnlockedHx)
	k2, _ := crypto.HexToBtcec(keyLockedHx)
	return crypto.PubkeyToAddress(k1.PubKey()), crypto.PubkeyToAddress(k2.PubKey())
}

// Start builds and starts the node. The caller must have pointed HOME and
// AQUA_DATADIR at a scratch directory (node.openDataDir locks a file below the
// *default* data dir whatever Config.DataDir says).
func Start(o Options) (*Env, error) {
	ctx, cancel := context.WithCancel(context.Background())

	chaincfg := &params.ChainConfig{}
	if o.Clique {
		*chaincfg = *params.AllCliqueProtocolChanges
		chaincfg.Clique = &params.CliqueConfig{Period: 1, Epoch: 30000}
	} else {
		*chaincfg = *params.TestChainConfig
	}
	chainID, chainName := uint64(ChainID), "c18verif"
	if o.Clique {
		chainID, chainName = ChainID+1, "c18verifclique"
	}
	chaincfg.ChainId = new(big.Int).SetUint64(chainID)
	if params.GetChainConfigByChainId(chaincfg.ChainId) == nil {
		params.AddChainConfig(chainName, chaincfg)
	}

	tempKeyDir := ""
	def := node.NewDefaultConfig()
	conf := &node.Config{
		Context:           ctx,
		CloseMain:         func(err error) {},
		DataDir:           o.Dir,
		UseLightweightKDF: true,
		Name:              "c18verif",
		P2P:               &p2p.Config{ChainId: chainID, NoDiscovery: true, MaxPeers: 0, ListenAddr: "127.0.0.1:0", NAT: "none", NoDial: true},
		RPCAllowIP:        []string{"127.0.0.1/32"},
		HTTPModules:       def.HTTPModules,
		WSModules:         def.WSModules,
		WSExposeAll:       o.WSExposeAll,
		NoCountdown:       true,
		NoKeys:            o.NoKeys,
	}
	if o.NoDefaults {
		conf.HTTPModules, conf.WSModules = o.HTTPModules, o.WSModules
	}
	if o.Dir == "" {
		kd, err := os.MkdirTemp("", "c18-keystore-")
		if err != nil {
			cancel()
			return nil, err
		}
		conf.KeyStoreDir = kd
		tempKeyDir = kd
	}
	env := &Env{cancel: cancel, TempKeyDir: tempKeyDir}
	if o.Transports {
		conf.IPCPath = "c18.ipc"
		conf.WSOrigins = []string{"*"}
		// port 0: the kernel picks a free port when the node binds; the address is read back after
		// Start (RefreshEndpoints).  No port is ever chosen ahead of the bind.
		if !o.OnlyIPC {
			conf.HTTPHost, conf.HTTPPort = "127.0.0.1", 0
			conf.WSHost, conf.WSPort = "127.0.0.1", 0
		}
	}
	stack, err := node.New(conf)
	if err != nil {
		cancel()
		return nil, fmt.Errorf("node.New: %v", err)
	}
	env.Stack = stack
	env.IPC = stack.IPCEndpoint()

	// keystore: two deterministic accounts, the first one unlocked
	var ks *keystore.KeyStore
	if am := stack.AccountManager(); am != nil {
		if b := am.Backends(keystore.KeyStoreType); len(b) > 0 {
			ks = b[0].(*keystore.KeyStore)
		}
	}
	if ks == nil && !o.NoKeys {
		cancel()
		return nil, fmt.Errorf("no keystore backend")
	}
	env.Unlocked, env.Locked = Addresses()
	k1, _ := crypto.HexToBtcec(keyUnlockedHx)
	k2, _ := crypto.HexToBtcec(keyLockedHx)
	if ks != nil {
		if !ks.HasAddress(env.Unlocked) {
			if _, err := ks.ImportECDSA(k1, PassUnlocked); err != nil {
				cancel()
				return nil, fmt.Errorf("import: %v", err)
			}
		}
		if !ks.HasAddress(env.Locked) {
			if _, err := ks.ImportECDSA(k2, PassLocked); err != nil {
				cancel()
				return nil, fmt.Errorf("import: %v", err)
			}
		}
		if err := ks.Unlock(accounts.Account{Address: env.Unlocked}, PassUnlocked); err != nil {
			cancel()
			return nil, fmt.Errorf("unlock: %v", err)
		}
	}

	rich, _ := new(big.Int).SetString("1000000000000000000000000", 10)
	genesis := &core.Genesis{
		Config:     chaincfg,
		GasLimit:   8000000,
		Difficulty: big.NewInt(1),
		Alloc: core.GenesisAlloc{
			env.Unlocked: {Balance: rich},
			env.Locked:   {Balance: rich},
		},
	}
	if o.Clique {
		// extra-data: 32 bytes vanity + signer list + 65 bytes seal
		extra := make([]byte, 32)
		extra = append(extra, env.Unlocked.Bytes()...)
		extra = append(extra, make([]byte, 65)...)
		genesis.ExtraData = extra
	}
	acfg := aqua.NewDefaultConfig()
	acfg.Genesis = genesis
	acfg.Aquabase = env.Unlocked
	acfg.Aquahash = &aquahash.Config{PowMode: aquahash.ModeTest}
	if o.Clique {
		// CreateConsensusEngine picks clique only when the PoW mode is the normal one
		acfg.Aquahash = &aquahash.Config{PowMode: aquahash.ModeNormal}
	}
	acfg.ChainId = chainID
	acfg.DatabaseCache = 16
	acfg.TrieCache = 16
	nodename := func() string {
		d := node.NewDefaultConfig()
		d.Name = "c18verif"
		return d.NodeName()
	}()
	if err := stack.Register(func(nodectx *node.ServiceContext) (node.Service, error) {
		return aqua.New(ctx, nodectx, acfg, nodename)
	}); err != nil {
		cancel()
		return nil, fmt.Errorf("register: %v", err)
	}
	if err := stack.Start(ctx); err != nil {
		cancel()
		return nil, fmt.Errorf("start: %v", err)
	}
	var a *aqua.Aquachain
	if err := stack.Service(&a); err != nil {
		stack.Stop()
		cancel()
		return nil, fmt.Errorf("service: %v", err)
	}
	env.Aqua = a
	env.RefreshEndpoints()
	if o.Transports && env.IPC != "" {
		// wait for the socket
		for i := 0; i < 100; i++ {
			if _, err := os.Stat(env.IPC); err == nil {
				break
			}
			time.Sleep(10 * time.Millisecond)
		}
	}
	return env, nil
}

// RefreshEndpoints reads the addresses the HTTP / WS listeners are really bound to.
func (e *Env) RefreshEndpoints() {
	addrs := e.Stack.VerifListenAddrs()
	e.HTTP, e.WS = "", ""
	if a := addrs["http"]; a != "" {
		e.HTTP = "http://" + a
	}
	if a := addrs["ws"]; a != "" {
		e.WS = "ws://" + a
	}
}

// Stop terminates the node.
func (e *Env) Stop() {
	if e.Stack != nil {
		e.Stack.Stop()
	}
	e.cancel()
}

// ScratchEnv returns the environment variables that keep a node away from the
// user's real home / data directories.
func ScratchEnv(dir string) []string {
	return []string{"HOME=" + dir, "AQUA_DATADIR=" + filepath.Join(dir, "defaultdd"), "AQUAHASH_DATASET_DIR=" + filepath.Join(dir, "aquahash")}
}
