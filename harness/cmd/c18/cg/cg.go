// Package cg computes, on the CURRENT /repo source, which RPC callback methods
// can reach a keystore signing entry point in a static call graph
// (go/packages + go/ssa + CHA refined by VTA, golang.org/x/tools), and which
// functions call (*rpc.Server).RegisterName directly (the caller's name is what
// RegisterName uses to pick the opt-in flag).
package cg

import (
	"crypto/sha256"
	"encoding/hex"
	"encoding/json"
	"fmt"
	"go/token"
	"go/types"
	"os"
	"os/exec"
	"path/filepath"
	"sort"
	"strings"
	"time"

	"golang.org/x/tools/go/callgraph"
	"golang.org/x/tools/go/callgraph/cha"
	"golang.org/x/tools/go/callgraph/vta"
	"golang.org/x/tools/go/packages"
	"golang.org/x/tools/go/ssa"
	"golang.org/x/tools/go/ssa/ssautil"
)

const Module = "gitlab.com/aquachain/aquachain"

// SignEntryPoints are the keystore methods through which every use of a keystore key funnels.
var SignEntryPoints = []string{"SignHash", "SignHashAllowed", "SignHashOK", "SignTx", "SignHashWithPassphrase", "SignTxWithPassphrase"}

// Root names a method of a named type: PkgPath.(TypeName).Method (pointer receiver method set).
type Root struct {
	PkgPath, Type, Method string
}

func (r Root) String() string { return r.PkgPath + "." + r.Type + "." + r.Method }

// Result of the analysis.
type Result struct {
	Signs           map[Root]bool     // root reaches a signing entry point
	Via             map[Root][]string // one witness path (function names) for signing roots
	Targets         map[Root][]string // names of ALL signing entry points reachable from the root (sorted)
	TargetsNoSeal   map[Root][]string // the same when the function clique.(*Clique).Seal is removed from the graph
	Cone            Cone              // the key-use cone: every function that can reach a signing entry point, with the call edges among them
	Missing         []Root            // roots for which no SSA function was found (treated as signing = conservative)
	RegisterCallers []string          // full names of functions that contain a direct call of (*rpc.Server).RegisterName
	Algo            string
	Stats           string
}

// Cone is the backward slice of the call graph from the signing entry points.
type Cone struct {
	Names   []string       // node id -> function (ssa name), sorted
	Target  []bool         // node id -> is a signing entry point
	Seal    []bool         // node id -> is clique.(*Clique).Seal
	Edges   [][2]int       // caller id, callee id (both in the cone), sorted, no duplicates
	RootIDs map[string]int // Root.String() -> node id, for the RPC methods that lie in the cone
}

// Analyze loads the program rooted at the given package patterns from repoDir.
func Analyze(repoDir string, patterns []string, roots []Root, algo string) (*Result, error) {
	t0 := time.Now()
	cfg := &packages.Config{
		Mode:       packages.LoadAllSyntax,
		Dir:        repoDir,
		BuildFlags: []string{"-tags=verif"},
		Env:        append(os.Environ(), "GOFLAGS=-mod=mod", "GOPROXY=off"),
		Fset:       token.NewFileSet(),
	}
	pkgs, err := packages.Load(cfg, patterns...)
	if err != nil {
		return nil, fmt.Errorf("packages.Load: %v", err)
	}
	nerr := 0
	packages.Visit(pkgs, nil, func(p *packages.Package) {
		for _, e := range p.Errors {
			if nerr < 5 {
				fmt.Fprintln(os.Stderr, "cg: package error:", e)
			}
			nerr++
		}
	})
	if nerr > 0 {
		return nil, fmt.Errorf("cg: %d package errors while loading %v", nerr, patterns)
	}
	tLoad := time.Since(t0)
	prog, _ := ssautil.AllPackages(pkgs, ssa.InstantiateGenerics)
	prog.Build()
	tSSA := time.Since(t0)

	var graph *callgraph.Graph
	switch algo {
	case "cha":
		graph = cha.CallGraph(prog)
	default:
		algo = "vta"
		all := ssautil.AllFunctions(prog)
		g1 := vta.CallGraph(all, cha.CallGraph(prog))
		// second pass on the refined graph, as recommended by the vta package documentation
		graph = vta.CallGraph(all, g1)
	}
	tCG := time.Since(t0)

	res := &Result{Signs: map[Root]bool{}, Via: map[Root][]string{}, Targets: map[Root][]string{}, TargetsNoSeal: map[Root][]string{}, Algo: algo}

	// targets
	targets := map[*ssa.Function]bool{}
	ksPkg := prog.ImportedPackage(Module + "/aqua/accounts/keystore")
	if ksPkg == nil {
		return nil, fmt.Errorf("cg: keystore package not in program")
	}
	ksType := ksPkg.Type("KeyStore")
	if ksType == nil {
		return nil, fmt.Errorf("cg: keystore.KeyStore not found")
	}
	for _, name := range SignEntryPoints {
		fn := prog.LookupMethod(types.NewPointer(ksType.Type()), ksPkg.Pkg, name)
		if fn == nil {
			return nil, fmt.Errorf("cg: keystore entry point %s not found (renamed?)", name)
		}
		targets[fn] = true
	}
	// any other exported KeyStore method that uses a decrypted key to sign would be a new entry point:
	// detect callers of crypto.Sign / types.SignTx inside the keystore package that are not in the list
	for _, mem := range ksPkg.Members {
		_ = mem
	}
	for fn := range ssautil.AllFunctions(prog) {
		if fn.Pkg != ksPkg {
			continue
		}
		for _, b := range fn.Blocks {
			for _, ins := range b.Instrs {
				call, ok := ins.(ssa.CallInstruction)
				if !ok {
					continue
				}
				callee := call.Common().StaticCallee()
				if callee == nil || callee.Pkg == nil {
					continue
				}
				full := callee.Pkg.Pkg.Path() + "." + callee.Name()
				if full == Module+"/crypto.Sign" || full == Module+"/core/types.SignTx" {
					if !targets[fn] {
						// a signing primitive used outside the six entry points: count it as an entry point too
						targets[fn] = true
						res.Stats += "extra-entry-point:" + fn.String() + " "
					}
				}
			}
		}
	}

	// RegisterName callers
	rpcPkg := prog.ImportedPackage(Module + "/rpc")
	if rpcPkg == nil {
		return nil, fmt.Errorf("cg: rpc package not in program")
	}
	regFn := prog.LookupMethod(types.NewPointer(rpcPkg.Type("Server").Type()), rpcPkg.Pkg, "RegisterName")
	if regFn == nil {
		return nil, fmt.Errorf("cg: rpc.Server.RegisterName not found")
	}
	callers := map[string]bool{}
	if n := graph.Nodes[regFn]; n != nil {
		for _, e := range n.In {
			callers[RuntimeName(e.Caller.Func)] = true
		}
	}
	for c := range callers {
		res.RegisterCallers = append(res.RegisterCallers, c)
	}
	sort.Strings(res.RegisterCallers)

	var coneID map[*callgraph.Node]int
	// backward reachability from every entry point: which functions can reach it
	canReach := map[*ssa.Function]map[*callgraph.Node]bool{}
	for tf := range targets {
		set := map[*callgraph.Node]bool{}
		if tn := graph.Nodes[tf]; tn != nil {
			set[tn] = true
			q := []*callgraph.Node{tn}
			for len(q) > 0 {
				n := q[0]
				q = q[1:]
				for _, e := range n.In {
					if !set[e.Caller] {
						set[e.Caller] = true
						q = append(q, e.Caller)
					}
				}
			}
		}
		canReach[tf] = set
	}

	// the same with clique.(*Clique).Seal cut out of the graph
	var sealNode *callgraph.Node
	if cp := prog.ImportedPackage(Module + "/consensus/clique"); cp != nil {
		if ct := cp.Type("Clique"); ct != nil {
			if sf := prog.LookupMethod(types.NewPointer(ct.Type()), cp.Pkg, "Seal"); sf != nil {
				sealNode = graph.Nodes[sf]
			}
		}
	}
	if sealNode == nil {
		return nil, fmt.Errorf("cg: clique.(*Clique).Seal not found in the call graph (renamed?)")
	}
	canReachNoSeal := map[*ssa.Function]map[*callgraph.Node]bool{}
	for tf := range targets {
		set := map[*callgraph.Node]bool{}
		if tn := graph.Nodes[tf]; tn != nil && tn != sealNode {
			set[tn] = true
			q := []*callgraph.Node{tn}
			for len(q) > 0 {
				n := q[0]
				q = q[1:]
				for _, e := range n.In {
					if e.Caller != sealNode && !set[e.Caller] {
						set[e.Caller] = true
						q = append(q, e.Caller)
					}
				}
			}
		}
		canReachNoSeal[tf] = set
	}

	// the key-use cone as a graph
	{
		in := map[*callgraph.Node]bool{}
		for _, set := range canReach {
			for n := range set {
				in[n] = true
			}
		}
		var nodes []*callgraph.Node
		for n := range in {
			nodes = append(nodes, n)
		}
		sort.Slice(nodes, func(i, j int) bool {
			if a, b := nodes[i].Func.String(), nodes[j].Func.String(); a != b {
				return a < b
			}
			return nodes[i].ID < nodes[j].ID
		})
		id := map[*callgraph.Node]int{}
		for i, n := range nodes {
			id[n] = i
			res.Cone.Names = append(res.Cone.Names, n.Func.String())
			res.Cone.Target = append(res.Cone.Target, targets[n.Func])
			res.Cone.Seal = append(res.Cone.Seal, n == sealNode)
		}
		seenE := map[[2]int]bool{}
		for _, n := range nodes {
			for _, e := range n.Out {
				if j, ok := id[e.Callee]; ok {
					k := [2]int{id[n], j}
					if !seenE[k] {
						seenE[k] = true
						res.Cone.Edges = append(res.Cone.Edges, k)
					}
				}
			}
		}
		sort.Slice(res.Cone.Edges, func(i, j int) bool {
			if res.Cone.Edges[i][0] != res.Cone.Edges[j][0] {
				return res.Cone.Edges[i][0] < res.Cone.Edges[j][0]
			}
			return res.Cone.Edges[i][1] < res.Cone.Edges[j][1]
		})
		res.Cone.RootIDs = map[string]int{}
		coneID = id
	}

	// reachability per root
	for _, r := range roots {
		p := prog.ImportedPackage(r.PkgPath)
		var fn *ssa.Function
		if p != nil {
			if t := p.Type(r.Type); t != nil {
				fn = prog.LookupMethod(types.NewPointer(t.Type()), p.Pkg, r.Method)
			}
		}
		if fn == nil {
			res.Missing = append(res.Missing, r)
			res.Signs[r] = true
			continue
		}
		start := graph.Nodes[fn]
		if start == nil {
			res.Signs[r] = false
			continue
		}
		prev := map[*callgraph.Node]*callgraph.Node{start: nil}
		queue := []*callgraph.Node{start}
		var hit *callgraph.Node
		for len(queue) > 0 && hit == nil {
			n := queue[0]
			queue = queue[1:]
			for _, e := range n.Out {
				if _, seen := prev[e.Callee]; seen {
					continue
				}
				prev[e.Callee] = n
				if targets[e.Callee.Func] {
					hit = e.Callee
					break
				}
				queue = append(queue, e.Callee)
			}
		}
		if targets[fn] {
			hit = start
		}
		res.Signs[r] = hit != nil
		if i, ok := coneID[start]; ok {
			res.Cone.RootIDs[r.String()] = i
		}
		for tf, set := range canReach {
			if set[start] {
				res.Targets[r] = append(res.Targets[r], tf.Name())
			}
		}
		sort.Strings(res.Targets[r])
		for tf, set := range canReachNoSeal {
			if set[start] {
				res.TargetsNoSeal[r] = append(res.TargetsNoSeal[r], tf.Name())
			}
		}
		sort.Strings(res.TargetsNoSeal[r])
		if (len(res.Targets[r]) > 0) != (hit != nil) {
			return nil, fmt.Errorf("cg: forward and backward reachability disagree on %v", r)
		}
		if hit != nil {
			var path []string
			for n := hit; n != nil; n = prev[n] {
				path = append([]string{strings.TrimPrefix(n.Func.String(), Module+"/")}, path...)
			}
			res.Via[r] = path
		}
	}
	res.Stats += fmt.Sprintf("load=%.1fs ssa=%.1fs callgraph=%.1fs total=%.1fs functions=%d", tLoad.Seconds(), (tSSA - tLoad).Seconds(), (tCG - tSSA).Seconds(), time.Since(t0).Seconds(), len(graph.Nodes))
	return res, nil
}

// RuntimeName renders an SSA function the way runtime.Frame.Function does:
// pkg/path.Func, pkg/path.(*T).Method, pkg/path.T.Method; closures as parent.funcN.
func RuntimeName(fn *ssa.Function) string {
	if fn.Parent() != nil {
		return RuntimeName(fn.Parent()) + "." + fn.Name()
	}
	if recv := fn.Signature.Recv(); recv != nil {
		t := recv.Type()
		ptr := false
		if p, ok := t.(*types.Pointer); ok {
			t = p.Elem()
			ptr = true
		}
		if n, ok := t.(*types.Named); ok && n.Obj().Pkg() != nil {
			if ptr {
				return n.Obj().Pkg().Path() + ".(*" + n.Obj().Name() + ")." + fn.Name()
			}
			return n.Obj().Pkg().Path() + "." + n.Obj().Name() + "." + fn.Name()
		}
	}
	if fn.Pkg != nil {
		return fn.Pkg.Pkg.Path() + "." + fn.Name()
	}
	return fn.String()
}

type cacheFile struct {
	Signs           map[string]bool
	Via             map[string][]string
	Targets         map[string][]string
	TargetsNoSeal   map[string][]string
	Cone            Cone
	RegisterCallers []string
	Algo, Stats     string
}

// sourceHash hashes the source files of exactly the packages of the main module that
// the analysed program consists of (the dependency cone of the patterns, as `go list
// -deps -tags verif` reports it: GoFiles and CgoFiles, which already honour build
// constraints and exclude tests), plus go.mod and go.sum (which pin every other
// module and the toolchain), together with the question asked.  An edit outside the
// cone (another package, a test, a file excluded by build tags) leaves the key unchanged.
func sourceHash(repoDir string, patterns []string, roots []Root, algo string) (string, error) {
	h := sha256.New()
	fmt.Fprintf(h, "cg-v7|%s|%v|%v\n", algo, patterns, roots)
	args := append([]string{"list", "-deps", "-tags", "verif", "-f", "{{if not .Standard}}{{.ImportPath}}|{{.Dir}}|{{range .GoFiles}}{{.}},{{end}}{{range .CgoFiles}}{{.}},{{end}}{{end}}"}, patterns...)
	cmd := exec.Command("go", args...)
	cmd.Dir = repoDir
	cmd.Env = append(os.Environ(), "GOFLAGS=-mod=mod", "GOPROXY=off")
	out, err := cmd.Output()
	if err != nil {
		return "", fmt.Errorf("go list -deps: %v", err)
	}
	absRepo, _ := filepath.Abs(repoDir)
	var lines []string
	for _, l := range strings.Split(string(out), "\n") {
		if strings.TrimSpace(l) != "" {
			lines = append(lines, l)
		}
	}
	sort.Strings(lines)
	nfiles := 0
	for _, l := range lines {
		f := strings.SplitN(l, "|", 3)
		if len(f) != 3 {
			continue
		}
		if !strings.HasPrefix(f[1], absRepo+string(filepath.Separator)) && f[1] != absRepo {
			// a package of another module: its content is pinned by go.sum; record path only
			fmt.Fprintf(h, "ext %s\n", f[0])
			continue
		}
		files := strings.Split(strings.TrimSuffix(f[2], ","), ",")
		sort.Strings(files)
		for _, name := range files {
			if name == "" {
				continue
			}
			b, err := os.ReadFile(filepath.Join(f[1], name))
			if err != nil {
				return "", err
			}
			fmt.Fprintf(h, "%s/%s %d\n", f[0], name, len(b))
			h.Write(b)
			nfiles++
		}
	}
	if nfiles == 0 {
		return "", fmt.Errorf("go list -deps reported no source files of the main module")
	}
	for _, name := range []string{"go.mod", "go.sum"} {
		b, err := os.ReadFile(filepath.Join(repoDir, name))
		if err != nil {
			return "", err
		}
		fmt.Fprintf(h, "%s %d\n", name, len(b))
		h.Write(b)
	}
	return hex.EncodeToString(h.Sum(nil))[:32], nil
}

// AnalyzeCached is Analyze memoised on the content hash of the program's own
// source files (the analysis is a deterministic function of it).  C18_CG_NOCACHE=1
// forces a fresh analysis.
func AnalyzeCached(repoDir string, patterns []string, roots []Root, algo string) (*Result, error) {
	key, err := sourceHash(repoDir, patterns, roots, algo)
	if err != nil {
		return nil, err
	}
	dir := filepath.Join(os.TempDir(), "c18-cg-cache")
	file := filepath.Join(dir, key+".json")
	if os.Getenv("C18_CG_NOCACHE") == "" {
		if b, err := os.ReadFile(file); err == nil {
			var c cacheFile
			if json.Unmarshal(b, &c) == nil && len(c.Signs) == len(roots) {
				res := &Result{Signs: map[Root]bool{}, Via: map[Root][]string{}, Targets: map[Root][]string{}, TargetsNoSeal: map[Root][]string{}, Cone: c.Cone, RegisterCallers: c.RegisterCallers, Algo: c.Algo, Stats: c.Stats + " (memoised on source hash " + key + ")"}
				ok := true
				for _, r := range roots {
					s, present := c.Signs[r.String()]
					if !present {
						ok = false
						break
					}
					res.Signs[r] = s
					if v := c.Via[r.String()]; v != nil {
						res.Via[r] = v
					}
					if v := c.Targets[r.String()]; v != nil {
						res.Targets[r] = v
					}
					if v := c.TargetsNoSeal[r.String()]; v != nil {
						res.TargetsNoSeal[r] = v
					}
				}
				if ok {
					return res, nil
				}
			}
		}
	}
	res, err := Analyze(repoDir, patterns, roots, algo)
	if err != nil {
		return nil, err
	}
	if len(res.Missing) == 0 {
		c := cacheFile{Signs: map[string]bool{}, Via: map[string][]string{}, Targets: map[string][]string{}, TargetsNoSeal: map[string][]string{}, Cone: res.Cone, RegisterCallers: res.RegisterCallers, Algo: res.Algo, Stats: res.Stats}
		for r, s := range res.Signs {
			c.Signs[r.String()] = s
		}
		for r, v := range res.Via {
			c.Via[r.String()] = v
		}
		for r, v := range res.Targets {
			c.Targets[r.String()] = v
		}
		for r, v := range res.TargetsNoSeal {
			c.TargetsNoSeal[r.String()] = v
		}
		if b, err := json.Marshal(c); err == nil {
			os.MkdirAll(dir, 0o755)
			tmp := file + fmt.Sprintf(".%d", os.Getpid())
			if os.WriteFile(tmp, b, 0o644) == nil {
				os.Rename(tmp, file)
			}
		}
	}
	return res, nil
}
