// Request fuzzer of the C18 harness (runs in the child process): raw JSON-RPC messages with
// mutated method strings (case variants, unicode look-alikes, multiple / leading / trailing
// underscores, empty service or method, blanks, eth_ and prefix-less aliases, *_subscribe,
// *_unsubscribe), every params shape (absent, null, object, scalar, arrays that are exact,
// too long, too short, wrongly typed, with nulls), valid and invalid ids, sent singly and in
// mixed batches to (a) the node's in-proc server over a pipe codec, (b) the node's HTTP
// endpoint, (c) toy servers whose methods record that they were called.  The parent compares
// every observed verdict with the model's Rpc/Invoke.v verdict.
package main

import (
	"bytes"
	"encoding/hex"
	"encoding/json"
	"fmt"
	"io"
	"net"
	"net/http"
	"reflect"
	"sort"
	"strings"
	"time"
	"unicode"

	"gitlab.com/aquachain/aquachain/aqua/accounts/keystore"
	"gitlab.com/aquachain/aquachain/rpc"
	"gitlab.com/aquachain/aquachain/verifharness/cmd/c18/c18node"
	"gitlab.com/aquachain/aquachain/verifharness/vh"
)

type FuzzReq struct {
	Method string `json:"method"`
	Class  string `json:"class"`  // mutation class / params class
	Token  string `json:"token"`  // the request in the model driver's syntax
	Raw    string `json:"raw"`    // the JSON object sent
	Target string `json:"target"` // ns_wire of the callback the generator started from
}

type FuzzCase struct {
	Where        string    `json:"where"` // inproc | http | toy:<caller>
	ToySeq       string    `json:"toy_seq,omitempty"`
	Batch        bool      `json:"batch"`
	Reqs         []FuzzReq `json:"reqs"`
	Verdicts     []string  `json:"verdicts"` // per request, or ["rejected"]
	ToyCalled    []string  `json:"toy_called,omitempty"`
	Delta        uint64    `json:"sign_counter_delta"`
	Undecided    string    `json:"undecided,omitempty"`    // infrastructure trouble: not a verdict
	Unattributed string    `json:"unattributed,omitempty"` // a counter movement that did not repeat: undecided
}

func lowerFirst(s string) string {
	if s == "" {
		return s
	}
	r := []rune(s)
	r[0] = unicode.ToLower(r[0])
	return string(r)
}

// one target of the generator
type fuzzTarget struct {
	name  string         // ns_wire
	sub   bool           // subscription: requests are ns_subscribe with the wire name as first param
	types []reflect.Type // callback.argTypes
	known bool           // exists in the API universe (false: a protected name probed on a namespace)
	mkArg func(i int) interface{}
}

func elemToken(raw json.RawMessage, t reflect.Type, hasType bool) string {
	kind := "O"
	tr := bytes.TrimSpace(raw)
	var body string
	if len(tr) > 0 && tr[0] == '"' {
		var s string
		if json.Unmarshal(tr, &s) == nil {
			kind = "S"
			body = hex.EncodeToString([]byte(s))
		}
	} else if string(tr) == "null" {
		kind = "Z"
	}
	dec := "x"
	if hasType {
		v := reflect.New(t)
		if json.Unmarshal(raw, v.Interface()) == nil {
			dec = "d"
		}
	}
	return kind + body + dec
}

var stringType = reflect.TypeOf("")

// paramsVariants returns (class, raw params or nil for absent, model token)
func paramsVariants(t fuzzTarget, rng *vh.RNG) [][3]string {
	types := t.types
	if t.sub {
		types = append([]reflect.Type{stringType}, t.types...)
	}
	good := make([]json.RawMessage, len(types))
	for i := range types {
		var v interface{}
		if t.sub && i == 0 {
			v = strings.SplitN(t.name, "_", 2)[1]
		} else if t.sub {
			v = t.mkArg(i - 1)
		} else {
			v = t.mkArg(i)
		}
		b, err := json.Marshal(v)
		if err != nil {
			b = []byte("null")
		}
		good[i] = b
	}
	arr := func(class string, elems []json.RawMessage) [3]string {
		var toks, raws []string
		for i, e := range elems {
			if i < len(types) {
				toks = append(toks, elemToken(e, types[i], true))
			} else {
				toks = append(toks, elemToken(e, nil, false))
			}
			raws = append(raws, string(e))
		}
		return [3]string{class, "[" + strings.Join(raws, ",") + "]", "L" + strings.Join(toks, ",")}
	}
	out := [][3]string{
		arr("exact", good),
		{"absent", "", "A"},
		{"null", "null", "N"},
		{"object", `{"a":1}`, "O"},
		{"scalar", `"x"`, "O"},
		arr("empty-array", nil),
		arr("too-long", append(append([]json.RawMessage{}, good...), json.RawMessage(`7`))),
	}
	if len(good) > 0 {
		out = append(out, arr("short-1", good[:len(good)-1]))
		k := rng.Intn(len(good))
		wrong := append([]json.RawMessage{}, good...)
		wrong[k] = json.RawMessage(`{"no":[1,2]}`)
		out = append(out, arr("wrong-type", wrong))
		nulls := append([]json.RawMessage{}, good...)
		nulls[rng.Intn(len(good))] = json.RawMessage(`null`)
		out = append(out, arr("null-element", nulls))
		num := append([]json.RawMessage{}, good...)
		num[0] = json.RawMessage(`12`)
		out = append(out, arr("number-first", num))
	}
	if len(good) > 1 {
		out = append(out, arr("short-all-but-first", good[:1]))
	}
	return out
}

func methodVariants(t fuzzTarget) [][2]string {
	parts := strings.SplitN(t.name, "_", 2)
	ns, meth := parts[0], parts[1]
	if t.sub {
		// the method string is ns_subscribe; the wire name travels in params[0]
		return [][2]string{
			{"exact", ns + "_subscribe"}, {"upper-ns", strings.ToUpper(ns) + "_subscribe"}, {"eth-alias", "eth_subscribe"},
			{"no-service", "_subscribe"}, {"bare", "subscribe"}, {"suffix-case", ns + "_Subscribe"},
			{"double-underscore", ns + "__subscribe"}, {"unsubscribe", ns + "_unsubscribe"}, {"both-suffixes", ns + "_subscribe_unsubscribe"},
			{"trailing-space", ns + "_subscribe "},
		}
	}
	up := strings.ToUpper(meth[:1]) + meth[1:]
	v := [][2]string{
		{"exact", t.name},
		{"upper-first-method", ns + "_" + up},
		{"upper-ns", strings.ToUpper(ns) + "_" + meth},
		{"all-upper", strings.ToUpper(t.name)},
		{"title-ns", strings.ToUpper(ns[:1]) + ns[1:] + "_" + meth},
		{"double-underscore", ns + "__" + meth},
		{"trailing-underscore", t.name + "_"},
		{"leading-underscore", "_" + t.name},
		{"extra-segment", t.name + "_x"},
		{"empty-service", "_" + meth},
		{"empty-method", ns + "_"},
		{"leading-space", " " + t.name},
		{"trailing-space", t.name + " "},
		{"inner-space", ns + "_ " + meth},
		{"fullwidth-underscore", ns + "＿" + meth},
		{"cyrillic-a", strings.Replace(t.name, "a", "а", 1)},
		{"long-s", strings.Replace(t.name, "s", "ſ", -1)},
		{"kelvin-k", strings.Replace(t.name, "k", "K", -1)},
		{"dot-separator", ns + "." + meth},
		{"bare-method", meth},
		{"eth-prefix", "eth_" + meth},
		{"ETH-prefix", "ETH_" + meth},
		{"eth-double", "eth__" + meth},
		{"eth-ns", "eth_" + t.name},
		{"btc-prefix", "btc_" + meth},
		{"unsubscribe-suffix", t.name + "_unsubscribe"},
		{"subscribe-suffix", t.name + "_subscribe"},
	}
	return v
}

var oddMethods = [][2]string{{"empty", ""}, {"underscore", "_"}, {"two-underscores", "__"}, {"blank", " "}, {"eth-only", "eth_"}, {"eth", "eth"},
	{"subscribe-only", "_subscribe"}, {"unsubscribe-only", "_unsubscribe"}, {"rpc-modules", "rpc_modules"}, {"modules", "modules"}, {"nul-byte", "aqua_\x00sign"}}

func mkRequest(id int, method string, idok bool, rawParams string) string {
	mb, _ := json.Marshal(method)
	var sb strings.Builder
	sb.WriteString(`{"jsonrpc":"2.0"`)
	if idok {
		switch id % 3 {
		case 0:
			fmt.Fprintf(&sb, `,"id":%d`, id)
		case 1:
			fmt.Fprintf(&sb, `,"id":"s%d"`, id)
		default:
			sb.WriteString(`,"id":null`)
		}
	} else {
		switch id % 3 {
		case 0:
			sb.WriteString(`,"id":{"x":1}`)
		case 1:
			sb.WriteString(`,"id":true`)
		default: // no id member at all
		}
	}
	sb.WriteString(`,"method":`)
	sb.Write(mb)
	if rawParams != "" {
		sb.WriteString(`,"params":`)
		sb.WriteString(rawParams)
	}
	sb.WriteString("}")
	return sb.String()
}

// classify one response object
func verdictOf(obj map[string]json.RawMessage) string {
	if e, ok := obj["error"]; ok && string(e) != "null" {
		var je struct {
			Code int `json:"code"`
		}
		json.Unmarshal(e, &je)
		switch je.Code {
		case -32601:
			return "notfound"
		case -32602:
			return "invalidparams"
		case -32600, -32700:
			return "invalidrequest"
		}
		return "invoked" // -32000: the callback ran and returned an error (or the subscription could not be created)
	}
	return "invoked"
}

// parseResponse turns the raw response into verdicts
func parseResponse(raw []byte, batch bool, n int) ([]string, string) {
	tr := bytes.TrimSpace(raw)
	if len(tr) == 0 {
		return nil, "empty response"
	}
	if tr[0] == '[' {
		var arr []map[string]json.RawMessage
		if err := json.Unmarshal(tr, &arr); err != nil {
			return nil, "unparsable response: " + err.Error()
		}
		if len(arr) != n {
			return nil, fmt.Sprintf("batch of %d answered with %d", n, len(arr))
		}
		var vs []string
		for _, o := range arr {
			vs = append(vs, verdictOf(o))
		}
		return vs, ""
	}
	var obj map[string]json.RawMessage
	if err := json.Unmarshal(tr, &obj); err != nil {
		return nil, "unparsable response: " + err.Error()
	}
	if batch {
		return []string{"rejected"}, "" // a batch answered with ONE error object: rejected as a whole
	}
	return []string{verdictOf(obj)}, ""
}

// sendPipe serves one connection of the server over an in-memory pipe and sends one message
func sendPipe(srv *rpc.Server, msg string) ([]byte, string) {
	p1, p2 := net.Pipe()
	defer p2.Close()
	go srv.ServeCodec("c18fuzz", rpc.NewJSONCodec(p1), rpc.OptionMethodInvocation|rpc.OptionSubscriptions)
	p2.SetDeadline(time.Now().Add(20 * time.Second))
	// net.Pipe is synchronous in each direction: write from a goroutine, so that the server can start
	// answering while the tail of the message (the newline) is still being handed over
	werr := make(chan error, 1)
	go func() {
		_, err := io.WriteString(p2, msg+"\n")
		werr <- err
	}()
	dec := json.NewDecoder(p2)
	for i := 0; i < 50; i++ {
		var raw json.RawMessage
		if err := dec.Decode(&raw); err != nil {
			return nil, "read: " + err.Error()
		}
		// skip subscription notifications ({"method":"ns_subscription",...})
		var probe map[string]json.RawMessage
		if json.Unmarshal(raw, &probe) == nil {
			if _, isNote := probe["method"]; isNote {
				continue
			}
		}
		return raw, ""
	}
	return nil, "only notifications"
}

func sendHTTP(url string, msg string) ([]byte, string) {
	cl := &http.Client{Timeout: 20 * time.Second}
	resp, err := cl.Post(url, "application/json", strings.NewReader(msg))
	if err != nil {
		return nil, "post: " + err.Error()
	}
	defer resp.Body.Close()
	b, err := io.ReadAll(resp.Body)
	if err != nil {
		return nil, "read: " + err.Error()
	}
	if resp.StatusCode != 200 {
		return nil, fmt.Sprintf("http status %d", resp.StatusCode)
	}
	return b, ""
}

func runFuzz(sc Scenario, env *c18node.Env, universe, subUniverse map[string]rpc.VerifMethod, names, subNames []string) []FuzzCase {
	rng := vh.NewRNG(sc.Seed*7919 + 18)
	plain := variant{"unlocked/right-pass", env.Unlocked, env.Locked, c18node.PassUnlocked}
	var targets []fuzzTarget
	mk := func(m rpc.VerifMethod) func(int) interface{} {
		return func(i int) interface{} { return genArg(m.ArgTypes[i], m, plain) }
	}
	// every protected name on the keystore namespaces and on one that does not hold it
	for _, ns := range []string{"personal", "aqua", "miner"} {
		for _, n := range []string{"sign", "signTransaction", "sendTransaction", "signAndSendTransaction"} {
			name := ns + "_" + n
			if m, ok := universe[name]; ok {
				targets = append(targets, fuzzTarget{name: name, types: m.ArgTypes, known: true, mkArg: mk(m)})
			} else {
				targets = append(targets, fuzzTarget{name: name, known: false, mkArg: func(int) interface{} { return nil }})
			}
		}
	}
	// a seeded sample of harmless callbacks, plus fixed ones that exercise optional arguments
	safeNS := map[string]bool{"aqua": true, "personal": true, "txpool": true, "net": true, "web3": true, "rpc": true, "btc": true}
	var pool []string
	for _, n := range names {
		ns := strings.SplitN(n, "_", 2)[0]
		if _, skip := neverCall[n]; skip || !safeNS[ns] || n == "personal_newAccount" || n == "personal_importRawKey" || strings.Contains(n, "ockAccount") {
			continue
		}
		pool = append(pool, n)
	}
	picked := map[string]bool{"admin_startRPC": true, "aqua_getBalance": true, "aqua_getWork": true, "btc_getblockcount": true, "rpc_modules": true, "personal_listAccounts": true}
	for len(picked) < 6+5 && len(pool) > 0 {
		picked[pool[rng.Intn(len(pool))]] = true
	}
	var pl []string
	for n := range picked {
		pl = append(pl, n)
	}
	sort.Strings(pl)
	for _, n := range pl {
		if m, ok := universe[n]; ok {
			targets = append(targets, fuzzTarget{name: n, types: m.ArgTypes, known: true, mkArg: mk(m)})
		}
	}
	for _, sn := range subNames {
		m := subUniverse[sn]
		if m.Namespace == "aqua" && (m.Name == "newHeads" || m.Name == "logs") {
			targets = append(targets, fuzzTarget{name: m.Namespace + "_" + m.Name, sub: true, types: m.ArgTypes, known: true, mkArg: mk(m)})
		}
	}

	gen := func(ts []fuzzTarget) []FuzzReq {
		var reqs []FuzzReq
		id := 0
		add := func(t fuzzTarget, mclass, method, pclass, rawParams, ptoken string, idok bool) {
			id++
			okc := "1"
			if !idok {
				okc = "0"
			}
			reqs = append(reqs, FuzzReq{Method: method, Class: mclass + "/" + pclass + map[bool]string{true: "", false: "/bad-id"}[idok],
				Token: hex.EncodeToString([]byte(method)) + ";" + okc + ";" + ptoken, Raw: mkRequest(id, method, idok, rawParams), Target: t.name})
		}
		for _, t := range ts {
			pv := paramsVariants(t, rng)
			for _, mv := range methodVariants(t) {
				add(t, mv[0], mv[1], pv[0][0], pv[0][1], pv[0][2], true) // every method mutation with well-formed params
			}
			exact := methodVariants(t)[0][1]
			for _, p := range pv[1:] {
				add(t, "exact", exact, p[0], p[1], p[2], true) // every params shape on the exact name
			}
			add(t, "exact", exact, pv[0][0], pv[0][1], pv[0][2], false) // invalid id
			// two random (mutation, params) combinations
			for k := 0; k < 1; k++ {
				mvs := methodVariants(t)
				mv := mvs[rng.Intn(len(mvs))]
				p := pv[rng.Intn(len(pv))]
				add(t, mv[0], mv[1], p[0], p[1], p[2], true)
			}
		}
		for _, om := range oddMethods {
			add(fuzzTarget{name: "-"}, "odd:"+om[0], om[1], "absent", "", "A", true)
			add(fuzzTarget{name: "-"}, "odd:"+om[0], om[1], "empty-array", "[]", "L", true)
		}
		return reqs
	}

	var out []FuzzCase
	run := func(where, toySeq string, send func(string) ([]byte, string), reqs []FuzzReq, toy bool) {
		exec := func(batch bool, chunk []FuzzReq) {
			var msg string
			if batch {
				var raws []string
				for _, q := range chunk {
					raws = append(raws, q.Raw)
				}
				msg = "[" + strings.Join(raws, ",") + "]"
			} else {
				msg = chunk[0].Raw
			}
			toyLogTake()
			before := keystore.VerifSignCount()
			raw, trouble := send(msg)
			fc := FuzzCase{Where: where, ToySeq: toySeq, Batch: batch, Reqs: chunk, Delta: keystore.VerifSignCount() - before}
			if toy {
				fc.ToyCalled = toyLogTake()
			}
			if fc.Delta > 0 && !toy {
				// attribute the movement to this message only if it repeats when the message is sent again
				settleCounter(env, false)
				b2 := keystore.VerifSignCount()
				send(msg)
				if keystore.VerifSignCount() == b2 {
					fc.Unattributed = fmt.Sprintf("the keystore counter moved by %d during the message but not when it was sent again", fc.Delta)
					fc.Delta = 0
				}
			}
			if trouble != "" {
				fc.Undecided = trouble
			} else if vs, bad := parseResponse(raw, batch, len(chunk)); bad != "" {
				fc.Undecided = bad
			} else {
				fc.Verdicts = vs
			}
			if env.Aqua.IsMining() {
				env.Aqua.StopMining()
			}
			out = append(out, fc)
		}
		for _, q := range reqs {
			exec(false, []FuzzReq{q})
		}
		// mixed batches: shuffled, sizes 1..9
		perm := make([]FuzzReq, len(reqs))
		copy(perm, reqs)
		for i := len(perm) - 1; i > 0; i-- {
			j := rng.Intn(i + 1)
			perm[i], perm[j] = perm[j], perm[i]
		}
		for i := 0; i < len(perm); {
			n := 1 + rng.Intn(9)
			if i+n > len(perm) {
				n = len(perm) - i
			}
			exec(true, perm[i:i+n])
			i += n
		}
	}

	handlers := env.Stack.VerifHandlers()
	nodeReqs := gen(targets)
	if h := handlers["inproc"]; h != nil {
		run("inproc", "", func(m string) ([]byte, string) { return sendPipe(h, m) }, nodeReqs, false)
	}
	if env.HTTP != "" {
		run("http", "", func(m string) ([]byte, string) { return sendHTTP(env.HTTP, m) }, nodeReqs, false)
	}

	// toy servers: methods record their own invocation
	toyTargets := func(seq []toyReg) []fuzzTarget {
		var ts []fuzzTarget
		seen := map[string]bool{}
		for _, r := range seq {
			t := reflect.TypeOf(r.svc)
			for i := 0; i < t.NumMethod(); i++ {
				name := r.ns + "_" + lowerFirst(t.Method(i).Name)
				if seen[name] {
					continue
				}
				seen[name] = true
				var types []reflect.Type
				for j := 1; j < t.Method(i).Type.NumIn(); j++ {
					types = append(types, t.Method(i).Type.In(j))
				}
				tt := types
				ts = append(ts, fuzzTarget{name: name, types: tt, known: true, mkArg: func(i int) interface{} {
					e := tt[i]
					for e.Kind() == reflect.Ptr {
						e = e.Elem()
					}
					switch e.Kind() {
					case reflect.String:
						return "str"
					case reflect.Bool:
						return true
					default:
						return 3
					}
				}})
			}
		}
		return ts
	}
	f := fakeCaller{}
	{
		seq := toySeqs[1] // merge into one namespace, called from a function that is never allowed
		caller, srv := f.startIPCServer(seq)
		run("toy:"+caller, toySeqString(seq), func(m string) ([]byte, string) { return sendPipe(srv, m) }, gen(toyTargets(seq)), true)
		seq = toySeqs[4] // interleaved namespaces with override, called from a function named like startHTTP
		k := &keepServer{}
		caller2 := k.startHTTP(seq)
		run("toy:"+caller2, toySeqString(seq), func(m string) ([]byte, string) { return sendPipe(k.s, m) }, gen(toyTargets(seq)), true)
	}
	return out
}
