// c18: harness for property C18 "No RPC endpoint can make the node sign unless
// explicitly opted in".
//
// Parent: for every scenario (values of the five UNSAFE_* variables x module
// whitelist configuration x chain kind) it starts a CHILD process (this same
// binary, "child SPEC") with that environment.  The child starts a real
// node.Node with the aqua service on a throw-away data directory and keystore
// (one unlocked, one locked account), lists what each of the four servers
// (in-proc, IPC, HTTP, WS) actually registered, then calls EVERY callback the
// node's API list defines through a client attached to each transport, with
// arguments naming the keystore accounts (unlocked/locked x right/wrong/empty
// passphrase), and records the keystore signing counter (-tags verif hook at
// the six keystore entry points) around every call.
//
//	correspondence  served registry + rpc_modules per transport  ~ model `gen_exposed`
//	                flags read from the environment              ~ model `env_bool`
//	                RegisterName called from look-alike callers  ~ model `is_allowed`
//	                counter moved => the model's m_signs bit (static call graph) is 1
//	direct oracle   counter moved on a transport that is not opted in => violation
//	                (replay = environment, configuration, transport, method, params)
package main

import (
	"context"
	"encoding/hex"
	"encoding/json"
	"fmt"
	"math/big"
	"os"
	"os/exec"
	"path/filepath"
	"reflect"
	"runtime"
	"sort"
	"strings"
	"sync"
	"time"

	"gitlab.com/aquachain/aquachain/aqua/accounts"
	"gitlab.com/aquachain/aquachain/aqua/accounts/keystore"
	"gitlab.com/aquachain/aquachain/common"
	"gitlab.com/aquachain/aquachain/common/log"
	"gitlab.com/aquachain/aquachain/core/types"
	"gitlab.com/aquachain/aquachain/crypto"
	"gitlab.com/aquachain/aquachain/p2p/netutil"
	"gitlab.com/aquachain/aquachain/rpc"
	rpcclient "gitlab.com/aquachain/aquachain/rpc/rpcclient"
	"gitlab.com/aquachain/aquachain/verifharness/cmd/c18/c18node"
	"gitlab.com/aquachain/aquachain/verifharness/vh"
)

// environment variables in the order of the model's flags record
var envVars = []string{"UNSAFE_RPC_SIGNING", "UNSAFE_ALLOW_SIGN_IPC", "UNSAFE_RPC_SIGNING_HTTP", "UNSAFE_RPC_SIGNING_WS", "UNSAFE_ALLOW_SIGN_INPROC"}

// index into envVars of the variable that opts a transport in
var flagIndex = map[string]int{"ipc": 1, "http": 2, "ws": 3, "inproc": 4}
var transports = []string{"inproc", "ipc", "http", "ws"}

type Scenario struct {
	Name          string            `json:"name"`
	Env           map[string]string `json:"env"` // only the variables that are set
	NoDefaults    bool              `json:"no_defaults"`
	HTTPModules   []string          `json:"http_modules"`
	WSModules     []string          `json:"ws_modules"`
	WSExposeAll   bool              `json:"ws_expose_all"`
	Clique        bool              `json:"clique"`
	ListOnly      bool              `json:"list_only"`            // compare the served registries only, make no calls
	NoKeys        bool              `json:"no_keys"`              // node.Config.NoKeys (no keystore at all)
	Runtime       bool              `json:"runtime"`              // HTTP and WS are not configured; they are started through admin_startRPC / admin_startWS over IPC with HTTPModules / WSModules as the apis argument
	RuntimeNil    bool              `json:"runtime_nil"`          // with Runtime: pass apis = null (HTTP then uses Node.httpWhitelist = nil, WS uses Config.WSModules)
	Only          *OnlyCall         `json:"only,omitempty"`       // replay: a single call
	Seed          uint64            `json:"seed"`                 // for the request fuzzer in the child
	ProtectedOnly bool              `json:"protected_only"`       // call only the methods with protected / signing-looking names (single opt-in scenarios)
	SkipCalls     []string          `json:"skip_calls,omitempty"` // methods a previous attempt of this child crashed the node process in (found by the parent from the in-flight marker)
	NoFuzz        bool              `json:"no_fuzz"`              // skip the request fuzzer (quick tier: two fuzzing children are enough)
}

type OnlyCall struct {
	Transport string            `json:"transport"`
	Method    string            `json:"method"`
	Params    []json.RawMessage `json:"params"`
}

type Call struct {
	M string            `json:"method"`
	V string            `json:"variant"`
	P []json.RawMessage `json:"params"`
	D uint64            `json:"sign_counter_delta"`
	R string            `json:"result"` // ok | notfound | invalid | err | timeout
	E string            `json:"error,omitempty"`
	S string            `json:"signature_in_reply,omitempty"` // what the reply was recognised as (65-byte signature / transaction signed by a keystore account)
	U string            `json:"unattributed,omitempty"`       // a counter movement during the call that did not repeat on re-issue: undecided
	Q string            `json:"request,omitempty"`            // the method string as sent, when it differs from the resolved method
}

type TransportOut struct {
	Up       bool     `json:"up"`
	Registry []string `json:"registry"` // ns_wire|recv|sub
	Services []string `json:"services"` // keys of Server.services
	Modules  []string `json:"modules"`  // rpc_modules over the wire
	Calls    []Call   `json:"calls"`
	Skipped  []string `json:"skipped"`
}

type FakeCaller struct {
	Name           string `json:"name"`
	SignRegistered bool   `json:"sign_registered"`
}

// MergeCase: a sequence of RegisterName calls made from one look-alike caller on a fresh server
type MergeCase struct {
	Caller  string   `json:"caller"`
	Seq     string   `json:"seq"`     // model syntax: ns:recv:M1,M2 ns:recv:M3 ...
	Listing []string `json:"listing"` // ns_wire|recv of the callbacks registered afterwards (sorted)
}

type ChildOut struct {
	Flags             map[string]bool          `json:"flags"`
	Unlocked          string                   `json:"unlocked"`
	Locked            string                   `json:"locked"`
	Transports        map[string]*TransportOut `json:"transports"`
	Fake              []FakeCaller             `json:"fake_callers"`
	Merge             []MergeCase              `json:"merge_cases"`
	Fuzz              []FuzzCase               `json:"fuzz_cases"`
	Universe          int                      `json:"universe"`
	ProtectedNames    []string                 `json:"protected_names"` // ns_wire of the callbacks whose Go name rpc.isProtectedMethodName accepts
	SkippedAfterCrash []string                 `json:"skipped_after_crash,omitempty"`
	Error             string                   `json:"error,omitempty"`
}

// ------------------------------------------------------------------ child

// look-alike callers of RegisterName: what matters to RegisterName is only the caller's function name
type fakeCaller struct{}

// toy services: protected and unprotected names, overlapping method names across services
// every toy method records that it was CALLED (receiver type | Go name)
var (
	toyLogMu sync.Mutex
	toyLog   []string
)

func toyCalled(who string) string {
	toyLogMu.Lock()
	toyLog = append(toyLog, who)
	toyLogMu.Unlock()
	return who
}

func toyLogTake() []string {
	toyLogMu.Lock()
	defer toyLogMu.Unlock()
	l := toyLog
	toyLog = nil
	return l
}

type ToyA struct{}

func (ToyA) Sign(x string, y *int) string { return toyCalled("main.ToyA|Sign") }
func (ToyA) Alpha() string                { return toyCalled("main.ToyA|Alpha") }

type ToyB struct{}

func (ToyB) Sign() string                            { return toyCalled("main.ToyB|Sign") }
func (ToyB) Beta(n int, s *string, t *string) string { return toyCalled("main.ToyB|Beta") }
func (ToyB) SendTransaction(x string) (string, error) {
	return toyCalled("main.ToyB|SendTransaction"), nil
}

type ToyC struct{}

func (ToyC) Alpha(z bool) string            { return toyCalled("main.ToyC|Alpha") }
func (ToyC) SignAndSendTransaction() string { return toyCalled("main.ToyC|SignAndSendTransaction") }
func (ToyC) SignTransaction(q *string) error {
	toyCalled("main.ToyC|SignTransaction")
	return fmt.Errorf("toy error")
}

type toyReg struct {
	ns  string
	svc interface{}
}

func toySpec(r toyReg) string {
	t := reflect.TypeOf(r.svc)
	var ms []string
	for i := 0; i < t.NumMethod(); i++ {
		mt := t.Method(i).Type
		fl := ""
		for j := 1; j < mt.NumIn(); j++ { // In(0) is the receiver; toy methods take no context
			if mt.In(j).Kind() == reflect.Ptr {
				fl += "p"
			} else {
				fl += "n"
			}
		}
		ms = append(ms, t.Method(i).Name+"="+fl)
	}
	return r.ns + ":" + t.String() + ":" + strings.Join(ms, ",")
}

var toySeqs = [][]toyReg{
	{{"toy", ToyA{}}},
	{{"toy", ToyA{}}, {"toy", ToyB{}}},                                         // merge into an existing namespace: the merged set must be filtered too
	{{"toy", ToyB{}}, {"toy", ToyA{}}},                                         // the other order
	{{"toy", ToyA{}}, {"toy", ToyC{}}},                                         // later registration overrides Alpha
	{{"toy", ToyC{}}, {"toy2", ToyB{}}, {"toy", ToyA{}}, {"toy2", ToyC{}}},     // interleaved namespaces
	{{"aqua", ToyB{}}, {"eth", ToyB{}}, {"personal", ToyC{}}, {"xyz", ToyC{}}}, // filtering must not depend on the namespace
}

func ownName() string {
	pc, _, _, _ := runtime.Caller(1)
	return runtime.FuncForPC(pc).Name()
}

func toyListing(s *rpc.Server) []string {
	var l []string
	for _, m := range s.VerifListMethods() {
		if m.Namespace != rpc.MetadataApi && !m.Subscription {
			l = append(l, m.Namespace+"_"+m.Name+"|"+m.Recv.String())
		}
	}
	sort.Strings(l)
	return l
}

func toySeqString(seq []toyReg) string {
	var p []string
	for _, r := range seq {
		p = append(p, toySpec(r))
	}
	return strings.Join(p, " ")
}

// look-alike callers of RegisterName: what matters to RegisterName is only the caller's function name.
// Each registers the sequence on a fresh server (RegisterName is called directly from the function body).

//go:noinline
func (fakeCaller) startIPC(seq []toyReg) MergeCase {
	s := rpc.NewServer()
	for _, r := range seq {
		s.RegisterName(r.ns, r.svc)
	}
	return MergeCase{ownName(), toySeqString(seq), toyListing(s)}
}

//go:noinline
func (fakeCaller) startIPCServer(seq []toyReg) (string, *rpc.Server) { // name does NOT end in .startIPC: never allowed
	s := rpc.NewServer()
	for _, r := range seq {
		s.RegisterName(r.ns, r.svc)
	}
	return ownName(), s
}

type keepServer struct{ s *rpc.Server }

//go:noinline
func (k *keepServer) startHTTP(seq []toyReg) string { // ends in .startHTTP: allowed iff UNSAFE_RPC_SIGNING_HTTP
	k.s = rpc.NewServer()
	for _, r := range seq {
		k.s.RegisterName(r.ns, r.svc)
	}
	return ownName()
}

//go:noinline
func (fakeCaller) startWS(seq []toyReg) MergeCase {
	s := rpc.NewServer()
	for _, r := range seq {
		s.RegisterName(r.ns, r.svc)
	}
	return MergeCase{ownName(), toySeqString(seq), toyListing(s)}
}

//go:noinline
func (fakeCaller) xstartIPC(seq []toyReg) MergeCase {
	s := rpc.NewServer()
	for _, r := range seq {
		s.RegisterName(r.ns, r.svc)
	}
	return MergeCase{ownName(), toySeqString(seq), toyListing(s)}
}

//go:noinline
func startHTTP(seq []toyReg) MergeCase {
	s := rpc.NewServer()
	for _, r := range seq {
		s.RegisterName(r.ns, r.svc)
	}
	return MergeCase{ownName(), toySeqString(seq), toyListing(s)}
}

//go:noinline
func startInProc(seq []toyReg) MergeCase {
	s := rpc.NewServer()
	for _, r := range seq {
		s.RegisterName(r.ns, r.svc)
	}
	return MergeCase{ownName(), toySeqString(seq), toyListing(s)}
}

//go:noinline
func startInProcess(seq []toyReg) MergeCase {
	s := rpc.NewServer()
	for _, r := range seq {
		s.RegisterName(r.ns, r.svc)
	}
	return MergeCase{ownName(), toySeqString(seq), toyListing(s)}
}

type variant struct {
	label string
	addr  common.Address
	other common.Address
	pass  string
}

var addressType = reflect.TypeOf(common.Address{})

func usesAccount(m rpc.VerifMethod) bool {
	for _, t := range m.ArgTypes {
		for t.Kind() == reflect.Ptr {
			t = t.Elem()
		}
		if t == addressType || t.Name() == "SendTxArgs" || t.Name() == "CallArgs" || t.Kind() == reflect.String {
			return true
		}
	}
	return false
}

func genArg(t reflect.Type, m rpc.VerifMethod, v variant) interface{} {
	ptr := false
	for t.Kind() == reflect.Ptr {
		t = t.Elem()
		ptr = true
	}
	switch {
	case t == addressType:
		return v.addr
	case t.Name() == "SendTxArgs":
		a := map[string]interface{}{"from": v.addr, "to": v.other, "gas": "0x5208", "gasPrice": "0x3b9aca00", "value": "0x1"}
		if !strings.Contains(m.GoName, "Send") { // sign-only methods insist on an explicit nonce; send-like ones take the pool nonce
			a["nonce"] = "0x0"
		}
		return a
	case t.Name() == "Transaction" && strings.HasSuffix(t.PkgPath(), "core/types"):
		// a complete transaction object with a well-formed (dummy) v/r/s: signed here with a throw-away key
		return dummySignedTx(v.other)
	case t.Name() == "CallArgs":
		return map[string]interface{}{"from": v.addr, "to": v.other}
	case t.Name() == "BlockNumber":
		return "latest"
	case t.Name() == "Bytes" && strings.HasSuffix(t.PkgPath(), "hexutil"):
		return "0xdeadbeef"
	case t.Kind() == reflect.String:
		return v.pass
	case t.Kind() == reflect.Bool:
		return false
	case t.Kind() >= reflect.Int && t.Kind() <= reflect.Uint64 && t.PkgPath() == "":
		if ptr {
			return 1
		}
		if strings.Contains(m.GoName, "GCPercent") {
			return 100 // the default; 0 would make the child collect garbage continuously
		}
		return 0
	}
	if ptr {
		return nil
	}
	return reflect.Zero(t).Interface()
}

var dummyKey, _ = crypto.HexToBtcec("48c18c18c18c18c18c18c18c18c18c18c18c18c18c18c18c18c18c18c18c18c4")

func dummySignedTx(to common.Address) interface{} {
	tx := types.NewTransaction(0, to, big.NewInt(1), 21000, big.NewInt(1000000000), nil)
	signed, err := types.SignTx(tx, types.HomesteadSigner{}, dummyKey)
	if err != nil {
		return nil
	}
	return signed
}

// recogniseSignature inspects a successful reply: a 65-byte signature, or a transaction (bare, or under
// "tx", or RLP under "raw") whose recovered sender is one of the two keystore accounts
func recogniseSignature(res json.RawMessage, accountsOfKeystore []common.Address) string {
	if len(res) == 0 {
		return ""
	}
	var str string
	if json.Unmarshal(res, &str) == nil {
		if b, err := hex.DecodeString(strings.TrimPrefix(str, "0x")); err == nil && len(b) == 65 {
			return "65-byte signature"
		}
		return ""
	}
	var candidates []json.RawMessage
	var obj map[string]json.RawMessage
	if json.Unmarshal(res, &obj) == nil {
		candidates = append(candidates, res)
		if t, ok := obj["tx"]; ok {
			candidates = append(candidates, t)
		}
	}
	for _, cnd := range candidates {
		var tx types.Transaction
		if json.Unmarshal(cnd, &tx) != nil {
			continue
		}
		for _, signer := range []types.Signer{types.NewEIP155Signer(big.NewInt(c18node.ChainID)), types.NewEIP155Signer(big.NewInt(c18node.ChainID + 1)), types.HomesteadSigner{}} {
			if from, err := types.Sender(signer, &tx); err == nil {
				for _, a := range accountsOfKeystore {
					if from == a {
						return "transaction signed by keystore account " + a.Hex()
					}
				}
			}
		}
	}
	return ""
}

// settleCounter stops the miner and waits until the keystore counter has been stable for a while (bounded)
func settleCounter(env *c18node.Env, sealing bool) {
	// after StopMining no new Seal is started (worker.push checks the mining flag); a seal already under
	// way has signed before it starts waiting for its block time, so a short stable period is enough, and
	// the real guard is that a movement must REPEAT on re-issue to be attributed
	quiet := 60 * time.Millisecond
	if sealing {
		quiet = 500 * time.Millisecond
	}
	last, since, start := keystore.VerifSignCount(), time.Now(), time.Now()
	for time.Since(since) < quiet && time.Since(start) < 10*time.Second {
		if env.Aqua.IsMining() {
			env.Aqua.StopMining()
		}
		time.Sleep(25 * time.Millisecond)
		if n := keystore.VerifSignCount(); n != last {
			last, since = n, time.Now()
		}
	}
}

func looksLikeSigner(m rpc.VerifMethod) bool {
	l := strings.ToLower(m.GoName)
	return rpc.VerifIsProtectedMethodName(m.GoName) || strings.Contains(l, "sign") || strings.Contains(l, "sendtransaction") || strings.Contains(l, "resend")
}

var neverCall = map[string]string{
	"admin_shutdown": "would stop the node under test",
	"admin_stopRPC":  "would close the HTTP endpoint under test",
	"admin_stopWS":   "would close the WS endpoint under test",
	"clique_propose": "with the sealer's own address and auth=false it votes the only signer out; the next block then divides by zero in clique.Snapshot.inturn and crashes the process (unrelated to C18)",
	// internal/debug's glog handler is only created by debug.Setup (the aquachain command); in an embedded
	// node these three dereference a nil handler and crash the process (unrelated to C18)
	"debug_verbosity":   "nil glog handler outside the aquachain command (process crash)",
	"debug_vmodule":     "nil glog handler outside the aquachain command (process crash)",
	"debug_backtraceAt": "nil glog handler outside the aquachain command (process crash)",
}

func classify(err error) (string, string) {
	if err == nil {
		return "ok", ""
	}
	msg := err.Error()
	if len(msg) > 160 {
		msg = msg[:160]
	}
	if ec, ok := err.(interface{ ErrorCode() int }); ok {
		switch ec.ErrorCode() {
		case -32601:
			return "notfound", msg
		case -32602:
			return "invalid", msg
		}
	}
	if strings.Contains(msg, "does not exist/is not available") {
		return "notfound", msg
	}
	if strings.Contains(msg, "deadline exceeded") {
		return "timeout", msg
	}
	return "err", msg
}

func childMain(specPath string) {
	var out ChildOut
	emit := func() {
		b, _ := json.Marshal(out)
		os.Stdout.Write(b)
		os.Stdout.Write([]byte("\n"))
	}
	b, err := os.ReadFile(specPath)
	if err != nil {
		out.Error = err.Error()
		emit()
		os.Exit(1)
	}
	var sc Scenario
	if err := json.Unmarshal(b, &sc); err != nil {
		out.Error = err.Error()
		emit()
		os.Exit(1)
	}
	if os.Getenv("C18_CHILD_LOG") == "" {
		log.Root().SetHandler(log.DiscardHandler())
	}
	dir := filepath.Dir(specPath)
	// in-flight marker: if a call crashes the node process the parent learns which one it was
	inflightFile, _ := os.OpenFile(filepath.Join(dir, "inflight.txt"), os.O_CREATE|os.O_WRONLY|os.O_TRUNC, 0o644)
	inflight := func(what string) {
		if inflightFile != nil {
			inflightFile.Truncate(0)
			inflightFile.WriteAt([]byte(what), 0)
		}
	}
	skipCall := map[string]bool{}
	for _, n := range sc.SkipCalls {
		skipCall[n] = true
	}
	env, err := c18node.Start(c18node.Options{Dir: filepath.Join(dir, "data"), NoDefaults: sc.NoDefaults, HTTPModules: sc.HTTPModules,
		WSModules: sc.WSModules, WSExposeAll: sc.WSExposeAll, Transports: true, Clique: sc.Clique, NoKeys: sc.NoKeys, OnlyIPC: sc.Runtime})
	if err != nil {
		out.Error = "start: " + err.Error()
		emit()
		os.Exit(1)
	}
	out.Flags = rpc.VerifSignFlags()
	out.Unlocked, out.Locked = env.Unlocked.Hex(), env.Locked.Hex()
	out.Transports = map[string]*TransportOut{}

	if sc.Runtime {
		// start HTTP and WS at run time, the way an operator would from the console / over IPC
		cl, err := rpcclient.Dial(env.IPC)
		if err != nil {
			out.Error = "runtime dial ipc: " + err.Error()
			emit()
			os.Exit(1)
		}
		var hApis, wApis interface{}
		if !sc.RuntimeNil {
			hApis, wApis = strings.Join(sc.HTTPModules, ","), strings.Join(sc.WSModules, ",")
		}
		var nl netutil.Netlist
		nl.Add("127.0.0.1/32")
		var ok bool
		if err := cl.Call(&ok, "admin_startRPC", "127.0.0.1", 0, nil, hApis, nil); err != nil || !ok {
			out.Error = fmt.Sprintf("admin_startRPC: ok=%v err=%v", ok, err)
			emit()
			os.Exit(1)
		}
		if err := cl.Call(&ok, "admin_startWS", "127.0.0.1", 0, "*", nl, wApis); err != nil || !ok {
			out.Error = fmt.Sprintf("admin_startWS: ok=%v err=%v", ok, err)
			emit()
			os.Exit(1)
		}
		cl.Close()
		env.RefreshEndpoints()
	}

	var ks *keystore.KeyStore
	if am := env.Stack.AccountManager(); am != nil {
		if bk := am.Backends(keystore.KeyStoreType); len(bk) > 0 {
			ks = bk[0].(*keystore.KeyStore)
		}
	}
	restore := func() {
		if ks == nil {
			return
		}
		ks.Lock(env.Locked)
		ks.Unlock(accounts.Account{Address: env.Unlocked}, c18node.PassUnlocked)
	}

	// universe of callbacks: every API in startRPC's list, later registrations override earlier ones
	universe := map[string]rpc.VerifMethod{}
	subUniverse := map[string]rpc.VerifMethod{} // key ns_subscribe:wire
	add := func(ms []rpc.VerifMethod) {
		for _, m := range ms {
			if !m.Subscription {
				universe[m.Namespace+"_"+m.Name] = m
			} else {
				subUniverse[m.Namespace+"_subscribe:"+m.Name] = m
			}
		}
	}
	for _, a := range env.Stack.VerifRPCAPIs() {
		add(rpc.VerifSuitableCallbacks(a.Namespace, a.Service))
	}
	add(rpc.NewServer().VerifListMethods())
	var names []string
	for n := range universe {
		names = append(names, n)
	}
	sort.Strings(names)
	for _, n := range names {
		if rpc.VerifIsProtectedMethodName(universe[n].GoName) {
			out.ProtectedNames = append(out.ProtectedNames, n)
		}
	}
	// request-name aliases the JSON layer knows for SINGLE requests: eth_X -> aqua_X, X -> btc_X
	aliases := map[string]rpc.VerifMethod{}
	for n, m := range universe {
		if strings.HasPrefix(n, "aqua_") {
			aliases["eth_"+n[len("aqua_"):]] = m
		}
		if strings.HasPrefix(n, "btc_") {
			aliases[n[len("btc_"):]] = m
		}
	}
	var aliasNames []string
	for n := range aliases {
		aliasNames = append(aliasNames, n)
	}
	sort.Strings(aliasNames)
	var subNames []string
	for n := range subUniverse {
		subNames = append(subNames, n)
	}
	sort.Strings(subNames)
	out.Universe = len(names) + len(subNames)

	handlers := env.Stack.VerifHandlers()
	for _, tr := range transports {
		to := &TransportOut{}
		out.Transports[tr] = to
		h := handlers[tr]
		if h == nil {
			continue
		}
		to.Up = true
		svc := map[string]bool{}
		servedHere := map[string]bool{}
		for _, m := range h.VerifListMethods() {
			if !m.Subscription {
				servedHere[m.Namespace+"_"+m.Name] = true
			}
			sub := "0"
			if m.Subscription {
				sub = "1"
			}
			to.Registry = append(to.Registry, m.Namespace+"_"+m.Name+"|"+m.Recv.String()+"|"+sub)
			svc[m.Namespace] = true
		}
		sort.Strings(to.Registry)
		var cl *rpcclient.Client
		switch tr {
		case "inproc":
			cl, err = env.Stack.Attach(context.Background(), "c18")
		case "ipc":
			cl, err = rpcclient.Dial(env.IPC)
		case "http":
			cl, err = rpcclient.Dial(env.HTTP)
		case "ws":
			cl, err = rpcclient.Dial(env.WS)
		}
		if err != nil {
			out.Error = tr + " dial: " + err.Error()
			emit()
			os.Exit(1)
		}
		if mods, err := cl.SupportedModules(); err == nil {
			for m := range mods {
				to.Modules = append(to.Modules, m)
			}
			sort.Strings(to.Modules)
		} else {
			to.Modules = []string{"error:" + err.Error()}
		}
		doCall := func(name string, label string, params []json.RawMessage, wait time.Duration) {
			args := make([]interface{}, len(params))
			for i, p := range params {
				args[i] = p
			}
			inflight("call " + name)
			t0 := time.Now()
			rpcName := name
			if i := strings.Index(name, "_subscribe:"); i >= 0 {
				rpcName = name[:i] + "_subscribe"
			}
			// one issue of the request: reply, error, and how far the keystore counter moved meanwhile
			issue := func() (json.RawMessage, error, uint64) {
				before := keystore.VerifSignCount()
				ctx, cancel := context.WithTimeout(context.Background(), 8*time.Second)
				var res json.RawMessage
				err := cl.CallContext(ctx, &res, rpcName, args...)
				cancel()
				if r0, _ := classify(err); wait > 0 && r0 != "notfound" && r0 != "invalid" { // asynchronous signing (block sealing): poll the counter
					deadline := time.Now().Add(wait)
					for time.Now().Before(deadline) && keystore.VerifSignCount() == before {
						time.Sleep(50 * time.Millisecond)
					}
				}
				return res, err, keystore.VerifSignCount() - before
			}
			res, err, delta := issue()
			unattributed := ""
			if delta > 0 {
				// A movement is attributed to THIS call only if it repeats: let whatever may still be running
				// settle (miner stopped, counter stable), issue the same request again, and require a second
				// movement.  Otherwise the movement is recorded as unattributed (undecided), never as a verdict.
				settleCounter(env, wait > 0)
				_, _, d2 := issue()
				if d2 == 0 {
					unattributed = fmt.Sprintf("the keystore counter moved by %d while %s was in flight but not when the same request was issued again", delta, name)
					delta = 0
				}
			}
			before, after := uint64(0), delta
			if d := time.Since(t0); d > 300*time.Millisecond && os.Getenv("C18_CHILD_LOG") != "" {
				fmt.Fprintln(os.Stderr, "SLOW", tr, name, label, d)
			}
			r, e := classify(err)
			sig := ""
			if err == nil {
				sig = recogniseSignature(res, []common.Address{env.Unlocked, env.Locked})
			}
			to.Calls = append(to.Calls, Call{M: name, V: label, P: params, D: after - before, R: r, E: e, S: sig, U: unattributed})
			if env.Aqua.IsMining() {
				env.Aqua.StopMining()
				time.Sleep(20 * time.Millisecond)
			}
			if wait > 0 && r != "notfound" && r != "invalid" {
				// let a seal that is already under way finish, so that it cannot be attributed to the next call
				last, since := keystore.VerifSignCount(), time.Now()
				for time.Since(since) < 500*time.Millisecond {
					time.Sleep(50 * time.Millisecond)
					if env.Aqua.IsMining() {
						env.Aqua.StopMining()
					}
					if n := keystore.VerifSignCount(); n != last {
						last, since = n, time.Now()
					}
				}
			}
			if strings.Contains(name, "ockAccount") {
				restore()
			}
		}
		if sc.Only != nil {
			if sc.Only.Transport == tr {
				w := time.Duration(0)
				if sc.Clique {
					w = 8 * time.Second
				}
				doCall(sc.Only.Method, "replay", sc.Only.Params, w)
			}
			cl.Close()
			continue
		}
		for _, name := range names {
			if sc.ListOnly {
				break
			}
			m := universe[name]
			if why, skip := neverCall[name]; skip {
				to.Skipped = append(to.Skipped, name+": "+why)
				continue
			}
			if skipCall[name] {
				to.Skipped = append(to.Skipped, name+": a previous attempt crashed the node process while this call was in flight")
				continue
			}
			if sc.ProtectedOnly && !looksLikeSigner(m) {
				continue
			}
			startsMiner := name == "miner_start" || name == "aqua_getWork" || name == "testing_getBlockTemplate"
			if sc.Clique && !startsMiner && !strings.HasPrefix(name, "clique_") {
				continue
			}
			var vs []variant
			if sc.Clique && startsMiner {
				vs = []variant{{"unlocked/right-pass", env.Unlocked, env.Locked, c18node.PassUnlocked}}
			} else if usesAccount(m) {
				for _, acc := range []struct {
					l    string
					a, o common.Address
					p    string
				}{{"unlocked", env.Unlocked, env.Locked, c18node.PassUnlocked}, {"locked", env.Locked, env.Unlocked, c18node.PassLocked}} {
					vs = append(vs, variant{acc.l + "/right-pass", acc.a, acc.o, acc.p}, variant{acc.l + "/wrong-pass", acc.a, acc.o, "wrong"}, variant{acc.l + "/no-pass", acc.a, acc.o, ""})
				}
			} else {
				vs = []variant{{"plain", env.Unlocked, env.Locked, ""}}
			}
			if strings.HasSuffix(m.Recv.String(), "debug.HandlerT") && len(vs) > 1 {
				vs = vs[:1] // process profiling / tracing knobs (file name arguments): once is enough
			}
			if !servedHere[name] && len(vs) > 1 {
				vs = vs[:1] // not registered on this transport: one call is enough to see method-not-found
			}
			for _, v := range vs {
				var params []json.RawMessage
				for _, t := range m.ArgTypes {
					pb, err := json.Marshal(genArg(t, m, v))
					if err != nil {
						pb = []byte("null")
					}
					params = append(params, pb)
				}
				w := time.Duration(0)
				if sc.Clique && startsMiner {
					w = 8 * time.Second
				}
				doCall(name, v.label, params, w)
			}
		}
		if !sc.ListOnly && !sc.ProtectedOnly && sc.Only == nil && !sc.Clique {
			plain := variant{"unlocked/right-pass", env.Unlocked, env.Locked, c18node.PassUnlocked}
			paramsOf := func(m rpc.VerifMethod) []json.RawMessage {
				var params []json.RawMessage
				for _, t := range m.ArgTypes {
					pb, err := json.Marshal(genArg(t, m, plain))
					if err != nil {
						pb = []byte("null")
					}
					params = append(params, pb)
				}
				return params
			}
			// subscriptions: <ns>_subscribe with the subscription name as first parameter
			for _, sn := range subNames {
				m := subUniverse[sn]
				nm, _ := json.Marshal(m.Name)
				params := append([]json.RawMessage{nm}, paramsOf(m)...)
				doCall(sn, "subscribe", params, 0)
			}
			// the aliases as single requests
			callable := map[string]rpc.VerifMethod{}
			for n, m := range universe {
				callable[n] = m
			}
			for _, an := range aliasNames {
				callable[an] = aliases[an]
				if _, skip := neverCall["aqua_"+strings.TrimPrefix(an, "eth_")]; skip || skipCall[an] || skipCall["aqua_"+strings.TrimPrefix(an, "eth_")] {
					continue
				}
				doCall(an, "alias", paramsOf(aliases[an]), 0)
			}
			// batch requests: every callback and every alias once more, inside JSON-RPC batches
			// (parseBatchRequest / Server.execBatch path)
			var bnames []string
			for _, name := range names {
				if _, skip := neverCall[name]; !skip && !skipCall[name] {
					bnames = append(bnames, name)
				}
			}
			bnames = append(bnames, aliasNames...)
			runBatch := func(chunk []string, label string) uint64 {
				elems := make([]rpcclient.BatchElem, len(chunk))
				ps := make([][]json.RawMessage, len(chunk))
				for i, name := range chunk {
					ps[i] = paramsOf(callable[name])
					args := make([]interface{}, len(ps[i]))
					for j, p := range ps[i] {
						args[j] = p
					}
					elems[i] = rpcclient.BatchElem{Method: name, Args: args, Result: new(json.RawMessage)}
				}
				inflight("batch " + strings.Join(chunk, ","))
				before := keystore.VerifSignCount()
				ctx, cancel := context.WithTimeout(context.Background(), 20*time.Second)
				err := cl.BatchCallContext(ctx, elems)
				cancel()
				delta := keystore.VerifSignCount() - before
				for i, name := range chunk {
					e := elems[i].Error
					if err != nil {
						e = err
					}
					r, es := classify(e)
					d := uint64(0)
					if len(chunk) == 1 {
						d = delta
					}
					to.Calls = append(to.Calls, Call{M: name, V: label, P: ps[i], D: d, R: r, E: es})
				}
				if env.Aqua.IsMining() {
					env.Aqua.StopMining()
				}
				restore()
				return delta
			}
			const chunkSize = 24
			for i := 0; i < len(bnames); i += chunkSize {
				j := i + chunkSize
				if j > len(bnames) {
					j = len(bnames)
				}
				chunk := bnames[i:j]
				if d := runBatch(chunk, "batch"); d > 0 {
					// attribute: every element again as a batch of one
					var sum uint64
					for _, name := range chunk {
						settleCounter(env, false)
						d1 := runBatch([]string{name}, "batch-of-one")
						if d1 > 0 {
							// confirm: the movement must repeat
							settleCounter(env, false)
							if d2 := runBatch([]string{name}, "batch-of-one"); d2 == 0 {
								// neither of the two records carries an attributed movement
								for k := len(to.Calls) - 2; k < len(to.Calls); k++ {
									if k >= 0 && to.Calls[k].M == name {
										to.Calls[k].D = 0
									}
								}
								to.Calls[len(to.Calls)-1].U = fmt.Sprintf("the keystore counter moved by %d during a batch of one with %s but not when it was sent again", d1, name)
								d1 = 0
							}
						}
						sum += d1
					}
					if sum == 0 {
						to.Calls = append(to.Calls, Call{M: "batch:" + strings.Join(chunk, "+"), V: "batch", D: 0, R: "ok", U: fmt.Sprintf("the keystore counter moved by %d during a batch but for no element when re-sent alone", d)})
					}
				}
			}
		}
		cl.Close()
	}
	f := fakeCaller{}
	for _, seq := range toySeqs {
		for _, mc := range []MergeCase{f.startIPC(seq), f.startWS(seq), f.xstartIPC(seq), startHTTP(seq), startInProc(seq), startInProcess(seq)} {
			out.Merge = append(out.Merge, mc)
			if len(seq) == 1 {
				signed := false
				for _, e := range mc.Listing {
					if strings.HasPrefix(e, "toy_sign|") {
						signed = true
					}
				}
				out.Fake = append(out.Fake, FakeCaller{mc.Caller, signed})
			}
		}
	}
	if !sc.ListOnly && !sc.ProtectedOnly && sc.Only == nil && !sc.Clique && !sc.NoFuzz {
		inflight("fuzz")
		out.Fuzz = runFuzz(sc, env, universe, subUniverse, names, subNames)
	}
	inflight("done")
	emit()
	done := make(chan struct{})
	go func() { env.Stop(); close(done) }()
	select {
	case <-done:
	case <-time.After(3 * time.Second):
	}
	os.Exit(0)
}

// ------------------------------------------------------------------ parent

// runChild runs one scenario in a child process; failures of the infrastructure kind (the child could not
// start its node, bind, dial, or died without a result) are retried a few times with a fresh directory.
func runChild(c *vh.Ctx, sc Scenario, idx int) (*ChildOut, error) {
	var out *ChildOut
	var err error
	infra := 0
	for attempt := 0; attempt < 12 && infra < 4; attempt++ {
		out, err = runChildOnce(c, &sc, idx*10+attempt)
		if err == nil {
			out.SkippedAfterCrash = sc.SkipCalls
			return out, nil
		}
		if ce, ok := err.(*crashError); ok {
			// the node process died while a call was in flight: leave that call out and run the scenario again
			c.Note("scenario %s: the node process crashed during %q (%s); re-running without it", sc.Name, ce.inflight, ce.firstLine)
			c.Count("node process crashed during a call (call skipped, scenario re-run)")
			continue
		}
		infra++
		fmt.Fprintf(os.Stderr, "c18: scenario %s attempt %d failed: %v\n", sc.Name, attempt+1, err)
		time.Sleep(time.Duration(200*(attempt+1)) * time.Millisecond)
	}
	return nil, err
}

type crashError struct {
	inflight, firstLine string
}

func (e *crashError) Error() string {
	return "node process crashed during " + e.inflight + ": " + e.firstLine
}

func runChildOnce(c *vh.Ctx, scp *Scenario, idx int) (*ChildOut, error) {
	sc := *scp
	dir, err := os.MkdirTemp("", fmt.Sprintf("c18-%d-", idx))
	if err != nil {
		return nil, err
	}
	defer os.RemoveAll(dir)
	spec := filepath.Join(dir, "spec.json")
	b, _ := json.Marshal(sc)
	os.WriteFile(spec, b, 0o644)
	exe, _ := os.Executable()
	cmd := exec.Command(exe, "child", spec)
	cmd.Dir = dir
	var envv []string
	for _, kv := range os.Environ() {
		k := strings.SplitN(kv, "=", 2)[0]
		if strings.HasPrefix(k, "UNSAFE_") || k == "HOME" || k == "AQUA_DATADIR" || k == "NO_SIGN" || k == "NOSIGN" || k == "NO_KEYS" || k == "AQUA_KEYSTORE_DIR" || k == "TESTING_TEST" || k == "AQUA_ALLOW_RPC" {
			continue
		}
		envv = append(envv, kv)
	}
	envv = append(envv, c18node.ScratchEnv(dir)...)
	for k, v := range sc.Env {
		envv = append(envv, k+"="+v)
	}
	cmd.Env = envv
	var stderr strings.Builder
	cmd.Stderr = &stderr
	ctx, cancel := context.WithTimeout(context.Background(), 10*time.Minute)
	defer cancel()
	outb, err := func() ([]byte, error) {
		ch := make(chan struct{})
		var o []byte
		var e error
		go func() { o, e = cmd.Output(); close(ch) }()
		select {
		case <-ch:
			return o, e
		case <-ctx.Done():
			cmd.Process.Kill()
			return nil, fmt.Errorf("child timed out")
		}
	}()
	var out ChildOut
	line := outb
	if i := strings.LastIndex(strings.TrimSpace(string(outb)), "\n"); i >= 0 {
		line = []byte(strings.TrimSpace(string(outb))[i+1:])
	}
	if jerr := json.Unmarshal(line, &out); jerr != nil {
		st := stderr.String()
		if len(st) > 1500 {
			st = st[len(st)-1500:]
		}
		// did it die in the middle of a call?
		if mark, rerr := os.ReadFile(filepath.Join(dir, "inflight.txt")); rerr == nil {
			w := strings.TrimSpace(string(mark))
			first := ""
			for _, l := range strings.Split(stderr.String(), "\n") {
				if strings.HasPrefix(l, "panic:") || strings.HasPrefix(l, "fatal error:") {
					first = l
					break
				}
			}
			switch {
			case strings.HasPrefix(w, "call "):
				scp.SkipCalls = append(scp.SkipCalls, strings.TrimPrefix(w, "call "))
				return nil, &crashError{w, first}
			case strings.HasPrefix(w, "batch "):
				scp.SkipCalls = append(scp.SkipCalls, strings.Split(strings.TrimPrefix(w, "batch "), ",")...)
				return nil, &crashError{w, first}
			case w == "fuzz":
				scp.NoFuzz = true
				return nil, &crashError{w, first}
			}
		}
		return nil, fmt.Errorf("child failed (%v / %v): %s", err, jerr, st)
	}
	if out.Error != "" {
		return nil, fmt.Errorf("child: %s", out.Error)
	}
	return &out, nil
}

func modsArg(noDefaults bool, l []string) string {
	if !noDefaults {
		return "default"
	}
	if len(l) == 0 {
		return "-"
	}
	return strings.Join(l, ",")
}

// the whitelists the start functions end up with, as model arguments
func modelMods(sc Scenario) (string, string) {
	if sc.Runtime && sc.RuntimeNil {
		// admin_startRPC: modules := api.node.httpWhitelist (never assigned: nil); admin_startWS: modules := config.WSModules
		return "-", modsArg(sc.NoDefaults, sc.WSModules)
	}
	if sc.Runtime {
		return modsArg(true, sc.HTTPModules), modsArg(true, sc.WSModules)
	}
	return modsArg(sc.NoDefaults, sc.HTTPModules), modsArg(sc.NoDefaults, sc.WSModules)
}

func chainOf(sc Scenario) string {
	if sc.Clique {
		return "clique"
	}
	return "aquahash"
}

func bit(b bool) string {
	if b {
		return "1"
	}
	return "0"
}

func envDesc(sc Scenario) string {
	var p []string
	for _, v := range envVars {
		if val, ok := sc.Env[v]; ok {
			p = append(p, v+"="+fmt.Sprintf("%q", val))
		}
	}
	if len(p) == 0 {
		return "default-env"
	}
	return strings.Join(p, " ")
}

func evaluate(c *vh.Ctx, m *vh.Model, sc Scenario, out *ChildOut) {
	// environment -> flags
	flags := ""
	for _, v := range envVars {
		req := "envbool unset"
		if val, ok := sc.Env[v]; ok {
			req = "envbool " + vh.Hex([]byte(val))
		}
		ans := m.Ask(req)
		c.Correspond("sense.EnvBool~env_bool", v+"="+fmt.Sprintf("%q", sc.Env[v])+" ("+req+")", bit(out.Flags[v]), ans)
		flags += ans
	}
	if len(flags) != 5 {
		c.Fatal("model envbool answers malformed: %q", flags)
	}
	for _, fk := range out.Fake {
		c.Correspond("RegisterName(caller name)~is_allowed", "flags="+flags+" caller="+fk.Name, bit(fk.SignRegistered), m.Ask("allowed "+flags+" "+fk.Name))
	}
	for _, mc := range out.Merge {
		c.Correspond("RegisterName sequence (new/merge/override)~register_all", "flags="+flags+" caller="+mc.Caller+" seq="+mc.Seq, strings.Join(mc.Listing, ","), m.Ask("regseq "+flags+" "+mc.Caller+" "+mc.Seq))
	}
	for _, tr := range transports {
		to := out.Transports[tr]
		if to == nil || !to.Up {
			c.Fatal("transport %s not started in scenario %s", tr, sc.Name)
		}
		optedIn := flags[flagIndex[tr]] == '1'
		hm, wm := modelMods(sc)
		req := fmt.Sprintf("exposed %s %s %s %s %s %s", chainOf(sc), flags, tr, hm, wm, bit(sc.WSExposeAll))
		ans := m.Ask(req)
		// model answer: "ok modules=.. methods=ns_wire|recv|sub|signs,..": split off the signs bits
		signs := map[string]string{}
		modelCanon := ans
		if strings.HasPrefix(ans, "ok modules=") {
			parts := strings.SplitN(ans, " methods=", 2)
			var ms []string
			if len(parts) == 2 && parts[1] != "" {
				for _, e := range strings.Split(parts[1], ",") {
					f := strings.Split(e, "|")
					if len(f) == 4 {
						if f[2] == "0" {
							signs[f[0]] = f[3]
						} else if i := strings.Index(f[0], "_"); i > 0 {
							signs[f[0][:i]+"_subscribe:"+f[0][i+1:]] = f[3]
						}
						ms = append(ms, f[0]+"|"+f[1]+"|"+f[2])
					}
				}
			}
			modelCanon = parts[0] + " methods=" + strings.Join(ms, ",")
		}
		served := map[string]bool{}
		for _, e := range to.Registry {
			f := strings.Split(e, "|")
			if f[2] == "0" {
				served[f[0]] = true
			}
		}
		if sc.Only == nil {
			reg, mods := to.Registry, to.Modules
			obs := "ok modules=" + strings.Join(mods, ",") + " methods=" + strings.Join(reg, ",")
			c.Correspond("node.start*/rpc.RegisterName~gen_exposed", sc.Name+" ["+envDesc(sc)+"] "+req, obs, modelCanon)
		}
		worst := map[string]Call{}
		for _, call := range to.Calls {
			class := fmt.Sprintf("%s/%s/%s", tr, map[bool]string{true: "opted-in", false: "not-opted-in"}[optedIn], call.R)
			if call.D > 0 {
				class += "/signed"
			}
			switch {
			case strings.HasPrefix(call.V, "batch"):
				class += "/batch"
			case call.V == "subscribe":
				class += "/subscribe"
			case call.V == "alias":
				class += "/alias"
			}
			c.Eval(class, fmt.Sprintf("%s|%s|%s|%s|%v", sc.Name, tr, call.M, call.V, call.D > 0))
			if call.U != "" {
				// a counter movement that could not be attributed to this request (it did not repeat): undecided
				c.Count("undecided: unattributed keystore counter movement")
				c.Note("%s %s %s: %s", sc.Name, tr, call.M, call.U)
			}
			if strings.HasPrefix(call.M, "batch:") {
				continue
			}
			// what the model says this request resolves to (json.go parse + server.go readRequest)
			isBatch := strings.HasPrefix(call.V, "batch")
			rreq := fmt.Sprintf("resolve %s %s %s %s %s %s %s ", chainOf(sc), flags, tr, hm, wm, bit(sc.WSExposeAll), bit(isBatch))
			if i := strings.Index(call.M, "_subscribe:"); i >= 0 {
				rreq += call.M[:i] + "_subscribe " + call.M[i+len("_subscribe:"):]
			} else {
				rreq += call.M
			}
			rans := m.Ask(rreq)
			rf := strings.Fields(rans)
			resolvedName, sb := call.M, "unresolved"
			if call.V == "alias" { // name the method the way the JSON layer rewrites a single request
				if strings.HasPrefix(call.M, "eth_") {
					resolvedName = "aqua_" + strings.TrimPrefix(call.M, "eth_")
				} else if !strings.Contains(call.M, "_") {
					resolvedName = "btc_" + call.M
				}
			}
			if len(rf) == 2 {
				if ef := strings.Split(rf[1], "|"); len(ef) == 3 {
					resolvedName, sb = ef[0], ef[2]
				}
			}
			if sc.Only == nil {
				kind := "wire"
				switch {
				case isBatch:
					kind = "wire/batch"
				case call.V == "subscribe":
					kind = "wire/subscribe"
				case call.V == "alias":
					kind = "wire/alias"
				}
				c.Correspond(kind+":method-not-found~resolve", sc.Name+" "+tr+" "+call.M+" "+call.V+" ("+rreq+")", bit(call.R != "notfound"), bit(len(rf) > 0 && rf[0] != "notfound"))
			}
			if call.D > 0 || call.S != "" {
				// a keystore signing entry point was entered (or the reply carries a signature): the static bit of the resolved method must say so
				c.Correspond("keystore counter moved => m_signs", sc.Name+" "+tr+" "+call.M+" "+call.V, "1", sb)
				if !optedIn {
					call.Q = call.M
					call.M = resolvedName
					if prev, ok := worst[call.M]; !ok || (prev.R != "ok" && call.R == "ok") {
						worst[call.M] = call
					}
				}
			}
		}
		var ws []string
		for k := range worst {
			ws = append(ws, k)
		}
		sort.Strings(ws)
		for _, k := range ws {
			call := worst[k]
			produced := "the call returned an error after entering the keystore signing entry point"
			if call.R == "ok" {
				produced = "the call succeeded: a signature with the keystore key was produced"
			}
			if call.S != "" {
				produced += "; the reply carries a " + call.S
			}
			sig := "rpc-unprotected-signer/" + call.M
			protectedName := false
			for _, pn := range out.ProtectedNames {
				if pn == call.M {
					protectedName = true
				}
			}
			if strings.Count(flags, "1") == 1 && protectedName {
				// exactly one opt-in variable is set, and a transport it does not belong to serves a protected method that signs
				sig = "rpc-optin-crosses-transport/" + envVars[strings.Index(flags, "1")] + "/" + tr
			}
			c.Violate(sig,
				fmt.Sprintf("%s over %s entered a keystore signing entry point %d time(s) although %s is not set (%s; modules http=%s ws=%s; chain=%s); %s", call.M, tr, call.D, envVars[flagIndex[tr]], envDesc(sc), hm, wm, chainOf(sc), produced),
				map[string]interface{}{"scenario": sc, "transport": tr, "method": map[bool]string{true: call.Q, false: call.M}[call.Q != ""], "variant": call.V, "params": call.P, "result": call.R, "error": call.E, "sign_counter_delta": call.D})
		}
	}
	evaluateFuzz(c, m, sc, out, flags)
}

// evaluateFuzz compares every fuzzed message with the model of the request path (Rpc/Invoke.v)
func evaluateFuzz(c *vh.Ctx, m *vh.Model, sc Scenario, out *ChildOut, flags string) {
	hm, wm := modelMods(sc)
	t0 := time.Now()
	// first pass: all model questions in one pipelined exchange
	var asks []string
	for _, fc := range out.Fuzz {
		if fc.Undecided != "" {
			continue
		}
		var toks []string
		for _, q := range fc.Reqs {
			toks = append(toks, q.Token)
		}
		if strings.HasPrefix(fc.Where, "toy:") {
			specs := strings.Fields(fc.ToySeq)
			asks = append(asks, fmt.Sprintf("invoke toy %s %s %d %s %s %s", flags, strings.TrimPrefix(fc.Where, "toy:"), len(specs), strings.Join(specs, " "), bit(fc.Batch), strings.Join(toks, " ")))
		} else {
			asks = append(asks, fmt.Sprintf("invoke node %s %s %s %s %s %s %s %s", chainOf(sc), flags, fc.Where, hm, wm, bit(sc.WSExposeAll), bit(fc.Batch), strings.Join(toks, " ")))
		}
	}
	answers := m.AskAll(asks)
	ai := 0
	defer func() {
		if len(out.Fuzz) > 0 {
			c.Note("%s: %d fuzzed messages evaluated in %.1fs", sc.Name, len(out.Fuzz), time.Since(t0).Seconds())
		}
	}()
	for _, fc := range out.Fuzz {
		if fc.Undecided != "" {
			c.Count("fuzz/undecided (" + strings.SplitN(fc.Undecided, ":", 2)[0] + ")")
			if len(fc.Reqs) > 0 {
				c.Note("%s fuzz %s undecided (%s): batch=%v first request %q [%s] of %d", sc.Name, fc.Where, fc.Undecided, fc.Batch, fc.Reqs[0].Method, fc.Reqs[0].Class, len(fc.Reqs))
			}
			continue
		}
		if fc.Unattributed != "" {
			c.Count("undecided: unattributed keystore counter movement")
			c.Note("%s fuzz %s: %s", sc.Name, fc.Where, fc.Unattributed)
		}
		var toks []string
		for _, q := range fc.Reqs {
			toks = append(toks, q.Token)
		}
		var req, corr string
		toy := strings.HasPrefix(fc.Where, "toy:")
		if toy {
			specs := strings.Fields(fc.ToySeq)
			req = fmt.Sprintf("invoke toy %s %s %d %s %s %s", flags, strings.TrimPrefix(fc.Where, "toy:"), len(specs), strings.Join(specs, " "), bit(fc.Batch), strings.Join(toks, " "))
			corr = "toy server"
		} else {
			req = fmt.Sprintf("invoke node %s %s %s %s %s %s %s %s", chainOf(sc), flags, fc.Where, hm, wm, bit(sc.WSExposeAll), bit(fc.Batch), strings.Join(toks, " "))
			corr = "node " + fc.Where
		}
		ans := answers[ai]
		ai++
		mv := strings.Fields(ans)
		var invokedModel []string
		for i, v := range mv {
			if strings.HasPrefix(v, "invoked:") {
				e := strings.TrimPrefix(v, "invoked:")
				if k := strings.Index(e, "_"); k >= 0 && (!strings.HasPrefix(fc.Where, "toy:") || strings.Contains(e, "|main.Toy")) {
					invokedModel = append(invokedModel, e[k+1:]) // wire|recv (on toy servers: toy methods only; rpc_modules keeps no log)
				}
				mv[i] = "invoked"
			}
		}
		obs := append([]string{}, fc.Verdicts...)
		if len(obs) == len(mv) {
			for i := range mv {
				// the notifier's unsubscribe path calls no registered callback; on the wire it shows as an
				// error of the notifier (-32000) or as invalid params
				if mv[i] == "unsubscribe" && (obs[i] == "invoked" || obs[i] == "invalidparams") {
					obs[i] = "unsubscribe"
				}
			}
		}
		name := "rpc request path (json.go parse, server.go readRequest/handle)~invoke (" + corr + map[bool]string{true: ", batch", false: ", single"}[fc.Batch] + ")"
		if len(obs) == len(mv) && len(mv) == len(fc.Reqs) {
			for i, q := range fc.Reqs {
				c.Correspond(name, fmt.Sprintf("%s flags=%s %s %q [%s] %s", sc.Name, flags, fc.Where, q.Method, q.Class, q.Token), obs[i], mv[i])
				c.Eval("fuzz/"+strings.SplitN(fc.Where, ":", 2)[0]+"/"+map[bool]string{true: "batch", false: "single"}[fc.Batch]+"/"+obs[i], fmt.Sprintf("%s|%s|%v|%s|%s", sc.Name, fc.Where, fc.Batch, q.Method, q.Token))
			}
		} else {
			c.Correspond(name, fmt.Sprintf("%s flags=%s %s batch of %d (%s)", sc.Name, flags, fc.Where, len(fc.Reqs), req), strings.Join(obs, " "), strings.Join(mv, " "))
			c.Eval("fuzz/"+strings.SplitN(fc.Where, ":", 2)[0]+"/rejected", fmt.Sprintf("%s|%s|%s", sc.Name, fc.Where, strings.Join(toks, " ")))
		}
		if toy {
			var called []string
			for _, w := range fc.ToyCalled {
				p := strings.SplitN(w, "|", 2)
				called = append(called, lowerFirst(p[1])+"|"+p[0])
			}
			c.Correspond("toy methods actually called~invoked_of", fmt.Sprintf("%s flags=%s %s (%s)", sc.Name, flags, fc.Where, req), strings.Join(called, ","), strings.Join(invokedModel, ","))
		} else if fc.Delta > 0 && flags[flagIndex[fc.Where]] != '1' {
			who := "fuzz:" + fc.Reqs[0].Method
			if len(invokedModel) == 1 {
				who = strings.SplitN(fc.Reqs[0].Target, "_", 2)[0] + "_" + strings.SplitN(invokedModel[0], "|", 2)[0]
			}
			c.Violate("rpc-unprotected-signer/"+who, fmt.Sprintf("a fuzzed message over %s entered a keystore signing entry point %d time(s) although %s is not set (%s)", fc.Where, fc.Delta, envVars[flagIndex[fc.Where]], envDesc(sc)),
				map[string]interface{}{"scenario": sc, "transport": fc.Where, "batch": fc.Batch, "requests": fc.Reqs})
		}
	}
}

// randomModules draws a module whitelist: registered namespaces, unknown names, case variants,
// duplicates, the empty name; possibly empty
func randomModules(r *vh.RNG) []string {
	pool := []string{"aqua", "personal", "miner", "admin", "debug", "net", "web3", "txpool", "testing", "btc", "rpc", "eth", "clique",
		"nosuch", "Aqua", "PERSONAL", "aqua_", "Personal", "miner.", "x"}
	switch r.Intn(6) {
	case 0:
		return nil // empty whitelist: the Public APIs
	case 1:
		return []string{pool[13+r.Intn(7)]} // only an unknown / wrongly cased name: metadata service only
	}
	n := 1 + r.Intn(6)
	var l []string
	for i := 0; i < n; i++ {
		m := pool[r.Intn(len(pool))]
		l = append(l, m)
		if r.Chance(25) {
			l = append(l, m) // duplicate
		}
	}
	if r.Chance(20) {
		l = append(l, "", l[0]) // the empty name between two real ones
	}
	return l
}

func scenarios(c *vh.Ctx) []Scenario {
	wide := []string{"personal", "aqua", "miner", "testing", "admin", "net", "web3"}
	none := map[string]string{}
	rt := func(extra map[string]string) map[string]string {
		m := map[string]string{"AQUA_ALLOW_RPC": "true"}
		for k, v := range extra {
			m[k] = v
		}
		return m
	}
	var l []Scenario
	// the clique scenario first: it is the slowest child (it waits for block sealing)
	l = append(l, Scenario{Name: "clique/default-env/default-config", Env: none, Clique: true})
	l = append(l, Scenario{Name: "default-env/default-config", Env: none})
	// HTTP and WS started at run time over IPC with a wide whitelist: do they honour the flags?
	l = append(l, Scenario{Name: "runtime-start/default-env/wide-modules", Env: rt(nil), Runtime: true, NoDefaults: true, HTTPModules: wide, WSModules: wide, NoFuzz: !c.Thorough()})
	truthy := []string{"1", "true", "yes", "on", "ENABLED", "banana", "2"}
	falsy := []string{"0", "false", "no", "off", "", "Disabled"}
	if !c.Thorough() {
		// one opt-in, chosen by the seed, and one variable set to a falsy value
		k := 1 + c.Rng.Intn(4)
		k2 := 1 + (k+c.Rng.Intn(3))%4
		env := map[string]string{envVars[k]: truthy[c.Rng.Intn(len(truthy))]}
		if k2 != k {
			env[envVars[k2]] = falsy[c.Rng.Intn(len(falsy))]
		}
		l = append(l, Scenario{Name: "one-opt-in/wide-modules", Env: env, NoDefaults: true, HTTPModules: wide, WSModules: wide})
		// every single opt-in (registry comparison only): catches a flag wired to the wrong transport,
		// at start-up and for servers started at run time
		for i := 0; i < 5; i++ {
			e := map[string]string{envVars[i]: truthy[c.Rng.Intn(len(truthy))]}
			// registry comparison + the signing-looking methods called on all four transports: signing must
			// succeed only on the transport whose variable is set (direct oracle rpc-optin-crosses-transport)
			l = append(l, Scenario{Name: "single-opt-in-" + envVars[i] + "/wide-modules/signers-only", Env: e, NoDefaults: true, HTTPModules: wide, WSModules: wide, ProtectedOnly: true})
			l = append(l, Scenario{Name: "runtime-start/single-opt-in-" + envVars[i] + "/wide-modules/signers-only", Env: rt(e), Runtime: true, NoDefaults: true, HTTPModules: wide, WSModules: wide, ProtectedOnly: true})
		}
		l = append(l, Scenario{Name: "runtime-start/apis-null/list-only", Env: rt(nil), Runtime: true, RuntimeNil: true, ListOnly: true})
		l = append(l, Scenario{Name: "default-env/wide-modules/list-only", Env: none, NoDefaults: true, HTTPModules: wide, WSModules: wide, ListOnly: true})
		l = append(l, Scenario{Name: "no-keys/wide-modules/list-only", Env: none, NoKeys: true, NoDefaults: true, HTTPModules: wide, WSModules: wide, ListOnly: true})
		l = append(l, Scenario{Name: "NO_SIGN/wide-modules/list-only", Env: map[string]string{"NO_SIGN": "1"}, NoDefaults: true, HTTPModules: wide, WSModules: wide, ListOnly: true})
		l = append(l, Scenario{Name: "clique/wide-modules/list-only", Env: none, Clique: true, NoDefaults: true, HTTPModules: wide, WSModules: wide, ListOnly: true})
		// generated whitelist configurations (start-up and run-time), registry comparison only
		for i := 0; i < 3; i++ {
			e := map[string]string{}
			if c.Rng.Chance(50) {
				e[envVars[2+c.Rng.Intn(2)]] = "1" // HTTP or WS opted in
			}
			sc := Scenario{Name: fmt.Sprintf("generated-whitelists-%d/list-only", i), Env: e, NoDefaults: true, HTTPModules: randomModules(c.Rng), WSModules: randomModules(c.Rng), WSExposeAll: c.Rng.Chance(15), ListOnly: true}
			if i == 2 {
				sc.Name = "runtime-start/" + sc.Name
				sc.Env, sc.Runtime = rt(e), true
				if len(sc.HTTPModules) == 0 {
					sc.HTTPModules = []string{"nosuch"} // apis="" would be split into [""], a different list
				}
				if len(sc.WSModules) == 0 {
					sc.WSModules = []string{"Aqua"}
				}
			}
			l = append(l, sc)
		}
		return l
	}
	l = append(l, Scenario{Name: "default-env/wide-modules", Env: none, NoDefaults: true, HTTPModules: wide, WSModules: wide})
	for i := 0; i < 5; i++ {
		for _, tv := range []string{"1", "true", "banana"} {
			e := map[string]string{envVars[i]: tv}
			l = append(l, Scenario{Name: "single-opt-in-" + envVars[i] + "=" + tv + "/wide-modules/signers-only", Env: e, NoDefaults: true, HTTPModules: wide, WSModules: wide, ProtectedOnly: true})
		}
	}
	for mask := 1; mask < 32; mask++ {
		env := map[string]string{}
		for i, v := range envVars {
			if mask&(1<<uint(i)) != 0 {
				env[v] = truthy[c.Rng.Intn(len(truthy))]
			} else if c.Rng.Chance(25) {
				env[v] = falsy[c.Rng.Intn(len(falsy))]
			}
		}
		sc := Scenario{Name: fmt.Sprintf("env-mask-%02d", mask), Env: env}
		switch c.Rng.Intn(6) {
		case 0:
			sc.Name += "/default-config"
		case 1:
			sc.Name += "/wide-modules"
			sc.NoDefaults, sc.HTTPModules, sc.WSModules = true, wide, wide
		case 2:
			sc.Name += "/empty-whitelist"
			sc.NoDefaults = true
		case 3:
			sc.Name += "/ws-expose-all"
			sc.NoDefaults, sc.HTTPModules, sc.WSModules, sc.WSExposeAll = true, []string{"personal"}, []string{"net"}, true
		case 4:
			sc.Name += "/runtime-start/wide-modules"
			sc.Env = rt(env)
			sc.Runtime, sc.NoDefaults, sc.HTTPModules, sc.WSModules = true, true, wide, wide
		case 5:
			sc.Name += "/runtime-start/apis-null"
			sc.Env = rt(env)
			sc.Runtime, sc.RuntimeNil = true, true
		}
		l = append(l, sc)
		// and the same environment with servers started at run time, registry comparison only
		l = append(l, Scenario{Name: fmt.Sprintf("env-mask-%02d/runtime-start/list-only", mask), Env: rt(env), Runtime: true, NoDefaults: true, HTTPModules: wide, WSModules: wide, ListOnly: true})
	}
	for i := 0; i < 14; i++ {
		e := map[string]string{}
		for k := 1; k < 5; k++ {
			if c.Rng.Chance(30) {
				e[envVars[k]] = truthy[c.Rng.Intn(len(truthy))]
			}
		}
		l = append(l, Scenario{Name: fmt.Sprintf("generated-whitelists-%d/list-only", i), Env: e, NoDefaults: true, HTTPModules: randomModules(c.Rng), WSModules: randomModules(c.Rng), WSExposeAll: c.Rng.Chance(15), Clique: c.Rng.Chance(25), ListOnly: true})
	}
	l = append(l, Scenario{Name: "default-env/empty-whitelist", Env: none, NoDefaults: true})
	l = append(l, Scenario{Name: "default-env/ws-expose-all", Env: none, NoDefaults: true, HTTPModules: []string{"personal"}, WSModules: []string{"net"}, WSExposeAll: true})
	l = append(l, Scenario{Name: "clique/default-env/wide-modules", Env: none, Clique: true, NoDefaults: true, HTTPModules: wide, WSModules: wide})
	l = append(l, Scenario{Name: "clique/NO_SIGN/wide-modules", Env: map[string]string{"NO_SIGN": "1"}, Clique: true, NoDefaults: true, HTTPModules: wide, WSModules: wide})
	l = append(l, Scenario{Name: "NO_SIGN/all-opted-in/wide-modules", Env: map[string]string{"NO_SIGN": "1", envVars[1]: "1", envVars[2]: "1", envVars[3]: "1", envVars[4]: "1"}, NoDefaults: true, HTTPModules: wide, WSModules: wide})
	l = append(l, Scenario{Name: "no-keys/wide-modules/list-only", Env: none, NoKeys: true, NoDefaults: true, HTTPModules: wide, WSModules: wide, ListOnly: true})
	l = append(l, Scenario{Name: "runtime-start/apis-null", Env: rt(nil), Runtime: true, RuntimeNil: true})
	return l
}

func main() {
	if len(os.Args) >= 3 && os.Args[1] == "child" {
		childMain(os.Args[2])
		return
	}
	c := vh.Init("C18")
	m := c.StartModel()
	defer m.Close()
	c.Res.Rule = "scenario = values of the five UNSAFE_* variables (unset / truthy / falsy spellings) x module whitelists (default, wide incl. personal+miner+testing, empty, ws-expose-all) x how HTTP/WS come up (configured at start-up | admin_startRPC/admin_startWS over IPC at run time, with explicit or null apis) x chain (aquahash, clique) x NO_SIGN / NoKeys; per scenario a child process runs a real node; case = (scenario, transport in {inproc,ipc,http,ws}, method from the node's full API list, account variant unlocked|locked x right|wrong|no passphrase); distinct non-trivial = distinct (scenario, transport, method, variant, signed?)"

	var scs []Scenario
	if c.Replay != "" {
		b, err := os.ReadFile(c.Replay)
		if err != nil {
			c.Fatal("replay: %v", err)
		}
		var rf struct {
			Replay struct {
				Scenario  Scenario          `json:"scenario"`
				Transport string            `json:"transport"`
				Method    string            `json:"method"`
				Params    []json.RawMessage `json:"params"`
			} `json:"replay"`
		}
		if err := json.Unmarshal(b, &rf); err != nil {
			c.Fatal("replay: %v", err)
		}
		sc := rf.Replay.Scenario
		sc.Only = &OnlyCall{rf.Replay.Transport, rf.Replay.Method, rf.Replay.Params}
		scs = []Scenario{sc}
	} else {
		scs = scenarios(c)
	}
	type res struct {
		out *ChildOut
		err error
	}
	results := make([]res, len(scs))
	childSecs := make([]float64, len(scs))
	tAll := time.Now()
	par := 8
	sem := make(chan struct{}, par)
	done := make(chan int, len(scs))
	for i := range scs {
		go func(i int) {
			sem <- struct{}{}
			scs[i].Seed = c.Seed
			tc := time.Now()
			o, e := runChild(c, scs[i], i)
			childSecs[i] = time.Since(tc).Seconds()
			results[i] = res{o, e}
			<-sem
			done <- i
		}(i)
	}
	for range scs {
		<-done
	}
	c.Note("children: %d processes in %.1fs wall", len(scs), time.Since(tAll).Seconds())
	for i, sc := range scs {
		if childSecs[i] > 5 {
			c.Note("child %s took %.1fs", sc.Name, childSecs[i])
		}
		if results[i].err != nil {
			c.Fatal("scenario %s: %v", sc.Name, results[i].err)
		}
		evaluate(c, m, sc, results[i].out)
		if i < 3 {
			o := results[i].out
			c.Sample(map[string]interface{}{"scenario": sc, "universe_methods": o.Universe, "served": map[string]int{"inproc": len(o.Transports["inproc"].Registry), "ipc": len(o.Transports["ipc"].Registry), "http": len(o.Transports["http"].Registry), "ws": len(o.Transports["ws"].Registry)}, "skipped": o.Transports["inproc"].Skipped})
		}
	}
	c.Assume("subscriptions (aqua_subscribe/…) are listed and compared but not invoked; admin_shutdown/stopRPC/stopWS are not invoked (they stop the endpoints under test); the static call graph marks all of them non-signing")
	c.Assume("the keystore counter counts ENTRIES into SignHash/SignHashAllowed/SignHashOK/SignTx/SignHashWithPassphrase/SignTxWithPassphrase; whether a signature came out is reported per call (result ok)")
	c.Finish()
}
