// c04: direct oracle of property C04 (the chain database survives a crash at
// any write boundary): every prefix of the write log of an import is reopened,
// every chosen write is made to fail in a child process; see harness/chainlib/crash.go.
//
//go:debug randseednop=0
package main

import "gitlab.com/aquachain/aquachain/verifharness/chainlib"

func main() { chainlib.MainC04() }
