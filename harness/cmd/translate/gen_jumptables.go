// gen_jumptables.go — GenJumpTables.v: the five [256]operation instruction sets of
// core/vm as data (via the -tags verif export VerifJumpTable), and what
// NewInterpreter selects for every built-in chain configuration on a lattice of
// heights (VerifSelectedTable / VerifSelectedGasTable).
package main

import (
	"fmt"
	"io"
	"math/big"
	"os"
	"sort"

	"gitlab.com/aquachain/aquachain/core/vm"
	"gitlab.com/aquachain/aquachain/params"
)

func init() { register("GenJumpTables.v", genJumpTables) }

func coqBool(b bool) string {
	if b {
		return "true"
	}
	return "false"
}

func coqOptBig(b *big.Int) string {
	if b == nil {
		return "None"
	}
	return fmt.Sprintf("(Some %s)", b.String())
}

type namedCfg struct {
	name string
	cfg  *params.ChainConfig
}

func builtinConfigs() []namedCfg {
	return []namedCfg{
		{"mainnet", params.MainnetChainConfig},
		{"testnet", params.TestnetChainConfig},
		{"testnet2", params.Testnet2ChainConfig},
		{"testnet3", params.Testnet3ChainConfig},
		{"all_aquahash", params.AllAquahashProtocolChanges},
		{"all_clique", params.AllCliqueProtocolChanges},
		{"testchain", params.TestChainConfig},
	}
}

func genJumpTables(w io.Writer) {
	fmt.Fprintln(w, `From Coq Require Import ZArith List String.
Import ListNotations.
Local Open Scope Z_scope.
Local Open Scope string_scope.

(* one entry of a [256]operation table: valid, pops/pushes (probed through
   validateStack), flags, name of execute (closure factories by factory name +
   probed argument, -1 = none), name of gasCost (+ constant of constGasFunc / n of
   makeGasLog, -1 = none), name of memorySize ("" = nil) *)
Record opinfo : Type := mk_opinfo {
  oi_valid : bool; oi_pops : Z; oi_pushes : Z;
  oi_halts : bool; oi_jumps : bool; oi_writes : bool; oi_reverts : bool; oi_returns : bool;
  oi_exec : string; oi_exec_arg : Z; oi_gas : string; oi_gas_arg : Z; oi_mem : string }.
`)
	for _, name := range vm.VerifTableNames {
		tab, ok := vm.VerifJumpTable(name)
		if !ok {
			fmt.Fprintln(os.Stderr, "translate: no table", name)
			os.Exit(2)
		}
		fmt.Fprintf(w, "Definition tbl_%s : list opinfo := [\n", name)
		for i, e := range tab {
			if e.ProbeProblems != "" {
				fmt.Fprintf(os.Stderr, "translate: table %s opcode 0x%02x: %s\n", name, i, e.ProbeProblems)
				os.Exit(2)
			}
			sep := ";"
			if i == 255 {
				sep = ""
			}
			fmt.Fprintf(w, "  (* 0x%02x %-14s *) mk_opinfo %s %d %d %s %s %s %s %s %q (%d) %q (%d) %q%s\n",
				i, vm.OpCode(i).String(), coqBool(e.Valid), e.Pops, e.Pushes, coqBool(e.Halts), coqBool(e.Jumps),
				coqBool(e.Writes), coqBool(e.Reverts), coqBool(e.Returns), e.Execute, e.ExecuteArg, e.GasCost, e.GasArg, e.MemorySize, sep)
		}
		fmt.Fprintln(w, "].")
		fmt.Fprintln(w)
	}

	// fork -> table selection, observed on NewInterpreter
	fmt.Fprintln(w, `(* the fields of a built-in params.ChainConfig that NewInterpreter reads:
   (HomesteadBlock, ByzantiumBlock, ConstantinopleBlock, HF[5], HF[1]) *)
Record gencfg : Type := mk_gencfg {
  gc_name : string; gc_homestead : option Z; gc_byzantium : option Z; gc_constantinople : option Z;
  gc_hf5 : option Z; gc_hf1 : option Z;
  (* observations: (block number, name of the installed instruction set, ExpByte of the installed gas table) *)
  gc_observed : list (Z * string * Z) }.
`)
	fmt.Fprintln(w, "Definition gen_configs : list gencfg := [")
	cfgs := builtinConfigs()
	for ci, nc := range cfgs {
		c := nc.cfg
		heights := latticeHeights(c)
		fmt.Fprintf(w, "  mk_gencfg %q %s %s %s %s %s [", nc.name, coqOptBig(c.HomesteadBlock), coqOptBig(c.ByzantiumBlock),
			coqOptBig(c.ConstantinopleBlock), coqOptBig(c.HF[5]), coqOptBig(c.HF[1]))
		for i, h := range heights {
			sel := vm.VerifSelectedTable(c, big.NewInt(h))
			if sel == "ambiguous" || sel == "unknown" {
				fmt.Fprintf(os.Stderr, "translate: cannot identify the table selected for %s at %d: %s\n", nc.name, h, sel)
				os.Exit(2)
			}
			gt := vm.VerifSelectedGasTable(c, big.NewInt(h))
			if i > 0 {
				fmt.Fprint(w, "; ")
			}
			fmt.Fprintf(w, "(%d, %q, %d)", h, sel, gt.ExpByte)
		}
		if ci == len(cfgs)-1 {
			fmt.Fprintln(w, "]")
		} else {
			fmt.Fprintln(w, "];")
		}
	}
	fmt.Fprintln(w, "].")
	genRules(w)
}

// latticeHeights: 0, 1, 10^9, every fork block of the config -1/+0/+1, and the midpoint between consecutive fork blocks.
func latticeHeights(c *params.ChainConfig) []int64 {
	hs := map[int64]bool{0: true, 1: true, 1000000000: true}
	var forks []int64
	add := func(b *big.Int) {
		if b == nil {
			return
		}
		forks = append(forks, b.Int64())
		for _, d := range []int64{-1, 0, 1} {
			if h := b.Int64() + d; h >= 0 {
				hs[h] = true
			}
		}
	}
	add(c.HomesteadBlock)
	add(c.ByzantiumBlock)
	add(c.ConstantinopleBlock)
	add(c.EIP150Block)
	add(c.EIP155Block)
	add(c.EIP158Block)
	for _, b := range c.HF {
		add(b)
	}
	sort.Slice(forks, func(i, j int) bool { return forks[i] < forks[j] })
	for i := 0; i+1 < len(forks); i++ {
		hs[(forks[i]+forks[i+1])/2] = true
	}
	var heights []int64
	for h := range hs {
		heights = append(heights, h)
	}
	sort.Slice(heights, func(i, j int) bool { return heights[i] < heights[j] })
	return heights
}

// chain rules (params.ChainConfig.Rules as stored by NewEVM) and the write protection
// Interpreter.enforceRestrictions really applies in read-only mode, per config and height
func genRules(w io.Writer) {
	fmt.Fprintln(w, `
(* chain rules NewEVM installs: fork blocks read by ChainConfig.Rules, and per observed block number
   ((IsHomestead, IsEIP150, IsEIP155, IsEIP158, IsByzantium), SSTORE refused in read-only mode,
   value-transferring CALL refused in read-only mode) *)
Record genrules : Type := mk_genrules {
  gr_name : string; gr_homestead : option Z; gr_eip150 : option Z; gr_eip155 : option Z; gr_eip158 : option Z;
  gr_byzantium : option Z;
  gr_observed : list (Z * (bool * bool * bool * bool * bool) * bool * bool) }.
`)
	fmt.Fprintln(w, "Definition gen_rules : list genrules := [")
	cfgs := builtinConfigs()
	for ci, nc := range cfgs {
		c := nc.cfg
		fmt.Fprintf(w, "  mk_genrules %q %s %s %s %s %s [", nc.name, coqOptBig(c.HomesteadBlock), coqOptBig(c.EIP150Block),
			coqOptBig(c.EIP155Block), coqOptBig(c.EIP158Block), coqOptBig(c.ByzantiumBlock))
		for i, h := range latticeHeights(c) {
			r, sp, cp := vm.VerifChainRules(c, big.NewInt(h))
			if i > 0 {
				fmt.Fprint(w, "; ")
			}
			fmt.Fprintf(w, "(%d, (%s, %s, %s, %s, %s), %s, %s)", h, coqBool(r.IsHomestead), coqBool(r.IsEIP150), coqBool(r.IsEIP155),
				coqBool(r.IsEIP158), coqBool(r.IsByzantium), coqBool(sp), coqBool(cp))
		}
		if ci == len(cfgs)-1 {
			fmt.Fprintln(w, "]")
		} else {
			fmt.Fprintln(w, "];")
		}
	}
	fmt.Fprintln(w, "].")
}
