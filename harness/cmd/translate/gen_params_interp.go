// gen_params_interp.go — GenParamsInterp.v: the protocol constants the interpreter /
// call-machinery model (coq/Evm/Interp.v, property C07) hard-codes, read from the
// params package of the current tree; InterpProofs.v proves that the model's
// constants equal these (params_match_interp) and uses the inequalities between
// them (stipend < value-transfer gas, call gas >= 1 ...) in the termination proof.
package main

import (
	"fmt"
	"io"

	"gitlab.com/aquachain/aquachain/params"
)

func init() { register("GenParamsInterp.v", genParamsInterp) }

func genParamsInterp(w io.Writer) {
	fmt.Fprintln(w, "From Coq Require Import ZArith.\nLocal Open Scope Z_scope.\n")
	def := func(name string, v uint64) { fmt.Fprintf(w, "Definition %s : Z := %d.\n", name, v) }
	def("gi_CallValueTransferGas", params.CallValueTransferGas)
	def("gi_CallNewAccountGas", params.CallNewAccountGas)
	def("gi_CallStipend", params.CallStipend)
	def("gi_SstoreSetGas", params.SstoreSetGas)
	def("gi_SstoreResetGas", params.SstoreResetGas)
	def("gi_SstoreClearGas", params.SstoreClearGas)
	def("gi_SstoreRefundGas", params.SstoreRefundGas)
	def("gi_SuicideRefundGas", params.SuicideRefundGas)
	def("gi_CreateDataGas", params.CreateDataGas)
	def("gi_MaxCodeSize", uint64(params.MaxCodeSize))
	def("gi_CallCreateDepth", params.CallCreateDepth)
	def("gi_EcrecoverGas", params.EcrecoverGas)
	def("gi_Sha256BaseGas", params.Sha256BaseGas)
	def("gi_Sha256PerWordGas", params.Sha256PerWordGas)
	def("gi_Ripemd160BaseGas", params.Ripemd160BaseGas)
	def("gi_Ripemd160PerWordGas", params.Ripemd160PerWordGas)
	def("gi_IdentityBaseGas", params.IdentityBaseGas)
	def("gi_IdentityPerWordGas", params.IdentityPerWordGas)
	def("gi_Bn256AddGas", params.Bn256AddGas)
	def("gi_Bn256ScalarMulGas", params.Bn256ScalarMulGas)
	def("gi_Bn256PairingBaseGas", params.Bn256PairingBaseGas)
	def("gi_Bn256PairingPerPointGas", params.Bn256PairingPerPointGas)
	for _, t := range []struct {
		n string
		g params.GasTable
	}{{"Homestead", params.GasTableHomestead}, {"HF1", params.GasTableHF1}} {
		def("gi_"+t.n+"_ExtcodeSize", t.g.ExtcodeSize)
		def("gi_"+t.n+"_ExtcodeCopy", t.g.ExtcodeCopy)
		def("gi_"+t.n+"_Balance", t.g.Balance)
		def("gi_"+t.n+"_SLoad", t.g.SLoad)
		def("gi_"+t.n+"_Calls", t.g.Calls)
		def("gi_"+t.n+"_Suicide", t.g.Suicide)
		def("gi_"+t.n+"_ExpByte", t.g.ExpByte)
		def("gi_"+t.n+"_CreateBySuicide", t.g.CreateBySuicide)
	}
	// the fork blocks of the mainnet configuration that the call machinery reads
	opt := func(name string, set bool, v uint64) {
		if set {
			fmt.Fprintf(w, "Definition %s : option Z := Some %d.\n", name, v)
		} else {
			fmt.Fprintf(w, "Definition %s : option Z := None.\n", name)
		}
	}
	m := params.MainnetChainConfig
	ob := func(name string, b interface {
		Uint64() uint64
		Sign() int
	}, isnil bool) {
		if isnil {
			opt(name, false, 0)
		} else {
			opt(name, true, b.Uint64())
		}
	}
	ob("gi_mainnet_homestead", m.HomesteadBlock, m.HomesteadBlock == nil)
	ob("gi_mainnet_eip150", m.EIP150Block, m.EIP150Block == nil)
	ob("gi_mainnet_eip158", m.EIP158Block, m.EIP158Block == nil)
	ob("gi_mainnet_byzantium", m.ByzantiumBlock, m.ByzantiumBlock == nil)
	ob("gi_mainnet_hf5", m.HF[5], m.HF[5] == nil)
	ob("gi_mainnet_hf1", m.HF[1], m.HF[1] == nil)
}
