// GenApis.v (property C18): every rpc.API that a node with the aqua service
// hands to its four start* functions, with the method sets exactly as
// rpc.suitableCallbacks classifies them (obtained by starting a real node on a
// throw-away configuration and reflecting through add-only exports), the
// per-method "a keystore signing entry point is reachable" bit from a VTA call
// graph of the current source (harness/cmd/c18/cg), isProtectedMethodName
// evaluated on every method name, the runtime names of the functions that call
// RegisterName, and node.NewDefaultConfig()'s module whitelists.
package main

import (
	"fmt"
	"io"
	"os"
	"reflect"
	"sort"
	"strings"

	"gitlab.com/aquachain/aquachain/common/log"
	"gitlab.com/aquachain/aquachain/node"
	"gitlab.com/aquachain/aquachain/rpc"
	"gitlab.com/aquachain/aquachain/verifharness/cmd/c18/c18node"
	"gitlab.com/aquachain/aquachain/verifharness/cmd/c18/cg"
)

func init() { register("GenApis.v", genApis) }

func c18die(format string, a ...interface{}) {
	fmt.Fprintf(os.Stderr, "translate GenApis.v: "+format+"\n", a...)
	os.Exit(2)
}

func c18Str(s string) string {
	for _, c := range s {
		if c < 32 || c > 126 {
			c18die("non-ASCII or control character in name %q", s)
		}
	}
	// "(*" never appears literally in the output (it would read as a comment opener to line-based tools)
	q := strings.ReplaceAll(s, `"`, `""`)
	q = strings.ReplaceAll(q, "(*", `(" ++ bs "*`)
	return `(bs "` + q + `")`
}

func c18Bool(b bool) string {
	if b {
		return "true"
	}
	return "false"
}

func c18RootOf(t reflect.Type, goName string) cg.Root {
	for t.Kind() == reflect.Ptr {
		t = t.Elem()
	}
	return cg.Root{PkgPath: t.PkgPath(), Type: t.Name(), Method: goName}
}

func c18IsExportedName(name string) bool { return name != "" && name[0] >= 'A' && name[0] <= 'Z' }

func genApis(w io.Writer) {
	repo := os.Getenv("VERIF_REPO")
	if repo == "" {
		repo = "/repo"
	}
	// keep a node that never touches the real home directory: ephemeral data dir, scratch default dir
	scratch, err := os.MkdirTemp("", "c18-translate-")
	if err != nil {
		c18die("%v", err)
	}
	defer os.RemoveAll(scratch)
	os.Setenv("AQUA_DATADIR", scratch)
	log.Root().SetHandler(log.DiscardHandler())
	type apiInfo struct {
		api     rpc.API
		methods []rpc.VerifMethod
	}
	var roots []cg.Root
	seenRoot := map[cg.Root]bool{}
	names := map[string]bool{}
	collect := func(clique bool) []apiInfo {
		env, err := c18node.Start(c18node.Options{Dir: "", Clique: clique})
		if err != nil {
			c18die("cannot start a node (clique=%v): %v", clique, err)
		}
		// The node is deliberately not stopped: stopping right after Start races with goroutines that are
		// still subscribing (filters.EventSystem.eventLoop dereferences a nil subscription); the process exits soon.
		if env.TempKeyDir != "" {
			defer os.RemoveAll(env.TempKeyDir)
		}
		var infos []apiInfo
		for _, a := range env.Stack.VerifRPCAPIs() {
			ms := rpc.VerifSuitableCallbacks(a.Namespace, a.Service)
			infos = append(infos, apiInfo{a, ms})
			for _, m := range ms {
				r := c18RootOf(m.Recv, m.GoName)
				if !seenRoot[r] {
					seenRoot[r] = true
					roots = append(roots, r)
				}
				names[m.GoName] = true
			}
		}
		return infos
	}
	infos := collect(false)
	infosClique := collect(true)
	// the metadata service rpc.NewServer registers on every server
	metaSrv := rpc.NewServer()
	var metaMethods []rpc.VerifMethod
	var metaRecv reflect.Type
	for _, m := range metaSrv.VerifListMethods() {
		if m.Namespace == rpc.MetadataApi {
			metaMethods = append(metaMethods, m)
			metaRecv = m.Recv
			r := c18RootOf(m.Recv, m.GoName)
			if !seenRoot[r] {
				seenRoot[r] = true
				roots = append(roots, r)
			}
			names[m.GoName] = true
		}
	}
	if metaRecv == nil {
		c18die("rpc.NewServer registered no %q service", rpc.MetadataApi)
	}

	res, err := cg.AnalyzeCached(repo, []string{cg.Module + "/aqua", cg.Module + "/node", cg.Module + "/internal/aquaapi", cg.Module + "/rpc"}, roots, "vta")
	if err != nil {
		c18die("call graph: %v", err)
	}
	if len(res.Missing) > 0 {
		c18die("no SSA function for RPC methods %v", res.Missing)
	}

	// callers of RegisterName: static (call graph) vs runtime names of the start functions
	startNames := node.VerifStartFuncNames()
	static := map[string]bool{}
	for _, c := range res.RegisterCallers {
		static[c] = true
	}
	for tr, n := range startNames {
		if !static[n] {
			c18die("%s start function %s does not call RegisterName directly (static callers: %v); stack.Caller(1) in RegisterName would see another function", tr, n, res.RegisterCallers)
		}
	}
	newServerName := cg.Module + "/rpc.NewServer"
	if !static[newServerName] {
		c18die("rpc.NewServer does not call RegisterName directly (static callers: %v)", res.RegisterCallers)
	}

	fmt.Fprintf(w, "(* call graph: %s over go/ssa of the current source *)\n", res.Algo)
	fmt.Fprintln(os.Stderr, "translate GenApis.v: call graph", res.Algo, res.Stats)
	fmt.Fprintln(w, "From AQ Require Import Lib.Bytes Rpc.Registry.")
	fmt.Fprintln(w, "From Coq Require Strings.String.")
	fmt.Fprintln(w, "Import String.StringSyntax.")
	fmt.Fprintln(w, "Import ListNotations.")
	fmt.Fprintln(w, "Open Scope list_scope.")
	fmt.Fprintln(w)

	typeName := func(t reflect.Type) string { return t.String() }
	writeApi := func(ns string, recv reflect.Type, public bool, ms []rpc.VerifMethod) {
		el := recv
		for el.Kind() == reflect.Ptr {
			el = el.Elem()
		}
		fmt.Fprintf(w, "  mkApi %s %s %s %s [", c18Str(ns), c18Str(typeName(recv)), c18Bool(c18IsExportedName(el.Name())), c18Bool(public))
		for i, m := range ms {
			if i > 0 {
				fmt.Fprint(w, ";")
			}
			signs := res.Signs[c18RootOf(m.Recv, m.GoName)]
			fmt.Fprintf(w, "\n    mkMethod %s %s %s", c18Str(m.GoName), c18Bool(m.Subscription), c18Bool(signs))
		}
		fmt.Fprint(w, "]")
	}
	writeList := func(name, what string, l []apiInfo) {
		fmt.Fprintf(w, "(* node.startRPC's list (Node.apis() followed by every service's APIs(), in order) on %s *)\n", what)
		fmt.Fprintf(w, "Definition %s : list api := Eval vm_compute in [\n", name)
		for i, inf := range l {
			if i > 0 {
				fmt.Fprintln(w, ";")
			}
			writeApi(inf.api.Namespace, reflect.TypeOf(inf.api.Service), inf.api.Public, inf.methods)
		}
		fmt.Fprintln(w, "].")
		fmt.Fprintln(w)
	}
	writeList("gen_apis", "a chain with the aquahash (proof-of-work) engine", infos)
	writeList("gen_apis_clique", "a chain with the clique (proof-of-authority) engine, which adds the engine's own API", infosClique)
	fmt.Fprintln(w, "Definition gen_api_sets : list (list api) := [gen_apis; gen_apis_clique].")
	fmt.Fprintln(w)
	fmt.Fprintln(w, "(* the service rpc.NewServer registers itself *)")
	fmt.Fprintln(w, "Definition gen_meta_api : api := Eval vm_compute in")
	writeApi(rpc.MetadataApi, metaRecv, false, metaMethods)
	fmt.Fprintln(w, ".")
	fmt.Fprintln(w)

	fmt.Fprintln(w, "(* one call path to a keystore signing entry point for every method with m_signs = true:")
	var sr []string
	for r, s := range res.Signs {
		if s {
			sr = append(sr, fmt.Sprintf("   %s: %s", r.String(), strings.ReplaceAll(strings.Join(res.Via[r], " -> "), "(*", "(ptr ")))
		}
	}
	sort.Strings(sr)
	for _, l := range sr {
		fmt.Fprintln(w, l)
	}
	fmt.Fprintln(w, "*)")
	fmt.Fprintln(w)

	fmt.Fprintln(w, "(* for every method with m_signs = true: (namespace, wire name, receiver type, ALL keystore entry points reachable from it, the entry points still reachable when clique.Clique.Seal is cut out of the call graph) *)")
	fmt.Fprintln(w, "Definition gen_sign_targets : list (bytes * bytes * bytes * list bytes * list bytes) := Eval vm_compute in [")
	firstT := true
	seenT := map[string]bool{}
	for _, l := range [][]apiInfo{infos, infosClique} {
		for _, inf := range l {
			for _, m := range inf.methods {
				r := c18RootOf(m.Recv, m.GoName)
				key := inf.api.Namespace + "|" + m.Name + "|" + m.Recv.String()
				if !res.Signs[r] || seenT[key] {
					continue
				}
				seenT[key] = true
				if !firstT {
					fmt.Fprintln(w, ";")
				}
				firstT = false
				var ts []string
				for _, t := range res.Targets[r] {
					ts = append(ts, c18Str(t))
				}
				var tn []string
				for _, t := range res.TargetsNoSeal[r] {
					tn = append(tn, c18Str(t))
				}
				fmt.Fprintf(w, "  (%s, %s, %s, [%s], [%s])", c18Str(inf.api.Namespace), c18Str(m.Name), c18Str(m.Recv.String()), strings.Join(ts, "; "), strings.Join(tn, "; "))
			}
		}
	}
	fmt.Fprintln(w, "].")
	fmt.Fprintln(w)

	// the key-use cone of the call graph
	kindOf := map[int]int{}
	rootName := map[int]string{}
	for _, l := range [][]apiInfo{infos, infosClique} {
		for _, inf := range l {
			for _, m := range inf.methods {
				r := c18RootOf(m.Recv, m.GoName)
				if id, ok := res.Cone.RootIDs[r.String()]; ok {
					if rpc.VerifIsProtectedMethodName(m.GoName) && !m.Subscription {
						kindOf[id] = 3
					} else {
						kindOf[id] = 4
					}
					rootName[id] = inf.api.Namespace + "_" + m.Name
				}
			}
		}
	}
	fmt.Fprintln(w, "(* The key-use cone: every function of the program from which a keystore signing entry point is reachable in the")
	fmt.Fprintln(w, "   VTA call graph (backward slice from the entry points), as a graph.  Node kinds: 0 other function, 1 signing entry")
	fmt.Fprintln(w, "   point, 2 clique.Clique.Seal, 3 RPC callback with a protected name, 4 RPC callback without one (or subscription).")
	for i, n := range res.Cone.Names {
		fmt.Fprintf(w, "   %d %s\n", i, strings.ReplaceAll(n, "(*", "(ptr "))
	}
	fmt.Fprintln(w, "*)")
	fmt.Fprintln(w, "Definition gen_cone_nodes : list (N * N) := [")
	for i := range res.Cone.Names {
		k := kindOf[i]
		if res.Cone.Target[i] {
			k = 1
		} else if res.Cone.Seal[i] {
			k = 2
		}
		sep := ";"
		if i == len(res.Cone.Names)-1 {
			sep = ""
		}
		fmt.Fprintf(w, "  (%d, %d)%%N%s\n", i, k, sep)
	}
	fmt.Fprintln(w, "].")
	fmt.Fprintln(w, "Definition gen_cone_edges : list (N * N) := [")
	for i, e := range res.Cone.Edges {
		sep := ";"
		if i == len(res.Cone.Edges)-1 {
			sep = ""
		}
		fmt.Fprintf(w, "  (%d, %d)%%N%s\n", e[0], e[1], sep)
	}
	fmt.Fprintln(w, "].")
	fmt.Fprintln(w, "(* the RPC callbacks in the cone: node id, ns_wire *)")
	fmt.Fprintln(w, "Definition gen_cone_callbacks : list (N * bytes) := Eval vm_compute in [")
	var ids []int
	for id := range rootName {
		ids = append(ids, id)
	}
	sort.Ints(ids)
	for i, id := range ids {
		sep := ";"
		if i == len(ids)-1 {
			sep = ""
		}
		fmt.Fprintf(w, "  (%d%%N, %s)%s\n", id, c18Str(rootName[id]), sep)
	}
	fmt.Fprintln(w, "].")
	fmt.Fprintln(w)

	fmt.Fprintln(w, "(* argument lists of every callback / subscription as rpc.suitableCallbacks records them (callback.argTypes, receiver and")
	fmt.Fprintln(w, "   context excluded): (receiver type, Go method name, one bool per argument: true = pointer type, i.e. optional) *)")
	fmt.Fprintln(w, "Definition gen_arg_ptrs : list (bytes * bytes * list bool) := Eval vm_compute in [")
	firstA := true
	seenA := map[string]bool{}
	emitArgs := func(ms []rpc.VerifMethod) {
		for _, m := range ms {
			key := m.Recv.String() + "|" + m.GoName
			if seenA[key] {
				continue
			}
			seenA[key] = true
			if !firstA {
				fmt.Fprintln(w, ";")
			}
			firstA = false
			var fl []string
			for _, t := range m.ArgTypes {
				fl = append(fl, c18Bool(t.Kind() == reflect.Ptr))
			}
			fmt.Fprintf(w, "  (%s, %s, [%s])", c18Str(m.Recv.String()), c18Str(m.GoName), strings.Join(fl, "; "))
		}
	}
	for _, l := range [][]apiInfo{infos, infosClique} {
		for _, inf := range l {
			emitArgs(inf.methods)
		}
	}
	emitArgs(metaMethods)
	fmt.Fprintln(w, "].")
	fmt.Fprintln(w)

	fmt.Fprintln(w, "(* runtime names (runtime.Frame.Function) of the functions containing a direct call of Server.RegisterName *)")
	for _, tr := range []string{"inproc", "ipc", "http", "ws"} {
		fmt.Fprintf(w, "Definition gen_caller_%s : bytes := Eval vm_compute in %s.\n", tr, c18Str(startNames[tr]))
	}
	fmt.Fprintf(w, "Definition gen_caller_newserver : bytes := Eval vm_compute in %s.\n", c18Str(newServerName))
	fmt.Fprintln(w, "Definition gen_caller_of (t : transport) : bytes :=")
	fmt.Fprintln(w, "  match t with InProc => gen_caller_inproc | IPC => gen_caller_ipc | HTTP => gen_caller_http | WS => gen_caller_ws end.")
	fmt.Fprintln(w, "Definition gen_callers : callers := mkCallers gen_caller_of gen_caller_newserver.")
	fmt.Fprintln(w, "(* every function the static call graph finds calling RegisterName *)")
	fmt.Fprint(w, "Definition gen_register_callers : list bytes := Eval vm_compute in [")
	for i, c := range res.RegisterCallers {
		if i > 0 {
			fmt.Fprint(w, "; ")
		}
		fmt.Fprint(w, c18Str(c))
	}
	fmt.Fprintln(w, "].")
	fmt.Fprintln(w)

	// protected-name predicate of the code on every Go method name served, plus probes
	for _, p := range []string{"", "sign", "Sign", "SignTransaction", "SendTransaction", "sendTransaction", "SignAndSendTransaction", "Resend", "SendRawTransaction", "Sign ", "SignTx", "Signs"} {
		names[p] = true
	}
	var ns []string
	for n := range names {
		ns = append(ns, n)
	}
	sort.Strings(ns)
	fmt.Fprintln(w, "(* rpc.isProtectedMethodName evaluated on every Go method name above and some probes *)")
	fmt.Fprintln(w, "Definition gen_protected_table : list (bytes * bool) := Eval vm_compute in [")
	for i, n := range ns {
		if i > 0 {
			fmt.Fprintln(w, ";")
		}
		fmt.Fprintf(w, "  (%s, %s)", c18Str(n), c18Bool(rpc.VerifIsProtectedMethodName(n)))
	}
	fmt.Fprintln(w, "].")
	fmt.Fprintln(w)

	def := node.NewDefaultConfig()
	strList := func(l []string) string {
		var p []string
		for _, s := range l {
			p = append(p, c18Str(s))
		}
		return "[" + strings.Join(p, "; ") + "]"
	}
	fmt.Fprintln(w, "(* node.NewDefaultConfig(): HTTPModules, WSModules, WSExposeAll *)")
	fmt.Fprintf(w, "Definition gen_default_config : config := Eval vm_compute in mkConfig %s %s %s.\n", strList(def.HTTPModules), strList(def.WSModules), c18Bool(def.WSExposeAll))
}
