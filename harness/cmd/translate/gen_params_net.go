// gen_params_net.go — GenParamsNet.v: size limits and wire constants of the
// network layer (p2p/rlpx.go, p2p/peer.go, p2p/discover/udp.go, aqua/protocol.go,
// aqua/handler.go, aqua/downloader) for property C17.  The models in coq/Net use
// these definitions; C17's theorems carry the documented values as literals, so a
// changed constant breaks a proof (or the correspondence).
package main

import (
	"fmt"
	"io"
	"strings"
	"time"

	"gitlab.com/aquachain/aquachain/aqua"
	"gitlab.com/aquachain/aquachain/aqua/downloader"
	"gitlab.com/aquachain/aquachain/p2p"
	"gitlab.com/aquachain/aquachain/p2p/discover"
)

func init() { register("GenParamsNet.v", genParamsNet) }

func genParamsNet(w io.Writer) {
	p := func(f string, a ...interface{}) { fmt.Fprintf(w, f+"\n", a...) }
	n := func(name string, v uint64, where string) { p("Definition %s : N := %d.  (* %s *)", name, v, where) }
	p("From Coq Require Import NArith List.")
	p("Import ListNotations.")
	p("Local Open Scope N_scope.")
	p("")
	n("g_max_uint24", uint64(p2p.VerifMaxUint24), "p2p/rlpx.go maxUint24")
	n("g_base_protocol_max_msg_size", p2p.VerifBaseProtocolMaxMsgSize, "p2p/peer.go baseProtocolMaxMsgSize")
	n("g_base_protocol_length", p2p.VerifBaseProtocolLength, "p2p/peer.go baseProtocolLength")
	n("g_auth_msg_len", p2p.VerifAuthMsgLen, "p2p/rlpx.go authMsgLen")
	n("g_auth_resp_len", p2p.VerifAuthRespLen, "p2p/rlpx.go authRespLen")
	n("g_ecies_overhead", p2p.VerifEciesOverhead, "p2p/rlpx.go eciesOverhead")
	n("g_enc_auth_msg_len", p2p.VerifEncAuthMsgLen, "p2p/rlpx.go encAuthMsgLen")
	n("g_enc_auth_resp_len", p2p.VerifEncAuthRespLen, "p2p/rlpx.go encAuthRespLen")
	n("g_disc_table_len", uint64(p2p.VerifDiscTableLen()), "p2p/peer_error.go len(discReasonToString)")
	n("g_handshake_timeout_ms", uint64(p2p.VerifHandshakeTimeout/time.Millisecond), "p2p/rlpx.go handshakeTimeout")
	n("g_frame_read_timeout_ms", uint64(p2p.VerifFrameReadTimeout/time.Millisecond), "p2p/server.go frameReadTimeout")
	zh := []string{}
	for _, b := range p2p.VerifZeroHeader() {
		zh = append(zh, fmt.Sprint(b))
	}
	p("Definition g_zero_header : list N := [%s].  (* p2p/rlpx.go zeroHeader *)", strings.Join(zh, "; "))
	p("")
	n("g_mac_size", discover.VerifMacSize, "p2p/discover/udp.go macSize")
	n("g_sig_size", discover.VerifSigSize, "p2p/discover/udp.go sigSize")
	n("g_head_size", discover.VerifHeadSize, "p2p/discover/udp.go headSize")
	n("g_eth_ping", uint64(discover.VerifEthPing), "ethpingPacket")
	n("g_eth_neighbors", uint64(discover.VerifEthNeighbors), "ethneighborsPacket")
	n("g_aqua_ping", uint64(discover.VerifAquaPing), "aquapingPacket")
	n("g_aqua_pong", uint64(discover.VerifAquaPong), "aquapongPacket")
	n("g_aqua_findnode", uint64(discover.VerifAquaFindnode), "aquafindnodePacket")
	n("g_aqua_neighbors", uint64(discover.VerifAquaNeighbors), "aquaneighborsPacket")
	n("g_expiration_ms", uint64(discover.VerifSendTimeout/time.Millisecond), "p2p/discover/udp.go sendTimeout (packet expiration horizon)")
	n("g_resp_timeout_ms", uint64(discover.VerifRespTimeout/time.Millisecond), "p2p/discover/udp.go respTimeout")
	n("g_bond_expiration_ms", uint64(discover.VerifNodeDBNodeExpiration()/time.Millisecond), "p2p/discover/database.go nodeDBNodeExpiration (bond expiration)")
	n("g_max_neighbors", uint64(discover.VerifMaxNeighbors()), "p2p/discover/udp.go maxNeighbors (computed in init)")
	p("")
	n("g_protocol_max_msg_size", aqua.ProtocolMaxMsgSize, "aqua/protocol.go ProtocolMaxMsgSize")
	n("g_soft_response_limit", aqua.VerifSoftResponseLimit, "aqua/handler.go softResponseLimit")
	n("g_est_header_rlp_size", aqua.VerifEstHeaderRlpSize, "aqua/handler.go estHeaderRlpSize")
	n("g_max_hash_fetch", uint64(downloader.MaxHashFetch), "downloader.MaxHashFetch")
	n("g_max_block_fetch", uint64(downloader.MaxBlockFetch), "downloader.MaxBlockFetch")
	n("g_max_header_fetch", uint64(downloader.MaxHeaderFetch), "downloader.MaxHeaderFetch")
	n("g_max_receipt_fetch", uint64(downloader.MaxReceiptFetch), "downloader.MaxReceiptFetch")
	n("g_max_state_fetch", uint64(downloader.MaxStateFetch), "downloader.MaxStateFetch")
	codes := []string{}
	for _, c := range []uint64{aqua.StatusMsg, aqua.NewBlockHashesMsg, aqua.TxMsg, aqua.GetBlockHeadersMsg, aqua.BlockHeadersMsg, aqua.GetBlockBodiesMsg,
		aqua.BlockBodiesMsg, aqua.NewBlockMsg, aqua.GetNodeDataMsg, aqua.NodeDataMsg, aqua.GetReceiptsMsg, aqua.ReceiptsMsg} {
		codes = append(codes, fmt.Sprint(c))
	}
	p("Definition g_aqua_codes : list N := [%s].  (* aqua/protocol.go message codes, StatusMsg first *)", strings.Join(codes, "; "))
	lens := []string{}
	for _, l := range aqua.ProtocolLengths {
		lens = append(lens, fmt.Sprint(l))
	}
	p("Definition g_protocol_lengths : list N := [%s].  (* aqua/protocol.go ProtocolLengths *)", strings.Join(lens, "; "))
}
