// gen_params_consensus.go — GenParamsConsensus.v: fork maps / chain ids of every
// built-in chain configuration, the consensus constants used by header, uncle,
// difficulty and seal verification, and probe tables of GetBlockVersion / IsHF
// evaluated by the Go code (re-checked against the Coq model by vm_compute).
package main

import (
	"fmt"
	"io"
	"math/big"
	"sort"
	"strings"
	"time"

	"gitlab.com/aquachain/aquachain/consensus/aquahash"
	"gitlab.com/aquachain/aquachain/crypto"
	"gitlab.com/aquachain/aquachain/params"
)

func init() { register("GenParamsConsensus.v", genParamsConsensus) }

func zlit(b *big.Int) string {
	if b.Sign() < 0 {
		return "(" + b.String() + ")"
	}
	return b.String()
}

func hfList(m params.ForkMap) string {
	keys := []int{}
	for k, v := range m {
		if v != nil {
			keys = append(keys, k)
		}
	}
	sort.Ints(keys)
	parts := []string{}
	for _, k := range keys {
		parts = append(parts, fmt.Sprintf("(%d, %s)", k, zlit(m[k])))
	}
	return "[" + strings.Join(parts, "; ") + "]"
}

func genParamsConsensus(w io.Writer) {
	p := func(f string, a ...interface{}) { fmt.Fprintf(w, f+"\n", a...) }
	p("From Coq Require Import ZArith List.")
	p("Import ListNotations.")
	p("Local Open Scope Z_scope.")
	p("")
	p("(* ---- params/protocol_params.go, consensus/aquahash/consensus.go ---- *)")
	c := func(name string, v *big.Int) { p("Definition %s : Z := %s.", name, zlit(v)) }
	u := func(name string, v uint64) { p("Definition %s : Z := %d.", name, v) }
	c("min_diff_genesis", params.MinimumDifficultyGenesis)
	c("min_diff_hf1", params.MinimumDifficultyHF1)
	c("min_diff_hf3", params.MinimumDifficultyHF3)
	c("min_diff_hf5", params.MinimumDifficultyHF5)
	c("min_diff_hf5_testnet", params.MinimumDifficultyHF5Testnet)
	c("div_default", params.DifficultyBoundDivisor)
	c("div_hf5", params.DifficultyBoundDivisorHF5)
	c("div_hf6", params.DifficultyBoundDivisorHF6)
	c("div_hf8", params.DifficultyBoundDivisorHF8)
	c("duration_limit", params.DurationLimit)
	c("duration_limit_hf6", params.DurationLimitHF6)
	u("gas_limit_bound_divisor", params.GasLimitBoundDivisor)
	u("min_gas_limit", params.MinGasLimit)
	u("max_extra_data_size", params.MaximumExtraDataSize)
	u("allowed_future_secs", uint64(aquahash.VerifAllowedFutureBlockTime()/time.Second))
	if aquahash.VerifAllowedFutureBlockTime()%time.Second != 0 {
		panic("allowedFutureBlockTime is not a whole number of seconds: the model's `now + allowed_future_secs` no longer describes the code")
	}
	mu, mu5 := aquahash.VerifMaxUncles()
	u("max_uncles", uint64(mu))
	u("max_uncles_hf5", uint64(mu5))
	el, me := aquahash.VerifEpochParams()
	u("epoch_length", el)
	u("max_epoch", me)
	c("pow_numerator", aquahash.VerifMaxUint256())
	u("known_version", crypto.KnownVersion)
	p("")
	p("(* ---- params/config.go: every built-in chain configuration (non-nil HF entries only) ---- *)")
	type nc struct {
		name string
		cfg  *params.ChainConfig
	}
	cfgs := []nc{
		{"mainnet", params.MainnetChainConfig}, {"testnet", params.TestnetChainConfig},
		{"testnet2", params.Testnet2ChainConfig}, {"testnet3", params.Testnet3ChainConfig},
		{"dev", params.AllAquahashProtocolChanges}, {"devclique", params.AllCliqueProtocolChanges},
		{"test", params.TestChainConfig},
	}
	// every config reachable through the public enumerations must be in the list above
	known := map[*params.ChainConfig]bool{}
	for _, x := range cfgs {
		known[x.cfg] = true
	}
	for _, x := range params.AllChainConfigs() {
		if !known[x] {
			panic("params.AllChainConfigs() contains a configuration the translator does not know: " + x.Name())
		}
	}
	names := []string{}
	for _, x := range cfgs {
		p("Definition %s_chain_id : Z := %s.", x.name, zlit(x.cfg.ChainId))
		p("Definition %s_hf : list (Z * Z) := %s.", x.name, hfList(x.cfg.HF))
		names = append(names, fmt.Sprintf("(%s_chain_id, %s_hf)", x.name, x.name))
	}
	p("Definition all_cfgs : list (Z * list (Z * Z)) := [%s].", strings.Join(names, "; "))
	p("Definition known_hf : Z := %d.", params.KnownHF)
	p("")
	p("(* ---- probes: (config index, height, GetBlockVersion, [IsHF 1..10]) evaluated by the Go code ---- *)")
	rows := []string{}
	for i, x := range cfgs {
		hs := map[int64]bool{0: true, 1: true, 2: true, 1000000: true}
		for _, v := range x.cfg.HF {
			if v != nil {
				for d := int64(-2); d <= 2; d++ {
					if v.Int64()+d >= 0 {
						hs[v.Int64()+d] = true
					}
				}
			}
		}
		hl := []int64{}
		for h := range hs {
			hl = append(hl, h)
		}
		sort.Slice(hl, func(a, b int) bool { return hl[a] < hl[b] })
		for _, h := range hl {
			bits := []string{}
			for hf := 1; hf <= 10; hf++ {
				if x.cfg.IsHF(hf, big.NewInt(h)) {
					bits = append(bits, "true")
				} else {
					bits = append(bits, "false")
				}
			}
			rows = append(rows, fmt.Sprintf("(%d%%nat, %d, %d, [%s])", i, h, x.cfg.GetBlockVersion(big.NewInt(h)), strings.Join(bits, ";")))
		}
	}
	p("Definition version_probes : list (nat * Z * Z * list bool) := [\n  %s].", strings.Join(rows, ";\n  "))
}
