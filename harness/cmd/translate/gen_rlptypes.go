package main

import (
	"fmt"
	"io"
	"os"

	"gitlab.com/aquachain/aquachain/verifharness/rlptypes"
)

func init() { register("GenRlpTypes.v", genRlpTypes) }

// GenRlpTypes.v: the Rlp/Typed.v descriptor of every consensus / storage type,
// by reflection over the current tree (field order, kinds, widths, rlp tags).
func genRlpTypes(w io.Writer) {
	fmt.Fprintln(w, "From AQ Require Import Lib.Bytes Rlp.Typed.")
	fmt.Fprintln(w, "Local Open Scope N_scope.")
	var names []string
	for _, e := range rlptypes.Registry() {
		d, err := rlptypes.Describe(e.Type)
		if err != nil {
			fmt.Fprintf(os.Stderr, "translate: %s: %v\n", e.Name, err)
			os.Exit(2)
		}
		fmt.Fprintf(w, "Definition ty_%s : ty := %s.\n", e.Name, d)
		names = append(names, e.Name)
	}
	fmt.Fprintln(w, "(* names as ASCII byte strings *)")
	fmt.Fprint(w, "Definition rlp_types : list (bytes * ty) := [")
	for i, n := range names {
		if i > 0 {
			fmt.Fprint(w, ";")
		}
		fmt.Fprint(w, "\n  ([")
		for j, c := range []byte(n) {
			if j > 0 {
				fmt.Fprint(w, ";")
			}
			fmt.Fprintf(w, "x%02x", c)
		}
		fmt.Fprintf(w, "], ty_%s)", n)
	}
	fmt.Fprintln(w, "].")
}
