// gen_params_bloom.go — GenParamsBloom.v: the constants of the log-bloom / bloom-bits
// layer (core/types/bloom9.go, params/network_params.go, aqua/bloombits.go) for property C16.
// coq/Bloom/FilterProofs.v re-checks them against the literals the model carries
// (params_match_bloom) and instantiates the section-commit theorem at the production
// section size (production_section_commits): a changed constant breaks a proof.
package main

import (
	"fmt"
	"io"

	"gitlab.com/aquachain/aquachain/aqua"
	"gitlab.com/aquachain/aquachain/core/bloombits"
	"gitlab.com/aquachain/aquachain/core/types"
	"gitlab.com/aquachain/aquachain/params"
)

func init() { register("GenParamsBloom.v", genParamsBloom) }

func genParamsBloom(w io.Writer) {
	p := func(f string, a ...interface{}) { fmt.Fprintf(w, f+"\n", a...) }
	n := func(name string, v uint64, where string) { p("Definition %s : N := %d.  (* %s *)", name, v, where) }
	p("From Coq Require Import NArith.")
	p("Local Open Scope N_scope.")
	p("")
	n("g_bloom_byte_length", types.BloomByteLength, "core/types/bloom9.go BloomByteLength")
	n("g_bloom_bit_length", types.BloomBitLength, "core/types/bloom9.go BloomBitLength")
	n("g_bloom_bits_blocks", params.BloomBitsBlocks, "params/network_params.go BloomBitsBlocks (section size of the production index)")
	n("g_bloom_confirms", aqua.VerifBloomConfirms, "aqua/bloombits.go bloomConfirms")
	n("g_params_bloom_confirms", params.BloomConfirms, "params/network_params.go BloomConfirms")
	// probes of the real code at the production parameters
	_, err := bloombits.NewGenerator(uint(params.BloomBitsBlocks))
	p("Definition g_new_generator_accepts_production_size : bool := %v.  (* bloombits.NewGenerator(BloomBitsBlocks) == nil error *)", err == nil)
	// the largest bit index bloom9 can set, observed over 4096 inputs (the mask is 2047)
	max := 0
	for i := 0; i < 4096; i++ {
		b := types.Bloom9([]byte{byte(i), byte(i >> 8), 0x5a})
		if l := b.BitLen() - 1; l > max {
			max = l
		}
	}
	n("g_bloom9_max_bit_observed", uint64(max), "highest bit set by bloom9 over 4096 probe inputs (must stay below BloomBitLength)")
}
