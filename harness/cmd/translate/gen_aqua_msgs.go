// gen_aqua_msgs.go — GenAquaMsgs.v: for every aqua sub-protocol message code, the Go type the
// handleMsg branch decodes the payload into, as an Rlp/Typed.v descriptor obtained by reflection
// (harness/rlptypes.Describe over the types exported by aqua/zz_verif_export.go), and the per-peer
// known-set caps.  Used by coq/Net/Messages.v (property C17).
package main

import (
	"fmt"
	"io"

	"gitlab.com/aquachain/aquachain/aqua"
	"gitlab.com/aquachain/aquachain/verifharness/rlptypes"
)

func init() { register("GenAquaMsgs.v", genAquaMsgs) }

func genAquaMsgs(w io.Writer) {
	p := func(f string, a ...interface{}) { fmt.Fprintf(w, f+"\n", a...) }
	p("From AQ Require Import Lib.Bytes Rlp.Typed.")
	p("Local Open Scope N_scope.")
	p("")
	var typed, streams, custom []string
	for _, m := range aqua.VerifMsgTypes() {
		switch m.Kind {
		case "typed":
			d, err := rlptypes.Describe(m.Type)
			if err != nil {
				panic(fmt.Sprintf("cannot describe %s: %v", m.Name, err))
			}
			p("Definition ty_msg_%s : ty := %s.  (* code %d: %v *)", m.Name, d, m.Code, m.Type)
			typed = append(typed, fmt.Sprintf("(%d, ty_msg_%s)", m.Code, m.Name))
		case "hash-stream":
			streams = append(streams, fmt.Sprint(m.Code))
		default:
			custom = append(custom, fmt.Sprint(m.Code))
		}
	}
	join := func(l []string) string {
		s := ""
		for i, x := range l {
			if i > 0 {
				s += "; "
			}
			s += x
		}
		return s
	}
	p("")
	p("(* msg.Decode(&v) targets *)")
	p("Definition aqua_msg_types : list (N * ty) := [%s].", join(typed))
	p("(* rlp streams of hashes read lazily up to the fetch limit *)")
	p("Definition aqua_hash_stream_codes : list N := [%s].", join(streams))
	p("(* hand-written DecodeRLP (hashOrNumber in getBlockHeadersData) *)")
	p("Definition aqua_custom_codes : list N := [%s].", join(custom))
	kt, kb := aqua.VerifKnownLimits()
	p("Definition g_max_known_txs : N := %d.  (* aqua/peer.go maxKnownTxs *)", kt)
	p("Definition g_max_known_blocks : N := %d.  (* aqua/peer.go maxKnownBlocks *)", kb)
}
