// gen_params_evm.go — GenParamsEvm.v: the gas constants and gas tables the EVM
// instruction model (coq/Evm/OpsModel.v) hard-codes, read from the params and
// core/vm packages of the current tree; OpsProofsTable.v proves that the
// model's constants equal these.
package main

import (
	"fmt"
	"io"

	"gitlab.com/aquachain/aquachain/core/vm"
	"gitlab.com/aquachain/aquachain/params"
)

func init() { register("GenParamsEvm.v", genParamsEvm) }

func genParamsEvm(w io.Writer) {
	fmt.Fprintln(w, "From Coq Require Import ZArith.\nLocal Open Scope Z_scope.\n")
	def := func(name string, v uint64) { fmt.Fprintf(w, "Definition %s : Z := %d.\n", name, v) }
	def("gp_MemoryGas", params.MemoryGas)
	def("gp_QuadCoeffDiv", params.QuadCoeffDiv)
	def("gp_CopyGas", params.CopyGas)
	def("gp_Sha3Gas", params.Sha3Gas)
	def("gp_Sha3WordGas", params.Sha3WordGas)
	def("gp_LogGas", params.LogGas)
	def("gp_LogTopicGas", params.LogTopicGas)
	def("gp_LogDataGas", params.LogDataGas)
	def("gp_CreateGas", params.CreateGas)
	def("gp_ExpGas", params.ExpGas)
	def("gp_StackLimit", params.StackLimit)
	def("gp_CallStipend", params.CallStipend)
	def("gp_SstoreSetGas", params.SstoreSetGas)
	def("gp_SstoreClearGas", params.SstoreClearGas)
	def("gp_SstoreResetGas", params.SstoreResetGas)
	def("gp_SstoreRefundGas", params.SstoreRefundGas)
	def("gp_CallNewAccountGas", params.CallNewAccountGas)
	def("gp_CallValueTransferGas", params.CallValueTransferGas)
	def("gp_SuicideRefundGas", params.SuicideRefundGas)
	def("gp_GasQuickStep", vm.GasQuickStep)
	def("gp_GasFastestStep", vm.GasFastestStep)
	def("gp_GasFastStep", vm.GasFastStep)
	def("gp_GasMidStep", vm.GasMidStep)
	def("gp_GasSlowStep", vm.GasSlowStep)
	def("gp_GasExtStep", vm.GasExtStep)
	for _, t := range []struct {
		n string
		g params.GasTable
	}{{"Homestead", params.GasTableHomestead}, {"HF1", params.GasTableHF1}} {
		def("gp_"+t.n+"_ExpByte", t.g.ExpByte)
		def("gp_"+t.n+"_CreateBySuicide", t.g.CreateBySuicide)
		def("gp_"+t.n+"_Calls", t.g.Calls)
		def("gp_"+t.n+"_ExtcodeCopy", t.g.ExtcodeCopy)
		def("gp_"+t.n+"_ExtcodeSize", t.g.ExtcodeSize)
		def("gp_"+t.n+"_Balance", t.g.Balance)
		def("gp_"+t.n+"_SLoad", t.g.SLoad)
		def("gp_"+t.n+"_Suicide", t.g.Suicide)
	}
}
