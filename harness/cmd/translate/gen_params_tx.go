// gen_params_tx.go: GenParamsTx.v — constants the transaction / supply models
// (coq/Tx) are stated over: block reward schedule, uncle divisors, intrinsic gas
// constants, the refund quotient (read from the AST of refundGas), the fork
// heights of the built-in chain configurations, precompile address sets, and the
// head of the HF4 de-allocation list.
package main

import (
	"fmt"
	"go/ast"
	"go/parser"
	"go/token"
	"io"
	"math/big"
	"os"
	"path/filepath"
	"sort"

	"gitlab.com/aquachain/aquachain/common"
	"gitlab.com/aquachain/aquachain/consensus/aquahash"
	"gitlab.com/aquachain/aquachain/consensus/misc"
	"gitlab.com/aquachain/aquachain/core/vm"
	"gitlab.com/aquachain/aquachain/params"
)

func init() { register("GenParamsTx.v", genParamsTx) }

func txRepoDir() string {
	if d := os.Getenv("VERIF_REPO"); d != "" {
		return d
	}
	return "/repo"
}

// refundQuotient finds the literal divisor in `refund := st.gasUsed() / 2` of
// (*StateTransition).refundGas in core/state_transition.go.
func refundQuotient() string {
	fset := token.NewFileSet()
	f, err := parser.ParseFile(fset, filepath.Join(txRepoDir(), "core", "state_transition.go"), nil, 0)
	if err != nil {
		fmt.Fprintln(os.Stderr, "translate: cannot parse state_transition.go:", err)
		os.Exit(2)
	}
	found := ""
	for _, d := range f.Decls {
		fd, ok := d.(*ast.FuncDecl)
		if !ok || fd.Name.Name != "refundGas" || fd.Body == nil {
			continue
		}
		ast.Inspect(fd.Body, func(n ast.Node) bool {
			if found != "" {
				return false
			}
			if as, ok := n.(*ast.AssignStmt); ok && len(as.Lhs) == 1 && len(as.Rhs) == 1 {
				if id, ok := as.Lhs[0].(*ast.Ident); ok && id.Name == "refund" {
					if be, ok := as.Rhs[0].(*ast.BinaryExpr); ok && be.Op == token.QUO {
						if lit, ok := be.Y.(*ast.BasicLit); ok && lit.Kind == token.INT {
							found = lit.Value
						}
					}
				}
			}
			return true
		})
	}
	if found == "" {
		fmt.Fprintln(os.Stderr, "translate: refundGas no longer has the shape `refund := <expr> / <int literal>`")
		os.Exit(2)
	}
	return found
}

func optN(b *big.Int) string {
	if b == nil {
		return "None"
	}
	return "(Some " + b.String() + ")"
}

func precompileList(m map[common.Address]vm.PrecompiledContract) string {
	var l []string
	for a := range m {
		l = append(l, new(big.Int).SetBytes(a.Bytes()).String())
	}
	sort.Slice(l, func(i, j int) bool {
		x, _ := new(big.Int).SetString(l[i], 10)
		y, _ := new(big.Int).SetString(l[j], 10)
		return x.Cmp(y) < 0
	})
	s := "["
	for i, x := range l {
		if i > 0 {
			s += "; "
		}
		s += x
	}
	return s + "]"
}

func genParamsTx(w io.Writer) {
	fmt.Fprintln(w, "From Coq Require Import NArith ZArith List.")
	fmt.Fprintln(w, "Import ListNotations.")
	fmt.Fprintln(w, "Local Open Scope N_scope.")
	fmt.Fprintln(w, "(* consensus/aquahash.BlockReward, params.MaxMoney, big8 / big32 of accumulateRewards *)")
	fmt.Fprintf(w, "Definition block_reward : Z := %s%%Z.\n", aquahash.BlockReward.String())
	fmt.Fprintf(w, "Definition max_money : N := %s.\n", params.MaxMoney.String())
	u, n := aquahash.VerifRewardDivisors()
	fmt.Fprintf(w, "Definition uncle_div : Z := %s%%Z.\n", u.String())
	fmt.Fprintf(w, "Definition nephew_div : Z := %s%%Z.\n", n.String())
	fmt.Fprintln(w, "(* params/protocol_params.go *)")
	fmt.Fprintf(w, "Definition tx_gas : N := %d.\n", params.TxGas)
	fmt.Fprintf(w, "Definition tx_gas_contract_creation : N := %d.\n", params.TxGasContractCreation)
	fmt.Fprintf(w, "Definition tx_data_zero_gas : N := %d.\n", params.TxDataZeroGas)
	fmt.Fprintf(w, "Definition tx_data_non_zero_gas : N := %d.\n", params.TxDataNonZeroGas)
	fmt.Fprintln(w, "(* core/state_transition.go refundGas: refund := st.gasUsed() / <this literal> *)")
	fmt.Fprintf(w, "Definition refund_quotient : N := %s.\n", refundQuotient())
	fmt.Fprintln(w, "(* built-in chain configurations: (id, (homestead, eip158, byzantium, hf4, hf5)) *)")
	type c struct {
		id   int
		name string
		cfg  *params.ChainConfig
	}
	cfgs := []c{{0, "MainnetChainConfig", params.MainnetChainConfig}, {1, "TestnetChainConfig", params.TestnetChainConfig},
		{2, "Testnet2ChainConfig", params.Testnet2ChainConfig}, {3, "Testnet3ChainConfig", params.Testnet3ChainConfig},
		{4, "TestChainConfig", params.TestChainConfig}, {5, "AllAquahashProtocolChanges", params.AllAquahashProtocolChanges}}
	fmt.Fprintln(w, "Definition chain_cfgs : list (N * (option N * option N * option N * option N * option N)) := [")
	for i, x := range cfgs {
		sep := ";"
		if i == len(cfgs)-1 {
			sep = ""
		}
		fmt.Fprintf(w, "  (%d, (%s, %s, %s, %s, %s))%s (* params.%s *)\n", x.id, optN(x.cfg.HomesteadBlock), optN(x.cfg.EIP158Block),
			optN(x.cfg.ByzantiumBlock), optN(x.cfg.GetHF(4)), optN(x.cfg.GetHF(5)), sep, x.name)
	}
	fmt.Fprintln(w, "].")
	fmt.Fprintln(w, "(* core/vm/contracts.go precompile address sets (as numbers) *)")
	fmt.Fprintf(w, "Definition precompiles_homestead : list N := %s.\n", precompileList(vm.PrecompiledContractsHomestead))
	fmt.Fprintf(w, "Definition precompiles_byzantium : list N := %s.\n", precompileList(vm.PrecompiledContractsByzantium))
	fmt.Fprintln(w, "(* consensus/misc.DeallocListHF4: length and first entries (the model takes the list as an argument) *)")
	fmt.Fprintf(w, "Definition dealloc_hf4_len : N := %d.\n", len(misc.DeallocListHF4))
	fmt.Fprint(w, "Definition dealloc_hf4_head : list N := [")
	for i := 0; i < 4 && i < len(misc.DeallocListHF4); i++ {
		if i > 0 {
			fmt.Fprint(w, "; ")
		}
		fmt.Fprint(w, new(big.Int).SetBytes(common.HexToAddress(misc.DeallocListHF4[i]).Bytes()).String())
	}
	fmt.Fprintln(w, "].")
}
