// gen_gasobs.go — GenGasObs.v: every fork rule set (gas table, IsEIP150, IsEIP158) the built-in
// chain configurations reach on their height lattice, and what the REAL gas functions of
// core/vm/gas_table.go return under each of them on a finite operand lattice (through the
// -tags verif exports VerifGasState / VerifGas).  OpsProofsGasRules.v proves that the Coq model
// returns the same on every observation, so a changed surcharge, cap or rule flag in the Go code
// breaks a proof obligation.
package main

import (
	"fmt"
	"io"
	"math/big"
	"os"

	"gitlab.com/aquachain/aquachain/common"
	"gitlab.com/aquachain/aquachain/core/vm"
	"gitlab.com/aquachain/aquachain/params"
)

func init() { register("GenGasObs.v", genGasObs) }

type ruleSet struct {
	gt             params.GasTable
	eip150, eip158 bool
	where          string
}

func ruleSets() []ruleSet {
	var out []ruleSet
	seen := map[string]bool{}
	for _, nc := range builtinConfigs() {
		for _, h := range latticeHeights(nc.cfg) {
			num := big.NewInt(h)
			rs := ruleSet{vm.VerifSelectedGasTable(nc.cfg, num), nc.cfg.IsEIP150(num), nc.cfg.IsEIP158(num), fmt.Sprintf("%s@%d", nc.name, h)}
			key := fmt.Sprintf("%v/%v/%v", rs.gt, rs.eip150, rs.eip158)
			if !seen[key] {
				seen[key] = true
				out = append(out, rs)
			}
		}
	}
	return out
}

func cfgFor(rs ruleSet) *params.ChainConfig {
	cfg := &params.ChainConfig{ChainId: big.NewInt(1), HomesteadBlock: big.NewInt(0), HF: params.ForkMap{}}
	if rs.eip150 {
		cfg.EIP150Block = big.NewInt(0)
	}
	if rs.eip158 {
		cfg.EIP158Block = big.NewInt(0)
	}
	return cfg
}

func cmemW(w uint64) uint64 { return 3*w + w*w/512 }

func genGasObs(w io.Writer) {
	fmt.Fprintln(w, `From Coq Require Import ZArith List String.
Import ListNotations.
Local Open Scope Z_scope.
Local Open Scope string_scope.

(* a fork rule set: the params.GasTable NewInterpreter installs (ExtcodeSize, ExtcodeCopy, Balance, SLoad, Calls,
   Suicide, ExpByte, CreateBySuicide), IsEIP150, IsEIP158, and one (config@height) where it occurs *)
Record gen_ruleset : Type := mk_ruleset {
  grs_gt : Z * Z * Z * Z * Z * Z * Z * Z; grs_eip150 : bool; grs_eip158 : bool; grs_where : string }.
`)
	rss := ruleSets()
	fmt.Fprintln(w, "Definition gen_rulesets : list gen_ruleset := [")
	for i, rs := range rss {
		sep := ";"
		if i == len(rss)-1 {
			sep = ""
		}
		g := rs.gt
		fmt.Fprintf(w, "  mk_ruleset (%d, %d, %d, %d, %d, %d, %d, %d) %s %s %q%s\n", g.ExtcodeSize, g.ExtcodeCopy, g.Balance, g.SLoad, g.Calls,
			g.Suicide, g.ExpByte, g.CreateBySuicide, coqBool(rs.eip150), coqBool(rs.eip158), rs.where, sep)
	}
	fmt.Fprintln(w, "].")

	// call family: memory of 2 words charged Cmem 2
	fmt.Fprintln(w, `
(* gasCall / gasCallCode / gasDelegateCall / gasStaticCall observed on a memory of 64 bytes with lastGasCost 6:
   (rule set index, kind 0=CALL 1=CALLCODE 2=DELEGATECALL 3=STATICCALL, value, StateDB.Empty, StateDB.Exist,
    memorySize, contract.Gas, requested gas) -> (error class 0 none / 1 errGasUintOverflow, gas, evm.callGasTemp) *)
Definition gen_callgas_obs : list (nat * Z * Z * bool * bool * Z * Z * Z * (Z * Z * Z)) := [`)
	values := []*big.Int{big.NewInt(0), big.NewInt(1), new(big.Int).Lsh(big.NewInt(1), 255)}
	mss := []uint64{0, 96, 0xffffffffe0 + 32}
	avails := []uint64{0, 700, 9700, 34700, 100000, 1<<64 - 1}
	costs := []*big.Int{big.NewInt(0), big.NewInt(2300), big.NewInt(1 << 40), new(big.Int).Lsh(big.NewInt(1), 64), new(big.Int).Sub(new(big.Int).Lsh(big.NewInt(1), 256), big.NewInt(1))}
	kinds := []string{"gasCall", "gasCallCode", "gasDelegateCall", "gasStaticCall"}
	first := true
	for ri, rs := range rss {
		for ki, fn := range kinds {
			vals := values
			if ki >= 2 {
				vals = values[:1]
			}
			for _, v := range vals {
				for eb := 0; eb < 4; eb++ {
					empty, exist := eb&1 == 1, eb&2 == 2
					if ki != 0 && eb != 0 {
						continue
					}
					for _, ms := range mss {
						for _, av := range avails {
							for _, cost := range costs {
								stack := []*big.Int{cost, big.NewInt(0xabc), v, big.NewInt(0), big.NewInt(0), big.NewInt(0), big.NewInt(0)}
								if ki >= 2 {
									stack = []*big.Int{cost, big.NewInt(0xabc), big.NewInt(0), big.NewInt(0), big.NewInt(0), big.NewInt(0)}
								}
								g, _, temp, _, ec := vm.VerifGasState(fn, vm.VerifStateArgs{Cfg: cfgFor(rs), Block: big.NewInt(1), GT: rs.gt,
									AddrEmpty: empty, AddrExist: exist, ContractGas: av}, stack, 64, cmemW(2), ms)
								if ec > 1 {
									fmt.Fprintf(os.Stderr, "translate: %s returned an unexpected error class %d\n", fn, ec)
									os.Exit(2)
								}
								if ec == 1 {
									g, temp = 0, 0
								}
								if !first {
									fmt.Fprintln(w, ";")
								}
								first = false
								fmt.Fprintf(w, "  (%d%%nat, %d, %s, %s, %s, %d, %d, %s, (%d, %d, %d))", ri, ki, v, coqBool(empty), coqBool(exist), ms, av, cost, ec, g, temp)
							}
						}
					}
				}
			}
		}
	}
	fmt.Fprintln(w, "\n].")

	// SELFDESTRUCT
	fmt.Fprintln(w, `
(* gasSuicide: (rule set index, Empty(beneficiary), Exist(beneficiary), own balance non-zero, HasSuicided) -> (gas, refund added) *)
Definition gen_suicide_obs : list (nat * bool * bool * bool * bool * (Z * Z)) := [`)
	first = true
	for ri, rs := range rss {
		for bits := 0; bits < 16; bits++ {
			b := func(i uint) bool { return bits>>i&1 == 1 }
			bal := big.NewInt(0)
			if b(2) {
				bal = big.NewInt(7)
			}
			g, _, _, refund, ec := vm.VerifGasState("gasSuicide", vm.VerifStateArgs{Cfg: cfgFor(rs), Block: big.NewInt(1), GT: rs.gt,
				AddrEmpty: b(0), AddrExist: b(1), Balance: bal, HasSuicided: b(3)}, []*big.Int{big.NewInt(9)}, 0, 0, 0)
			if ec != 0 {
				fmt.Fprintln(os.Stderr, "translate: gasSuicide failed")
				os.Exit(2)
			}
			if !first {
				fmt.Fprintln(w, ";")
			}
			first = false
			fmt.Fprintf(w, "  (%d%%nat, %s, %s, %s, %s, (%d, %d))", ri, coqBool(b(0)), coqBool(b(1)), coqBool(b(2)), coqBool(b(3)), g, refund)
		}
	}
	fmt.Fprintln(w, "\n].")

	// SSTORE (independent of the rule set)
	fmt.Fprintln(w, `
(* gasSStore: (current value, value to store) -> (gas, refund added) *)
Definition gen_sstore_obs : list (Z * Z * (Z * Z)) := [`)
	first = true
	svals := []*big.Int{big.NewInt(0), big.NewInt(1), new(big.Int).Sub(new(big.Int).Lsh(big.NewInt(1), 256), big.NewInt(1))}
	for _, cur := range svals {
		for _, y := range svals {
			g, _, _, refund, _ := vm.VerifGasState("gasSStore", vm.VerifStateArgs{Cfg: cfgFor(rss[0]), Block: big.NewInt(1), GT: rss[0].gt,
				CurrentValue: common.BigToHash(cur)}, []*big.Int{big.NewInt(7), y}, 0, 0, 0)
			if !first {
				fmt.Fprintln(w, ";")
			}
			first = false
			fmt.Fprintf(w, "  (%s, %s, (%d, %d))", cur, y, g, refund)
		}
	}
	fmt.Fprintln(w, "\n].")

	// memory-shaped functions and EXP per rule set: (rule set, function code, memorySize, operand) -> (error class, gas)
	fmt.Fprintln(w, `
(* gasExp (0), gasSha3 (1), gasCallDataCopy (2), gasCodeCopy (3), gasReturnDataCopy (4), gasExtCodeCopy (5), gasCreate (6),
   gasLog0..4 (10..14) on a memory of 64 bytes with lastGasCost 6:
   (rule set index, function, memorySize, length / exponent operand) -> (error class, gas) *)
Definition gen_memgas_obs : list (nat * Z * Z * Z * (Z * Z)) := [`)
	type mf struct {
		code  int
		name  string
		depth int
	}
	mfs := []mf{{0, "gasExp", 1}, {1, "gasSha3", 1}, {2, "gasCallDataCopy", 2}, {3, "gasCodeCopy", 2}, {4, "gasReturnDataCopy", 2}, {5, "gasExtCodeCopy", 3},
		{6, "gasCreate", -1}, {10, "gasLog0", 1}, {11, "gasLog1", 1}, {12, "gasLog2", 1}, {13, "gasLog3", 1}, {14, "gasLog4", 1}}
	ops := []*big.Int{big.NewInt(0), big.NewInt(1), big.NewInt(33), big.NewInt(1 << 20), new(big.Int).SetUint64(1<<64 - 1), new(big.Int).Lsh(big.NewInt(1), 64),
		new(big.Int).Sub(new(big.Int).Lsh(big.NewInt(1), 256), big.NewInt(1))}
	first = true
	for ri, rs := range rss {
		for _, f := range mfs {
			for _, ms := range []uint64{0, 96, 1 << 20, 0xffffffffe0 + 32} {
				if f.code == 0 && ms != 0 {
					continue
				}
				for _, x := range ops {
					stack := make([]*big.Int, 8)
					for i := range stack {
						stack[i] = new(big.Int)
					}
					if f.depth >= 0 {
						stack[f.depth] = x
					} else if x.Sign() != 0 {
						continue
					}
					g, _, ec := vm.VerifGas(f.name, rs.gt, stack, 64, cmemW(2), ms)
					if ec > 1 {
						fmt.Fprintf(os.Stderr, "translate: %s returned error class %d\n", f.name, ec)
						os.Exit(2)
					}
					if !first {
						fmt.Fprintln(w, ";")
					}
					first = false
					fmt.Fprintf(w, "  (%d%%nat, %d, %d, %s, (%d, %d))", ri, f.code, ms, x, ec, g)
				}
			}
		}
	}
	fmt.Fprintln(w, "\n].")
}
