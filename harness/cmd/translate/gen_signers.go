// gen_signers.go: GenSigners.v — for every built-in chain configuration, the
// fields types.MakeSigner looks at (ChainId, HomesteadBlock, EIP155Block) and,
// on a lattice of heights around every fork height of that configuration, the
// signer types.MakeSigner(config, height) actually returns (probed by calling it).
// Used by coq/Signing/SigningGen.v (property C12): make_signer_spec.
package main

import (
	"fmt"
	"io"
	"math/big"
	"sort"

	"gitlab.com/aquachain/aquachain/core/types"
	"gitlab.com/aquachain/aquachain/params"
)

func init() { register("GenSigners.v", genSigners) }

func sgOptN(b *big.Int) string {
	if b == nil {
		return "None"
	}
	return "(Some " + b.String() + ")"
}

func genSigners(w io.Writer) {
	type named struct {
		name string
		cfg  *params.ChainConfig
	}
	cfgs := []named{
		{"MainnetChainConfig", params.MainnetChainConfig}, {"TestnetChainConfig", params.TestnetChainConfig},
		{"Testnet2ChainConfig", params.Testnet2ChainConfig}, {"Testnet3ChainConfig", params.Testnet3ChainConfig},
		{"AllAquahashProtocolChanges", params.AllAquahashProtocolChanges}, {"AllCliqueProtocolChanges", params.AllCliqueProtocolChanges},
		{"TestChainConfig", params.TestChainConfig},
	}
	fmt.Fprintln(w, "From Coq Require Import NArith List.\nImport ListNotations.\nLocal Open Scope N_scope.\n")
	fmt.Fprintln(w, "(* (ChainId, HomesteadBlock, EIP155Block) of the built-in configurations, in the order:")
	for i, c := range cfgs {
		fmt.Fprintf(w, "   %d %s\n", i, c.name)
	}
	fmt.Fprintln(w, "*)")
	fmt.Fprintln(w, "Definition gen_signer_configs : list (N * option N * option N) := [")
	for i, c := range cfgs {
		sep := ";"
		if i == len(cfgs)-1 {
			sep = ""
		}
		fmt.Fprintf(w, "  (%s, %s, %s)%s\n", c.cfg.ChainId.String(), sgOptN(c.cfg.HomesteadBlock), sgOptN(c.cfg.EIP155Block), sep)
	}
	fmt.Fprintln(w, "].\n")
	fmt.Fprintln(w, "(* types.MakeSigner(config, height) probed: (config index, height, kind, chain id)")
	fmt.Fprintln(w, "   kind 0 = FrontierSigner, 1 = HomesteadSigner, 2 = EIP155Signer (chain id is 0 unless kind 2) *)")
	fmt.Fprintln(w, "Definition gen_signer_probes : list (nat * N * N * N) := [")
	var lines []string
	for i, c := range cfgs {
		hs := map[string]*big.Int{}
		add := func(b *big.Int) {
			if b == nil {
				return
			}
			for d := int64(-1); d <= 1; d++ {
				x := new(big.Int).Add(b, big.NewInt(d))
				if x.Sign() >= 0 {
					hs[x.String()] = x
				}
			}
		}
		add(big.NewInt(0))
		add(big.NewInt(1))
		add(c.cfg.HomesteadBlock)
		add(c.cfg.EIP150Block)
		add(c.cfg.EIP155Block)
		add(c.cfg.EIP158Block)
		add(c.cfg.ByzantiumBlock)
		for _, b := range c.cfg.HF {
			add(b)
		}
		add(new(big.Int).Lsh(big.NewInt(1), 63))
		add(new(big.Int).Lsh(big.NewInt(1), 64))
		var keys []*big.Int
		for _, x := range hs {
			keys = append(keys, x)
		}
		sort.Slice(keys, func(a, b int) bool { return keys[a].Cmp(keys[b]) < 0 })
		for _, h := range keys {
			kind, cid := 0, "0"
			switch s := types.MakeSigner(c.cfg, h).(type) {
			case types.EIP155Signer:
				kind = 2
				// the signer's chain id, read back through the V it produces for a zero recovery id
				_, _, v, _ := s.SignatureValues(nil, make([]byte, 65))
				id := new(big.Int).Sub(v, big.NewInt(35))
				cid = id.Rsh(id, 1).String()
				if c.cfg.ChainId.Sign() == 0 {
					cid = "0"
				}
			case types.HomesteadSigner:
				kind = 1
			case types.FrontierSigner:
				kind = 0
			default:
				kind = 9
			}
			lines = append(lines, fmt.Sprintf("  (%d%%nat, %s, %d, %s)", i, h.String(), kind, cid))
		}
	}
	for i, l := range lines {
		sep := ";"
		if i == len(lines)-1 {
			sep = ""
		}
		fmt.Fprintln(w, l+sep)
	}
	fmt.Fprintln(w, "].")
}
