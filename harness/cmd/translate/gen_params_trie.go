// gen_params_trie.go — constants that gate the behaviour of the trie database layer (property C10).
package main

import (
	"fmt"
	"io"

	"gitlab.com/aquachain/aquachain/aquadb"
)

func init() { register("GenTrieParams.v", genTrieParams) }

func genTrieParams(w io.Writer) {
	fmt.Fprintln(w, "From Coq Require Import NArith.")
	fmt.Fprintln(w, "Local Open Scope N_scope.")
	fmt.Fprintln(w, "(* aquadb/interface.go IdealBatchSize: trie.Database.Commit flushes its write batch when batch.ValueSize() >= this *)")
	fmt.Fprintf(w, "Definition ideal_batch_size : N := %d.\n", aquadb.IdealBatchSize)
}
