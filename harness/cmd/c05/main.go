// c05: total-supply property.  Three parts:
//  1. aquahash.accumulateRewards (hook) and the public Engine.Finalize against the
//     Coq model accumulate_rewards, plus the direct oracle "supply grows by the
//     scheduled issuance" with the schedule evaluated from the property text;
//  2. whole blocks (transactions with adversarial value flows, uncles, the HF4
//     height) through StateProcessor.Process against the Coq model process, plus
//     the direct oracle on the sum of all balances (RawDump) before/after;
//  3. chains built by core.GenerateChain over a committed genesis, direct oracle only.
package main

import (
	"context"
	"flag"
	"fmt"
	"math/big"
	"sort"
	"strings"

	"gitlab.com/aquachain/aquachain/aquadb"
	"gitlab.com/aquachain/aquachain/common"
	"gitlab.com/aquachain/aquachain/common/log"
	"gitlab.com/aquachain/aquachain/consensus/aquahash"
	"gitlab.com/aquachain/aquachain/consensus/misc"
	"gitlab.com/aquachain/aquachain/core"
	"gitlab.com/aquachain/aquachain/core/state"
	"gitlab.com/aquachain/aquachain/core/types"
	"gitlab.com/aquachain/aquachain/core/vm"
	"gitlab.com/aquachain/aquachain/crypto"
	"gitlab.com/aquachain/aquachain/params"
	. "gitlab.com/aquachain/aquachain/verifharness/cmd/c06/txlib"
	"gitlab.com/aquachain/aquachain/verifharness/vh"
)

var (
	keyA, _ = crypto.HexToBtcec("b71c71a67e1177ad4e901695e1b4b9ee17ae16c6668d313eac2f96dbcda3f291")
	keyB, _ = crypto.HexToBtcec("8a1f9a8f95be41cd7ccb6168179afb4504aefe388d1e14474d32c45c72ce7b7a")
	addrA   = crypto.PubkeyToAddress(keyA.PubKey())
	addrB   = crypto.PubkeyToAddress(keyB.PubKey())
)

// fixed, readable addresses: 0xc05000...<i>
func mk(i int) common.Address { return common.HexToAddress(fmt.Sprintf("0xc05%037x", i)) }

var (
	cbEOA    = mk(0x01) // plain coinbase
	sink     = mk(0x02) // existing externally owned account
	fresh    = mk(0x03) // never in a pre-state
	fresh2   = mk(0x04) // beneficiary of "selfdestruct to a fresh address"
	uFresh1  = mk(0x05) // uncle miners that do not exist yet
	uFresh2  = mk(0x06)
	uExist   = mk(0x07) // uncle miner that exists
	pNestF   = mk(0x10)
	pInnerF  = mk(0x11)
	pNestR   = mk(0x12)
	pInnerR  = mk(0x13)
	pNestD   = mk(0x14)
	pMiddle  = mk(0x15)
	pKeep    = mk(0x16)
	pCrFail  = mk(0x17)
	pCrOK    = mk(0x18)
	pSdSelf  = mk(0x19)
	pSdFresh = mk(0x1a)
	pSdSink  = mk(0x1b)
	pSdCb    = mk(0x1c) // contract that may be the block's coinbase
	pSdRevO  = mk(0x1d)
	pSdRevI  = mk(0x1e)
	pSdPayO  = mk(0x1f)
	pSdPayI  = mk(0x20)
	pPaySnd  = mk(0x21)
	pPayCb   = mk(0x22)
	pClear   = mk(0x23)
	pSdEmpty = mk(0x24) // self-destructing contract without balance of its own
	pCrColl  = mk(0x25) // CREATE with value whose target address is already occupied (collision)
	// multi-call scenarios: targets that self-destruct when called without value and just accept a call with value
	pT2Sink   = mk(0x30) // beneficiary: existing account
	pT2Fresh  = mk(0x31) // beneficiary: an account that does not exist
	pT2Self   = mk(0x32) // beneficiary: itself (burn)
	pFunder   = mk(0x33) // third contract that sends value to pT2Sink
	pRepeat   = mk(0x34) // driver: destruct, fund, destruct, destruct, destruct
	pRepeatF  = mk(0x35) // driver: destruct, fund through pFunder, destruct, destruct
	pRepeatN  = mk(0x36) // driver on pT2Fresh
	pRepeatS  = mk(0x37) // driver on pT2Self
	pSdCreate = mk(0x38) // CREATE with value, then self-destruct
	pSdCrDrv  = mk(0x39) // driver: calls pSdCreate three times, funding it in between (CREATE from a destructed contract)
	pChainA   = mk(0x3a) // self-destructs to pChainB
	pChainB   = mk(0x3b) // self-destructs to sink
	pChainD   = mk(0x3c) // driver: A, B, fund A, A, B, B
	pRevWrap  = mk(0x3d) // calls pT2Sink then fails (the self-destruct is reverted)
	pRevDrv   = mk(0x3e) // driver: reverted destruct, real destruct, fund, reverted destruct, destruct, destruct
	// SELFDESTRUCT executed through DELEGATECALL / CALLCODE: the context account (the wallet) is the one destroyed
	pLibSink  = mk(0x40) // library: SELFDESTRUCT(sink), holds a balance of its own
	pLibSink0 = mk(0x41) // the same without balance
	pLibSelf  = mk(0x42) // library: SELFDESTRUCT(ADDRESS) = to the context account itself
	pLibLib   = mk(0x43) // library: SELFDESTRUCT(<the library's own address>)
	pLibMid   = mk(0x44) // library that DELEGATECALLs pLibSink (nested)
	pWalD     = mk(0x45) // wallet with balance: DELEGATECALL pLibSink
	pWalD0    = mk(0x46) // wallet without balance: DELEGATECALL pLibSink
	pWalC     = mk(0x47) // wallet with balance: CALLCODE pLibSink0
	pWalSelf  = mk(0x48) // wallet with balance: DELEGATECALL pLibSelf
	pWalLib   = mk(0x49) // wallet with balance: DELEGATECALL pLibLib
	pWalNest  = mk(0x4a) // wallet with balance: DELEGATECALL pLibMid -> DELEGATECALL pLibSink
	// call-family loops (gas operand 0: a value-bearing call runs on the stipend alone): gas must be conserved
	pLoopCC   = mk(0x50) // CALLCODE value 1 onto an account without code
	pLoopCall = mk(0x51) // CALL value 1 onto an account without code
	pLoopDel  = mk(0x52) // DELEGATECALL onto trivial code
	pLoopCr   = mk(0x53) // CREATE value 1
	pTrivial  = mk(0x54) // STOP
	pWalTwice = mk(0x4b) // wallet: DELEGATECALL pLibSink, is re-funded by the caller's value, CALLCODE pLibSink0 again
)

// ------------------------------------------------------------------ issuance schedule, from the property text

var (
	aqua     = Big("1000000000000000000")
	lastPaid = big.NewInt(42000000)
)

// "1 AQUA to the miner for heights below 42,000,000, plus (8 + uncleHeight − height)/8 AQUA to each
// uncle's miner and 1/32 AQUA per uncle to the block's miner"; nothing from 42,000,000 on.
func issuanceSpec(num *big.Int, uncleNums []*big.Int) *big.Int {
	if num.Cmp(lastPaid) >= 0 {
		return new(big.Int)
	}
	tot := new(big.Int).Set(aqua)
	for _, u := range uncleNums {
		s := Add(big.NewInt(8), u)
		s.Sub(s, num)
		s.Mul(s, aqua)
		s.Quo(s, big.NewInt(8)) // depth <= 8: never negative
		tot.Add(tot, s)
		tot.Add(tot, new(big.Int).Quo(aqua, big.NewInt(32)))
	}
	return tot
}

// ------------------------------------------------------------------ chains per configuration

var chains = map[string]*core.BlockChain{}

func chainFor(cfg Cfg) *core.BlockChain {
	if bc, ok := chains[cfg.Token]; ok {
		return bc
	}
	bc := NewChain(cfg.C)
	chains[cfg.Token] = bc
	return bc
}

func bi(x int64) *big.Int { return big.NewInt(x) }

func customs() []Cfg {
	return []Cfg{
		Custom(bi(0), bi(10), bi(20), bi(15), bi(16)), // HF4 after EIP158, before Byzantium
		Custom(bi(0), bi(0), bi(0), bi(30), nil),      // HF4 under Byzantium
		Custom(bi(0), bi(10), bi(20), bi(5), nil),     // HF4 before EIP158
		Custom(bi(0), bi(10), bi(20), bi(25), bi(25)), // HF4 and HF5 in one block
	}
}

type uncleSpec struct {
	num   *big.Int
	depth int
	cb    common.Address
}

func unclesTok(us []uncleSpec, hexNum bool) string {
	if len(us) == 0 {
		return "-"
	}
	var p []string
	for _, u := range us {
		n := u.num.String()
		if hexNum {
			n = HexBig(u.num)
		}
		p = append(p, n+":"+HexAddr(u.cb))
	}
	return strings.Join(p, ";")
}

func depthsTok(us []uncleSpec) string {
	if len(us) == 0 {
		return "none"
	}
	var p []string
	for _, u := range us {
		p = append(p, fmt.Sprint(u.depth))
	}
	return strings.Join(p, ",")
}

func uncleHeaders(cfg *params.ChainConfig, us []uncleSpec) []*types.Header {
	var hs []*types.Header
	for i, u := range us {
		hs = append(hs, &types.Header{Number: new(big.Int).Set(u.num), Coinbase: u.cb, Difficulty: big.NewInt(1), Time: big.NewInt(900 + int64(i)),
			GasLimit: 8000000, ParentHash: common.BytesToHash([]byte{byte(i + 1)}), Version: cfg.GetBlockVersion(u.num)})
	}
	return hs
}

func uncleNums(us []uncleSpec) []*big.Int {
	var ns []*big.Int
	for _, u := range us {
		ns = append(ns, u.num)
	}
	return ns
}

func checkUniverse(c *vh.Ctx, addrs []common.Address, u Universe, where string) {
	in := make(map[common.Address]bool, len(u))
	for _, a := range u {
		in[a] = true
	}
	for _, a := range addrs {
		if !in[a] {
			c.Violate("account-outside-universe/"+a.Hex()+"/"+where, "the state holds an account that nothing in this case can have created (every address the case can reach is in the compared universe)", map[string]interface{}{"where": where})
		}
	}
}

// ================================================================== PART 1: rewards

var rewardHeights = []uint64{1, 2, 100, 3, 4, 5, 21799, 21800, 21801, 36049, 36050, 41999998, 41999999, 42000000, 42000001, 50000000}

func randBalance(r *vh.RNG) *big.Int {
	switch r.Intn(7) {
	case 0:
		return new(big.Int)
	case 1:
		return big.NewInt(int64(r.Intn(1000)))
	case 2:
		return new(big.Int).SetUint64(r.Uint64())
	case 3:
		return new(big.Int).Lsh(new(big.Int).SetUint64(r.Uint64()|1), 140)
	default:
		return new(big.Int).SetBytes(r.Bytes(1 + r.Intn(11)))
	}
}

func runRewards(c *vh.Ctx, m *vh.Model, directed int) {
	r := c.Rng
	cfgs := []Cfg{Builtin(0), Builtin(1), Builtin(2), Builtin(3), Builtin(4), Builtin(5)}
	cfgs = append(cfgs, customs()...)
	cfg := cfgs[r.Intn(len(cfgs))]
	// height
	var num *big.Int
	hclass := ""
	switch k := r.Intn(len(rewardHeights) + 3); {
	case k < len(rewardHeights):
		num = new(big.Int).SetUint64(rewardHeights[k])
		hclass = num.String()
	case k == len(rewardHeights):
		num = new(big.Int).SetUint64(r.Uint64()>>uint(1+r.Intn(40)) + 42000000)
		hclass = "random>=42M"
	default:
		num = big.NewInt(int64(1 + r.Intn(41999999)))
		hclass = "random<42M"
	}
	// pre-state: 3-5 accounts out of a pool; one of them carries code
	pool := []common.Address{mk(0x41), mk(0x42), mk(0x43), mk(0x44), mk(0x45), mk(0x46)}
	freshPool := []common.Address{mk(0x51), mk(0x52), mk(0x53)}
	nw := 3 + r.Intn(3)
	var world []Acct
	for i := 0; i < nw; i++ {
		a := Acct{Addr: pool[i], Bal: randBalance(r)}
		if i == 1 {
			a.Code = []byte{STOP}
			a.Nonce = 1
		}
		if i == 2 && r.Bool() {
			a.Nonce = uint64(r.Intn(5))
		}
		world = append(world, a)
	}
	existing := func() common.Address { return world[r.Intn(len(world))].Addr }
	var cb common.Address
	cbclass := ""
	switch r.Intn(8) {
	case 0:
		cb, cbclass = freshPool[0], "cb=fresh"
	case 1:
		cb, cbclass = common.Address{}, "cb=zero-address"
	case 2:
		cb, cbclass = world[1].Addr, "cb=contract"
	default:
		cb, cbclass = existing(), "cb=existing"
	}
	// uncles
	nu := r.Intn(3)
	if r.Intn(20) == 0 {
		nu = 3
	}
	var us []uncleSpec
	var rel []string
	for i := 0; i < nu; i++ {
		d := 1 + r.Intn(7)
		if r.Intn(8) == 0 {
			d = 8
		}
		if num.IsUint64() && num.Uint64() < uint64(d) {
			d = int(num.Uint64())
		}
		u := uncleSpec{num: Sub(num, big.NewInt(int64(d))), depth: d}
		switch r.Intn(5) {
		case 0:
			u.cb = cb
			rel = append(rel, "miner")
		case 1:
			if i > 0 {
				u.cb = us[i-1].cb
				rel = append(rel, "same-as-other-uncle")
			} else {
				u.cb = existing()
				rel = append(rel, "existing")
			}
		case 2:
			u.cb = existing()
			rel = append(rel, "existing")
		default:
			u.cb = freshPool[1+r.Intn(2)]
			rel = append(rel, "fresh")
		}
		us = append(us, u)
	}
	// uncle above the block (accumulateRewards has no guard of its own; VerifyUncles rejects such blocks)
	if directed < 0 && len(us) > 0 && r.Intn(25) == 0 {
		d := -(1 + r.Intn(3))
		us[0].num, us[0].depth = Sub(num, big.NewInt(int64(d))), d
		c.Count("rewards:uncle-above-block")
	}
	// directed edge cases, run on every seed
	if directed >= 0 {
		if num.Cmp(big.NewInt(42000000)) >= 0 || num.Cmp(big.NewInt(10)) < 0 {
			num = big.NewInt(100)
			hclass = "100"
		}
		un := func(d int, a common.Address) uncleSpec { return uncleSpec{num: Sub(num, big.NewInt(int64(d))), depth: d, cb: a} }
		emptyExisting := mk(0x47)
		switch directed % 7 {
		case 0:
			us, rel = []uncleSpec{un(7, freshPool[1])}, []string{"fresh"}
		case 1:
			us, rel = []uncleSpec{un(8, freshPool[1])}, []string{"fresh"}
		case 2:
			us, rel = []uncleSpec{un(-2, freshPool[1])}, []string{"fresh"}
		case 3:
			us, rel = []uncleSpec{un(1, freshPool[2]), un(2, freshPool[2])}, []string{"fresh", "same-as-other-uncle"}
		case 4:
			us, rel = []uncleSpec{un(3, cb)}, []string{"miner"}
		case 5:
			world = append(world, Acct{Addr: emptyExisting})
			us, rel = []uncleSpec{un(8, emptyExisting)}, []string{"existing-empty"}
		case 6:
			us, rel = []uncleSpec{un(7, cb), un(8, cb)}, []string{"miner", "miner"}
		}
		nu = len(us)
		c.Count(fmt.Sprintf("rewards:directed-%d", directed%7))
	}
	u := Universe{cb}
	for _, a := range world {
		u = append(u, a.Addr)
	}
	for _, x := range us {
		u = append(u, x.cb)
	}
	u = u.Sorted()

	mkHeader := func() *types.Header {
		return &types.Header{Number: new(big.Int).Set(num), Coinbase: cb, Difficulty: big.NewInt(1), Time: big.NewInt(1000), GasLimit: 8000000,
			Version: cfg.C.GetBlockVersion(num)}
	}
	eip158 := cfg.C.IsEIP158(num)
	// (i) the hook
	sdb1 := BuildState(world)
	preDump := DumpState(sdb1, u)
	before, _ := Supply(sdb1, false)
	hexNum := r.Bool()
	numTok := num.String()
	if hexNum {
		numTok = HexBig(num)
	}
	req := fmt.Sprintf("rewards %s %s %s %s", numTok, HexAddr(cb), unclesTok(us, hexNum), preDump)
	replay := map[string]interface{}{"request": req, "cfg": cfg.Token, "depths": depthsTok(us)}
	class := fmt.Sprintf("rewards|h=%s|uncles=%d", hclass, nu)
	c.Eval(class, class+"|"+depthsTok(us)+"|"+cbclass+"|"+strings.Join(rel, ","))
	c.Count("rewards:" + cbclass)
	for i := range us {
		c.Count(fmt.Sprintf("rewards:uncle-depth=%d", us[i].depth))
		c.Count("rewards:uncle-miner=" + rel[i])
	}
	if pan, v := vh.CatchPanic(func() { aquahash.VerifAccumulateRewards(cfg.C, sdb1, mkHeader(), uncleHeaders(cfg.C, us)) }); pan {
		c.Violate("accumulate-rewards-panic/"+num.String()+"/"+depthsTok(us), fmt.Sprintf("accumulateRewards panics: %v", v), replay)
		return
	}
	after, addrs := Supply(sdb1, eip158)
	checkUniverse(c, addrs, u, "rewards")
	issuance := issuanceSpec(num, uncleNums(us))
	postDump := DumpStateLoose(sdb1, u)
	observed := "supply_before=" + HexBig(before) + " supply_after=" + HexBig(after) + " issuance=" + HexBig(issuance) + " state=" + postDump
	ans := m.Ask(req)
	c.Correspond("aquahash.accumulateRewards~accumulate_rewards", req, observed, ans)
	if len(c.Res.Samples) < 3 && r.Intn(30) == 0 {
		c.Sample(map[string]string{"request": req, "observed": observed})
	}
	// (ii) the public path
	bc := chainFor(cfg)
	sdb2 := BuildState(world)
	if pan, v := vh.CatchPanic(func() { bc.Engine().Finalize(bc, mkHeader(), sdb2, nil, uncleHeaders(cfg.C, us), nil) }); pan {
		c.Violate("finalize-panic/"+num.String()+"/"+depthsTok(us), fmt.Sprintf("Engine.Finalize panics: %v", v), replay)
		return
	}
	after2, addrs2 := Supply(sdb2, eip158)
	checkUniverse(c, addrs2, u, "finalize")
	// exact comparison including account existence: Finalize ends with IntermediateRoot(IsEIP158)
	sdb2.IntermediateRoot(eip158)
	postExact := DumpState(sdb2, u)
	reqE := fmt.Sprintf("rewards_e %s %s %s %s %s", cfg.Token, numTok, HexAddr(cb), unclesTok(us, hexNum), preDump)
	ansE := m.Ask(reqE)
	obsE := "supply_before=" + HexBig(before) + " supply_after=" + HexBig(after2) + " issuance=" + HexBig(issuance) + " state=" + postExact
	c.Correspond("aquahash.Finalize~accumulate_rewards_e", reqE, obsE, ansE)
	if obsE == ansE {
		want, err := ExpectedRoot(sdb2, postExact)
		if got := sdb2.IntermediateRoot(eip158); err != nil || got != want {
			c.Violate("state-root-differs-from-expected-content/rewards", fmt.Sprintf("real root %x, root of the expected content %x (%v)", got, want, err), replay)
		}
	}
	postDump2 := DumpStateLoose(sdb2, u)
	if postDump2 != postDump || after2.Cmp(after) != 0 {
		c.Violate("finalize-differs-from-accumulate-rewards/"+num.String()+"/"+depthsTok(us), "Engine.Finalize and accumulateRewards leave different states",
			map[string]interface{}{"request": req, "hook": postDump, "finalize": postDump2})
	}
	// direct oracle: the supply grows by exactly the schedule
	for _, a := range []*big.Int{after, after2} {
		if Sub(a, before).Cmp(issuance) != 0 {
			replay["supply_before"], replay["supply_after"], replay["issuance_expected"] = before.String(), a.String(), issuance.String()
			c.Violate("rewards-not-schedule/"+num.String()+"/"+depthsTok(us), fmt.Sprintf("supply changed by %s, schedule says %s", Sub(a, before), issuance), replay)
			break
		}
	}
	if issuance.Sign() == 0 {
		c.Count("rewards:no-issuance(>=42M)")
	}
}

// ================================================================== transactions shared by parts 2 and 3

type prog struct {
	name string
	addr common.Address
	code []byte
	bal  int64
	st   map[byte]byte
}

func A() *Asm { return &Asm{} }

// acceptOrDestruct: a call that carries value is accepted (STOP); a call without value self-destructs to the
// beneficiary pushed by `ben`
func acceptOrDestruct(ben *Asm) []byte {
	// CALLVALUE ISZERO PUSH1 6 JUMPI STOP JUMPDEST <ben> SELFDESTRUCT
	a := A().Op(0x34, ISZERO).Push(6).Op(JUMPI, STOP, JUMPDEST)
	a.B = append(a.B, ben.B...)
	return a.Op(SELFDESTRUCT).B
}

type callStep struct {
	to    common.Address
	value uint64
}

func c0(a common.Address) callStep           { return callStep{a, 0} }
func cv(a common.Address, v uint64) callStep { return callStep{a, v} }

// seq: a driver that makes the given calls one after the other, ignoring their results
func seq(steps ...callStep) []byte {
	a := A()
	for _, st := range steps {
		a.Call(70000, st.to, st.value).Op(POP)
	}
	return a.Op(STOP).B
}

// DELEGATECALL(gas, lib, 0, 0, 0, 0) POP  /  CALLCODE(gas, lib, value, 0, 0, 0, 0) POP
func delegate(lib common.Address) *Asm {
	return A().Push(0).Push(0).Push(0).Push(0).PushAddr(lib).Push(80000).Op(0xf4).Op(POP)
}
func callcode(lib common.Address, value uint64) *Asm {
	return A().Push(0).Push(0).Push(0).Push(0).Push(value).PushAddr(lib).Push(80000).Op(0xf2).Op(POP)
}

// loopCode: n iterations of body (counter on the stack; loop head at offset 2)
func loopCode(body func(a *Asm), n uint64) []byte {
	a := A().Push(n).Op(JUMPDEST)
	body(a)
	return a.Push(1).Op(0x90, 0x03, 0x80).Push(2).Op(JUMPI, STOP).B
}

func progs() []prog {
	// CALL(gas 0, COINBASE / CALLER, value 3)
	payTo := func(op byte) []byte {
		return A().Push(0).Push(0).Push(0).Push(0).Push(3).Op(op).Push(0).Op(0xf1).Op(STOP).B
	}
	return []prog{
		{name: "nest-fail", addr: pNestF, code: A().Call(50000, pInnerF, 2).Op(POP).SStore(2, 1).Op(STOP).B, bal: 10},
		{name: "inner-fail", addr: pInnerF, code: A().SStore(0, 1).Op(INVALID).B},
		{name: "nest-revert", addr: pNestR, code: A().Call(50000, pInnerR, 2).Op(POP).Op(STOP).B, bal: 10},
		{name: "inner-revert", addr: pInnerR, code: A().SStore(0, 1).Push(0).Push(0).Op(REVERT).B},
		{name: "nest-deep", addr: pNestD, code: A().Call(150000, pMiddle, 3).Op(POP).Op(STOP).B, bal: 10},
		{name: "middle", addr: pMiddle, code: A().Call(40000, pKeep, 1).Op(POP).Op(INVALID).B, bal: 1},
		{name: "keep", addr: pKeep, code: A().SStore(0, 1).Op(STOP).B},
		{name: "create-fail", addr: pCrFail, code: A().Create(2, A().SStore(0, 1).Op(INVALID).B).Op(POP).Op(STOP).B, bal: 10},
		{name: "create-ok", addr: pCrOK, code: A().Create(2, A().SStore(0, 1).Op(STOP).B).Op(POP).Op(STOP).B, bal: 10},
		{name: "sd-self", addr: pSdSelf, code: A().Op(ADDRESS).Op(SELFDESTRUCT).B, bal: 10},
		{name: "sd-fresh", addr: pSdFresh, code: A().PushAddr(fresh2).Op(SELFDESTRUCT).B, bal: 10},
		{name: "sd-sink", addr: pSdSink, code: A().PushAddr(sink).Op(SELFDESTRUCT).B, bal: 10, st: map[byte]byte{0: 1}},
		{name: "sd-coinbase", addr: pSdCb, code: A().PushAddr(sink).Op(SELFDESTRUCT).B, bal: 10},
		{name: "sd-revert-outer", addr: pSdRevO, code: A().Call(50000, pSdRevI, 1).Op(POP).Op(INVALID).B, bal: 10},
		{name: "sd-revert-inner", addr: pSdRevI, code: A().PushAddr(sink).Op(SELFDESTRUCT).B, bal: 10},
		{name: "sd-pay-outer", addr: pSdPayO, code: A().Call(50000, pSdPayI, 0).Op(POP).Call(50000, pSdPayI, 3).Op(POP).Op(STOP).B, bal: 10},
		{name: "sd-pay-inner", addr: pSdPayI, code: A().Op(ADDRESS).Op(SELFDESTRUCT).B, bal: 7},
		{name: "pay-sender", addr: pPaySnd, code: payTo(CALLER), bal: 10},
		{name: "pay-coinbase", addr: pPayCb, code: payTo(COINBASE), bal: 10},
		{name: "clear", addr: pClear, code: A().SStore(0, 0).SStore(1, 0).SStore(2, 1).Op(STOP).B, st: map[byte]byte{0: 1, 1: 1}},
		{name: "sd-empty", addr: pSdEmpty, code: A().PushAddr(fresh2).Op(SELFDESTRUCT).B},
		{name: "t2-sink", addr: pT2Sink, code: acceptOrDestruct(A().PushAddr(sink)), bal: 10},
		{name: "t2-fresh", addr: pT2Fresh, code: acceptOrDestruct(A().PushAddr(fresh2)), bal: 10},
		{name: "t2-self", addr: pT2Self, code: acceptOrDestruct(A().Op(ADDRESS)), bal: 10},
		{name: "funder", addr: pFunder, code: A().Call(60000, pT2Sink, 4).Op(POP).Op(STOP).B, bal: 20},
		{name: "repeat", addr: pRepeat, code: seq(c0(pT2Sink), cv(pT2Sink, 5), c0(pT2Sink), c0(pT2Sink), c0(pT2Sink)), bal: 30},
		{name: "repeat-funder", addr: pRepeatF, code: seq(c0(pT2Sink), c0(pFunder), c0(pT2Sink), c0(pT2Sink)), bal: 30},
		{name: "repeat-fresh", addr: pRepeatN, code: seq(c0(pT2Fresh), cv(pT2Fresh, 5), c0(pT2Fresh), c0(pT2Fresh)), bal: 30},
		{name: "repeat-self", addr: pRepeatS, code: seq(c0(pT2Self), cv(pT2Self, 5), c0(pT2Self), cv(pT2Self, 2), c0(pT2Self), c0(pT2Self)), bal: 30},
		{name: "sd-create", addr: pSdCreate, code: A().Create(1, A().SStore(0, 1).Op(STOP).B).Op(POP).PushAddr(sink).Op(SELFDESTRUCT).B, bal: 10},
		{name: "sd-create-driver", addr: pSdCrDrv, code: seq(c0(pSdCreate), cv(pSdCreate, 3), c0(pSdCreate)), bal: 30},
		{name: "chain-a", addr: pChainA, code: acceptOrDestruct(A().PushAddr(pChainB)), bal: 10},
		{name: "chain-b", addr: pChainB, code: acceptOrDestruct(A().PushAddr(sink)), bal: 10},
		{name: "chain-driver", addr: pChainD, code: seq(c0(pChainA), c0(pChainB), cv(pChainA, 2), c0(pChainA), c0(pChainB), c0(pChainB)), bal: 30},
		{name: "revert-wrap", addr: pRevWrap, code: A().Call(60000, pT2Sink, 0).Op(POP).Op(INVALID).B},
		{name: "revert-driver", addr: pRevDrv, code: seq(c0(pRevWrap), c0(pT2Sink), cv(pT2Sink, 5), c0(pRevWrap), c0(pT2Sink), c0(pT2Sink)), bal: 30},
		{name: "lib-sink", addr: pLibSink, code: A().PushAddr(sink).Op(SELFDESTRUCT).B, bal: 7},
		{name: "lib-sink0", addr: pLibSink0, code: A().PushAddr(sink).Op(SELFDESTRUCT).B},
		{name: "lib-self", addr: pLibSelf, code: A().Op(ADDRESS).Op(SELFDESTRUCT).B, bal: 7},
		{name: "lib-lib", addr: pLibLib, code: A().PushAddr(pLibLib).Op(SELFDESTRUCT).B, bal: 7},
		{name: "lib-mid", addr: pLibMid, code: delegate(pLibSink).Op(STOP).B, bal: 3},
		{name: "wallet-delegate", addr: pWalD, code: delegate(pLibSink).Op(STOP).B, bal: 10},
		{name: "wallet-delegate-empty", addr: pWalD0, code: delegate(pLibSink).Op(STOP).B},
		{name: "wallet-callcode", addr: pWalC, code: callcode(pLibSink0, 0).Op(STOP).B, bal: 10},
		{name: "wallet-delegate-self", addr: pWalSelf, code: delegate(pLibSelf).Op(STOP).B, bal: 10},
		{name: "wallet-delegate-lib", addr: pWalLib, code: delegate(pLibLib).Op(STOP).B, bal: 10},
		{name: "wallet-delegate-nested", addr: pWalNest, code: delegate(pLibMid).Op(STOP).B, bal: 10},
		{name: "wallet-twice", addr: pWalTwice, code: delegate(pLibSink).Call(60000, pFunder, 0).Op(POP).B, bal: 10},
		{name: "loop-callcode", addr: pLoopCC, code: loopCode(func(a *Asm) { a.Push(0).Push(0).Push(0).Push(0).Push(1).PushAddr(sink).Push(0).Op(0xf2).Op(POP) }, 24), bal: 100},
		{name: "loop-call", addr: pLoopCall, code: loopCode(func(a *Asm) { a.Push(0).Push(0).Push(0).Push(0).Push(1).PushAddr(sink).Push(0).Op(0xf1).Op(POP) }, 17), bal: 100},
		{name: "loop-delegatecall", addr: pLoopDel, code: loopCode(func(a *Asm) { a.Push(0).Push(0).Push(0).Push(0).PushAddr(pTrivial).Push(0).Op(0xf4).Op(POP) }, 31), bal: 100},
		{name: "loop-create", addr: pLoopCr, code: loopCode(func(a *Asm) { a.Create(1, A().Op(STOP).B).Op(POP) }, 5), bal: 100},
		{name: "trivial", addr: pTrivial, code: []byte{STOP}},
		{name: "create-collide", addr: pCrColl, code: A().Create(2, A().SStore(0, 1).Op(STOP).B).Op(POP).Op(STOP).B, bal: 10},
	}
}

type txEnv struct {
	dealloc  []common.Address
	coinbase common.Address
}

// txKind: what a transaction does; sd = its execution can reach a SELFDESTRUCT instruction
type txKind struct {
	name string
	sd   bool
	mk   func(e *txEnv, r *vh.RNG) (to *common.Address, data []byte)
}

func txKinds() []txKind {
	to := func(a common.Address) func(*txEnv, *vh.RNG) (*common.Address, []byte) {
		return func(*txEnv, *vh.RNG) (*common.Address, []byte) { x := a; return &x, nil }
	}
	create := func(init []byte) func(*txEnv, *vh.RNG) (*common.Address, []byte) {
		return func(*txEnv, *vh.RNG) (*common.Address, []byte) { return nil, init }
	}
	return []txKind{
		{name: "transfer-sink", mk: to(sink)},
		{name: "transfer-fresh", mk: to(fresh)},
		{name: "transfer-coinbase", mk: func(e *txEnv, r *vh.RNG) (*common.Address, []byte) { x := e.coinbase; return &x, nil }, sd: true}, // the coinbase may be the self-destructing contract
		{name: "transfer-dealloc", mk: func(e *txEnv, r *vh.RNG) (*common.Address, []byte) {
			x := sink
			if len(e.dealloc) > 0 {
				x = e.dealloc[r.Intn(len(e.dealloc))]
			}
			return &x, nil
		}},
		{name: "create-value-ok", mk: create(InitReturning(A().Op(STOP).B))},
		{name: "create-value-invalid", mk: create(A().SStore(0, 1).Op(INVALID).B)},
		{name: "create-init-selfdestruct-sink", mk: create(A().PushAddr(sink).Op(SELFDESTRUCT).B), sd: true},
		{name: "create-init-selfdestruct-self", mk: create(A().Op(ADDRESS).Op(SELFDESTRUCT).B), sd: true},
		{name: "nested-inner-fails", mk: to(pNestF)},
		{name: "nested-inner-reverts", mk: to(pNestR)},
		{name: "nested-middle-fails-after-inner-kept-value", mk: to(pNestD)},
		{name: "inner-create-value-fails", mk: to(pCrFail)},
		{name: "inner-create-value-ok", mk: to(pCrOK)},
		{name: "inner-create-value-collision", mk: to(pCrColl)},
		{name: "selfdestruct-self", mk: to(pSdSelf), sd: true},
		{name: "selfdestruct-fresh", mk: to(pSdFresh), sd: true},
		{name: "selfdestruct-existing", mk: to(pSdSink), sd: true},
		{name: "selfdestruct-callee-maybe-coinbase", mk: to(pSdCb), sd: true},
		{name: "selfdestruct-then-outer-fails", mk: to(pSdRevO), sd: true},
		{name: "selfdestruct-then-paid-again", mk: to(pSdPayO), sd: true},
		{name: "selfdestruct-without-own-balance", mk: to(pSdEmpty), sd: true},
		{name: "selfdestruct-via-delegatecall:wallet-with-balance,library-with-balance", mk: to(pWalD), sd: true},
		{name: "selfdestruct-via-delegatecall:wallet-without-balance", mk: to(pWalD0), sd: true},
		{name: "selfdestruct-via-callcode:wallet-with-balance,library-without-balance", mk: to(pWalC), sd: true},
		{name: "selfdestruct-via-delegatecall:to-the-wallet-itself", mk: to(pWalSelf), sd: true},
		{name: "selfdestruct-via-delegatecall:to-the-library", mk: to(pWalLib), sd: true},
		{name: "selfdestruct-via-delegatecall:nested", mk: to(pWalNest), sd: true},
		{name: "selfdestruct-via-delegatecall:then-called-again", mk: to(pWalTwice), sd: true},
		{name: "loop:callcode-with-value-x24", mk: to(pLoopCC)},
		{name: "loop:call-with-value-x17", mk: to(pLoopCall)},
		{name: "loop:delegatecall-x31", mk: to(pLoopDel)},
		{name: "loop:create-with-value-x5", mk: to(pLoopCr)},
		{name: "multi:destruct-fund-destruct-x3", mk: to(pRepeat), sd: true},
		{name: "multi:destruct-fund-via-third-contract-destruct-x2", mk: to(pRepeatF), sd: true},
		{name: "multi:destruct-to-fresh-fund-destruct-x2", mk: to(pRepeatN), sd: true},
		{name: "multi:destruct-to-self-fund-destruct-repeatedly", mk: to(pRepeatS), sd: true},
		{name: "multi:destruct-then-create-from-destructed", mk: to(pSdCrDrv), sd: true},
		{name: "multi:beneficiary-destructs-later", mk: to(pChainD), sd: true},
		{name: "multi:destruct-in-reverted-frame-and-again", mk: to(pRevDrv), sd: true},
		{name: "multi:target-called-directly", mk: to(pT2Sink), sd: true},
		{name: "pay-sender", mk: to(pPaySnd)},
		{name: "pay-coinbase", mk: to(pPayCb), sd: true}, // runs the coinbase's code (stipend) when the coinbase is the contract
		{name: "sstore-clear-refund", mk: to(pClear)},
	}
}

func pickValue(r *vh.RNG) *big.Int {
	return []*big.Int{bi(0), bi(0), bi(1), bi(5), bi(1000), Big("1000000000000000")}[r.Intn(6)]
}

const txGas = 700000

// senders can afford any generated gas price (up to 2^128 per gas) and value
var senderFunds = new(big.Int).Lsh(big.NewInt(1), 200)

// gas prices: small ones, and prices at the arithmetic-width boundaries: txGas*price, used*price and
// remaining*price land around 2^64 and 2^128 with a price that does / does not fit 64 bits
func pickPrice(r *vh.RNG) *big.Int {
	if r.Intn(4) != 0 {
		return big.NewInt(int64(r.Intn(3)))
	}
	two := func(n uint) *big.Int { return new(big.Int).Lsh(big.NewInt(1), n) }
	T := []*big.Int{two(64), two(64), two(128)}[r.Intn(3)]
	f := []uint64{txGas, 21000, 53000, txGas - 21000, 100000}[r.Intn(5)]
	ps := []*big.Int{Add(new(big.Int).Div(T, U(f)), big.NewInt(int64(r.Intn(3))-1)), two(45), two(49), two(63), Sub(two(64), big.NewInt(1)), two(64), Add(two(64), big.NewInt(1))}
	return ps[r.Intn(len(ps))]
}

func buildTx(k txKind, e *txEnv, r *vh.RNG, nonce uint64, signer types.Signer, second bool) *types.Transaction {
	to, data := k.mk(e, r)
	value := pickValue(r)
	price := pickPrice(r)
	if strings.HasPrefix(k.name, "loop:") && price.Sign() == 0 {
		price = big.NewInt(1) // gas that appears from nowhere only shows in the balances at a non-zero price
	}
	var tx *types.Transaction
	if to == nil {
		tx = types.NewContractCreation(nonce, value, txGas, price, data)
	} else {
		tx = types.NewTransaction(nonce, *to, value, txGas, price, data)
	}
	key := keyA
	if second {
		key = keyB
	}
	stx, err := types.SignTx(tx, signer, key)
	if err != nil {
		panic(err)
	}
	return stx
}

// baseUniverse: every fixed address plus the addresses CREATE can produce for sender A (nonces aStart..aStart+count-1),
// sender B and the two creating contracts (nonces 0..count-1)
func baseUniverse(aStart, count uint64) Universe {
	u := Universe{addrA, addrB, cbEOA, sink, fresh, fresh2, uFresh1, uFresh2, uExist}
	for _, p := range progs() {
		u = append(u, p.addr)
	}
	for n := uint64(0); n < count; n++ {
		u = append(u, crypto.CreateAddress(addrA, aStart+n), crypto.CreateAddress(addrB, n), crypto.CreateAddress(pCrFail, n), crypto.CreateAddress(pCrOK, n), crypto.CreateAddress(pCrColl, n), crypto.CreateAddress(pSdCreate, n), crypto.CreateAddress(pLoopCr, n), crypto.CreateAddress(pLoopCr, n+6), crypto.CreateAddress(pLoopCr, n+12), crypto.CreateAddress(pLoopCr, n+18), crypto.CreateAddress(pLoopCr, n+24))
	}
	return u
}

func deallocAddr(i int) common.Address { return common.HexToAddress(misc.DeallocListHF4[i]) }

// ================================================================== PART 2: blocks through Process and the model

// forcedKind, when set, makes genBlock build a block of two transactions of that kind (directed cases, run on every seed)
var forcedKind string

func directedKinds() []string {
	var out []string
	for _, k := range txKinds() {
		if strings.HasPrefix(k.name, "loop:") || strings.HasPrefix(k.name, "multi:") || strings.HasPrefix(k.name, "selfdestruct-") || k.name == "inner-create-value-collision" {
			out = append(out, k.name)
		}
	}
	return out
}

type cfgChoice struct {
	cfg  Cfg
	num  uint64
	name string
}

func (cc cfgChoice) atHF4() bool {
	h := cc.cfg.C.GetHF(4)
	return h != nil && h.IsUint64() && h.Uint64() == cc.num
}

func blockChoices() []cfgChoice {
	cu := customs()
	return []cfgChoice{
		{Builtin(4), 3, "test@3"}, {Builtin(4), 4, "test@4(HF4)"}, {Builtin(4), 5, "test@5(HF5)"}, {Builtin(4), 9, "test@9"},
		{Builtin(4), 41999999, "test@41999999"}, {Builtin(4), 42000000, "test@42000000"},
		{Builtin(1), 3, "testnet@3"}, {Builtin(1), 4, "testnet@4(HF4,pre-eip158)"}, {Builtin(1), 5, "testnet@5(HF5)"}, {Builtin(1), 25, "testnet@25"},
		{Builtin(0), 100, "mainnet@100"}, {Builtin(0), 21799, "mainnet@21799"}, {Builtin(0), 21800, "mainnet@21800(HF4)"}, {Builtin(0), 21801, "mainnet@21801"},
		{Builtin(0), 36049, "mainnet@36049"}, {Builtin(0), 36050, "mainnet@36050"},
		{Builtin(0), 41999999, "mainnet@41999999"}, {Builtin(0), 42000000, "mainnet@42000000"}, {Builtin(0), 42000001, "mainnet@42000001"},
		{Builtin(5), 1, "all@1"},
		{cu[0], 14, "custom(eip158@10,byz@20,hf4@15)@14"}, {cu[0], 15, "custom(eip158@10,byz@20,hf4@15)@15(HF4)"}, {cu[0], 16, "custom(eip158@10,byz@20,hf4@15)@16(HF5)"},
		{cu[1], 30, "custom(byz@0,hf4@30)@30(HF4)"}, {cu[2], 5, "custom(eip158@10,hf4@5)@5(HF4,pre-eip158)"}, {cu[3], 25, "custom(byz@20,hf4@25,hf5@25)@25(HF4+HF5)"},
	}
}

type blockCase struct {
	occupiedB0    bool
	emptyExisting int
	cc       cfgChoice
	world    []Acct
	u        Universe
	txs      []*types.Transaction
	froms    []common.Address
	kinds    []string
	coinbase common.Address
	uncles   []uncleSpec
	dealloc  []common.Address
	cbclass  string
}

func genBlock(c *vh.Ctx) *blockCase {
	r := c.Rng
	all := blockChoices()
	var hf4s []cfgChoice
	for _, x := range all {
		if x.atHF4() {
			hf4s = append(hf4s, x)
		}
	}
	b := &blockCase{}
	if r.Intn(100) < 15 {
		b.cc = hf4s[r.Intn(len(hf4s))]
	} else {
		b.cc = all[r.Intn(len(all))]
	}
	num := new(big.Int).SetUint64(b.cc.num)
	signer := types.MakeSigner(b.cc.cfg.C, num)
	const nonceA = 3
	b.world = []Acct{{Addr: addrA, Bal: senderFunds, Nonce: nonceA}, {Addr: addrB, Bal: senderFunds},
		{Addr: sink, Bal: big.NewInt(1000)}, {Addr: uExist, Bal: big.NewInt(77)}}
	for _, p := range progs() {
		b.world = append(b.world, Acct{Addr: p.addr, Bal: big.NewInt(p.bal), Code: p.code, Storage: p.st})
	}
	// occupied CREATE targets: the inner CREATE of pCrColl always collides; sender B's first creation sometimes does
	b.world = append(b.world, Acct{Addr: crypto.CreateAddress(pCrColl, 0), Nonce: 1, Bal: big.NewInt(4)}, Acct{Addr: crypto.CreateAddress(pCrColl, 1), Nonce: 1})
	if r.Intn(3) == 0 {
		b.world = append(b.world, Acct{Addr: crypto.CreateAddress(addrB, 0), Nonce: 2, Bal: big.NewInt(9)})
		b.occupiedB0 = true
	}
	// accounts that exist but are empty (pre-EIP-158 left-overs): an uncle miner, the recipient of plain transfers, the coinbase
	if r.Intn(3) == 0 {
		for i, a := range []common.Address{uFresh1, fresh, cbEOA, fresh2} {
			if r.Intn(2) == 0 {
				b.world = append(b.world, Acct{Addr: a})
				b.emptyExisting |= 1 << uint(i)
			}
		}
	}
	// the listed genesis allocation: present at the HF4 height, and sometimes next to it (where it must survive)
	near := false
	if h := b.cc.cfg.C.GetHF(4); h != nil && h.IsUint64() && (h.Uint64()+1 == b.cc.num || h.Uint64() == b.cc.num+1) {
		near = true
	}
	if b.cc.atHF4() || (near && r.Bool()) || r.Intn(25) == 0 {
		nd := 1 + r.Intn(3)
		seen := map[int]bool{}
		for len(b.dealloc) < nd {
			i := r.Intn(len(misc.DeallocListHF4))
			if seen[i] {
				continue
			}
			seen[i] = true
			a := deallocAddr(i)
			b.dealloc = append(b.dealloc, a)
			acct := Acct{Addr: a, Bal: Add(new(big.Int).SetBytes(r.Bytes(1+r.Intn(10))), big.NewInt(1))}
			if r.Intn(4) == 0 {
				acct.Nonce = 1 + uint64(r.Intn(3))
			}
			b.world = append(b.world, acct)
		}
	}
	// coinbase
	switch x := r.Intn(20); {
	case x < 4:
		b.coinbase, b.cbclass = pSdCb, "coinbase=selfdestructing-contract"
	case x < 6:
		b.coinbase, b.cbclass = addrA, "coinbase=sender"
	case x < 8 && len(b.dealloc) > 0:
		b.coinbase, b.cbclass = b.dealloc[0], "coinbase=dealloc-address"
	case x == 8:
		b.coinbase, b.cbclass = sink, "coinbase=existing"
	default:
		b.coinbase, b.cbclass = cbEOA, "coinbase=fresh"
	}
	// uncles
	nu := []int{0, 0, 1, 1, 2, 2}[r.Intn(6)]
	for i := 0; i < nu; i++ {
		d := 1 + r.Intn(7)
		if r.Intn(10) == 0 {
			d = 8
		}
		if b.cc.num < uint64(d) {
			d = int(b.cc.num)
		}
		u := uncleSpec{num: new(big.Int).SetUint64(b.cc.num - uint64(d)), depth: d}
		switch r.Intn(6) {
		case 0:
			u.cb = b.coinbase
		case 1:
			if i > 0 {
				u.cb = b.uncles[0].cb
			} else {
				u.cb = uExist
			}
		case 2:
			u.cb = uExist
		case 3:
			u.cb = addrB
		case 4:
			u.cb = uFresh1
		default:
			u.cb = uFresh2
		}
		b.uncles = append(b.uncles, u)
	}
	// transactions
	kinds := txKinds()
	env := &txEnv{dealloc: b.dealloc, coinbase: b.coinbase}
	nonce := map[common.Address]uint64{addrA: nonceA, addrB: 0}
	n := r.Intn(6)
	if forcedKind != "" {
		n = 2 // the directed scenario in two consecutive transactions of the block
	}
	wantSD := r.Intn(100) < 45 || forcedKind != "" // otherwise only kinds that cannot reach SELFDESTRUCT: the block is then checked for exact equality
	for i := 0; i < n; i++ {
		second := r.Intn(3) == 0
		from := addrA
		if second {
			from = addrB
		}
		var k txKind
		for {
			k = kinds[r.Intn(len(kinds))]
			if wantSD || !k.sd {
				break
			}
		}
		if forcedKind != "" {
			for _, kk := range kinds {
				if kk.name == forcedKind {
					k = kk
				}
			}
		} else if i > 0 && wantSD && r.Intn(4) == 0 {
			for _, kk := range kinds { // repeat the previous transaction's kind: the same scenario across two transactions of one block
				if kk.name == b.kinds[i-1] {
					k = kk
				}
			}
		}
		b.txs = append(b.txs, buildTx(k, env, r, nonce[from], signer, second))
		b.froms = append(b.froms, from)
		b.kinds = append(b.kinds, k.name)
		nonce[from]++
	}
	b.u = append(baseUniverse(nonceA, 6), b.dealloc...).Sorted()
	return b
}

func joinOrDash(p []string, sep string) string {
	if len(p) == 0 {
		return "-"
	}
	return strings.Join(p, sep)
}

func sortedKinds(k []string) string {
	s := append([]string{}, k...)
	sort.Strings(s)
	var out []string
	for i, x := range s {
		if i == 0 || s[i-1] != x {
			out = append(out, x)
		}
	}
	return joinOrDash(out, ",")
}

func runBlock(c *vh.Ctx, m *vh.Model, b *blockCase) {
	cfg := b.cc.cfg.C
	num := new(big.Int).SetUint64(b.cc.num)
	eip158 := cfg.IsEIP158(num)
	bc := chainFor(b.cc.cfg)
	header := &types.Header{Number: num, Coinbase: b.coinbase, GasLimit: 8000000, Time: big.NewInt(1000), Difficulty: big.NewInt(1), Version: cfg.GetBlockVersion(num)}
	vclass := b.cc.name + "[" + sortedKinds(b.kinds) + "]"
	info := func(extra map[string]interface{}) map[string]interface{} {
		mm := map[string]interface{}{"cfg": b.cc.name, "kinds": b.kinds, "coinbase": b.coinbase.Hex(), "uncle_depths": depthsTok(b.uncles)}
		for k, v := range extra {
			mm[k] = v
		}
		return mm
	}
	// ---- A: transaction by transaction (records the oracle table; "transactions alone never increase the total")
	sdbA := BuildState(b.world)
	preDump := DumpState(sdbA, b.u)
	preSupply, preAddrs := Supply(sdbA, false)
	checkUniverse(c, preAddrs, b.u, "block pre-state")
	hf4drop := new(big.Int)
	if b.cc.atHF4() {
		for _, a := range b.dealloc {
			hf4drop.Add(hf4drop, sdbA.GetBalance(a))
		}
		// "the one-time zeroing of the listed genesis allocation", done by hand (only the listed addresses of the world exist):
		// Process does it before the first transaction and the oracle table must be recorded from that state
		for _, a := range b.dealloc {
			if sdbA.Exist(a) {
				sdbA.SetBalance(a, new(big.Int))
			}
		}
	}
	gp := new(core.GasPool).AddGas(header.GasLimit)
	used := uint64(0)
	var oracles, msgs, rtoks []string
	errIdx, errName := -1, ""
	sumUsed := uint64(0)
	sawSD := false
	for i, tx := range b.txs {
		before, _ := Supply(sdbA, eip158)
		run := ApplyTx(cfg, bc, header, sdbA, gp, &used, tx, i, b.u)
		msgs = append(msgs, MsgTok(b.froms[i], tx))
		oracles = append(oracles, run.T.Oracle())
		if run.Panic != nil {
			c.Violate("apply-transaction-panic/"+b.kinds[i], fmt.Sprintf("panic: %v", run.Panic), info(nil))
			return
		}
		if run.Err != nil {
			errIdx, errName = i, ErrName(run.Err)
			break
		}
		rtoks = append(rtoks, ReceiptTok(run.Receipt))
		sumUsed += run.Receipt.GasUsed
		if run.T.SawSelfdestruct {
			sawSD = true
			c.Count("tx:selfdestruct-executed")
		}
		after, addrs := Supply(sdbA, eip158)
		checkUniverse(c, addrs, b.u, "after tx "+b.kinds[i])
		scen := b.kinds[i] + "|" + b.cbclass
		rp := func() map[string]interface{} {
			return info(map[string]interface{}{"tx_index": i, "tx": MsgTok(b.froms[i], tx), "supply_before": before.String(), "supply_after": after.String(), "pre_state": preDump})
		}
		if after.Cmp(before) > 0 {
			c.Violate("tx-inflation/"+scen, fmt.Sprintf("a transaction raised the sum of balances by %s", Sub(after, before)), rp())
		} else if !run.T.SawSelfdestruct && after.Cmp(before) != 0 {
			c.Violate("tx-supply-not-conserved/"+scen, fmt.Sprintf("a transaction without SELFDESTRUCT changed the sum of balances by %s", Sub(after, before)), rp())
		}
		if run.T.SawSelfdestruct && run.T.Started && run.T.Ended && !run.T.SelfBeneficiary {
			// exact even with SELFDESTRUCT: the only value that may disappear is what accounts flagged suicided hold when
			// the execution ends (they are deleted with it), plus the fee if the coinbase is one of them
			burn := new(big.Int)
			if run.Receipt.Status == types.ReceiptStatusSuccessful {
				burn.Set(run.T.BurnAtEnd)
				for _, a := range run.T.Suicided {
					if a == b.coinbase {
						burn.Add(burn, Mul(U(run.Receipt.GasUsed), tx.GasPrice()))
					}
					if a == b.froms[i] {
						burn = nil // not reachable: an externally owned sender has no code
						break
					}
				}
			}
			if burn != nil && Sub(before, after).Cmp(burn) != 0 {
				c.Violate("tx-supply-not-exact-with-selfdestruct/"+scen, fmt.Sprintf("sum of balances changed by %s, the deleted accounts held %s", Sub(after, before), burn), rp())
			}
			c.Count("tx:selfdestruct-supply-checked-exactly")
		}
		if run.T.StepsExceedGas {
			c.Violate("more-instructions-than-gas/"+scen, fmt.Sprintf("the transaction executed more than %d instructions with a gas limit of %d: run cancelled", run.T.Steps-1, tx.Gas()), rp())
		}
		if run.T.GasIncreased != "" {
			c.Violate("frame-gas-increases/"+scen, "inside one frame the gas available rose between two instructions: "+run.T.GasIncreased, rp())
		}
		if run.Receipt.GasUsed > tx.Gas() {
			c.Violate("gas-used-above-limit/"+scen, fmt.Sprintf("gas used %d, limit %d", run.Receipt.GasUsed, tx.Gas()), rp())
		}
		if run.T.NSelfdestruct >= 3 {
			c.Count("tx:three-or-more-selfdestructs")
		}
		if after.Cmp(before) < 0 {
			c.Count("tx:burned-by-selfdestruct")
		}
		c.Count("tx:" + b.kinds[i])
		c.Count("tx-status:" + run.T.Status())
	}
	for len(msgs) < len(b.txs) {
		i := len(msgs)
		msgs = append(msgs, MsgTok(b.froms[i], b.txs[i]))
		oracles = append(oracles, "-")
	}
	// ---- B: the real StateProcessor.Process on a fresh copy of the same pre-state
	sdbB := BuildState(b.world)
	header.GasUsed = sumUsed
	uhs := uncleHeaders(cfg, b.uncles)
	block := types.NewBlock(header, b.txs, uhs, nil)
	var pr types.Receipts
	var pused uint64
	var perr error
	pan, pv := vh.CatchPanic(func() {
		guard := &StepGuard{Max: header.GasLimit}
		pr, _, pused, perr = bc.Processor().Process(block, sdbB, vm.Config{Debug: true, Tracer: guard})
		if guard.Exceeded {
			c.Violate("more-instructions-than-gas/block", "a transaction of the block executed more instructions than the block gas limit: run cancelled", info(nil))
		}
	})
	atHF4 := b.cc.atHF4()
	issuance := issuanceSpec(num, uncleNums(b.uncles))
	var observed string
	outcome := "ok"
	switch {
	case pan:
		observed = "panic"
		outcome = "panic"
		c.Violate("process-panic/"+vclass, fmt.Sprintf("StateProcessor.Process panics: %v", pv), info(nil))
	case perr != nil:
		observed = fmt.Sprintf("err %d %s", errIdx, ErrName(perr))
		outcome = "err:" + ErrName(perr)
		if errIdx < 0 || ErrName(perr) != errName {
			c.Violate("process-differs-from-apply-loop", "Process failed where the transaction loop did not (or differently)", info(map[string]interface{}{"process": perr.Error()}))
		}
	default:
		if errIdx >= 0 {
			c.Violate("process-differs-from-apply-loop", "Process succeeded where the transaction loop failed", info(nil))
		}
		var ptoks []string
		for _, r := range pr {
			ptoks = append(ptoks, ReceiptTok(r))
		}
		if strings.Join(ptoks, ";") != strings.Join(rtoks, ";") || pused != sumUsed {
			c.Violate("process-differs-from-apply-loop", "receipts / gas of Process differ from the transaction loop", info(nil))
		}
		hdr := block.Header()
		hdr.Bloom = types.CreateBloom(pr)
		hdr.ReceiptHash = types.DeriveSha(pr)
		hdr.Root = sdbB.IntermediateRoot(eip158)
		valid := "1"
		if verr := bc.Validator().ValidateState(types.NewBlockWithHeader(hdr), nil, sdbB, pr, pused); verr != nil {
			valid = "0"
			c.Violate("validate-state-rejects-true-gas-used", verr.Error(), info(nil))
		}
		postSupply, addrs := Supply(sdbB, eip158)
		checkUniverse(c, addrs, b.u, "block post-state "+vclass)
		postDump := DumpState(sdbB, b.u)
		observed = "ok used=" + HexU(pused) + " valid=" + valid + " receipts=" + joinOrDash(ptoks, ";") + " supply=" + HexBig(postSupply) + " state=" + postDump

		// ---- direct oracle on the real Process run, independent of the model
		delta := Sub(postSupply, preSupply)
		exact := Sub(issuance, hf4drop)
		rp := info(map[string]interface{}{"pre_state": preDump, "post_state": postDump, "txs": msgs, "uncles": unclesTok(b.uncles, false),
			"supply_before": preSupply.String(), "supply_after": postSupply.String(), "delta": delta.String(), "issuance": issuance.String(), "hf4_drop": hf4drop.String(),
			"selfdestruct_seen": sawSD})
		switch {
		case delta.Cmp(issuance) > 0:
			c.Violate("supply-inflation/"+vclass, fmt.Sprintf("the block raised the sum of balances by %s, scheduled issuance is %s", delta, issuance), rp)
		case delta.Cmp(exact) > 0:
			c.Violate("supply-inflation/"+vclass, fmt.Sprintf("the HF4 block changed the sum of balances by %s, more than issuance %s minus the zeroed allocation %s", delta, issuance, hf4drop), rp)
		case !sawSD && delta.Cmp(exact) != 0:
			c.Violate("supply-not-exact/"+vclass, fmt.Sprintf("no SELFDESTRUCT in the block, yet the sum of balances changed by %s instead of %s", delta, exact), rp)
		}
		if !sawSD {
			c.Count("blocks:exact-equality-checked")
		} else if delta.Cmp(exact) < 0 {
			c.Count("blocks:strictly-below-schedule(selfdestruct burned value)")
		}
	}
	deallocTok := "-"
	if len(b.dealloc) > 0 {
		var p []string
		for _, a := range b.dealloc {
			p = append(p, HexAddr(a))
		}
		deallocTok = strings.Join(p, "+")
	}
	req := fmt.Sprintf("block %s %s %d %s %s %s %s %s %s %s", b.cc.cfg.Token, deallocTok, b.cc.num, HexAddr(b.coinbase), HexU(header.GasLimit), HexU(header.GasUsed),
		preDump, joinOrDash(msgs, ";"), unclesTok(b.uncles, false), joinOrDash(oracles, ";"))
	ans := m.Ask(req)
	f := map[bool]string{true: "1", false: "0"}
	class := fmt.Sprintf("block|%s|uncles=%d|selfdestruct=%s|%s", b.cc.name, len(b.uncles), f[sawSD], outcome)
	c.Eval(class, class+"|"+strings.Join(b.kinds, ",")+"|"+depthsTok(b.uncles)+"|"+b.cbclass)
	c.Correspond("StateProcessor.Process~process", req, observed, ans)
	if observed == ans && strings.HasPrefix(observed, "ok ") {
		// the real state root against a fresh state built from the expected content
		i := strings.Index(ans, " state=")
		want, err := ExpectedRoot(sdbB, ans[i+7:])
		if got := sdbB.IntermediateRoot(eip158); err != nil || got != want {
			c.Violate("state-root-differs-from-expected-content/block", fmt.Sprintf("real root %x, root of the expected content %x (%v)", got, want, err), info(nil))
		}
		c.Count("blocks:state-root-checked")
	}
	if b.occupiedB0 {
		c.Count("blocks:sender-B-first-CREATE-address-occupied")
	}
	if b.emptyExisting != 0 {
		c.Count("blocks:pre-state-has-empty-existing-accounts")
	}
	c.Count("blocks:" + b.cbclass)
	if sawSD {
		c.Count("blocks:with-selfdestruct")
	}
	if atHF4 {
		c.Count("blocks:at-HF4-height")
		if hf4drop.Sign() > 0 {
			c.Count("blocks:at-HF4-height-with-listed-balances")
		}
	} else if len(b.dealloc) > 0 {
		c.Count("blocks:listed-addresses-present-off-HF4-height")
	}
	if len(b.uncles) > 0 {
		c.Count("blocks:with-uncles")
	}
	if issuance.Sign() == 0 {
		c.Count("blocks:at-or-after-42M")
	}
	if len(b.txs) == 0 {
		c.Count("blocks:no-transactions")
	}
	if len(c.Res.Samples) < 6 && c.Rng.Intn(40) == 0 {
		c.Sample(map[string]string{"request": req, "observed": observed})
	}
}

// ================================================================== PART 3: core.GenerateChain

type chainBlockRec struct {
	uncles []uncleSpec
	kinds  []string
	sd     bool
	cb     common.Address
}

func runChain(c *vh.Ctx, idx int) {
	r := c.Rng
	cfg := params.TestChainConfig
	const nblocks = 8
	db := aquadb.NewMemDatabase()
	alloc := core.GenesisAlloc{
		addrA:  {Balance: senderFunds},
		addrB:  {Balance: senderFunds},
		sink:   {Balance: big.NewInt(1000)},
		uExist: {Balance: big.NewInt(77)},
	}
	for _, p := range progs() {
		st := map[common.Hash]common.Hash{}
		for k, v := range p.st {
			st[common.BytesToHash([]byte{k})] = common.BytesToHash([]byte{v})
		}
		alloc[p.addr] = core.GenesisAccount{Code: p.code, Balance: big.NewInt(p.bal), Storage: st}
	}
	var dealloc []common.Address
	for len(dealloc) < 2 {
		a := deallocAddr(r.Intn(len(misc.DeallocListHF4)))
		if len(dealloc) == 1 && dealloc[0] == a {
			continue
		}
		dealloc = append(dealloc, a)
		alloc[a] = core.GenesisAccount{Balance: Add(new(big.Int).SetBytes(r.Bytes(1+r.Intn(10))), big.NewInt(1))}
	}
	gspec := &core.Genesis{Config: cfg, Alloc: alloc, GasLimit: 8000000, Difficulty: big.NewInt(1)}
	genesis := gspec.MustCommit(db)
	recs := make([]chainBlockRec, nblocks)
	kinds := txKinds()
	var blocks []*types.Block
	pan, pv := vh.CatchPanic(func() {
		blocks, _ = core.GenerateChain(context.Background(), cfg, genesis, aquahash.NewFaker(), db, nblocks, func(i int, b *core.BlockGen) {
			rec := &recs[i]
			number := b.Number()
			switch x := r.Intn(10); {
			case x < 2:
				rec.cb = pSdCb
			case x == 2:
				rec.cb = addrA
			case x == 3:
				rec.cb = dealloc[0]
			default:
				rec.cb = cbEOA
			}
			b.SetCoinbase(rec.cb)
			signer := types.MakeSigner(cfg, number)
			env := &txEnv{dealloc: dealloc, coinbase: rec.cb}
			wantSD := r.Intn(100) < 35
			ntx := r.Intn(5)
			for j := 0; j < ntx; j++ {
				var k txKind
				for {
					k = kinds[r.Intn(len(kinds))]
					if wantSD || !k.sd {
						break
					}
				}
				second := r.Intn(3) == 0
				from := addrA
				if second {
					from = addrB
				}
				b.AddTx(buildTx(k, env, r, b.TxNonce(from), signer, second))
				rec.kinds = append(rec.kinds, k.name)
				if k.sd {
					rec.sd = true
				}
			}
			nu := []int{0, 0, 1, 1, 2}[r.Intn(5)]
			n := number.Uint64()
			for j := 0; j < nu && n > 1; j++ {
				maxd := uint64(7)
				if n-1 < maxd {
					maxd = n - 1
				}
				d := 1 + r.Intn(int(maxd))
				u := uncleSpec{num: new(big.Int).SetUint64(n - uint64(d)), depth: d}
				u.cb = []common.Address{rec.cb, uExist, addrB, uFresh1, uFresh2, dealloc[1]}[r.Intn(6)]
				rec.uncles = append(rec.uncles, u)
				b.AddUncle(&types.Header{Number: new(big.Int).Set(u.num), Coinbase: u.cb, Difficulty: big.NewInt(1), Time: big.NewInt(int64(240*n) - 1 - int64(j)),
					GasLimit: 8000000, ParentHash: common.BytesToHash([]byte{byte(i), byte(j + 1)}), Version: cfg.GetBlockVersion(u.num)})
			}
		})
	})
	if pan {
		c.Fatal("core.GenerateChain panicked (chain %d): %v", idx, pv)
	}
	u := append(baseUniverse(0, 4*nblocks+2), dealloc...).Sorted()
	supplyAt := func(root common.Hash, where string) *big.Int {
		sdb, err := state.New(root, state.NewDatabase(db))
		if err != nil {
			c.Fatal("cannot open state %x (%s): %v", root, where, err)
		}
		s, addrs := Supply(sdb, false)
		for _, a := range addrs {
			if a == (common.Address{}) {
				c.Fatal("state dump without address preimage (%s)", where)
			}
		}
		checkUniverse(c, addrs, u, where)
		return s
	}
	balAt := func(root common.Hash, a common.Address) *big.Int {
		sdb, err := state.New(root, state.NewDatabase(db))
		if err != nil {
			c.Fatal("cannot open state %x: %v", root, err)
		}
		return sdb.GetBalance(a)
	}
	hf4 := cfg.GetHF(4)
	parentRoot := genesis.Root()
	pre := supplyAt(parentRoot, "genesis")
	for k, blk := range blocks {
		rec := recs[k]
		where := fmt.Sprintf("chain %d block %d", idx, blk.NumberU64())
		post := supplyAt(blk.Root(), where)
		hf4drop := new(big.Int)
		at4 := hf4 != nil && hf4.Cmp(blk.Number()) == 0
		if at4 {
			for _, a := range dealloc {
				hf4drop.Add(hf4drop, balAt(parentRoot, a))
			}
		}
		if len(blk.Uncles()) != len(rec.uncles) || len(blk.Transactions()) != len(rec.kinds) || blk.Coinbase() != rec.cb {
			c.Fatal("generated block does not carry what the generator added (%s)", where)
		}
		issuance := issuanceSpec(blk.Number(), uncleNums(rec.uncles))
		delta := Sub(post, pre)
		exact := Sub(issuance, hf4drop)
		f := map[bool]string{true: "1", false: "0"}
		class := fmt.Sprintf("chain|block=%d|uncles=%d|selfdestruct-tx=%s", blk.NumberU64(), len(rec.uncles), f[rec.sd])
		c.Eval(class, class+"|"+strings.Join(rec.kinds, ",")+"|"+depthsTok(rec.uncles)+"|"+rec.cb.Hex())
		rp := map[string]interface{}{"chain_index": idx, "block": blk.NumberU64(), "kinds": rec.kinds, "uncles": unclesTok(rec.uncles, false), "coinbase": rec.cb.Hex(),
			"supply_before": pre.String(), "supply_after": post.String(), "delta": delta.String(), "issuance": issuance.String(), "hf4_drop": hf4drop.String(), "seed": c.Seed}
		bl := fmt.Sprintf("%d[%s]", blk.NumberU64(), sortedKinds(rec.kinds))
		switch {
		case delta.Cmp(issuance) > 0:
			c.Violate("chain-supply-inflation/"+bl, fmt.Sprintf("block raised the sum of balances by %s, scheduled issuance is %s", delta, issuance), rp)
		case delta.Cmp(exact) > 0:
			c.Violate("chain-supply-inflation/"+bl, fmt.Sprintf("HF4 block changed the sum of balances by %s > issuance %s - zeroed allocation %s", delta, issuance, hf4drop), rp)
		case !rec.sd && delta.Cmp(exact) != 0:
			c.Violate("chain-supply-not-exact/"+bl, fmt.Sprintf("no self-destructing transaction was added, yet the sum of balances changed by %s instead of %s", delta, exact), rp)
		}
		if !rec.sd {
			c.Count("chain-blocks:exact-equality-checked")
		} else if delta.Cmp(exact) < 0 {
			c.Count("chain-blocks:strictly-below-schedule")
		}
		if at4 {
			c.Count("chain-blocks:at-HF4-height")
			if hf4drop.Sign() == 0 {
				c.Fatal("HF4 block of a generated chain had nothing to zero (%s)", where)
			}
		}
		if len(rec.uncles) > 0 {
			c.Count("chain-blocks:with-uncles")
		}
		if rec.sd {
			c.Count("chain-blocks:with-selfdestruct-tx")
		}
		pre, parentRoot = post, blk.Root()
	}
	if idx == 0 {
		c.Sample(map[string]interface{}{"chain": 0, "blocks": recs})
	}
}

// ------------------------------------------------------------------

func main() {
	parts := flag.String("parts", "123", "which parts to run (1 rewards, 2 blocks, 3 generated chains); for debugging a single part")
	c := vh.Init("C05")
	log.Root().SetHandler(log.DiscardHandler())
	m := c.StartModel()
	defer m.Close()
	c.Res.Rule = "(1) reward cases: header number over {1,2,100, fork heights +-1 (3,4,5,21799..21801,36049,36050), 41999998..42000001, 50000000, random below/above 42,000,000} x 10 configurations x miner {existing, contract, fresh, zero address} x 0-3 uncles at depth 1..8 whose miners are {the block's miner, the other uncle's miner, an existing account, a fresh account} over a 3-5 account pre-state with balances from 0 to 2^200, run through the accumulateRewards hook and through Engine.Finalize; " +
		"(2) blocks of 0-5 transactions from two senders (gas price 0..2 or at the arithmetic-width boundaries where gas*price crosses 2^64 or 2^128 with a price that does or does not fit 64 bits; value 0..1e15) chosen among the transaction kinds incl. multi-call drivers that destruct, re-fund and destruct the same contract repeatedly, destruct then CREATE from the destructed contract, chain beneficiaries that destruct later, destruct inside reverted and kept frames, the same scenario in consecutive transactions (transfers to existing/fresh/coinbase/listed-HF4 addresses, creations with value ok/INVALID/init self-destructs, nested CALLs with value whose inner or middle frame fails or reverts, inner CREATE with value failing/succeeding, SELFDESTRUCT to self/fresh/existing/with and without balance/callee is the coinbase/inside a frame that then fails/then paid again, contracts paying the sender or the coinbase, SSTORE clearing) with 0-2 uncles at depth 1..8, miner {fresh, sender, self-destructing contract, existing, listed-HF4 address}, at 26 (configuration,height) points on both sides of HF4/HF5/EIP158/Byzantium/42,000,000 about 40% of them exactly at an HF4 height with 1-3 listed addresses funded, run through StateProcessor.Process; " +
		"(3) 8-block chains from core.GenerateChain over a committed genesis (TestChainConfig: HF4 at 4, HF5 at 5) holding the same contracts and two funded listed addresses, 0-4 transactions and 0-2 uncles per block. A case is distinct by (configuration/height, transaction kinds, uncle depths, miner relation)."
	c.Assume("transactions are signed with valid keys (signature recovery is C12); every generated transaction is valid for its block (invalid ones are C06)")
	c.Assume("uncle depth <= 8 and uncle height >= 0: deeper uncles (negative uncle reward) are rejected by VerifyUncles, which is property C13")
	c.Assume("the pre-state balances are non-negative and the sum of balances is taken over the committed form of the state (RawDump after IntermediateRoot)")
	c.Assume("the equality clause is evaluated when no SELFDESTRUCT instruction was executed in the block (parts 1-2: observed by a tracer; part 3: no self-destruct-capable transaction was added)")

	on := func(p string, n int) int {
		if strings.Contains(*parts, p) {
			return n
		}
		return 0
	}
	seed := c.Seed
	one := func(part string, i int) {
		from := len(c.Res.Violations)
		CaseRng(c, seed, part, i)
		switch part {
		case "rewards":
			runRewards(c, m, -1)
		case "rewards-directed":
			runRewards(c, m, i)
		case "block":
			runBlock(c, m, genBlock(c))
		case "block-directed":
			dk := directedKinds()
			forcedKind = dk[i%len(dk)]
			runBlock(c, m, genBlock(c))
			forcedKind = ""
		case "chain":
			runChain(c, i)
		default:
			c.Fatal("unknown replay part %q", part)
		}
		TagViolations(c, from, seed, part, i)
	}
	if rp := LoadReplay(c); rp != nil {
		seed = rp.Seed
		one(rp.Part, rp.Index)
		c.Note("replayed case seed=%d part=%s index=%d", rp.Seed, rp.Part, rp.Index)
		c.Finish()
		return
	}
	for i := 0; i < on("1", 14); i++ {
		one("rewards-directed", i)
	}
	nr := on("1", c.Scale(700, 14000))
	for i := 0; i < nr; i++ {
		one("rewards", i)
	}
	for i := 0; i < on("2", 2*len(directedKinds())); i++ {
		one("block-directed", i)
	}
	nb := on("2", c.Scale(450, 9000))
	for i := 0; i < nb; i++ {
		one("block", i)
	}
	nc := on("3", c.Scale(30, 600))
	for i := 0; i < nc; i++ {
		one("chain", i)
	}
	c.Finish()
}
