// Data-structure level tie: core.txList / txSortedMap (through the verif hook) against the model's nonce-sorted list
// (tl_add, tl_forward, tl_filter, tl_cap, tl_remove, tl_ready, items).  Exhaustive small scope: lists over nonces
// 0..6 built in several insertion orders, a heap-permuting prefix (Forward pops), then every operation sequence up to
// a given length.  The model has no heap layout; a layout assumption in the code can therefore only disagree in
// behaviour — which this sweep enumerates.
package main

import (
	"fmt"
	"math/big"
	"sort"
	"strings"

	"gitlab.com/aquachain/aquachain/common"
	"gitlab.com/aquachain/aquachain/core"
	"gitlab.com/aquachain/aquachain/core/types"
	"gitlab.com/aquachain/aquachain/verifharness/vh"
)

type dsTx struct {
	tx *types.Transaction
	id int
}

type dsOp struct {
	kind      string // A F X C R Y L
	t         *dsTx
	n         uint64
	cost      int64
	gas       uint64
	text      string // model op
	hasDirect bool
}

func idsByNonce(ids map[common.Hash]int, l types.Transactions) string {
	c := append(types.Transactions{}, l...)
	sort.Slice(c, func(i, j int) bool { return c[i].Nonce() < c[j].Nonce() })
	ss := make([]string, len(c))
	for i, t := range c {
		ss[i] = fmt.Sprint(ids[t.Hash()])
	}
	return strings.Join(ss, ",")
}

func sweepTxList(c *vh.Ctx, m *vh.Model) {
	ids := map[common.Hash]int{}
	var all []*dsTx
	mk := func(nonce uint64, price, value int64, gas uint64) *dsTx {
		tx := types.NewTransaction(nonce, common.Address{0xaa}, big.NewInt(value), gas, big.NewInt(price), nil)
		d := &dsTx{tx, len(all) + 1}
		ids[tx.Hash()] = d.id
		all = append(all, d)
		return d
	}
	tok := func(d *dsTx) string {
		return fmt.Sprintf("%d:0:%d:%s:%d:%s:21000:100:1", d.id, d.tx.Nonce(), d.tx.GasPrice(), d.tx.Gas(), d.tx.Value())
	}
	// base transactions: nonces 0..4, nonce 3 is the expensive one (cost filter), nonce 1 the gas-hungry one
	base := []*dsTx{mk(0, 100, 10, 21000), mk(1, 110, 10, 40000), mk(2, 120, 10, 21000), mk(3, 130, 90000000, 21000), mk(4, 140, 10, 21000)}
	rep2ok, rep2low, n5, n6 := mk(2, 300, 20, 22000), mk(2, 121, 20, 21000), mk(5, 150, 10, 21000), mk(6, 160, 10, 21000)
	opA := func(d *dsTx) dsOp { return dsOp{kind: "A", t: d, text: "A:" + tok(d)} }
	opF := func(n uint64) dsOp { return dsOp{kind: "F", n: n, text: fmt.Sprintf("F:%d", n)} }
	opR := func(n uint64) dsOp { return dsOp{kind: "R", n: n, text: fmt.Sprintf("R:%d", n)} }
	opC := func(k int) dsOp { return dsOp{kind: "C", n: uint64(k), text: fmt.Sprintf("C:%d", k)} }
	opY := func(n uint64) dsOp { return dsOp{kind: "Y", n: n, text: fmt.Sprintf("Y:%d", n)} }
	opX := func(cost int64, gas uint64) dsOp {
		return dsOp{kind: "X", cost: cost, gas: gas, text: fmt.Sprintf("X:%d:%d", cost, gas)}
	}
	opL := dsOp{kind: "L", text: "L"}
	var full []dsOp
	for n := uint64(0); n <= 6; n++ {
		full = append(full, opR(n))
	}
	for _, n := range []uint64{1, 2, 3, 4, 5} {
		full = append(full, opF(n))
	}
	for _, d := range []*dsTx{rep2ok, rep2low, n5, n6, base[0]} {
		full = append(full, opA(d))
	}
	for _, k := range []int{0, 1, 2, 3, 4} {
		full = append(full, opC(k))
	}
	for _, n := range []uint64{0, 1, 2, 3} {
		full = append(full, opY(n))
	}
	full = append(full, opX(50000000, 1000000), opX(1000000000, 30000), opX(1000000000, 1000000), opL)
	reduced := []dsOp{opR(0), opR(1), opR(2), opR(3), opR(4), opR(5), opF(1), opF(2), opF(3), opA(rep2ok), opA(n5), opA(n6), opL, opY(1)}
	orders := [][]int{{0, 1, 2, 3, 4}, {4, 3, 2, 1, 0}, {2, 0, 4, 1, 3}}
	type job struct {
		strict bool
		ops    []dsOp
	}
	var jobs []job
	gen := func(strict bool, prefix []dsOp, alphabet []dsOp, depth int) {
		var rec func(cur []dsOp, d int)
		rec = func(cur []dsOp, d int) {
			jobs = append(jobs, job{strict, append(append([]dsOp{}, prefix...), cur...)})
			if d == 0 {
				return
			}
			for _, o := range alphabet {
				rec(append(append([]dsOp{}, cur...), o), d-1)
			}
		}
		rec(nil, depth)
	}
	for _, strict := range []bool{true, false} {
		for _, ord := range orders {
			for _, pops := range []uint64{0, 1, 2, 3} { // heap.Pop permutes the index: 0..3 prior pops
				var prefix []dsOp
				for _, i := range ord {
					prefix = append(prefix, opA(base[i]))
				}
				if pops > 0 {
					prefix = append(prefix, opF(pops))
				}
				gen(strict, prefix, full, c.Scale(2, 3))
				if strict {
					gen(strict, prefix, reduced, c.Scale(3, 4))
				}
			}
		}
	}
	lines := make([]string, len(jobs))
	obs := make([]string, len(jobs))
	for ji, j := range jobs {
		l := core.VerifNewTxList(j.strict)
		var res, texts []string
		dead := false
		for _, o := range j.ops {
			texts = append(texts, o.text)
			if dead {
				res = append(res, "-")
				continue
			}
			r := ""
			p, pv := vh.CatchPanic(func() {
				switch o.kind {
				case "A":
					ins, old := l.Add(o.t.tx, 10)
					r = "0"
					if ins {
						r = "1"
					}
					if old != nil {
						r += fmt.Sprintf("~%d", ids[old.Hash()])
					}
				case "F":
					rm := l.Forward(o.n)
					r = idsByNonce(ids, rm)
					for _, t := range rm {
						if t.Nonce() >= o.n {
							c.Violate("txlist-forward-removes-too-much/"+strings.Join(texts, ";"), "Forward returned a nonce at or above the threshold", map[string]interface{}{"strict": j.strict, "ops": texts})
						}
					}
				case "X":
					dr, inv := l.Filter(big.NewInt(o.cost), o.gas)
					r = idsByNonce(ids, dr) + "/" + idsByNonce(ids, inv)
				case "C":
					r = idsByNonce(ids, l.Cap(int(o.n)))
				case "R":
					raw := types.NewTransaction(o.n, common.Address{}, big.NewInt(0), 0, big.NewInt(0), nil)
					ok, inv := l.Remove(raw)
					r = "0/"
					if ok {
						r = "1/"
					}
					r += idsByNonce(ids, inv)
					if ok && j.strict { // direct oracle: strict Remove leaves nothing above the removed nonce
						for _, n := range l.Snapshot().Nonces {
							if n > o.n {
								c.Violate("txlist-strict-remove-leaves-successor", fmt.Sprintf("strict txList.Remove(nonce %d) left nonce %d in the list (ops %s)", o.n, n, strings.Join(texts, ";")), map[string]interface{}{"strict": true, "ops": texts, "how": "printf 'tlseq 1 10 <ops>' | bin/modelrun_pool gives the model's answer"})
							}
						}
					}
				case "Y":
					r = idsByNonce(ids, l.Ready(o.n))
				case "L":
					fl := l.Flatten()
					ss := make([]string, len(fl))
					for i, t := range fl {
						ss[i] = fmt.Sprint(ids[t.Hash()])
						if i > 0 && fl[i-1].Nonce() >= t.Nonce() {
							c.Violate("txlist-flatten-not-sorted/"+strings.Join(texts, ";"), "Flatten is not nonce-ascending", map[string]interface{}{"strict": j.strict, "ops": texts})
						}
					}
					r = strings.Join(ss, ",")
				}
			})
			if p {
				r = "panic"
				dead = true
				c.Violate("txlist-panic/"+strings.Join(texts, ";"), fmt.Sprintf("txList panicked: %v", pv), map[string]interface{}{"strict": j.strict, "ops": texts})
			}
			res = append(res, r)
			// direct oracle: the heap index is exactly the key set
			if !dead {
				sn := l.Snapshot()
				if fmt.Sprint(sn.Index) != fmt.Sprint(sn.Nonces) {
					c.Violate("txlist-index-not-keyset/"+strings.Join(texts, ";"), fmt.Sprintf("index %v, keys %v", sn.Index, sn.Nonces), map[string]interface{}{"strict": j.strict, "ops": texts})
				}
			}
		}
		sn := l.Snapshot()
		items := make([]string, len(sn.Hashes))
		for i, h := range sn.Hashes {
			items[i] = fmt.Sprintf("%d@%d", ids[h], sn.Nonces[i])
		}
		st := "n"
		if j.strict {
			st = "s"
		}
		final := fmt.Sprintf("%s/0x%x/%d/%s", strings.Join(items, ","), sn.CostCap, sn.GasCap, st)
		if dead {
			final = "?"
		}
		obs[ji] = strings.Join(res, ";") + " | " + final
		sflag := "0"
		if j.strict {
			sflag = "1"
		}
		lines[ji] = fmt.Sprintf("tlseq %s 10 %s", sflag, strings.Join(texts, ";"))
	}
	answers := m.AskAll(lines)
	for ji := range jobs {
		want := answers[ji]
		if strings.HasSuffix(obs[ji], "| ?") { // after a panic only the per-op results are compared
			if i := strings.Index(want, " | "); i >= 0 {
				want = want[:i] + " | ?"
			}
		}
		cls := "txlist-sweep/non-strict"
		if jobs[ji].strict {
			cls = "txlist-sweep/strict"
		}
		c.Eval(cls, lines[ji])
		c.Correspond("txList(Add/Forward/Filter/Cap/Remove/Ready/Flatten)~tl_*", lines[ji], obs[ji], want)
	}
}
