// c15: correspondence between core.TxPool (Go) and the Coq pool model
// (coq/Pool/PoolModel.v), plus the direct oracle for property C15: PoolOK
// evaluated on Pending()/Content()/State() and the exported `all` after every
// operation of generated histories (submissions, price threshold changes, head
// advances, reorganisations), sequentially and from concurrent goroutines.
package main

import (
	"fmt"
	"math/big"
	"os"
	"path/filepath"
	"sort"
	"strings"
	"sync"
	"time"

	"github.com/btcsuite/btcd/btcec/v2"
	"gitlab.com/aquachain/aquachain/aqua/event"
	"gitlab.com/aquachain/aquachain/aquadb"
	"gitlab.com/aquachain/aquachain/common"
	"gitlab.com/aquachain/aquachain/common/log"
	"gitlab.com/aquachain/aquachain/core"
	"gitlab.com/aquachain/aquachain/core/state"
	"gitlab.com/aquachain/aquachain/core/types"
	"gitlab.com/aquachain/aquachain/crypto"
	"gitlab.com/aquachain/aquachain/params"
	"gitlab.com/aquachain/aquachain/verifharness/vh"
)

// ---------------------------------------------------------------- fake chain

type acct struct {
	nonce uint64
	bal   *big.Int
}

type blockInfo struct {
	block *types.Block
	id    int    // model identifier of the block hash
	st    []acct // state of the senders at this block
	gas   uint64
}

type fakeChain struct {
	mu     sync.Mutex
	blocks map[common.Hash]*blockInfo
	roots  map[common.Hash]*blockInfo
	head   *blockInfo
	feed   event.Feed
	addrs  []common.Address
	nState int // number of StateAt calls: TxPool.reset makes exactly one, so it signals that an event was handled
}

func (c *fakeChain) CurrentBlock() *types.Block {
	c.mu.Lock()
	defer c.mu.Unlock()
	return c.head.block
}
func (c *fakeChain) GetBlock(h common.Hash, n uint64) *types.Block {
	c.mu.Lock()
	defer c.mu.Unlock()
	if b, ok := c.blocks[h]; ok && b.block.NumberU64() == n {
		return b.block
	}
	return nil
}
func (c *fakeChain) StateAt(root common.Hash) (*state.StateDB, error) {
	c.mu.Lock()
	defer c.mu.Unlock()
	c.nState++
	b, ok := c.roots[root]
	if !ok {
		return nil, fmt.Errorf("unknown root")
	}
	db, _ := state.New(common.Hash{}, state.NewDatabase(aquadb.NewMemDatabase()))
	for i, a := range c.addrs {
		db.SetNonce(a, b.st[i].nonce)
		db.SetBalance(a, new(big.Int).Set(b.st[i].bal))
	}
	return db, nil
}
func (c *fakeChain) stateCalls() int {
	c.mu.Lock()
	defer c.mu.Unlock()
	return c.nState
}
func (c *fakeChain) SubscribeChainHeadEvent(ch chan<- core.ChainHeadEvent) event.Subscription {
	return c.feed.Subscribe(ch)
}

// ---------------------------------------------------------------- transactions

type mtx struct {
	tx    *types.Transaction
	id    int
	from  int
	nonce uint64
	gas   uint64
	price *big.Int
	value *big.Int
	intr  uint64
	size  int
	sigok bool
}

func (m *mtx) cost() *big.Int {
	return new(big.Int).Add(m.value, new(big.Int).Mul(m.price, new(big.Int).SetUint64(m.gas)))
}
func (m *mtx) token() string {
	ok := "0"
	if m.sigok {
		ok = "1"
	}
	return fmt.Sprintf("%d:%d:%d:%s:%d:%s:%d:%d:%s", m.id, m.from, m.nonce, m.price, m.gas, m.value, m.intr, m.size, ok)
}

type world struct {
	c       *vh.Ctx
	m       *vh.Model
	r       *vh.RNG
	keys    []*btcec.PrivateKey
	addrs   []common.Address
	addrIdx map[common.Address]int
	txs     map[common.Hash]*mtx
	byID    []*mtx
	prices  map[string]bool
	chain   *fakeChain
	pool    *core.TxPool
	cfg     core.TxPoolConfig
	nblocks int
	noHeads bool
	viaFeed bool
	deep    bool
	cfgName string
	history []string
	mcmds   []string // the exact modelrun command lines of this history (replayable: printf ... | bin/modelrun_pool)
	signer  types.Signer
	// leak bookkeeping for classification: hash id -> description of how it became an orphan
	orphanSeen map[int]string
	gapped     map[int]bool // senders whose pending list already has a reported gap
	lastRepl   []*mtx       // recent replacement submissions (their same-nonce predecessor is in replOld)
	replOld    map[int]*mtx
	unaff      map[int]bool
	gapAfter   map[int]bool // senders with a virtual-nonce mismatch inherited from a reported gap
	overAQ     map[int]bool // senders whose queue overshoot (requeue by removeTx) is already reported
	overGQ     bool
}

var chainID = params.TestChainConfig.ChainId

func (w *world) mkTx(from int, nonce uint64, price *big.Int, gas uint64, value *big.Int, data []byte, badsig bool) *mtx {
	raw := types.NewTransaction(nonce, common.Address{0xaa}, value, gas, price, data)
	var signer types.Signer = w.signer
	if badsig {
		signer = types.NewEIP155Signer(big.NewInt(77))
	}
	tx, err := types.SignTx(raw, signer, w.keys[from])
	if err != nil {
		w.c.Fatal("SignTx: %v", err)
	}
	if old, ok := w.txs[tx.Hash()]; ok {
		return old
	}
	intr, _ := core.IntrinsicGas(data, false, false)
	m := &mtx{tx: tx, id: len(w.byID) + 1, from: from, nonce: nonce, gas: gas, price: new(big.Int).Set(price),
		value: new(big.Int).Set(value), intr: intr, size: int(tx.Size()), sigok: !badsig}
	w.txs[tx.Hash()] = m
	w.byID = append(w.byID, m)
	return m
}

func (w *world) uniquePrice(p int64) *big.Int {
	if p < 0 {
		p = 0
	}
	for w.prices[fmt.Sprint(p)] {
		p++
	}
	w.prices[fmt.Sprint(p)] = true
	return big.NewInt(p)
}

// ---------------------------------------------------------------- rendering the Go pool like the model driver does

type snap struct {
	main, stale string
	s           *core.VerifPoolSnapshot
}

func (w *world) id(h common.Hash) int {
	if m, ok := w.txs[h]; ok {
		return m.id
	}
	return -1
}

func (w *world) renderLists(m map[common.Address]core.VerifPoolList) string {
	type ent struct {
		a int
		s string
	}
	var es []ent
	for a, l := range m {
		hs := make([]string, len(l.Hashes))
		ns := make([]string, len(l.Nonces))
		for i := range l.Hashes {
			hs[i] = fmt.Sprint(w.id(l.Hashes[i]))
			ns[i] = fmt.Sprint(l.Nonces[i])
		}
		st := "n"
		if l.Strict {
			st = "s"
		}
		es = append(es, ent{w.addrIdx[a], fmt.Sprintf("%d=%s/%s/%s/0x%x/%d", w.addrIdx[a], strings.Join(hs, ","), strings.Join(ns, ","), st, l.CostCap, l.GasCap)})
	}
	sort.Slice(es, func(i, j int) bool { return es[i].a < es[j].a })
	ss := make([]string, len(es))
	for i, e := range es {
		ss[i] = e.s
	}
	return strings.Join(ss, "|")
}

// sameButHeap: the two observations agree on everything except the R[...] field (priced heap: live multiset, number of
// stale entries, stale counter) and the identities of the stale entries after " ## ".
func sameButHeap(a, b string) bool {
	strip := func(s string) string {
		if i := strings.Index(s, " ## "); i >= 0 {
			s = s[:i]
		}
		i := strings.Index(s, " R[")
		if i < 0 {
			return s
		}
		j := strings.Index(s[i:], "] ")
		if j < 0 {
			return s
		}
		return s[:i] + s[i+j+1:]
	}
	return strip(a) == strip(b)
}

func isResetDesc(d string) bool {
	return strings.HasPrefix(d, "reset ") || strings.HasPrefix(d, "event reset ")
}

func joinInts(l []int) string {
	sort.Ints(l)
	ss := make([]string, len(l))
	for i, x := range l {
		ss[i] = fmt.Sprint(x)
	}
	return strings.Join(ss, ",")
}

func (w *world) snapshot() snap {
	s := w.pool.VerifSnapshot(w.addrs)
	inAll := map[common.Hash]bool{}
	var all []int
	for _, h := range s.All {
		inAll[h] = true
		all = append(all, w.id(h))
	}
	var live, stale []int
	for _, h := range s.PricedItems {
		if inAll[h] {
			live = append(live, w.id(h))
		} else {
			stale = append(stale, w.id(h))
		}
	}
	ns := make([]string, len(w.addrs))
	for i, a := range w.addrs {
		ns[i] = fmt.Sprintf("%d=%d", i, s.PendingNonces[a])
	}
	var locals []int
	for _, a := range s.Locals {
		locals = append(locals, w.addrIdx[a])
	}
	type br struct{ a, r int }
	var bl []br
	for a, r := range s.BeatRank {
		bl = append(bl, br{w.addrIdx[a], r})
	}
	sort.Slice(bl, func(i, j int) bool { return bl[i].a < bl[j].a })
	bs := make([]string, len(bl))
	for i, b := range bl {
		bs[i] = fmt.Sprintf("%d:%d", b.a, b.r)
	}
	np, nq := w.pool.Stats()
	main := fmt.Sprintf("P[%s] Q[%s] A[%s] R[%s/%d/%d] N[%s] L[%s] B[%s] S[%d,%d] G[0x%x,%d]",
		w.renderLists(s.Pending), w.renderLists(s.Queue), joinInts(all), joinInts(live), len(stale), s.PricedStales,
		strings.Join(ns, ","), joinInts(locals), strings.Join(bs, ","), np, nq, s.GasPrice, s.MaxGas)
	return snap{main, joinInts(stale), s}
}

// ---------------------------------------------------------------- oracle search

func permStr(p []int) string {
	if len(p) == 0 {
		return "-"
	}
	ss := make([]string, len(p))
	for i, x := range p {
		ss[i] = fmt.Sprint(x)
	}
	return strings.Join(ss, ",")
}

func nextPerm(p []int) bool {
	i := len(p) - 2
	for i >= 0 && p[i] >= p[i+1] {
		i--
	}
	if i < 0 {
		return false
	}
	j := len(p) - 1
	for p[j] <= p[i] {
		j--
	}
	p[i], p[j] = p[j], p[i]
	for a, b := i+1, len(p)-1; a < b; a, b = a+1, b-1 {
		p[a], p[b] = p[b], p[a]
	}
	return true
}

// askOp runs `try <kind> <oracle> <args>` under candidate oracles until the model's
// observation equals the implementation's; returns the model answer finally used.
func (w *world) askOp(kind, args, want string, post snap, relevant map[int]bool) (string, bool) {
	n := len(w.addrs)
	// base order: accounts by the implementation's heartbeat rank (oldest first), then the others
	base := make([]int, 0, n)
	type br struct{ a, r int }
	var bl []br
	has := map[int]bool{}
	for a, r := range post.s.BeatRank {
		bl = append(bl, br{w.addrIdx[a], r})
		has[w.addrIdx[a]] = true
	}
	sort.Slice(bl, func(i, j int) bool { return bl[i].r < bl[j].r || (bl[i].r == bl[j].r && bl[i].a < bl[j].a) })
	for _, b := range bl {
		base = append(base, b.a)
	}
	for i := 0; i < n; i++ {
		if !has[i] {
			base = append(base, i)
		}
	}
	// accounts that cannot matter go first in a fixed order; the relevant ones are permuted
	{
		var irr, rel []int
		for _, a := range base {
			if relevant[a] {
				rel = append(rel, a)
			} else {
				irr = append(irr, a)
			}
		}
		base = append(irr, rel...)
	}
	nrel := len(relevant)
	// rank guess for Filter order: what is still a (stale) heap entry in the implementation was removed last
	var rk []string
	if post.stale != "" {
		for _, s := range strings.Split(post.stale, ",") {
			rk = append(rk, s+":1")
		}
	}
	rank1 := "-"
	if len(rk) > 0 {
		rank1 = strings.Join(rk, ",")
	}
	lastCmd := ""
	defer func() { w.mcmds = append(w.mcmds, lastCmd, "commit") }()
	try4 := func(p1, p2, p3, p4 []int, rank string) (string, bool) {
		cmd := fmt.Sprintf("try %s %s %s %s %s %s %s", kind, permStr(p1), permStr(p2), permStr(p3), permStr(p4), rank, args)
		ans := w.m.Ask(cmd)
		lastCmd = cmd
		main := ans
		stale := ""
		if i := strings.Index(ans, " ## "); i >= 0 {
			main, stale = ans[:i], strings.TrimSpace(ans[i+4:])
		}
		return ans, main == want && stale == post.stale
	}
	try := func(p1, p2, p3 []int, rank string) (string, bool) { return try4(p1, p2, p3, p1, rank) }
	rank2 := "-" // descending nonce order
	{
		var rr []string
		for _, m := range w.byID {
			rr = append(rr, fmt.Sprintf("%d:%d", m.id, 1000000-int(m.nonce%1000000)))
		}
		if len(rr) > 0 {
			rank2 = strings.Join(rr, ",")
		}
	}
	first, ok := try(base, base, base, "-")
	if ok {
		return first, true
	}
	w.c.Count("oracle-search/needed")
	if ans, ok := try(base, base, base, rank1); ok {
		w.c.Count("oracle-search/filter-order")
		return ans, true
	}
	// accounts owning the implementation's stale heap entries were processed after the last reheap: try them last
	// (in the demote range, in the promote ranges, or in both: they are independent map ranges in Go)
	if post.stale != "" {
		last := map[int]bool{}
		for _, s := range strings.Split(post.stale, ",") {
			var id int
			fmt.Sscanf(s, "%d", &id)
			if id >= 1 && id <= len(w.byID) {
				last[w.byID[id-1].from] = true
			}
		}
		var front, back []int
		for _, a := range base {
			if last[a] {
				back = append(back, a)
			} else {
				front = append(front, a)
			}
		}
		// every order inside the group of stale owners (small), every rotation of the others in front of it
		bidx := make([]int, len(back))
		for i := range bidx {
			bidx[i] = i
		}
		for len(back) <= 4 {
			bk := make([]int, len(back))
			for i, j := range bidx {
				bk[i] = back[j]
			}
			for rot := 0; rot <= len(front); rot++ {
				p := append(append(append([]int{}, front[rot:]...), front[:rot]...), bk...)
				for _, rank := range []string{"-", rank1, rank2} {
					for _, c4 := range [][2][]int{{p, p}, {base, p}, {p, base}} {
						if ans, ok := try4(c4[0], base, base, c4[1], rank); ok {
							w.c.Count("oracle-search/stale-owner-last")
							return ans, true
						}
					}
				}
			}
			if !nextPerm(bidx) {
				break
			}
		}
	}
	// mirror heuristic: the model (base oracle) kept stale heap entries that the implementation does not have: the
	// implementation removed those transactions BEFORE its last reheap, so their owners were processed earlier: try
	// them first, in every order, in the demote range, the promote ranges, or both
	if i := strings.Index(first, " ## "); i >= 0 {
		early := map[int]bool{}
		for _, s := range strings.Split(strings.TrimSpace(first[i+4:]), ",") {
			var id int
			if _, err := fmt.Sscanf(s, "%d", &id); err == nil && id >= 1 && id <= len(w.byID) && !strings.Contains(","+post.stale+",", ","+s+",") {
				early[w.byID[id-1].from] = true
			}
		}
		var fr, rest []int
		for _, a := range base {
			if early[a] {
				fr = append(fr, a)
			} else {
				rest = append(rest, a)
			}
		}
		fidx := make([]int, len(fr))
		for i := range fidx {
			fidx[i] = i
		}
		for len(fr) > 0 && len(fr) <= 4 {
			fk := make([]int, len(fr))
			for i, j := range fidx {
				fk[i] = fr[j]
			}
			for rot := 0; rot <= len(rest); rot++ {
				// the early group first, or inserted after the first rot others
				p := append(append(append([]int{}, rest[:rot]...), fk...), rest[rot:]...)
				for _, rank := range []string{"-", rank1, rank2} {
					for _, c4 := range [][2][]int{{p, p}, {base, p}, {p, base}} {
						if ans, ok := try4(c4[0], base, base, c4[1], rank); ok {
							w.c.Count("oracle-search/stale-owner-early")
							return ans, true
						}
					}
				}
			}
			if !nextPerm(fidx) {
				break
			}
		}
	}
	if nrel > n {
		nrel = n
	}
	idx := make([]int, nrel)
	for i := range idx {
		idx[i] = i
	}
	tries := 0
	for {
		p := append([]int{}, base[:n-nrel]...)
		for _, j := range idx {
			p = append(p, base[n-nrel+j])
		}
		for _, rank := range []string{"-", rank1, rank2} {
			for _, combo := range [][4][]int{{p, p, p, p}, {base, base, base, p}, {base, base, p, base}, {base, p, base, base}, {p, base, base, base}, {p, base, base, p}} {
				tries++
				if ans, ok := try4(combo[0], combo[1], combo[2], combo[3], rank); ok {
					w.c.Count("oracle-search/permutation")
					return ans, true
				}
			}
		}
		if tries > 15000 || !nextPerm(idx) {
			break
		}
	}
	// the demote range against every promote range order, for small account sets
	if nrel <= 4 {
		idx4 := make([]int, nrel)
		for i := range idx4 {
			idx4[i] = i
		}
		for {
			p4 := append([]int{}, base[:n-nrel]...)
			for _, j := range idx4 {
				p4 = append(p4, base[n-nrel+j])
			}
			for i := range idx {
				idx[i] = i
			}
			for {
				p1 := append([]int{}, base[:n-nrel]...)
				for _, j := range idx {
					p1 = append(p1, base[n-nrel+j])
				}
				for _, rank := range []string{"-", rank1, rank2} {
					if ans, ok := try4(p1, base, base, p4, rank); ok {
						w.c.Count("oracle-search/permutation-pair")
						return ans, true
					}
				}
				if !nextPerm(idx) {
					break
				}
			}
			if !nextPerm(idx4) {
				break
			}
		}
	}
	// leave the base candidate as the model's state
	ans, _ := try(base, base, base, "-")
	return ans, false
}

// ---------------------------------------------------------------- error classes

func errClass(err error) string {
	switch {
	case err == nil:
		return "nil"
	case err == core.ErrOversizedData:
		return "oversized"
	case err == core.ErrNegativeValue:
		return "negative"
	case err == core.ErrGasLimit:
		return "gaslimit"
	case err == core.ErrInvalidSender:
		return "invalidsender"
	case err == core.ErrUnderpriced:
		return "underpriced"
	case err == core.ErrNonceTooLow:
		return "noncelow"
	case err == core.ErrInsufficientFunds:
		return "funds"
	case err == core.ErrIntrinsicGas:
		return "intrinsic"
	case err == core.ErrReplaceUnderpriced:
		return "replaceunderpriced"
	case strings.HasPrefix(err.Error(), "known transaction"):
		return "known"
	}
	return "other:" + err.Error()
}

// ---------------------------------------------------------------- direct oracle (PoolOK on the implementation)

type view struct {
	pending, queued map[int][]*mtx
	listed          map[int]bool
	all             map[int]bool
	locals          map[int]bool
}

func (w *world) view(s snap) view {
	v := view{map[int][]*mtx{}, map[int][]*mtx{}, map[int]bool{}, map[int]bool{}, map[int]bool{}}
	pend, _ := w.pool.Pending()
	_, queued := w.pool.Content()
	for a, l := range pend {
		for _, tx := range l {
			v.pending[w.addrIdx[a]] = append(v.pending[w.addrIdx[a]], w.txs[tx.Hash()])
			v.listed[w.id(tx.Hash())] = true
		}
	}
	for a, l := range queued {
		for _, tx := range l {
			v.queued[w.addrIdx[a]] = append(v.queued[w.addrIdx[a]], w.txs[tx.Hash()])
			v.listed[w.id(tx.Hash())] = true
		}
	}
	for _, h := range s.s.All {
		v.all[w.id(h)] = true
	}
	for _, a := range s.s.Locals {
		v.locals[w.addrIdx[a]] = true
	}
	return v
}

func (w *world) replay(extra string) map[string]interface{} {
	h := append([]string{}, w.history...)
	return map[string]interface{}{"config": w.cfgName, "senders": len(w.addrs), "history": h, "detail": extra, "model_commands": append([]string{}, w.mcmds...),
		"how": "re-run ./check C15 with the same seed; the history lists the operations (tx = id:from:nonce:price:gas:value:intrinsic:size:sigok) applied to a fresh pool"}
}

func (w *world) directOracle(before, after view, s snap, opDesc string) {
	head := w.chain.head
	// 1. pending_executable
	for a, l := range after.pending {
		want := head.st[a].nonce
		if len(l) == 0 {
			w.c.Violate("pending-empty-list/"+w.cfgName, "an empty pending list is reported", w.replay(opDesc))
		}
		// affordability of every pending transaction against the CURRENT head state, independent of ordering
		for _, t := range l {
			if (t.cost().Cmp(head.st[a].bal) > 0 || t.gas > head.gas) && !w.unaff[t.id] {
				w.unaff[t.id] = true // reported once per transaction and history
				w.c.Violate(fmt.Sprintf("pending-not-affordable/%s/%s", w.cfgName, opDesc),
					fmt.Sprintf("sender %d pending tx %d (nonce %d) costs %s gas %d, but balance is %s and the block gas limit %d (after %s)", a, t.id, t.nonce, t.cost(), t.gas, head.st[a].bal, head.gas, opDesc), w.replay(opDesc))
				break
			}
		}
		contiguous := true
		for i, t := range l {
			if t.nonce != want+uint64(i) {
				contiguous = false
				if !w.gapped[a] {
					sig := fmt.Sprintf("pending-not-contiguous/%s/%s", w.cfgName, opDesc)
					// recognised mechanism: a reset left a hole behind a front that starts at the state nonce
					if isResetDesc(opDesc) && i > 0 {
						sig = "reset-reinject-leaves-gap-in-pending"
					} else if w.gapAfter[a] && i > 0 {
						// second-order aftermath of that finding: the hole was trimmed away but left a stale virtual nonce
						// (tracked in gapAfter); the sender's next submission at State().GetNonce re-opens the hole
						sig = "reset-reinject-leaves-gap-in-pending"
					}
					w.c.Violate(sig, fmt.Sprintf("sender %d pending nonces are not the run starting at the state nonce %d: position %d has nonce %d (after %s)", a, want, i, t.nonce, opDesc), w.replay(opDesc))
				}
				w.gapped[a] = true
				break
			}
			if t.from != a {
				w.c.Violate("pending-wrong-sender/"+w.cfgName, "tx listed under another account", w.replay(opDesc))
			}
		}
		if contiguous {
			wasGapped := w.gapped[a] || w.gapAfter[a]
			w.gapped[a] = false
			// virtual nonce
			if got := w.pool.State().GetNonce(w.addrs[a]); got != want+uint64(len(l)) {
				if wasGapped {
					// aftermath of the reported hole: it was filled by a later submission, promoteTx set the virtual
					// nonce to (filled nonce)+1 although later nonces are pending
					if !w.gapAfter[a] {
						w.c.Violate("reset-reinject-leaves-gap-in-pending", fmt.Sprintf("aftermath: the hole in sender %d's pending list was filled; State().GetNonce=%d but the pending run ends at %d (after %s)", a, got, want+uint64(len(l)), opDesc), w.replay(opDesc))
					}
					w.gapAfter[a] = true
				} else {
					w.c.Violate("pending-nonce-mismatch/"+w.cfgName, fmt.Sprintf("State().GetNonce(%d)=%d, want %d", a, got, want+uint64(len(l))), w.replay(opDesc))
				}
			} else {
				w.gapAfter[a] = false
			}
		}
	}
	// 2. unique_nonce
	for a := range w.addrs {
		seen := map[uint64]int{}
		for _, t := range append(append([]*mtx{}, after.pending[a]...), after.queued[a]...) {
			if o, dup := seen[t.nonce]; dup {
				w.c.Violate("duplicate-nonce/"+w.cfgName, fmt.Sprintf("sender %d nonce %d held by tx %d and tx %d", a, t.nonce, o, t.id), w.replay(opDesc))
			}
			seen[t.nonce] = t.id
		}
	}
	// 2b. all = pending ∪ queue
	for id := range after.listed {
		if !after.all[id] {
			w.c.Violate("listed-not-in-all/"+w.cfgName, fmt.Sprintf("tx %d is pending/queued but not in pool.all", id), w.replay(opDesc))
		}
	}
	for id := range after.all {
		if after.listed[id] {
			continue
		}
		if _, known := w.orphanSeen[id]; known {
			continue
		}
		t := w.byID[id-1]
		// recognised mechanism: t was a non-first pending tx of its sender and the sender's pending list vanished in this op
		class := ""
		wasPending := false
		for i, x := range before.pending[t.from] {
			if x.id == id && i > 0 {
				wasPending = true
			}
		}
		if wasPending && len(after.pending[t.from]) == 0 {
			class = "removetx-leaks-all-index"
		} else {
			class = fmt.Sprintf("all-not-union/%s/%s", w.cfgName, opDesc)
		}
		w.orphanSeen[id] = class
		w.c.Violate(class, fmt.Sprintf("tx %d (sender %d nonce %d) is in pool.all but neither pending nor queued after %s; resubmitting it answers 'known transaction'", id, t.from, t.nonce, opDesc), w.replay(opDesc))
	}
	// 4. limits for non-local senders
	np, nq := 0, 0
	overA, nonLocalQ := false, 0
	for a, l := range after.pending {
		np += len(l)
		if !after.locals[a] && uint64(len(l)) > w.cfg.AccountSlots {
			overA = true
		}
	}
	// The limits are enforced by promoteExecutables.  removeTx (SetGasPrice, eviction of the cheapest when the pool is
	// full) re-queues the successors of a removed pending transaction without any cap, and a replacing add is not
	// followed by promoteExecutables: recognised mechanism, stable signature.  An overshoot that was reported stays
	// until an operation that must enforce the limit (reset: everything; accepted non-replacing add: GlobalQueue and
	// the submitter's AccountQueue).
	isReset := isResetDesc(opDesc)
	submitter, enforcing := -1, isReset
	if f := strings.Fields(opDesc); len(f) == 2 && (f[0] == "addr" || f[0] == "addl") {
		var id int
		fmt.Sscanf(f[1], "%d:", &id)
		t := w.byID[id-1]
		replaced := false
		for _, o := range append(append([]*mtx{}, before.pending[t.from]...), before.queued[t.from]...) {
			if o.nonce == t.nonce {
				replaced = true
			}
		}
		if after.listed[id] && !before.listed[id] && !replaced {
			submitter, enforcing = t.from, true
		}
	}
	demoted := func(a int) bool { // a transaction of a moved from pending to queue in this operation
		for _, t := range after.queued[a] {
			for _, o := range before.pending[a] {
				if o.id == t.id || o.nonce == t.nonce { // itself, or the submission that replaced it in the queue
					return true
				}
			}
		}
		return false
	}
	anyDemoted := false
	for a := range after.queued {
		if demoted(a) {
			anyDemoted = true
		}
	}
	for a, l := range after.queued {
		nq += len(l)
		if !after.locals[a] {
			nonLocalQ += len(l)
			if uint64(len(l)) > w.cfg.AccountQueue {
				switch {
				case !isReset && a != submitter && demoted(a):
					w.overAQ[a] = true
					w.c.Violate("removetx-requeue-exceeds-queue-limits", fmt.Sprintf("non-local sender %d has %d queued > AccountQueue %d after %s: removeTx re-queued its pending transactions and no promoteExecutables followed", a, len(l), w.cfg.AccountQueue, opDesc), w.replay(opDesc))
				case w.overAQ[a] && !isReset && a != submitter: // still the reported overshoot
				default:
					w.c.Violate("account-queue-exceeded/"+w.cfgName, fmt.Sprintf("non-local sender %d has %d queued > AccountQueue %d", a, len(l), w.cfg.AccountQueue), w.replay(opDesc))
				}
			} else {
				w.overAQ[a] = false
			}
		}
	}
	for a := range w.overAQ {
		if len(after.queued[a]) == 0 {
			w.overAQ[a] = false
		}
	}
	if uint64(np) > w.cfg.GlobalSlots && overA {
		w.c.Violate("global-slots-exceeded/"+w.cfgName, fmt.Sprintf("%d pending > GlobalSlots %d while a non-local sender holds more than AccountSlots", np, w.cfg.GlobalSlots), w.replay(opDesc))
	}
	if uint64(nq) > w.cfg.GlobalQueue && nonLocalQ > 0 {
		switch {
		case !enforcing && anyDemoted:
			w.overGQ = true
			w.c.Violate("removetx-requeue-exceeds-queue-limits", fmt.Sprintf("%d queued > GlobalQueue %d with %d of them non-local after %s: removeTx re-queued pending transactions and no promoteExecutables followed", nq, w.cfg.GlobalQueue, nonLocalQ, opDesc), w.replay(opDesc))
		case w.overGQ && !enforcing: // still the reported overshoot
		default:
			w.c.Violate("global-queue-exceeded/"+w.cfgName, fmt.Sprintf("%d queued > GlobalQueue %d with %d of them non-local", nq, w.cfg.GlobalQueue, nonLocalQ), w.replay(opDesc))
		}
	} else {
		w.overGQ = false
	}
}

// ---------------------------------------------------------------- one history

type poolCfg struct {
	name                   string
	as, gs, aq, gq, bump   uint64
	nolocals               bool
	nsenders, nops         int
	noHeads                bool                   // after a warm-up no head events: nothing recomputes the virtual nonces
	deep                   bool                   // deep-account histories: few senders with 5-12 pending, prefix-mining heads, removal of the cheapest
	viaFeed                bool                   // head changes arrive only as ChainHeadEvents on the real feed (TxPool.loop), not through VerifReset
	st                     []acct                 // optional fixed initial state (directed histories)
	gp                     int64                  // optional fixed price limit
	script                 func(w *world) []sop   // optional directed history instead of generated operations
}

// sop is one planned operation: a submission, a price threshold or a head change.
type sop struct {
	kind         string // "add" | "gasprice" | "head"
	class        string
	t            *mtx
	local        bool
	price        int64
	nb           *blockInfo // new head (the old one is the current head)
	reinjectWant []*mtx
	touched      []int
	next         bool // submission at State().GetNonce(from), resolved when the operation runs
	from         int
}

func (w *world) curToken(b *blockInfo) string {
	ss := make([]string, len(b.st))
	for i, a := range b.st {
		ss[i] = fmt.Sprintf("%d:%d:%s", i, a.nonce, a.bal)
	}
	return strings.Join(ss, ",")
}

func (w *world) newBlock(parent *blockInfo, number uint64, txs []*mtx, st []acct, gas uint64) *blockInfo {
	w.nblocks++
	var parentHash common.Hash
	if parent != nil {
		parentHash = parent.block.Hash()
	}
	h := &types.Header{ParentHash: parentHash, Number: new(big.Int).SetUint64(number), GasLimit: gas,
		Root: common.BigToHash(big.NewInt(int64(1000 + w.nblocks))), Extra: []byte(fmt.Sprint(w.nblocks)), Difficulty: big.NewInt(1), Version: 1}
	var ttxs []*types.Transaction
	for _, t := range txs {
		ttxs = append(ttxs, t.tx)
	}
	b := &blockInfo{block: types.NewBlock(h, ttxs, nil, nil), id: w.nblocks, st: st, gas: gas}
	w.chain.mu.Lock()
	w.chain.blocks[b.block.Hash()] = b
	w.chain.roots[h.Root] = b
	w.chain.mu.Unlock()
	// tell the model about the block
	toks := make([]string, len(txs))
	for i, t := range txs {
		toks[i] = t.token()
	}
	tt := "-"
	if len(toks) > 0 {
		tt = strings.Join(toks, ";")
	}
	pid := 0
	if parent != nil {
		pid = parent.id
	}
	if w.m != nil {
		w.mcmds = append(w.mcmds, fmt.Sprintf("block %d %d %d %s", b.id, pid, number, tt))
		if a := w.m.Ask(fmt.Sprintf("block %d %d %d %s", b.id, pid, number, tt)); a != "ok" {
			w.c.Fatal("model block: %s", a)
		}
	}
	return b
}

func copySt(st []acct) []acct {
	out := make([]acct, len(st))
	for i, a := range st {
		out[i] = acct{a.nonce, new(big.Int).Set(a.bal)}
	}
	return out
}

// genTx draws a submission for the current situation.
func (w *world) genTx(v view) (*mtx, string) {
	r := w.r
	from := r.Intn(len(w.addrs))
	head := w.chain.head
	cur := head.st[from].nonce
	pn := w.pool.State().GetNonce(w.addrs[from])
	existing := append(append([]*mtx{}, v.pending[from]...), v.queued[from]...)
	// occasional exact resubmission of an earlier transaction (known / leaked / dropped ones)
	if len(w.byID) > 0 && r.Chance(10) {
		return w.byID[r.Intn(len(w.byID))], "resubmit"
	}
	class := "fresh"
	var nonce uint64
	var price *big.Int
	gas := uint64(21000 + 1000*r.Intn(4))
	bump := int64(w.cfg.PriceBump)
	switch k := r.Intn(100); {
	case k < 30 && len(existing) > 0: // replacement around the bump threshold
		old := existing[r.Intn(len(existing))]
		nonce = old.nonce
		op := old.price.Int64()
		d := []int64{-1, 0, 1}[r.Intn(3)]
		var p int64
		switch r.Intn(5) {
		case 0:
			p, class = op, "replace/same-price"
		case 1:
			p, class = op+1, "replace/plus-one"
		default:
			p = op * (100 + bump + d) / 100
			class = fmt.Sprintf("replace/bump%+d", d)
		}
		price = big.NewInt(p) // replacement prices are not forced to be globally unique below the old one
		if !w.prices[fmt.Sprint(p)] {
			w.prices[fmt.Sprint(p)] = true
		} else if p > op || uint64(len(v.all)+2) >= w.cfg.GlobalSlots+w.cfg.GlobalQueue {
			price = w.uniquePrice(p) // no equal prices in the heap when evictions can happen (heap ties are not mirrored)
		}
	case k < 62:
		nonce, class = pn, "next"
	case k < 80:
		nonce, class = pn+1+uint64(r.Intn(3)), "gap"
	case k < 86 && cur > 0:
		nonce, class = cur-1, "stale-nonce"
	default:
		nonce, class = cur+uint64(r.Intn(6)), "random-nonce"
	}
	if price == nil {
		if r.Chance(25) {
			price = w.uniquePrice(int64(1 + r.Intn(40)))
		} else {
			price = w.uniquePrice(int64(100 + r.Intn(3000)))
		}
	}
	value := big.NewInt(int64(r.Intn(1000)))
	var data []byte
	badsig := false
	var replaced *mtx
	if strings.HasPrefix(class, "replace/") {
		for _, o := range existing {
			if o.nonce == nonce {
				replaced = o
			}
		}
		// a replacement may also cost more / use more gas than what it replaces (the list's cached ceilings must follow)
		switch r.Intn(4) {
		case 0:
			gas = replaced.gas + uint64(500+r.Intn(2000))
			class += "+more-gas"
		case 1:
			value = new(big.Int).Add(replaced.value, big.NewInt(int64(1000000+r.Intn(20000000))))
			class += "+more-value"
		case 2:
			if replaced.gas > 21500 {
				gas = replaced.gas - 500
			}
			value = big.NewInt(0)
			class += "+cheaper"
		}
	}
	switch k := r.Intn(100); {
	case k < 12: // cost around the balance
		gp := new(big.Int).Mul(price, new(big.Int).SetUint64(gas))
		value = new(big.Int).Sub(head.st[from].bal, gp)
		value.Add(value, big.NewInt(int64(r.Intn(3)-1)))
		if value.Sign() < 0 {
			value = big.NewInt(0)
		}
		class += "+cost~balance"
	case k < 15:
		gas = head.gas + uint64(r.Intn(2)) // at / above the block gas limit
		class += "+gas~limit"
	case k < 17:
		gas = 20999
		class += "+low-gas"
	case k < 19:
		value = big.NewInt(-1)
		class += "+negative"
	case k < 21:
		badsig = true
		class += "+badsig"
	case k < 22:
		data = make([]byte, 33*1024)
		gas = 200000
		class += "+oversized"
	case k < 26:
		data = []byte{1, 0, 2}
		gas = 21000 + 68*2 + 4 - uint64(r.Intn(2))
		class += "+data"
	}
	t := w.mkTx(from, nonce, price, gas, value, data, badsig)
	if replaced != nil && replaced.id != t.id {
		w.replOld[t.id] = replaced
		w.lastRepl = append(w.lastRepl, t)
		if len(w.lastRepl) > 6 {
			w.lastRepl = w.lastRepl[1:]
		}
	}
	return t, class
}

// runHistory builds a pool and applies a generated history, comparing with the model after every op.
func (w *world) runHistory(pc poolCfg) {
	r := w.r
	c := w.c
	savedModel := w.m
	defer func() { w.m = savedModel }()
	w.cfgName = pc.name
	w.history = nil
	w.orphanSeen = map[int]string{}
	w.gapped = map[int]bool{}
	w.overAQ = map[int]bool{}
	w.unaff = map[int]bool{}
	w.lastRepl, w.replOld = nil, map[int]*mtx{}
	w.gapAfter = map[int]bool{}
	w.overGQ = false
	w.txs = map[common.Hash]*mtx{}
	w.byID = nil
	w.prices = map[string]bool{}
	w.nblocks = 0
	w.addrs = w.addrs[:0]
	w.addrIdx = map[common.Address]int{}
	for i := 0; i < pc.nsenders; i++ {
		a := crypto.PubkeyToAddress(w.keys[i].PubKey())
		w.addrs = append(w.addrs, a)
		w.addrIdx[a] = i
	}
	w.chain = &fakeChain{blocks: map[common.Hash]*blockInfo{}, roots: map[common.Hash]*blockInfo{}, addrs: w.addrs}
	st := make([]acct, pc.nsenders)
	for i := range st {
		st[i] = acct{uint64(r.Intn(3)), big.NewInt(int64(20000000 + r.Intn(100000000)))}
	}
	gasLimit := uint64(1000000)
	gp := int64(1 + r.Intn(3)*50)
	if pc.st != nil {
		st, gp = copySt(pc.st), pc.gp
	}
	cfg := core.TxPoolConfig{Journal: "", Rejournal: 0, PriceLimit: uint64(gp), PriceBump: pc.bump, AccountSlots: pc.as, GlobalSlots: pc.gs,
		AccountQueue: pc.aq, GlobalQueue: pc.gq, Lifetime: 1000 * 3600 * 1e9, NoLocals: pc.nolocals}
	w.cfg = cfg
	nl := "0"
	if pc.nolocals {
		nl = "1"
	}
	sids := make([]int, pc.nsenders)
	for i := range sids {
		sids[i] = i
	}
	// the model first (newBlock registers blocks with it)
	w.mcmds = nil
	newCmd := fmt.Sprintf("new %d %d %d %d %d %s %d %d %s %s", pc.as, pc.gs, pc.aq, pc.gq, pc.bump, nl, gp, gasLimit,
		func() string {
			ss := make([]string, len(st))
			for i, a := range st {
				ss[i] = fmt.Sprintf("%d:%d:%s", i, a.nonce, a.bal)
			}
			return strings.Join(ss, ",")
		}(), permStr(sids))
	ans := w.m.Ask(newCmd)
	w.mcmds = append(w.mcmds, newCmd)
	w.chain.head = w.newBlock(nil, 0, nil, st, gasLimit)
	w.pool = core.NewTxPool(cfg, params.TestChainConfig, w.chain)
	defer w.pool.Stop()
	w.viaFeed = pc.viaFeed
	if w.viaFeed {
		// TxPool.loop reads its initial head before it takes the first event: post a sentinel (skipped by loop) and wait
		// until it has been taken, so the chain does not move before loop knows where it started (no timing assumption)
		w.chain.feed.Send(core.ChainHeadEvent{})
		taken := false
		for dl := time.Now().Add(60 * time.Second); time.Now().Before(dl); time.Sleep(20 * time.Microsecond) {
			if w.pool.VerifHeadEventsQueued() == 0 {
				taken = true
				break
			}
		}
		if !taken {
			c.Count("feed/undecided-loop-not-started")
			return
		}
	}
	w.history = append(w.history, fmt.Sprintf("new AccountSlots=%d GlobalSlots=%d AccountQueue=%d GlobalQueue=%d PriceBump=%d NoLocals=%v PriceLimit=%d gaslimit=%d state=%s",
		pc.as, pc.gs, pc.aq, pc.gq, pc.bump, pc.nolocals, gp, gasLimit, w.curToken(w.chain.head)))
	s0 := w.snapshot()
	if !c.Correspond("NewTxPool~new_pool", w.history[0], "ok "+s0.main, strings.Split(ans, " ## ")[0]) {
		return
	}
	before := w.view(s0)
	var scripted []sop
	if pc.script != nil {
		scripted = pc.script(w)
		pc.nops = len(scripted)
	}
	for opn := 0; opn < pc.nops; opn++ {
		var kind, args, desc, want, class string
		headStale := false
		extraRel := map[int]bool{}
		var panicked bool
		var pv interface{}
		var plan sop
		if scripted != nil {
			plan = scripted[opn]
		} else {
			w.noHeads = pc.noHeads && opn > pc.nops/4
			w.deep = pc.deep
			plan = w.planRandom(before)
			if pc.deep {
				plan = w.planDeep(before)
			}
		}
		for _, a := range plan.touched {
			extraRel[a] = true
		}
		class = plan.class
		if plan.kind == "add" && plan.next {
			n := w.pool.State().GetNonce(w.addrs[plan.from])
			plan.t = w.mkTx(plan.from, n, w.uniquePrice(plan.price), 21000, big.NewInt(100), nil, false)
		}
		switch plan.kind {
		case "add":
			t, local := plan.t, plan.local
			kind = "addr"
			if local {
				kind = "addl"
			}
			args = t.token()
			desc = kind + " " + args
			extraRel[t.from] = true
			var err error
			panicked, pv = vh.CatchPanic(func() {
				if local {
					err = w.pool.AddLocal(t.tx)
				} else {
					err = w.pool.AddRemote(t.tx)
				}
			})
			want = errClass(err)
			c.Count("result/" + want)
			if err == nil {
				pend, _ := w.pool.Pending()
				cut, sizes := 0, map[int]bool{}
				for a, l := range before.pending {
					if a != t.from && len(pend[w.addrs[a]]) < len(l) {
						cut++
						sizes[len(l)] = true
					}
				}
				if cut > 0 {
					c.Count("coverage/pending-limit-cut-other-sender")
				}
				if cut > 1 || (cut == 1 && len(pend[w.addrs[t.from]]) > int(pc.as)) {
					c.Count("coverage/pending-limit-several-offenders")
				}
			}
			// direct oracle for replacement_needs_bump (no eviction pressure)
			if err == nil && uint64(len(before.all)) < pc.gs+pc.gq {
				for _, o := range append(append([]*mtx{}, before.pending[t.from]...), before.queued[t.from]...) {
					if o.nonce == t.nonce && o.id != t.id {
						thr := new(big.Int).Div(new(big.Int).Mul(o.price, big.NewInt(100+int64(pc.bump))), big.NewInt(100))
						if t.price.Cmp(o.price) <= 0 || t.price.Cmp(thr) < 0 {
							c.Violate("replacement-without-bump/"+pc.name, fmt.Sprintf("tx %d (price %s) replaced tx %d (price %s) with bump %d%%", t.id, t.price, o.id, o.price, pc.bump), w.replay(desc))
						}
					}
				}
			}
		case "gasprice":
			p := plan.price
			kind, args = "gasprice", fmt.Sprint(p)
			desc = kind + " " + args
			panicked, pv = vh.CatchPanic(func() { w.pool.SetGasPrice(big.NewInt(p)) })
			want = "done"
		default: // new head
			old := w.chain.head
			nb, reinjectWant := plan.nb, plan.reinjectWant
			w.chain.mu.Lock()
			w.chain.head = nb
			w.chain.mu.Unlock()
			kind = "reset"
			args = fmt.Sprintf("%d %s %d:%d %d:%d", nb.gas, w.curToken(nb), old.id, old.block.NumberU64(), nb.id, nb.block.NumberU64())
			desc = fmt.Sprintf("reset old=block%d(#%d) new=block%d(#%d) gaslimit=%d state=%s", old.id, old.block.NumberU64(), nb.id, nb.block.NumberU64(), nb.gas, w.curToken(nb))
			applied := true
			if w.viaFeed {
				// the real path: post the event, TxPool.loop calls reset(previous event's head, this head).  reset calls
				// chain.StateAt exactly once; after that any pool call blocks on pool.mu until the reset is finished.
				n0 := w.chain.stateCalls()
				w.chain.feed.Send(core.ChainHeadEvent{Block: nb.block})
				// sentinel: an event without a block is skipped by loop(); loop handles one event at a time, so once the
				// sentinel has been taken from the channel the real event has been processed completely (handled or
				// ignored).  No timing assumption: the wait is only bounded by a generous deadline after which the case
				// counts as undecided (never as a violation).
				w.chain.feed.Send(core.ChainHeadEvent{})
				drained := false
				for dl := time.Now().Add(60 * time.Second); time.Now().Before(dl); time.Sleep(20 * time.Microsecond) {
					if w.pool.VerifHeadEventsQueued() == 0 {
						drained = true
						break
					}
				}
				if !drained {
					c.Count("feed/undecided-event-not-taken")
					return
				}
				// the sentinel was taken; the pool lock serialises us after a reset that is still finishing
				w.pool.Stats()
				applied = w.chain.stateCalls() > n0
				desc = "event " + desc
			} else {
				panicked, pv = vh.CatchPanic(func() { w.pool.VerifReset(old.block.Header(), nb.block.Header()) })
			}
			want = "done"
			// direct oracle: after a head change the pool's view is the new head's state ("after a chain reorganisation
			// the transactions that dropped out of the canonical chain are pooled again" needs the reset to run at all)
			if !panicked {
				sn := w.pool.VerifSnapshot(w.addrs)
				stale := (!applied && nb.id != old.id) || sn.MaxGas != nb.gas // an ignored re-announcement of the same head is harmless
				for i, a := range w.addrs {
					if sn.CurrentNonces[a] != nb.st[i].nonce || sn.Balances[a].Cmp(nb.st[i].bal) != 0 {
						stale = true
					}
				}
				if stale {
					rel := "same height"
					if nb.block.NumberU64() > old.block.NumberU64() {
						rel = "higher"
					} else if nb.block.NumberU64() < old.block.NumberU64() {
						rel = "lower"
					}
					c.Violate("head-change-not-applied/"+class+"/"+rel, fmt.Sprintf("after the head moved from block%d(#%d) to block%d(#%d) (%s, %s) the pool still validates against the old head: reset did not run (event handled: %v), dropped transactions are not re-pooled", old.id, old.block.NumberU64(), nb.id, nb.block.NumberU64(), class, rel, applied), w.replay(desc))
					headStale = true
				}
			}
			// direct oracle for reorg_reinjects: what dropped out of the chain and is still valid is pooled again
			if !panicked && !headStale && (strings.HasPrefix(pc.name, "default") || strings.HasPrefix(pc.name, "medium")) {
				after := w.view(w.snapshot())
				for _, t := range reinjectWant {
					if after.listed[t.id] || before.all[t.id] {
						continue
					}
					valid := t.nonce >= nb.st[t.from].nonce && t.cost().Cmp(nb.st[t.from].bal) <= 0 && t.gas <= nb.gas && t.gas >= t.intr &&
						(t.price.Cmp(w.pool.GasPrice()) >= 0 || after.locals[t.from])
					competitor := false
					for _, o := range append(append(append([]*mtx{}, before.pending[t.from]...), before.queued[t.from]...), reinjectWant...) {
						if o.id != t.id && o.from == t.from && o.nonce == t.nonce {
							competitor = true
						}
					}
					// (no claim when the pool is full: a reinjected transaction may then be refused as underpriced or evicted)
					pressure := uint64(len(before.all)+len(reinjectWant)) >= pc.gs+pc.gq
					npend, npendBefore := 0, 0
					for _, l := range after.pending {
						npend += len(l)
					}
					for _, l := range before.pending {
						npendBefore += len(l)
					}
					for _, l := range before.queued {
						npendBefore += len(l) // queued transactions may be promoted by the reset as well
					}
					// GlobalSlots can be reached DURING the reset (reinjected and promoted transactions are counted before
					// demoteUnexecutables removes others): a non-local sender may then have been cut back
					if (uint64(npend) >= pc.gs || uint64(npendBefore+len(reinjectWant)) >= pc.gs) && !after.locals[t.from] {
						pressure = true
					}
					if valid && !competitor && !pressure && uint64(len(after.queued[t.from])) < pc.aq {
						c.Violate("reorg-drops-valid-tx/"+pc.name, fmt.Sprintf("tx %d dropped out of the canonical chain, is still valid, and is not in the pool after the reorganisation", t.id), w.replay(desc))
					}
				}
			}
		}
		w.history = append(w.history, desc)
		if panicked {
			c.Violate("pool-panic/"+class, fmt.Sprintf("TxPool panicked: %v", pv), w.replay(desc))
			want = "panic"
		}
		post := w.snapshot()
		after := w.view(post)
		key := pc.name + "|" + post.main
		c.Eval(pc.name+"/"+class, key)
		obs := want
		if want != "panic" {
			obs = want + " " + post.main
		}
		relevant := extraRel
		for _, v := range []view{before, after} {
			for a := range v.pending {
				relevant[a] = true
			}
			for a := range v.queued {
				relevant[a] = true
			}
		}
		if w.m != nil && !headStale {
			ans, ok := w.askOp(kind, args, obs, post, relevant)
			if !ok && len(relevant) >= 5 && sameButHeap(obs, ans) {
				// bounded oracle search, not exhaustive for >= 5 accounts, and everything but the priced-heap bookkeeping
				// (which depends on the map iteration order) agrees: inconclusive, not a disagreement.  The rest of the
				// history runs on the implementation alone.
				c.Count("oracle-search/undecided-heap-order")
				w.m = nil
				w.directOracle(before, after, post, desc)
				before = after
				continue
			}
			c.Correspond("TxPool."+map[string]string{"addr": "AddRemote~add_remote", "addl": "AddLocal~add_local", "gasprice": "SetGasPrice~set_gas_price", "reset": map[bool]string{false: "reset~reset_heads", true: "loop(ChainHeadEvent)~reset_heads"}[w.viaFeed]}[kind],
				strings.Join(w.history, " ; "), obs+" ## "+post.stale, ans)
			if !ok {
				os.WriteFile(filepath.Join(c.OutDir, fmt.Sprintf("disagreement_%d.txt", c.Res.NDisagreements)), []byte(strings.Join(w.mcmds, "\n")+"\n# observed: "+obs+" ## "+post.stale+"\n"), 0o644)
				// the model no longer follows the implementation: the rest of the history runs on the implementation
				// alone, so that the direct oracle can still turn the divergence into a concrete failing input
				w.m = nil
				c.Count("history/continued-without-model")
			} else if a := w.m.Ask("commit"); a != "ok" {
				if want != "panic" {
					c.Fatal("commit: %s", a)
				}
				w.m = nil
			}
		}
		if headStale {
			if w.m != nil {
				ans, _ := w.askOp(kind, args, obs, post, relevant)
				c.Correspond("TxPool.loop(ChainHeadEvent)~reset_heads", strings.Join(w.history, " ; "), obs+" ## "+post.stale, ans)
			}
			return // the pool no longer follows the chain: everything after this is a consequence
		}
		w.directOracle(before, after, post, desc)
		if want == "panic" {
			return
		}
		before = after
	}
	if len(c.Res.Samples) < 4 {
		n := len(w.history)
		if n > 12 {
			n = 12
		}
		c.Sample(map[string]interface{}{"config": pc.name, "first_ops": w.history[:n]})
	}
}

// mineExact builds a child of parent that includes exactly txs (state nonces / balances follow).
func (w *world) mineExact(parent *blockInfo, txs []*mtx) *blockInfo {
	st := copySt(parent.st)
	for _, t := range txs {
		st[t.from].nonce++
		st[t.from].bal.Sub(st[t.from].bal, t.cost())
	}
	return w.newBlock(parent, parent.block.NumberU64()+1, txs, st, parent.gas)
}

// planDeep: deep-account histories.  Few senders build up 5-12 pending transactions with varied prices; heads mine a
// strict prefix (1, 2 or all but one) of one sender, which pops the nonce heap; then the cheapest pending transaction
// - wherever it sits: first, middle, last - is removed through SetGasPrice (or by eviction when the pool is full);
// replacements in between.  The invariant oracle runs after every operation.
func (w *world) planDeep(before view) sop {
	r := w.r
	var senders []int
	for a := range w.addrs {
		senders = append(senders, a)
	}
	a := senders[r.Intn(len(senders))]
	pend := before.pending[a]
	k := r.Intn(100)
	switch {
	case w.pool.GasPrice().Cmp(big.NewInt(1)) > 0 && k < 60: // let submissions in again
		return sop{kind: "gasprice", class: "deep/gasprice-back", price: 1}
	case len(pend) < 5 || (k < 22 && len(pend) < 12):
		return sop{kind: "add", class: "deep/add-next", next: true, from: a, price: int64(50 + r.Intn(5000))}
	case k < 50 && len(pend) >= 2: // mine a strict prefix: Forward pops the heap
		m := []int{1, 2, len(pend) - 1}[r.Intn(3)]
		if m > len(pend)-1 {
			m = len(pend) - 1
		}
		if m < 1 {
			m = 1
		}
		return sop{kind: "head", class: fmt.Sprintf("deep/head-mines-prefix-%s", map[bool]string{true: "all-but-one", false: fmt.Sprint(m)}[m == len(pend)-1 && m > 2]), nb: w.mineExact(w.chain.head, pend[:m])}
	case k < 82: // remove the cheapest pending transaction of this sender (and whatever else is cheaper) by price
		var cheapest *mtx
		for _, t := range pend {
			if cheapest == nil || t.price.Cmp(cheapest.price) < 0 {
				cheapest = t
			}
		}
		if cheapest == nil || before.locals[a] {
			break
		}
		pos := "middle"
		if cheapest.id == pend[0].id {
			pos = "first"
		} else if cheapest.id == pend[len(pend)-1].id {
			pos = "last"
		}
		return sop{kind: "gasprice", class: "deep/remove-cheapest-" + pos, price: cheapest.price.Int64() + 1}
	case k < 93 && len(pend) > 0: // replacement
		o := pend[r.Intn(len(pend))]
		p := o.price.Int64()*(100+int64(w.cfg.PriceBump)+int64(r.Intn(3))-1)/100 + 1
		return sop{kind: "add", class: "deep/replace", t: w.mkTx(a, o.nonce, w.uniquePrice(p), o.gas, big.NewInt(int64(r.Intn(1000))), nil, false)}
	}
	return w.planRandom(before)
}

// directedHeap: the nonce index of txSortedMap is a heap; its last slot is not the highest nonce once Forward has
// popped.  A has nonces 0..4 pending, nonce 3 is the cheapest; a head mines nonce 0 (heap.Pop); SetGasPrice removes
// nonce 3: nonces 1,2 stay pending, nonce 4 must be demoted to the queue.  Variants remove after 2 pops and remove
// the last / the first.
func directedHeap(w *world) []sop {
	prices := []int64{100, 110, 120, 50, 140, 60, 150, 160}
	var txs []*mtx
	for n, p := range prices {
		txs = append(txs, w.mkTx(0, uint64(n), w.uniquePrice(p), 21000, big.NewInt(100), nil, false))
	}
	var ops []sop
	for _, t := range txs {
		ops = append(ops, sop{kind: "add", class: "directed/heap", t: t})
	}
	b1 := w.mineExact(w.chain.head, txs[:1])
	b2 := w.mineExact(b1, txs[1:2])
	ops = append(ops,
		sop{kind: "head", class: "directed/heap-mine-1", nb: b1},
		sop{kind: "gasprice", class: "directed/heap-remove-middle-after-pop", price: 51}, // removes nonce 3
		sop{kind: "gasprice", class: "directed/heap", price: 1},
		sop{kind: "head", class: "directed/heap-mine-1", nb: b2},
		sop{kind: "add", class: "directed/heap-next", next: true, from: 0, price: 3000})
	return ops
}

// planRandom draws the next operation of a generated history.
func (w *world) planRandom(before view) sop {
	r := w.r
	k := r.Intn(100)
	if w.noHeads && k >= 69 { // head-free phase: more submissions and threshold changes instead
		k = r.Intn(69)
	}
	// fill the hole in front of a sender's queue: one submission then promotes several transactions at once
	if k < 62 && r.Chance(22) {
		var cands []int
		for a, q := range before.queued {
			if len(q) >= 2 && !before.locals[a] {
				cands = append(cands, a)
			}
		}
		sort.Ints(cands)
		if len(cands) > 0 {
			a := cands[r.Intn(len(cands))]
			return sop{kind: "add", class: "add-remote/fill-gap", next: true, from: a, price: int64(2000 + r.Intn(3000))}
		}
	}
	switch {
	case k < 62: // submission
		t, cl := w.genTx(before)
		if r.Chance(15) {
			return sop{kind: "add", class: "add-local/" + cl, t: t, local: true}
		}
		return sop{kind: "add", class: "add-remote/" + cl, t: t}
	case k < 69: // price threshold
		p := int64(1 + r.Intn(400))
		if r.Chance(30) {
			p = 1
		}
		return sop{kind: "gasprice", class: "set-gas-price", price: p}
	default: // new head
		old := w.chain.head
		if k < 76 {
			if nb, cl := w.squeezeOn(old, before); nb != nil {
				return sop{kind: "head", class: "head/" + cl, nb: nb}
			}
		}
		if old.block.NumberU64() >= 1 && r.Chance(7) { // head rewind: the new head is an ancestor of the old one
			plan := sop{kind: "head", class: "head/rewind"}
			anc := old
			for i, n := 0, 1+r.Intn(2); i < n && anc.block.NumberU64() > 0; i++ {
				for _, tx := range anc.block.Transactions() {
					t := w.txs[tx.Hash()]
					plan.reinjectWant = append(plan.reinjectWant, t)
					plan.touched = append(plan.touched, t.from)
				}
				anc = w.chain.blocks[anc.block.ParentHash()]
			}
			plan.nb = anc
			return plan
		}
		if r.Chance(4) { // the same head announced again
			return sop{kind: "head", class: "head/duplicate", nb: old}
		}
		if k < 88 || old.block.NumberU64() == 0 { // advance: mine a prefix of pending for some senders
			return sop{kind: "head", class: "head/advance", nb: w.mineOn(old, before, nil)}
		}
		// reorganisation: fork 1..3 blocks back
		plan := sop{kind: "head", class: "head/reorg"}
		depth := 1 + r.Intn(3)
		anc := old
		var discarded []*mtx
		for i := 0; i < depth && anc.block.NumberU64() > 0; i++ {
			for _, tx := range anc.block.Transactions() {
				discarded = append(discarded, w.txs[tx.Hash()])
			}
			anc = w.chain.blocks[anc.block.ParentHash()]
		}
		nlen := depth + r.Intn(3) - 1
		if nlen < 1 {
			nlen = 1
		}
		if r.Chance(4) {
			nlen = 70 // too deep: the pool skips the reinjection
			plan.class = "head/reorg-deep"
		}
		cur := anc
		incl := map[int]bool{}
		for i := 0; i < nlen; i++ {
			var pickFrom []*mtx
			if i == 0 {
				pickFrom = discarded
			}
			cur = w.mineOn(cur, view{}, pickFrom)
			for _, tx := range cur.block.Transactions() {
				incl[w.txs[tx.Hash()].id] = true
			}
		}
		plan.nb = cur
		if plan.class == "head/reorg" {
			switch {
			case cur.block.NumberU64() > old.block.NumberU64():
				plan.class = "head/reorg-longer"
			case cur.block.NumberU64() == old.block.NumberU64():
				plan.class = "head/reorg-same-height"
			default:
				plan.class = "head/reorg-lower"
			}
		}
		for _, t := range discarded {
			plan.touched = append(plan.touched, t.from)
			if !incl[t.id] && nlen != 70 {
				plan.reinjectWant = append(plan.reinjectWant, t)
			}
		}
		return plan
	}
}

// squeezeOn builds a child of parent whose state puts a pending transaction just beyond reach: the sender's
// balance lands in [cost of what it replaced, its cost) (or just below its cost), or the block gas limit lands in
// [old gas, its gas).  The balance goes down consistently: the pending predecessors are mined and the last of them
// is outbid by a transaction of the same nonce that the pool never saw and that spends the difference.
func (w *world) squeezeOn(parent *blockInfo, v view) (*blockInfo, string) {
	r := w.r
	// candidates: recent replacements that are pending, else any pending transaction
	var cands []*mtx
	for _, t := range w.lastRepl {
		for _, x := range v.pending[t.from] {
			if x.id == t.id {
				cands = append(cands, t)
			}
		}
	}
	cl := "squeeze-replaced"
	if len(cands) == 0 || r.Chance(30) {
		cl = "squeeze-any"
		cands = nil
		for _, l := range v.pending {
			cands = append(cands, l...)
		}
	}
	if len(cands) == 0 {
		return nil, ""
	}
	sort.Slice(cands, func(i, j int) bool { return cands[i].id < cands[j].id })
	t := cands[r.Intn(len(cands))]
	old := w.replOld[t.id]
	st := copySt(parent.st)
	gas := parent.gas
	if gas < 1000000 {
		gas = 1000000
	}
	// gas-limit squeeze
	if (old != nil && old.gas < t.gas && r.Chance(50)) || r.Chance(15) {
		lo := t.gas - 1
		if old != nil && old.gas < t.gas {
			lo = old.gas + uint64(r.Intn(int(t.gas-old.gas)))
		}
		return w.newBlock(parent, parent.block.NumberU64()+1, nil, st, lo), cl + "/gas-limit"
	}
	// balance squeeze: needs a pending predecessor whose nonce the spending transaction can take
	l := v.pending[t.from]
	idx := -1
	for i, x := range l {
		if x.id == t.id {
			idx = i
		}
	}
	if idx < 1 || l[0].nonce != st[t.from].nonce {
		return nil, ""
	}
	var txs []*mtx
	for _, x := range l[:idx-1] {
		if x.cost().Cmp(st[x.from].bal) > 0 {
			return nil, ""
		}
		st[x.from].nonce++
		st[x.from].bal.Sub(st[x.from].bal, x.cost())
		txs = append(txs, x)
	}
	target := new(big.Int).Sub(t.cost(), big.NewInt(int64(1+r.Intn(3))))
	if old != nil && old.cost().Cmp(t.cost()) < 0 {
		span := new(big.Int).Sub(t.cost(), old.cost())
		target = new(big.Int).Add(old.cost(), new(big.Int).Mod(new(big.Int).SetUint64(r.Uint64()), span))
	}
	price := w.uniquePrice(int64(5000 + r.Intn(1000)))
	fee := new(big.Int).Mul(price, big.NewInt(21000))
	val := new(big.Int).Sub(new(big.Int).Sub(st[t.from].bal, fee), target)
	if val.Sign() < 0 || target.Sign() < 0 {
		return nil, ""
	}
	e := w.mkTx(t.from, st[t.from].nonce, price, 21000, val, nil, false)
	st[t.from].nonce++
	st[t.from].bal.Sub(st[t.from].bal, e.cost())
	txs = append(txs, e)
	return w.newBlock(parent, parent.block.NumberU64()+1, txs, st, gas), cl + "/balance"
}

// mineOn builds a child of parent.  With a view it takes prefixes of the pool's pending lists
// (what a miner would do); with pickFrom it re-includes per-sender prefixes of those transactions.
func (w *world) mineOn(parent *blockInfo, v view, pickFrom []*mtx) *blockInfo {
	r := w.r
	st := copySt(parent.st)
	var txs []*mtx
	take := func(l []*mtx) {
		for _, t := range l {
			if t.nonce != st[t.from].nonce || t.cost().Cmp(st[t.from].bal) > 0 {
				break
			}
			st[t.from].nonce++
			st[t.from].bal.Sub(st[t.from].bal, t.cost())
			txs = append(txs, t)
		}
	}
	if pickFrom != nil {
		per := map[int][]*mtx{}
		for _, t := range pickFrom {
			per[t.from] = append(per[t.from], t)
		}
		for a := 0; a < len(w.addrs); a++ {
			l := per[a]
			sort.Slice(l, func(i, j int) bool { return l[i].nonce < l[j].nonce })
			if len(l) > 0 && r.Chance(60) {
				take(l[:r.Intn(len(l)+1)])
			}
		}
	}
	for a := 0; a < len(w.addrs); a++ {
		if l := v.pending[a]; len(l) > 0 && r.Chance(55) {
			take(l[:1+r.Intn(len(l))])
		}
	}
	// transactions the pool never saw; incoming transfers.  A balance goes down only through the account's own
	// transactions (so every chain is self-consistent); a reorganisation can still lower it, because the new
	// branch is built from the ancestor's state and lacks the old branch's incoming transfers.
	for a := range st {
		switch k := r.Intn(100); {
		case k < 6: // transactions the pool never saw (a real chain advances a nonce only through a transaction)
			for n := 1 + r.Intn(2); n > 0; n-- {
				t := w.mkTx(a, st[a].nonce, w.uniquePrice(int64(5000+r.Intn(1000))), 21000, big.NewInt(int64(r.Intn(100))), nil, false)
				if t.cost().Cmp(st[a].bal) > 0 {
					break
				}
				st[a].nonce++
				st[a].bal.Sub(st[a].bal, t.cost())
				txs = append(txs, t)
			}
		case k < 18:
			st[a].bal.Add(st[a].bal, big.NewInt(int64(r.Intn(80000000))))
		case k < 26: // the account spends most of its balance in a transaction the pool never saw
			keep := int64(2 + r.Intn(3))
			if k >= 24 {
				keep = 3000
			}
			val := new(big.Int).Sub(st[a].bal, new(big.Int).Div(st[a].bal, big.NewInt(keep)))
			t := w.mkTx(a, st[a].nonce, w.uniquePrice(int64(5000+r.Intn(1000))), 21000, val, nil, false)
			if t.cost().Cmp(st[a].bal) <= 0 {
				st[a].nonce++
				st[a].bal.Sub(st[a].bal, t.cost())
				txs = append(txs, t)
			}
		}
	}
	gas := parent.gas
	if gas < 1000000 && r.Chance(50) {
		gas = 1000000
	} else if r.Chance(4) {
		gas = []uint64{21500, 22500}[r.Intn(2)]
	}
	return w.newBlock(parent, parent.block.NumberU64()+1, txs, st, gas)
}

// ---------------------------------------------------------------- directed histories (run on every seed)

// directedLeak: former finding removetx-leaks-all-index (fixed in /repo): raise the price threshold above the
// first pending transaction of an account; its successor must be re-queued, not left in pool.all only.
func directedLeak(w *world) []sop {
	t0 := w.mkTx(0, 0, big.NewInt(5), 21000, big.NewInt(100), nil, false)
	t1 := w.mkTx(0, 1, big.NewInt(100), 21000, big.NewInt(100), nil, false)
	return []sop{{kind: "add", class: "directed/leak", t: t0}, {kind: "add", class: "directed/leak", t: t1},
		{kind: "gasprice", class: "directed/leak", price: 50}, {kind: "add", class: "directed/leak-resubmit", t: t1}}
}

// directedGap: finding reset-reinject-leaves-gap-in-pending on a self-consistent chain.
//   block0: A has nonce 0 and a small balance.          block1: A receives a large transfer.
//   pool: A submits nonces 0..3; nonce 1 moves a large value (needs the transfer), the others are cheap.
//   block2 (on block1) mines nonces 0 and 1: pending = [2,3].
//   reorganisation to block1'-block2' (a branch without the transfer, same height): A is back at nonce 0 with the
//   small balance.  reset reinjects nonces 0 and 1; nonce 1 now fails validateTx (insufficient funds); nonce 0 is
//   promoted into the old pending list [2,3] before demoteUnexecutables runs, and demote only looks for a gap in front.
func directedGap(w *world) []sop {
	b0 := w.chain.head
	small := b0.st[0].bal
	st1 := copySt(b0.st)
	st1[0].bal.Add(st1[0].bal, big.NewInt(100000000))
	b1 := w.newBlock(b0, 1, nil, st1, 1000000)
	t0 := w.mkTx(0, 0, big.NewInt(10), 21000, big.NewInt(100), nil, false)
	t1 := w.mkTx(0, 1, big.NewInt(11), 21000, big.NewInt(50000000), nil, false)
	t2 := w.mkTx(0, 2, big.NewInt(12), 21000, big.NewInt(100), nil, false)
	t3 := w.mkTx(0, 3, big.NewInt(13), 21000, big.NewInt(100), nil, false)
	st2 := copySt(st1)
	st2[0].nonce = 2
	st2[0].bal.Sub(st2[0].bal, t0.cost())
	st2[0].bal.Sub(st2[0].bal, t1.cost())
	b2 := w.newBlock(b1, 2, []*mtx{t0, t1}, st2, 1000000)
	st1f := copySt(b0.st) // the other branch: no transfer, nothing of A included
	_ = small
	b1f := w.newBlock(b0, 1, nil, st1f, 1000000)
	b2f := w.newBlock(b1f, 2, nil, copySt(st1f), 1000000)
	return []sop{
		{kind: "head", class: "directed/gap", nb: b1},
		{kind: "add", class: "directed/gap", t: t0}, {kind: "add", class: "directed/gap", t: t1},
		{kind: "add", class: "directed/gap", t: t2}, {kind: "add", class: "directed/gap", t: t3},
		{kind: "head", class: "directed/gap", nb: b2},
		{kind: "head", class: "directed/gap-reorg", nb: b2f, reinjectWant: []*mtx{t0}, touched: []int{0}},
	}
}

// directedCaps: an accepted replacement that costs more (value) or uses more gas than what it replaces, then a head
// whose balance lies in [old cost, new cost) / whose gas limit lies in [old gas, new gas): txList.Filter must not
// short-circuit on stale ceilings.  Then the dual (cheaper replacement, ceilings stale-high: harmless).
func directedCaps(kind string) func(w *world) []sop {
	return func(w *world) []sop {
		b0 := w.chain.head
		t0 := w.mkTx(0, 0, big.NewInt(10), 21000, big.NewInt(100), nil, false)
		t1 := w.mkTx(0, 1, big.NewInt(100), 21000, big.NewInt(1000000), nil, false) // cost 3,100,000
		var t1r *mtx
		switch kind {
		case "cost":
			t1r = w.mkTx(0, 1, big.NewInt(111), 21000, big.NewInt(30000000), nil, false) // cost 32,331,000
		case "gas":
			t1r = w.mkTx(0, 1, big.NewInt(110), 30000, big.NewInt(1000000), nil, false)
		default: // dual
			t1r = w.mkTx(0, 1, big.NewInt(110), 21000, big.NewInt(0), nil, false)
		}
		st := copySt(b0.st)
		gas := uint64(1000000)
		var txs []*mtx
		switch kind {
		case "cost", "dual": // A outbids its own nonce 0 with a transaction that leaves 10,000,000: in [old cost, new cost)
			price := big.NewInt(7000)
			fee := new(big.Int).Mul(price, big.NewInt(21000))
			val := new(big.Int).Sub(new(big.Int).Sub(st[0].bal, fee), big.NewInt(10000000))
			if kind == "dual" { // leave less than the replaced (dropped) transaction cost, more than the replacement costs
				val = new(big.Int).Sub(new(big.Int).Sub(st[0].bal, fee), big.NewInt(2500000))
			}
			e := w.mkTx(0, 0, price, 21000, val, nil, false)
			st[0].nonce = 1
			st[0].bal.Sub(st[0].bal, e.cost())
			txs = []*mtx{e}
		case "gas":
			gas = 25000
		}
		b1 := w.newBlock(b0, 1, txs, st, gas)
		return []sop{
			{kind: "add", class: "directed/caps-" + kind, t: t0}, {kind: "add", class: "directed/caps-" + kind, t: t1},
			{kind: "add", class: "directed/caps-" + kind + "-replace", t: t1r},
			{kind: "head", class: "directed/caps-" + kind + "-squeeze", nb: b1},
		}
	}
}

// directedSlots: both pending-limit loops of promoteExecutables with offenders of different sizes, then a head-free
// continuation (nothing recomputes the virtual nonces): price threshold up and down, submissions at State().GetNonce.
//   config AccountSlots=1 GlobalSlots=4.  A: pending [0], queued [2,3].  B: pending [0,1] (variant "min": [0,1,2]).
//   A submits nonce 1: A has 4 pending, the total overflows; offenders A and B of different sizes are equalised
//   (variant "min": then both reduced towards the minimum allowance).  The senders cut back must get their virtual
//   nonce lowered to the dropped transaction.
func directedSlots(variant string) func(w *world) []sop {
	return func(w *world) []sop {
		mk := func(from int, nonce uint64, price int64) *mtx {
			return w.mkTx(from, nonce, w.uniquePrice(price), 21000, big.NewInt(100), nil, false)
		}
		ops := []sop{
			{kind: "add", class: "directed/slots-" + variant, t: mk(0, 0, 3000)}, {kind: "add", class: "directed/slots-" + variant, t: mk(0, 2, 3100)},
			{kind: "add", class: "directed/slots-" + variant, t: mk(0, 3, 3200)},
			{kind: "add", class: "directed/slots-" + variant, t: mk(1, 0, 10)}, {kind: "add", class: "directed/slots-" + variant, t: mk(1, 1, 11)},
		}
		if variant == "min" {
			ops = append(ops, sop{kind: "add", class: "directed/slots-min", t: mk(1, 2, 12)})
		}
		ops = append(ops,
			sop{kind: "add", class: "directed/slots-" + variant + "-overflow", t: mk(0, 1, 3300)},
			sop{kind: "gasprice", class: "directed/slots-" + variant + "-evict-cheap", price: 500},
			sop{kind: "gasprice", class: "directed/slots-" + variant, price: 1},
			sop{kind: "add", class: "directed/slots-" + variant + "-next", next: true, from: 0, price: 3400},
			sop{kind: "add", class: "directed/slots-" + variant + "-next", next: true, from: 1, price: 3500},
			sop{kind: "add", class: "directed/slots-" + variant + "-next", next: true, from: 0, price: 3600})
		return ops
	}
}

// directedRequeue: known finding removetx-requeue-exceeds-queue-limits (tiny limits).  A alone has pending nonces
// 0..3, nonce 0 is cheap.  SetGasPrice above its price: removeTx drops nonce 0 and re-queues its successors 1,2,3
// without a cap, and SetGasPrice is not followed by promoteExecutables: 3 queued > AccountQueue 2.
func directedRequeue(w *world) []sop {
	mk := func(nonce uint64, price int64) *mtx {
		return w.mkTx(0, nonce, w.uniquePrice(price), 21000, big.NewInt(100), nil, false)
	}
	return []sop{
		{kind: "add", class: "directed/requeue", t: mk(0, 5)}, {kind: "add", class: "directed/requeue", t: mk(1, 100)},
		{kind: "add", class: "directed/requeue", t: mk(2, 101)}, {kind: "add", class: "directed/requeue", t: mk(3, 102)},
		{kind: "gasprice", class: "directed/requeue-evict-first", price: 50},
		{kind: "gasprice", class: "directed/requeue", price: 1},
		{kind: "add", class: "directed/requeue-next", next: true, from: 0, price: 200},
	}
}

// directedFeed: head changes only through the ChainHeadEvent feed (TxPool.loop): growth, reorganisation onto a longer
// branch, onto a sibling of the SAME height, onto a LOWER heavier branch, head rewind, duplicate event.  A submits
// nonces 0..2; block1 mines 0, block2 mines 1, block3 mines 2.
func directedFeed(w *world) []sop {
	b0 := w.chain.head
	mk := func(nonce uint64, price int64) *mtx {
		return w.mkTx(0, nonce, w.uniquePrice(price), 21000, big.NewInt(100), nil, false)
	}
	t0, t1, t2 := mk(0, 100), mk(1, 101), mk(2, 102)
	child := func(parent *blockInfo, txs ...*mtx) *blockInfo {
		st := copySt(parent.st)
		for _, t := range txs {
			st[t.from].nonce++
			st[t.from].bal.Sub(st[t.from].bal, t.cost())
		}
		return w.newBlock(parent, parent.block.NumberU64()+1, txs, st, 1000000)
	}
	b1 := child(b0, t0)
	b2 := child(b1, t1)
	b3 := child(b2, t2)
	b2s := child(b1)             // sibling of block2 (same height as the head block2 when announced after it)
	b3l := child(child(b1))      // longer branch from block1 without t1,t2
	_ = b3
	b1low := child(b0)           // heavier branch of LOWER height: sibling of block1
	ops := []sop{
		{kind: "add", class: "directed/feed", t: t0}, {kind: "add", class: "directed/feed", t: t1}, {kind: "add", class: "directed/feed", t: t2},
		{kind: "head", class: "directed/feed-growth", nb: b1},
		{kind: "head", class: "directed/feed-growth", nb: b2},
		{kind: "head", class: "directed/feed-reorg-same-height", nb: b2s, reinjectWant: []*mtx{t1}, touched: []int{0}},
		{kind: "head", class: "directed/feed-duplicate", nb: b2s},
		{kind: "head", class: "directed/feed-reorg-longer", nb: b3l},
		{kind: "head", class: "directed/feed-reorg-lower", nb: b1low, reinjectWant: []*mtx{t0}, touched: []int{0}},
		{kind: "head", class: "directed/feed-rewind", nb: b0},
		{kind: "head", class: "directed/feed-growth", nb: b1},
	}
	return ops
}

// directedDeep: the boundary of reset's deep-reorganisation guard (|old number - new number| > 64 skips the
// reinjection) and empty branches.  Main chain to #70 with A's nonces 0 and 1 mined in #5 and #6; a side branch
// #5', #6' from #4 with empty blocks.  From #70: to #5' (difference 65: skipped, nothing reinjected), back to #70
// (65: skipped; dropped branch empty), to #6' (64: walked; nonces 0 and 1 are reinjected), back to #70 (64: walked;
// the new branch includes them, the dropped branch is empty).
func directedDeep(w *world) []sop {
	b0 := w.chain.head
	t0 := w.mkTx(0, 0, w.uniquePrice(100), 21000, big.NewInt(100), nil, false)
	t1 := w.mkTx(0, 1, w.uniquePrice(101), 21000, big.NewInt(100), nil, false)
	child := func(parent *blockInfo, txs ...*mtx) *blockInfo {
		st := copySt(parent.st)
		for _, t := range txs {
			st[t.from].nonce++
			st[t.from].bal.Sub(st[t.from].bal, t.cost())
		}
		return w.newBlock(parent, parent.block.NumberU64()+1, txs, st, 1000000)
	}
	main := []*blockInfo{b0}
	for n := 1; n <= 70; n++ {
		switch n {
		case 5:
			main = append(main, child(main[n-1], t0))
		case 6:
			main = append(main, child(main[n-1], t1))
		default:
			main = append(main, child(main[n-1]))
		}
	}
	s5 := child(main[4])
	s6 := child(s5)
	return []sop{
		{kind: "add", class: "directed/deep", t: t0}, {kind: "add", class: "directed/deep", t: t1},
		{kind: "head", class: "directed/deep-growth-far", nb: main[70]}, // not a child of the old head, difference 70: skipped
		{kind: "head", class: "directed/deep-65-skipped", nb: s5},
		{kind: "head", class: "directed/deep-65-skipped-back", nb: main[70]},
		{kind: "head", class: "directed/deep-64-walked", nb: s6, reinjectWant: []*mtx{t0, t1}, touched: []int{0}},
		{kind: "head", class: "directed/deep-64-walked-back", nb: main[70]},
	}
}

// ---------------------------------------------------------------- concurrent variant (direct oracle only)

func (w *world) runConcurrent(pc poolCfg) {
	c := w.c
	saved := w.m
	w.m = nil
	defer func() { w.m = saved }()
	r := w.r
	w.cfgName = pc.name + "-concurrent"
	w.history = []string{"concurrent history (8 goroutines); only the end state is checked against PoolOK"}
	w.orphanSeen = map[int]string{}
	w.gapped = map[int]bool{}
	w.overAQ = map[int]bool{}
	w.unaff = map[int]bool{}
	w.lastRepl, w.replOld = nil, map[int]*mtx{}
	w.gapAfter = map[int]bool{}
	w.overGQ = false
	w.txs = map[common.Hash]*mtx{}
	w.byID = nil
	w.prices = map[string]bool{}
	w.nblocks = 0
	w.addrs = w.addrs[:0]
	w.addrIdx = map[common.Address]int{}
	for i := 0; i < pc.nsenders; i++ {
		a := crypto.PubkeyToAddress(w.keys[i].PubKey())
		w.addrs = append(w.addrs, a)
		w.addrIdx[a] = i
	}
	w.chain = &fakeChain{blocks: map[common.Hash]*blockInfo{}, roots: map[common.Hash]*blockInfo{}, addrs: w.addrs}
	st := make([]acct, pc.nsenders)
	for i := range st {
		st[i] = acct{0, big.NewInt(int64(50000000 + r.Intn(100000000)))}
	}
	cfg := core.TxPoolConfig{Journal: "", PriceLimit: 1, PriceBump: pc.bump, AccountSlots: pc.as, GlobalSlots: pc.gs, AccountQueue: pc.aq, GlobalQueue: pc.gq, Lifetime: 1000 * 3600 * 1e9}
	w.cfg = cfg
	w.chain.head = w.newBlock(nil, 0, nil, st, 1000000)
	w.pool = core.NewTxPool(cfg, params.TestChainConfig, w.chain)
	defer w.pool.Stop()
	// pre-generate the submissions and the heads
	var subs []*mtx
	for i := 0; i < pc.nops; i++ {
		from := r.Intn(pc.nsenders)
		subs = append(subs, w.mkTx(from, uint64(r.Intn(6)), w.uniquePrice(int64(1+r.Intn(3000))), 21000, big.NewInt(int64(r.Intn(1000))), nil, false))
	}
	heads := []*blockInfo{w.chain.head}
	for i := 0; i < 6; i++ {
		var some []*mtx
		for j := 0; j < 3; j++ {
			some = append(some, subs[r.Intn(len(subs))])
		}
		heads = append(heads, w.mineOn(heads[len(heads)-1], view{}, some))
	}
	var wg sync.WaitGroup
	var pmu sync.Mutex
	var panics []string
	for g := 0; g < 8; g++ {
		wg.Add(1)
		go func(g int) {
			defer wg.Done()
			if p, v := vh.CatchPanic(func() {
				for i := g; i < len(subs); i += 8 {
					if i%5 == 0 {
						w.pool.AddLocal(subs[i].tx)
					} else {
						w.pool.AddRemote(subs[i].tx)
					}
					if g == 0 && i%24 == 0 && i/24+1 < len(heads) { // head changes through the real event path
						old, nb := heads[i/24], heads[i/24+1]
						w.chain.mu.Lock()
						w.chain.head = nb
						w.chain.mu.Unlock()
						w.pool.VerifReset(old.block.Header(), nb.block.Header())
					}
					if g == 1 && i%17 == 1 {
						w.pool.SetGasPrice(big.NewInt(int64(1 + i%7)))
					}
					if g == 2 {
						w.pool.Pending()
						w.pool.Stats()
					}
				}
			}); p {
				pmu.Lock()
				panics = append(panics, fmt.Sprint(v))
				pmu.Unlock()
			}
		}(g)
	}
	wg.Wait()
	for _, p := range panics {
		c.Violate("pool-panic/concurrent", "TxPool panicked under concurrent use: "+p, w.replay(""))
	}
	post := w.snapshot()
	after := w.view(post)
	c.Eval(w.cfgName, w.cfgName+"|"+post.main)
	// the orphan classification needs a before-view; in the concurrent run any orphan is reported with the generic class
	w.directOracle(view{pending: map[int][]*mtx{}}, after, post, "concurrent")
}

func main() {
	c := vh.Init("C15")
	log.Root().SetHandler(log.DiscardHandler())
	m := c.StartModel()
	defer m.Close()
	c.Res.Rule = "histories of <=300 operations on a real core.TxPool over a fake chain: local/remote submissions (next nonce, gaps, stale nonces, exact resubmissions, replacements at bump-1/bump/bump+1 percent, same price, +1; costs around the balance; gas at the block limit; bad signatures; oversized), SetGasPrice, head advances mining pending prefixes with balance/nonce/gas-limit changes, reorganisations 1-3 deep (and too deep); tiny (2/4/2/4), medium and default limits, 4-8 senders with real keys. A case is one operation; it is distinct and non-trivial when the pool state after it was not seen before"
	w := &world{c: c, m: m, r: c.Rng, signer: types.NewEIP155Signer(chainID)}
	for i := 0; i < 8; i++ {
		k, _ := btcec.PrivKeyFromBytes(crypto.Keccak256([]byte(fmt.Sprintf("c15-sender-%d", i))))
		w.keys = append(w.keys, k)
	}
	// data-structure level first: exhaustive small-scope sweep of txList against the model's sorted list
	sweepTxList(c, m)
	// directed histories, on every seed
	w.runHistory(poolCfg{name: "default", as: 16, gs: 4096, aq: 64, gq: 1024, bump: 10, nsenders: 2, gp: 1,
		st: []acct{{0, big.NewInt(100000000)}, {0, big.NewInt(100000000)}}, script: directedLeak})
	w.runHistory(poolCfg{name: "default", as: 16, gs: 4096, aq: 64, gq: 1024, bump: 10, nsenders: 2, gp: 1,
		st: []acct{{0, big.NewInt(1000000)}, {0, big.NewInt(100000000)}}, script: directedGap})
	for _, k := range []string{"cost", "gas", "dual"} {
		w.runHistory(poolCfg{name: "default", as: 16, gs: 4096, aq: 64, gq: 1024, bump: 10, nsenders: 2, gp: 1,
			st: []acct{{0, big.NewInt(100000000)}, {0, big.NewInt(100000000)}}, script: directedCaps(k)})
	}
	w.runHistory(poolCfg{name: "tiny", as: 2, gs: 4, aq: 2, gq: 4, bump: 10, nsenders: 2, gp: 1,
		st: []acct{{0, big.NewInt(1000000000)}, {0, big.NewInt(1000000000)}}, script: directedRequeue})
	w.runHistory(poolCfg{name: "default", as: 16, gs: 4096, aq: 64, gq: 1024, bump: 10, nsenders: 2, gp: 1, viaFeed: true,
		st: []acct{{0, big.NewInt(1000000000)}, {0, big.NewInt(1000000000)}}, script: directedFeed})
	for _, feed := range []bool{false, true} {
		w.runHistory(poolCfg{name: "default", as: 16, gs: 4096, aq: 64, gq: 1024, bump: 10, nsenders: 2, gp: 1, viaFeed: feed,
			st: []acct{{0, big.NewInt(1000000000)}, {0, big.NewInt(1000000000)}}, script: directedDeep})
	}
	w.runHistory(poolCfg{name: "default", as: 16, gs: 4096, aq: 64, gq: 1024, bump: 10, nsenders: 2, gp: 1,
		st: []acct{{0, big.NewInt(1000000000)}, {0, big.NewInt(1000000000)}}, script: directedHeap})
	for _, v := range []string{"equalize", "min"} {
		w.runHistory(poolCfg{name: "slots", as: 1, gs: 4, aq: 3, gq: 6, bump: 10, nsenders: 3, gp: 1,
			st: []acct{{0, big.NewInt(1000000000)}, {0, big.NewInt(1000000000)}, {0, big.NewInt(1000000000)}}, script: directedSlots(v)})
	}
	nh := c.Scale(84, 1200)
	for i := 0; i < nh; i++ {
		var pc poolCfg
		switch i % 6 {
		case 5: // deep accounts: 5-12 pending per sender; every third one with a pool small enough to evict by price
			pc = poolCfg{name: "deep", as: 16, gs: 64, aq: 16, gq: 64, bump: 10, nsenders: 1 + c.Rng.Intn(2), nops: 80 + c.Rng.Intn(120), deep: true}
			if i%18 == 5 {
				pc.name, pc.gs, pc.gq = "deep-full", 10, 3
			}
			pc.gp = 1
			for k := 0; k < pc.nsenders; k++ { // balances that afford a dozen transactions at any generated price
				pc.st = append(pc.st, acct{uint64(c.Rng.Intn(2)), big.NewInt(1000000000000)})
			}
		case 4: // slot pressure: any sender with two pending transactions is an offender
			pc = poolCfg{name: "slots", as: 1, gs: 4 + uint64(c.Rng.Intn(3)), aq: 3, gq: 6, bump: 10, nsenders: 3 + c.Rng.Intn(2), nops: 60 + c.Rng.Intn(120)}
		case 0, 1:
			pc = poolCfg{name: "tiny", as: 2, gs: 4, aq: 2, gq: 4, bump: 10, nsenders: 4 + c.Rng.Intn(2), nops: 40 + c.Rng.Intn(120)}
		case 2:
			pc = poolCfg{name: "medium", as: 3, gs: 8, aq: 4, gq: 8, bump: uint64(5 + c.Rng.Intn(20)), nsenders: 5 + c.Rng.Intn(3), nops: 80 + c.Rng.Intn(220)}
		default:
			pc = poolCfg{name: "default", as: 16, gs: 4096, aq: 64, gq: 1024, bump: 10, nsenders: 4 + c.Rng.Intn(5), nops: 60 + c.Rng.Intn(240)}
		}
		pc.nolocals = c.Rng.Chance(10)
		pc.noHeads = pc.name != "default" && !pc.deep && c.Rng.Chance(50)
		pc.viaFeed = !pc.noHeads && c.Rng.Chance(40)
		if pc.viaFeed {
			pc.name += "-feed"
		}
		w.runHistory(pc)
	}
	for i := 0; i < c.Scale(6, 40); i++ {
		w.runConcurrent(poolCfg{name: "tiny", as: 2, gs: 4, aq: 2, gq: 4, bump: 10, nsenders: 6, nops: 160})
	}
	c.Assume("time.Now() is strictly increasing between two promoteTx calls (heartbeats are compared as a logical clock)")
	c.Assume("transactions reach the pool with sender derivation (C12) and IntrinsicGas (C06) computed by the implementation; the model receives them as fields")
	c.Assume("reset is entered synchronously through the verif hook VerifReset (= lockedReset), not through the loop goroutine; lifetime eviction and the journal are not exercised")
	c.Finish()
}
