// c20: correspondence between the passphrase keystore (Go) and the Coq model
// Keystore/KeystoreModel.v, plus the direct oracle for property C20 (keystore
// encryption round-trips and rejects wrong passphrases and tampering).
package main

import (
	"bytes"
	_ "embed"
	"crypto/aes"
	"crypto/cipher"
	"crypto/sha256"
	"encoding/hex"
	"encoding/json"
	"fmt"
	"math/big"
	"os"
	"path/filepath"
	"runtime/debug"
	"strconv"
	"strings"
	"time"

	"github.com/btcsuite/btcd/btcec/v2"
	"gitlab.com/aquachain/aquachain/aqua/accounts"
	"gitlab.com/aquachain/aquachain/aqua/accounts/keystore"
	"gitlab.com/aquachain/aquachain/common"
	"gitlab.com/aquachain/aquachain/core/types"
	"gitlab.com/aquachain/aquachain/crypto"
	"gitlab.com/aquachain/aquachain/verifharness/vh"
	"golang.org/x/crypto/pbkdf2"
	"golang.org/x/text/unicode/norm"
	"golang.org/x/text/width"
	"golang.org/x/crypto/scrypt"
)

var secpN, _ = new(big.Int).SetString("fffffffffffffffffffffffffffffffebaaedce6af48a03bbfd25e8cd0364141", 16)

func zhex(z int64) string {
	if z < 0 {
		return "-0x" + strconv.FormatUint(uint64(-z), 16)
	}
	return "0x" + strconv.FormatInt(z, 16)
}

// ------------------------------------------------------------ JSON -> model input

type member struct {
	present bool
	v       interface{}
}

func lookup(m map[string]interface{}, name string, fold bool) (member, bool) {
	if m == nil {
		return member{}, true
	}
	if v, ok := m[name]; ok {
		return member{true, v}, true
	}
	if !fold {
		return member{}, true
	}
	var found member
	n := 0
	for k, v := range m {
		if strings.EqualFold(k, name) {
			found = member{true, v}
			n++
		}
	}
	return found, n <= 1
}

func jvTok(mb member) (string, bool) {
	if !mb.present {
		return "M", true
	}
	switch x := mb.v.(type) {
	case nil:
		return "N", true
	case string:
		return "S:0x" + hex.EncodeToString([]byte(x)), true
	case json.Number:
		f, err := strconv.ParseFloat(string(x), 64)
		if err != nil {
			return "", false // encoding/json rejects the document (number out of float64 range)
		}
		z := int64(int(f))
		if _, err := strconv.ParseInt(string(x), 10, 64); err == nil {
			return "I:" + zhex(z), true
		}
		return "F:" + zhex(z), true
	case map[string]interface{}:
		return "O", true
	default:
		return "X", true
	}
}

func asMap(mb member) map[string]interface{} {
	if m, ok := mb.v.(map[string]interface{}); ok && mb.present {
		return m
	}
	return nil
}

type parsed struct {
	tok                                 string
	ok                                  bool // the document is a JSON object the model can be asked about
	v1                                  bool
	salt, iv, ct                        []byte
	saltOK, ivOK, ctOK                  bool
	kdf                                 string
	n, r, p, c, dklen                   int64
	nOK, rOK, pOK, cOK, dklenOK, prfOK bool
	prf                                 string
}

func num(mb member) (int64, bool) {
	if x, ok := mb.v.(json.Number); ok && mb.present {
		f, err := strconv.ParseFloat(string(x), 64)
		if err != nil {
			return 0, false
		}
		return int64(int(f)), true
	}
	return 0, false
}
func str(mb member) (string, bool) {
	s, ok := mb.v.(string)
	return s, ok && mb.present
}

func parseFile(js []byte) parsed {
	var top map[string]interface{}
	dec := json.NewDecoder(bytes.NewReader(js))
	dec.UseNumber()
	if err := dec.Decode(&top); err != nil || top == nil {
		return parsed{}
	}
	if dec.More() {
		return parsed{}
	}
	// json.Unmarshal also rejects trailing garbage
	var probe map[string]interface{}
	if json.Unmarshal(js, &probe) != nil {
		return parsed{}
	}
	var toks []string
	good := true
	add := func(mb member, unamb bool) {
		t, ok := jvTok(mb)
		if !ok || !unamb {
			good = false
		}
		toks = append(toks, t)
	}
	get := func(m map[string]interface{}, name string, fold bool) member {
		mb, unamb := lookup(m, name, fold)
		add(mb, unamb)
		return mb
	}
	verExact := get(top, "version", false)
	get(top, "version", true)
	get(top, "address", true)
	get(top, "id", true)
	cr := get(top, "crypto", true)
	crm := asMap(cr)
	get(crm, "cipher", true)
	ctm := get(crm, "ciphertext", true)
	cp := get(crm, "cipherparams", true)
	ivm := get(asMap(cp), "iv", true)
	kdfm := get(crm, "kdf", true)
	kp := get(crm, "kdfparams", true)
	get(crm, "mac", true)
	kpm := asMap(kp)
	saltm := get(kpm, "salt", false)
	dkm := get(kpm, "dklen", false)
	nm := get(kpm, "n", false)
	rm := get(kpm, "r", false)
	pm := get(kpm, "p", false)
	cm := get(kpm, "c", false)
	prfm := get(kpm, "prf", false)
	if !good {
		return parsed{}
	}
	ps := parsed{tok: strings.Join(toks, ","), ok: true}
	if s, ok := verExact.v.(string); ok && s == "1" {
		ps.v1 = true
	}
	if s, ok := str(saltm); ok {
		if b, err := hex.DecodeString(s); err == nil {
			ps.salt, ps.saltOK = b, true
		}
	}
	if s, ok := str(ivm); ok || !ivm.present || ivm.v == nil {
		if b, err := hex.DecodeString(s); err == nil {
			ps.iv, ps.ivOK = b, true
		}
	}
	if s, ok := str(ctm); ok || !ctm.present || ctm.v == nil {
		if b, err := hex.DecodeString(s); err == nil {
			ps.ct, ps.ctOK = b, true
		}
	}
	ps.kdf, _ = str(kdfm)
	ps.n, ps.nOK = num(nm)
	ps.r, ps.rOK = num(rm)
	ps.p, ps.pOK = num(pm)
	ps.c, ps.cOK = num(cm)
	ps.dklen, ps.dklenOK = num(dkm)
	ps.prf, ps.prfOK = str(prfm)
	return ps
}

// ------------------------------------------------------------ primitive tables

func presHex(b []byte, err error, panicked bool) string {
	switch {
	case panicked:
		return "panic"
	case err != nil:
		return "err"
	default:
		return "ok:" + vh.Hex(b)
	}
}

type tables struct {
	kdf, ctr, cbc, addr string
	heavy               bool
	plain               []byte // what the implementation's primitives decrypt to, if they get that far
}

func runKDF(ps parsed, pass []byte, allowHeavy ...bool) (key string, dk []byte, res string, heavy bool) {
	if !ps.saltOK || !ps.dklenOK {
		return "", nil, "", false
	}
	if ps.dklen > 1<<16 || ps.dklen < -(1<<16) {
		return "", nil, "", true
	}
	var err error
	var out []byte
	var pan bool
	switch ps.kdf {
	case "scrypt":
		if !ps.nOK || !ps.rOK || !ps.pOK {
			return "", nil, "", false
		}
		if len(allowHeavy) == 0 && (ps.n > 1<<15 || ps.r > 64 || ps.p > 64 || ps.r*ps.p > 256 || ps.n*ps.r > 1<<19) {
			return "", nil, "", true
		}
		key = fmt.Sprintf("scrypt/%s/%s/%s", zhex(ps.n), zhex(ps.r), zhex(ps.p))
		pan, _ = vh.CatchPanic(func() {
			out, err = scrypt.Key(pass, ps.salt, int(ps.n), int(ps.r), int(ps.p), int(ps.dklen))
		})
	case "pbkdf2":
		if !ps.cOK || !ps.prfOK || ps.prf != "hmac-sha256" {
			return "", nil, "", false
		}
		if ps.c > 1<<16 {
			return "", nil, "", true
		}
		key = "pbkdf2/" + zhex(ps.c)
		pan, _ = vh.CatchPanic(func() { out = pbkdf2.Key(pass, ps.salt, int(ps.c), int(ps.dklen), sha256.New) })
	default:
		return "", nil, "", false
	}
	if !pan && err == nil {
		out = out[:cap(out)] // derivedKey[16:32] re-slices into the capacity
	}
	key += ":" + vh.Hex(pass) + ":" + vh.Hex(ps.salt) + ":" + zhex(ps.dklen)
	return key, out, presHex(out, err, pan), false
}

func makeTables(ps parsed, pass []byte) tables {
	t := tables{"-", "-", "-", "-", false, nil}
	k, dk, res, heavy := runKDF(ps, pass)
	if heavy {
		t.heavy = true
		return t
	}
	if k == "" {
		return t
	}
	t.kdf = k + "=" + res
	if !strings.HasPrefix(res, "ok:") || len(dk) < 32 || !ps.ivOK || !ps.ctOK {
		return t
	}
	var pt []byte
	var err error
	var pan bool
	if ps.v1 {
		key := crypto.Keccak256(dk[:16])[:16]
		pan, _ = vh.CatchPanic(func() { pt, err = keystore.VerifAesCBCDecrypt(key, ps.ct, ps.iv) })
		t.cbc = vh.Hex(key) + ":" + vh.Hex(ps.iv) + ":" + vh.Hex(ps.ct) + "=" + presHex(pt, err, pan)
	} else {
		pan, _ = vh.CatchPanic(func() { pt, err = keystore.VerifAesCTRXOR(dk[:16], ps.ct, ps.iv) })
		t.ctr = vh.Hex(dk[:16]) + ":" + vh.Hex(ps.iv) + ":" + vh.Hex(ps.ct) + "=" + presHex(pt, err, pan)
	}
	if pan || err != nil {
		return t
	}
	t.plain = pt
	vh.CatchPanic(func() {
		a := crypto.PubkeyToAddress(crypto.ToECDSAUnsafe(pt).PubKey())
		t.addr = vh.Hex(pt) + "=" + vh.Hex(a[:])
	})
	return t
}

// ------------------------------------------------------------ observation

type outcome struct {
	s    string // ok <key> <addr> | err | panic
	ok   bool
	key  []byte
	addr common.Address
	pv   interface{}
	stk  string // goroutine stack at the panic
}

func canonKey(k *keystore.Key, plain []byte) []byte {
	got := crypto.FromECDSA(k.PrivateKey)
	if plain != nil && !bytes.Equal(plain, got) {
		// the model reports the decrypted bytes; the implementation the scalar ToECDSAUnsafe made of them
		var norm []byte
		vh.CatchPanic(func() { norm = crypto.FromECDSA(crypto.ToECDSAUnsafe(plain)) })
		if bytes.Equal(norm, got) {
			return plain
		}
	}
	return got
}

func observe(f func() (*keystore.Key, error), plain []byte) (o outcome) {
	defer func() {
		if r := recover(); r != nil {
			o = outcome{s: "panic", pv: r, stk: string(debug.Stack())}
		}
	}()
	k, err := f()
	if err != nil {
		o.s = "err"
		return
	}
	o.key, o.addr, o.ok = canonKey(k, plain), k.Address, true
	o.s = "ok " + vh.Hex(o.key) + " " + vh.Hex(k.Address[:])
	return
}

// panicClass maps a panic of DecryptKey/GetKey to the mechanism it came from, by
// the panic value and the frames on the stack; "" = not a recognised mechanism.
func panicClass(o outcome) string {
	if o.s != "panic" {
		return ""
	}
	pv := fmt.Sprint(o.pv)
	has := func(fr string) bool { return strings.Contains(o.stk, fr) }
	switch {
	case strings.Contains(pv, "interface conversion") && (has("keystore.getKDFKey") || has("keystore.ensureInt")):
		return "kdfparams" // x.(string) / x.(float64) on a missing or mistyped kdfparams member
	case strings.Contains(pv, "divide by zero") && has("scrypt.Key"):
		return "kdfparams" // r or p = 0: scrypt.Key divides by them before validating
	case strings.Contains(pv, "IV length") && (has("cipher.NewCTR") || has("cipher.NewCBCDecrypter")):
		return "iv-length"
	case (strings.Contains(pv, "slice bounds out of range") && (has("keystore.decryptKeyV3") || has("keystore.decryptKeyV1")) && !has("cipher.")) ||
		((strings.Contains(pv, "makeslice") || strings.Contains(pv, "cap out of range") || strings.Contains(pv, "slice bounds out of range")) && has("pbkdf2.Key")):
		return "dklen"
	}
	return ""
}

// onlyIVDiffers: both documents parse, every member the code looks at is identical
// except the IV string, and the new IV is a well-formed 16-byte value
func onlyIVDiffers(a, b parsed) bool {
	if !a.ok || !b.ok || !a.ivOK || len(a.iv) != 16 {
		return false
	}
	ta, tb := strings.Split(a.tok, ","), strings.Split(b.tok, ",")
	if len(ta) != len(tb) {
		return false
	}
	for i := range ta {
		if i != 8 && ta[i] != tb[i] {
			return false
		}
	}
	return ta[8] != tb[8]
}

// onlyVersionDiffers: a v3 document whose version member alone was changed to the string "1"
func onlyVersionDiffers(a, b parsed) bool {
	if !a.ok || !b.ok || !a.v1 || b.v1 {
		return false
	}
	ta, tb := strings.Split(a.tok, ","), strings.Split(b.tok, ",")
	if len(ta) != len(tb) {
		return false
	}
	for i := range ta {
		if i > 1 && ta[i] != tb[i] {
			return false
		}
	}
	return true
}

// ------------------------------------------------------------ file construction

type fileSpec struct {
	kind string // scrypt-v3 | pbkdf2-v3 | scrypt-v1
	js   []byte
	key  *btcec.PrivateKey
	kb   []byte
	addr common.Address
	pass string
}

func pkcs7(b []byte) []byte {
	n := 16 - len(b)%16
	return append(append([]byte{}, b...), bytes.Repeat([]byte{byte(n)}, n)...)
}

func buildManual(r *vh.RNG, kind string, key *btcec.PrivateKey, pass string) []byte {
	kb := crypto.FromECDSA(key)
	addr := crypto.PubkeyToAddress(key.PubKey())
	salt, iv := r.Bytes(32), r.Bytes(16)
	var dk []byte
	var kdfparams string
	kdf := "scrypt"
	if kind == "pbkdf2-v3" {
		kdf = "pbkdf2"
		c := 2 + r.Intn(6)
		dk = pbkdf2.Key([]byte(pass), salt, c, 32, sha256.New)
		kdfparams = fmt.Sprintf(`{"c":%d,"dklen":32,"prf":"hmac-sha256","salt":"%x"}`, c, salt)
	} else {
		dk, _ = scrypt.Key([]byte(pass), salt, 4, 8, 1, 32)
		kdfparams = fmt.Sprintf(`{"dklen":32,"n":4,"p":1,"r":8,"salt":"%x"}`, salt)
	}
	var ct []byte
	ciph, ver := "aes-128-ctr", "3"
	if kind == "scrypt-v1" {
		blk, _ := aes.NewCipher(crypto.Keccak256(dk[:16])[:16])
		pt := pkcs7(kb)
		ct = make([]byte, len(pt))
		cipher.NewCBCEncrypter(blk, iv).CryptBlocks(ct, pt)
		ciph, ver = "aes-128-cbc", `"1"`
	} else {
		blk, _ := aes.NewCipher(dk[:16])
		ct = make([]byte, len(kb))
		cipher.NewCTR(blk, iv).XORKeyStream(ct, kb)
	}
	mac := crypto.Keccak256(dk[16:32], ct)
	return []byte(fmt.Sprintf(`{"address":"%x","crypto":{"cipher":"%s","ciphertext":"%x","cipherparams":{"iv":"%x"},"kdf":"%s","kdfparams":%s,"mac":"%x"},"id":"3198bc9c-6672-5ab3-d995-4942343ae5b6","version":%s}`,
		addr[:], ciph, ct, iv, kdf, kdfparams, mac, ver))
}

func genKey(r *vh.RNG, leadingZeros int) *btcec.PrivateKey {
	for {
		b := r.Bytes(32)
		for i := 0; i < leadingZeros; i++ {
			b[i] = 0
		}
		d := new(big.Int).SetBytes(b)
		if d.Sign() == 0 || d.Cmp(secpN) >= 0 {
			continue
		}
		k, _ := btcec.PrivKeyFromBytes(b)
		return k
	}
}

func genPass(r *vh.RNG, i int) string {
	if i%7 == 5 {
		return edgePass[(i/7)%len(edgePass)]
	}
	if i%7 == 3 || i%7 == 6 {
		return exoticPass[(i/7*2+i%7/6)%len(exoticPass)]
	}
	switch i % 5 {
	case 0:
		return ""
	case 1:
		return strings.Repeat("long passphrase 0123456789 ", 40)[:1024]
	case 2:
		return "пароль-密码-🔑-ñ"
	case 3:
		return "correct horse battery staple"
	default:
		b := r.Bytes(1 + r.Intn(12))
		for i := range b {
			b[i] = 33 + b[i]%94
		}
		return string(b)
	}
}

// ------------------------------------------------------------ the check of one (file, passphrase)

type harness struct {
	c   *vh.Ctx
	m   *vh.Model
	dir string
	n   int
}

// tamperKind: "" for an untouched file; otherwise which member was altered (for signatures)
func (h *harness) check(class string, spec fileSpec, js []byte, pass string, tamper string) {
	c := h.c
	ps := parseFile(js)
	tb := tables{"-", "-", "-", "-", false, nil}
	if ps.ok {
		tb = makeTables(ps, []byte(pass))
		if tb.heavy {
			c.Count("skipped-heavy-kdf-params")
			return
		}
	}
	d := observe(func() (*keystore.Key, error) { return keystore.DecryptKey(js, pass) }, tb.plain)
	h.n++
	fn := filepath.Join(h.dir, fmt.Sprintf("k%d", h.n%64))
	os.WriteFile(fn, js, 0o600)
	g := observe(func() (*keystore.Key, error) { return keystore.VerifGetKey(spec.addr, fn, pass) }, tb.plain)
	key := ""
	if d.ok {
		key = class + "/" + string(js) + "/" + pass
	}
	c.Eval(class, key)
	c.Count("DecryptKey:" + strings.SplitN(d.s, " ", 2)[0])
	c.Count("GetKey:" + strings.SplitN(g.s, " ", 2)[0])
	casetxt := string(js) + " pass=" + strconv.Quote(pass)
	if ps.ok {
		args := " " + ps.tok + " " + vh.Hex([]byte(pass)) + " " + tb.kdf + " " + tb.ctr + " " + tb.cbc + " " + tb.addr
		c.Correspond("DecryptKey~decrypt_key", casetxt, d.s, h.m.Ask("decrypt"+args))
		c.Correspond("keyStorePassphrase.GetKey~get_key", casetxt, g.s, h.m.Ask("getkey "+vh.Hex(spec.addr[:])+args))
	} else {
		c.Count("not-a-json-object(model not asked)")
		if d.s != "err" {
			c.Violate("accepts-malformed-json/"+string(js), "DecryptKey did not reject a malformed document", map[string]string{"json": string(js), "observed": d.s})
		}
	}
	rp := map[string]string{"json": string(js), "passphrase": pass, "right_passphrase": spec.pass, "original_key": vh.Hex(spec.kb), "address": vh.Hex(spec.addr[:]), "decryptkey": d.s, "getkey": g.s, "tampered": tamper, "panic": fmt.Sprint(d.pv)}
	if ps.ok && strings.HasPrefix(tamper, "iv") && d.ok {
		rp["model_args"] = ps.tok + " " + vh.Hex([]byte(pass)) + " " + tb.kdf + " " + tb.ctr + " " + tb.cbc + " " + tb.addr
		if po := parseFile(spec.js); po.ok {
			to := makeTables(po, []byte(pass))
			rp["model_args_original"] = po.tok + " " + vh.Hex([]byte(pass)) + " " + to.kdf + " " + to.ctr + " " + to.cbc + " " + to.addr
		}
	}
	untouched := tamper == "" && pass == spec.pass
	// ---- direct oracle: the property statement on the implementation
	if untouched {
		if !d.ok || !bytes.Equal(d.key, spec.kb) || d.addr != spec.addr || !g.ok || !bytes.Equal(g.key, spec.kb) {
			c.Violate("roundtrip/"+string(js), "a stored key is not recovered with its passphrase", rp)
		}
		return
	}
	if pass != spec.pass {
		if d.ok || g.ok {
			if tamper == "" && kdfEquivalent(pass, spec.pass) {
				c.Violate("passphrase-trailing-nul-equivalent", "unlocking succeeds with the passphrase followed by NUL bytes: HMAC zero-pads keys shorter than its block, so PBKDF2 and scrypt derive the same key for p and p||0x00 (the KDF does not separate these passphrases)", rp)
			} else {
				c.Violate("wrong-passphrase-accepted/"+strconv.Quote(pass)+"/"+string(js), "unlocking succeeded with a different passphrase", rp)
			}
		}
		if d.s == "panic" || g.s == "panic" {
			c.Violate("wrong-passphrase-panic/"+string(js), "panic with a different passphrase", rp)
		}
		return
	}
	// tampered file, right passphrase.  Unlocking (GetKey) is what the property speaks about:
	if g.ok && (!bytes.Equal(g.key, spec.kb) || g.addr != spec.addr) {
		c.Violate("getkey-yields-other-key/"+tamper+"/"+string(js), "GetKey returned a different key or address after tampering", rp)
	}
	for _, o := range []outcome{d, g} {
		if o.s != "panic" {
			continue
		}
		rp["panic"] = fmt.Sprint(o.pv)
		switch cl := panicClass(o); {
		case cl == "kdfparams" && ps.ok:
			c.Count("panic-class/kdfparams/" + tamper)
			c.Violate("decryptkey-panics-malformed-kdfparams", "DecryptKey/GetKey panic on a key file whose kdfparams member is missing or mistyped (getKDFKey / ensureInt type assertions) or whose scrypt r/p is 0 (division inside scrypt.Key)", rp)
		case cl == "iv-length" && ps.ok && !(ps.ivOK && len(ps.iv) == 16):
			c.Count("panic-class/iv-length/" + tamper)
			c.Violate("decryptkey-panics-bad-iv-length", "DecryptKey/GetKey panic on a key file whose IV is not 16 bytes (cipher.NewCTR / NewCBCDecrypter); the MAC does not cover the IV", rp)
		case cl == "dklen" && ps.ok && ps.dklenOK && ps.dklen <= 0:
			c.Count("panic-class/dklen/" + tamper)
			c.Violate("decryptkey-panics-dklen-out-of-range", "DecryptKey/GetKey panic when kdfparams.dklen is 0 or negative (derivedKey[16:32] beyond the KDF output, or makeslice inside pbkdf2.Key)", rp)
		default:
			c.Violate("decryptkey-panic/"+tamper+"/"+fmt.Sprint(o.pv)+"/"+string(js), "DecryptKey/GetKey panic on a tampered key file", rp)
		}
		break
	}
	// bare DecryptKey (Import, Export use it without an address comparison)
	if d.ok && (!bytes.Equal(d.key, spec.kb) || d.addr != spec.addr) {
		if onlyVersionDiffers(ps, parseFile(spec.js)) {
			c.Violate("decryptkey-version-not-authenticated", "bare DecryptKey returns a different key after the version member of a v3 file is changed to \"1\": the MAC does not cover version/cipher, the V1 path skips the cipher check and AES-CBC-decrypts the CTR ciphertext, whose PKCS7 padding is valid for about 1 in 256 files (GetKey rejects it through the address comparison)", rp)
		} else if onlyIVDiffers(ps, parseFile(spec.js)) {
			c.Violate("decryptkey-iv-not-authenticated", "bare DecryptKey returns a different key after an IV edit: the Web3 secret-storage MAC does not cover the IV (GetKey rejects it through the address comparison)", rp)
		} else {
			c.Violate("decryptkey-yields-other-key/"+tamper+"/"+string(js), "DecryptKey returned a different key after tampering", rp)
		}
	}
}

// ------------------------------------------------------------ mutations of the document

type span struct {
	lo, hi int // content of a string literal (without quotes) or a number token
	kind   string
	name   string // member path this token belongs to
	isKey  bool
}

// scan finds string literals and number tokens and labels them with the member they belong to.
func scan(js []byte) []span {
	var out []span
	var path []string
	lastKey := ""
	i := 0
	for i < len(js) {
		ch := js[i]
		switch {
		case ch == '"':
			j := i + 1
			for j < len(js) && js[j] != '"' {
				j++
			}
			k := j + 1
			for k < len(js) && js[k] == ' ' {
				k++
			}
			if k < len(js) && js[k] == ':' {
				lastKey = string(js[i+1 : j])
				out = append(out, span{i + 1, j, "name", strings.Join(append(append([]string{}, path...), lastKey), "."), true})
			} else {
				out = append(out, span{i + 1, j, "string", strings.Join(append(append([]string{}, path...), lastKey), "."), false})
			}
			i = j + 1
		case ch == '{':
			path = append(path, lastKey)
			i++
		case ch == '}':
			if len(path) > 0 {
				path = path[:len(path)-1]
			}
			i++
		case ch == '-' || (ch >= '0' && ch <= '9'):
			j := i
			for j < len(js) && (js[j] == '-' || js[j] == '.' || js[j] == 'e' || js[j] == 'E' || js[j] == '+' || (js[j] >= '0' && js[j] <= '9')) {
				j++
			}
			out = append(out, span{i, j, "number", strings.Join(append(append([]string{}, path...), lastKey), "."), false})
			i = j
		default:
			i++
		}
	}
	return out
}

func tamperLabel(name string) string {
	// ".crypto.kdfparams.n" -> "kdfparams.n"; ".crypto.cipherparams.iv" -> "iv"
	name = strings.TrimPrefix(name, ".")
	name = strings.TrimPrefix(name, "crypto.")
	if name == "cipherparams.iv" {
		return "iv"
	}
	return name
}

func replacements(r *vh.RNG, sp span, old byte, all bool) []byte {
	var cands []byte
	switch sp.kind {
	case "number":
		cands = []byte("0123456789")
	case "name":
		cands = []byte("abcdefghijklmnopqrstuvwxyzABCDEFGHIJKLMNOPQRSTUVWXYZ_1")
	default:
		cands = []byte("0123456789abcdefABCDEFgz-")
	}
	var out []byte
	for _, b := range cands {
		if b != old {
			out = append(out, b)
		}
	}
	if all {
		return out
	}
	// quick: the upper/lower-case twin if there is one, one same-class and one other-class character
	pick := []byte{}
	if old >= 'a' && old <= 'z' {
		pick = append(pick, old-32)
	} else if old >= 'A' && old <= 'Z' {
		pick = append(pick, old+32)
	}
	if len(pick) == 0 || r.Chance(30) {
		pick = append(pick, out[r.Intn(len(out))])
	}
	pick = append(pick, out[len(out)-1-r.Intn(3)])
	return pick
}

func (h *harness) sweepCharacters(spec fileSpec, all bool, stride int) {
	r := h.c.Rng
	for _, sp := range scan(spec.js) {
		for pos := sp.lo + r.Intn(stride); pos < sp.hi; pos += stride {
			for _, b := range replacements(r, sp, spec.js[pos], all) {
				mut := append([]byte{}, spec.js...)
				mut[pos] = b
				label := tamperLabel(sp.name)
				if sp.isKey {
					label += "(name)"
				}
				h.check(spec.kind+"/char/"+sp.kind, spec, mut, spec.pass, label)
			}
		}
	}
}

// structural tampering: members removed, nulled, retyped; lengths and numeric ranges
func (h *harness) structural(spec fileSpec) {
	var doc map[string]interface{}
	d := json.NewDecoder(bytes.NewReader(spec.js))
	d.UseNumber()
	d.Decode(&doc)
	type edit struct {
		label string
		f     func(m map[string]interface{})
	}
	cr := func(m map[string]interface{}) map[string]interface{} { return m["crypto"].(map[string]interface{}) }
	kp := func(m map[string]interface{}) map[string]interface{} {
		return cr(m)["kdfparams"].(map[string]interface{})
	}
	cp := func(m map[string]interface{}) map[string]interface{} {
		return cr(m)["cipherparams"].(map[string]interface{})
	}
	var edits []edit
	alts := []struct {
		tag string
		v   interface{}
	}{{"null", nil}, {"number", json.Number("7")}, {"string", "8"}, {"bool", true}, {"object", map[string]interface{}{}}, {"array", []interface{}{}}, {"float", json.Number("3.5")}, {"exp", json.Number("3e0")}}
	addMember := func(label string, get func(map[string]interface{}) map[string]interface{}, name string) {
		edits = append(edits, edit{label + ":missing", func(m map[string]interface{}) { delete(get(m), name) }})
		for _, a := range alts {
			a := a
			edits = append(edits, edit{label + ":" + a.tag, func(m map[string]interface{}) { get(m)[name] = a.v }})
		}
	}
	top := func(m map[string]interface{}) map[string]interface{} { return m }
	for _, n := range []string{"version", "address", "id", "crypto"} {
		addMember(n, top, n)
	}
	for _, n := range []string{"cipher", "ciphertext", "cipherparams", "kdf", "kdfparams", "mac"} {
		addMember(n, cr, n)
	}
	addMember("iv", cp, "iv")
	for n := range kp(doc) {
		addMember("kdfparams."+n, kp, n)
	}
	for _, n := range []string{"c", "prf", "n", "r", "p"} {
		if _, ok := kp(doc)[n]; !ok {
			n := n
			edits = append(edits, edit{"kdfparams." + n + ":added", func(m map[string]interface{}) { kp(m)[n] = json.Number("2") }})
		}
	}
	for _, v := range []string{"0", "1", "15", "16", "31", "33", "64", "-1", "-32", "65537", "1e2"} {
		v := v
		edits = append(edits, edit{"kdfparams.dklen=" + v, func(m map[string]interface{}) { kp(m)["dklen"] = json.Number(v) }})
	}
	for _, n := range []string{"n", "r", "p", "c"} {
		if _, ok := kp(doc)[n]; ok {
			for _, v := range []string{"0", "1", "3", "-2", "1048576", "1e30"} {
				n, v := n, v
				edits = append(edits, edit{"kdfparams." + n + "=" + v, func(m map[string]interface{}) { kp(m)[n] = json.Number(v) }})
			}
		}
	}
	hexEdit := func(label string, get func(map[string]interface{}) map[string]interface{}, name string) {
		for _, k := range []string{"empty", "drop2", "drop1", "add2", "upper", "0x"} {
			k := k
			edits = append(edits, edit{label + ":" + k, func(m map[string]interface{}) {
				s, _ := get(m)[name].(string)
				switch k {
				case "empty":
					s = ""
				case "drop2":
					s = s[:len(s)-2]
				case "drop1":
					s = s[:len(s)-1]
				case "add2":
					s += "00"
				case "upper":
					s = strings.ToUpper(s)
				case "0x":
					s = "0x" + s
				}
				get(m)[name] = s
			}})
		}
	}
	hexEdit("iv", cp, "iv")
	hexEdit("ciphertext", cr, "ciphertext")
	hexEdit("mac", cr, "mac")
	hexEdit("kdfparams.salt", kp, "salt")
	hexEdit("address", top, "address")
	edits = append(edits, edit{"kdf=other", func(m map[string]interface{}) { cr(m)["kdf"] = "argon2id" }})
	edits = append(edits, edit{"kdf=swap", func(m map[string]interface{}) {
		if cr(m)["kdf"] == "scrypt" {
			cr(m)["kdf"] = "pbkdf2"
		} else {
			cr(m)["kdf"] = "scrypt"
		}
	}})
	edits = append(edits, edit{"cipher=other", func(m map[string]interface{}) { cr(m)["cipher"] = "aes-256-ctr" }})
	edits = append(edits, edit{"version=1", func(m map[string]interface{}) { m["version"] = "1" }})
	edits = append(edits, edit{"version=3", func(m map[string]interface{}) { m["version"] = json.Number("3") }})
	edits = append(edits, edit{"version=2", func(m map[string]interface{}) { m["version"] = json.Number("2") }})
	edits = append(edits, edit{"version=3.0", func(m map[string]interface{}) { m["version"] = json.Number("3.0") }})
	edits = append(edits, edit{"iv=random", func(m map[string]interface{}) { cp(m)["iv"] = hex.EncodeToString(h.c.Rng.Bytes(16)) }})
	for _, e := range edits {
		var cpy map[string]interface{}
		dd := json.NewDecoder(bytes.NewReader(spec.js))
		dd.UseNumber()
		dd.Decode(&cpy)
		e.f(cpy)
		mut, err := json.Marshal(cpy)
		if err != nil {
			continue
		}
		h.check(spec.kind+"/struct", spec, mut, spec.pass, e.label)
	}
	// not JSON objects at all
	for _, raw := range []string{"", "null", "[]", "3", `"x"`, "{", string(spec.js) + "x", string(spec.js[:len(spec.js)-1])} {
		h.check(spec.kind+"/not-object", spec, []byte(raw), spec.pass, "document")
	}
}

func (h *harness) passphrases(spec fileSpec, n int) {
	r := h.c.Rng
	p := []rune(spec.pass)
	var alts []string
	alts = append(alts, spec.pass+" ", " "+spec.pass, spec.pass+"\x00", strings.ToUpper(spec.pass), spec.pass+spec.pass)
	alts = append(alts, unicodeVariants(spec.pass)...)
	if len(p) > 0 {
		alts = append(alts, string(p[:len(p)-1]), string(p[1:]), "")
		for k := 0; k < n; k++ {
			i := r.Intn(len(p))
			q := append([]rune{}, p...)
			q[i] ^= 1 << uint(r.Intn(7))
			alts = append(alts, string(q))
			q = append(append(append([]rune{}, p[:i]...), rune('a'+r.Intn(26))), p[i:]...)
			alts = append(alts, string(q))
			q = append(append([]rune{}, p[:i]...), p[i+1:]...)
			alts = append(alts, string(q))
		}
	} else {
		alts = append(alts, "a", "\x00", " ")
	}
	for _, a := range alts {
		if a == spec.pass {
			continue
		}
		h.check(spec.kind+"/wrong-passphrase", spec, spec.js, a, "")
	}
}

// ------------------------------------------------------------ EncryptKey vs encrypt_key

func (h *harness) encryptCase(r *vh.RNG, key *btcec.PrivateKey, pass string, n, p int, lz int) (fileSpec, bool) {
	c := h.c
	kb := crypto.FromECDSA(key)
	addr := crypto.PubkeyToAddress(key.PubKey())
	k := &keystore.Key{Id: []byte{0x31, 0x98, 0xbc, 0x9c, 0x66, 0x72, 0x4a, 0xb3, 0x99, 0x95, 0x49, 0x42, 0x34, 0x3a, 0xe5, 0xb6}, Address: addr, PrivateKey: key}
	js, err := keystore.EncryptKey(k, pass, n, p)
	spec := fileSpec{kind: "scrypt-v3", js: js, key: key, kb: kb, addr: addr, pass: pass}
	c.Eval(fmt.Sprintf("encrypt/N%d/keylz%d", n, lz), "")
	if err != nil {
		c.Violate("encrypt-fails/"+vh.Hex(kb), "EncryptKey fails", map[string]string{"key": vh.Hex(kb), "err": err.Error()})
		return spec, false
	}
	ps := parseFile(js)
	if !ps.ok || !ps.saltOK || !ps.ivOK {
		c.Fatal("cannot parse the file EncryptKey produced: %s", js)
	}
	kk, dk, res, _ := runKDF(ps, []byte(pass), true) // the parameters are the ones EncryptKey was just given
	ctrT := "-"
	if len(dk) >= 32 {
		ct, err := keystore.VerifAesCTRXOR(dk[:16], kb, ps.iv)
		ctrT = vh.Hex(dk[:16]) + ":" + vh.Hex(ps.iv) + ":" + vh.Hex(kb) + "=" + presHex(ct, err, false)
	}
	// direct oracle (KDF input): the MAC of the written file is the one derived from exactly []byte(passphrase)
	if len(dk) >= 32 && ps.ctOK {
		var doc struct {
			Crypto struct {
				MAC string `json:"mac"`
			} `json:"crypto"`
		}
		json.Unmarshal(js, &doc)
		if hex.EncodeToString(crypto.Keccak256(dk[16:32], ps.ct)) != doc.Crypto.MAC {
			form := "unknown"
			for name, f := range map[string]string{"NFC": norm.NFC.String(pass), "NFD": norm.NFD.String(pass), "NFKC": norm.NFKC.String(pass), "NFKD": norm.NFKD.String(pass), "lower": strings.ToLower(pass), "trimmed": strings.TrimSpace(pass)} {
				if alt, e := scrypt.Key([]byte(f), ps.salt, n, 8, p, 32); e == nil && hex.EncodeToString(crypto.Keccak256(alt[16:32], ps.ct)) == doc.Crypto.MAC {
					form = name
				}
			}
			c.Violate("kdf-input-not-passphrase-bytes/"+form+"/"+strconv.Quote(pass), "EncryptKey derived the key from something other than the bytes of the passphrase ("+form+" form)", map[string]string{"json": string(js), "passphrase": pass, "right_passphrase": pass, "original_key": vh.Hex(kb), "address": vh.Hex(addr[:]), "tampered": ""})
		}
	}
	idstr := k.Id.String()
	req := fmt.Sprintf("encrypt 0x%x %s %s %s %s %s %d %d %s %s", new(big.Int).SetBytes(kb), vh.Hex(addr[:]), vh.Hex([]byte(idstr)), vh.Hex([]byte(pass)), vh.Hex(ps.salt), vh.Hex(ps.iv), n, p, kk+"="+res, ctrT)
	c.Correspond("EncryptKey~encrypt_key", string(js), "ok "+ps.tok, h.m.Ask(req))
	return spec, true
}

// ------------------------------------------------------------ KeyStore API flow

func (h *harness) keystoreFlow(r *vh.RNG, i int) {
	c := h.c
	dir, _ := os.MkdirTemp(h.dir, "ks")
	ks := keystore.NewKeyStore(dir, 2, 1)
	pass, pass2, pass3 := genPass(r, i), genPass(r, i+1)+"x", genPass(r, i+2)+"yz"
	fail := func(step string, detail interface{}) {
		c.Violate("keystore-flow/"+step, "KeyStore API sequence breaks the round trip", map[string]interface{}{"step": step, "detail": fmt.Sprint(detail), "passphrases": []string{pass, pass2, pass3}, "seed": c.Seed, "flow": i})
	}
	c.Eval("keystore-flow", fmt.Sprintf("flow%d", i))
	var acc accounts.Account
	var err error
	var want []byte
	if i%2 == 0 {
		acc, err = ks.NewAccount(pass)
	} else {
		key := genKey(r, 1+i%3)
		want = crypto.FromECDSA(key)
		acc, err = ks.ImportECDSA(key, pass)
	}
	if err != nil {
		fail("create", err)
		return
	}
	hash := r.Bytes(32)
	signer := func(ks *keystore.KeyStore, a accounts.Account) (common.Address, error) {
		sig, err := ks.SignHashAllowed(a, hash)
		if err != nil {
			return common.Address{}, err
		}
		pub, err := crypto.SigToPub(hash, sig)
		if err != nil {
			return common.Address{}, err
		}
		return crypto.PubkeyToAddress(pub), nil
	}
	if err := ks.Unlock(acc, pass+"!"); err == nil {
		fail("unlock-wrong-passphrase", "accepted")
	}
	if _, err := signer(ks, acc); err == nil {
		fail("sign-while-locked", "signed")
	}
	if err := ks.Unlock(acc, pass); err != nil {
		fail("unlock", err)
		return
	}
	if a, err := signer(ks, acc); err != nil || a != acc.Address {
		fail("sign-after-unlock", fmt.Sprint(a, err))
	}
	exp, err := ks.Export(acc, pass, pass2)
	if err != nil {
		fail("export", err)
		return
	}
	if _, err := ks.Export(acc, pass+"?", pass2); err == nil {
		fail("export-wrong-passphrase", "accepted")
	}
	k, err := keystore.DecryptKey(exp, pass2)
	if err != nil || k.Address != acc.Address || (want != nil && !bytes.Equal(crypto.FromECDSA(k.PrivateKey), want)) {
		fail("decrypt-exported", err)
		return
	}
	if _, err := keystore.DecryptKey(exp, pass); err == nil && pass != pass2 {
		fail("decrypt-exported-old-passphrase", "accepted")
	}
	orig := crypto.FromECDSA(k.PrivateKey)
	dir2, _ := os.MkdirTemp(h.dir, "ks")
	ks2 := keystore.NewKeyStore(dir2, 2, 1)
	acc2, err := ks2.Import(exp, pass2, pass3)
	if err != nil || acc2.Address != acc.Address {
		fail("import", err)
		return
	}
	if _, err := ks2.Import(exp, pass3, pass3); err == nil && pass3 != pass2 {
		fail("import-wrong-passphrase", "accepted")
	}
	if err := ks2.Unlock(acc2, pass3); err != nil {
		fail("unlock-imported", err)
	}
	if a, err := signer(ks2, acc2); err != nil || a != acc.Address {
		fail("sign-imported", fmt.Sprint(a, err))
	}
	if err := ks.Update(acc, pass, pass3); err != nil {
		fail("update", err)
		return
	}
	ks.Lock(acc.Address)
	if err := ks.Unlock(acc, pass); err == nil && pass != pass3 {
		fail("unlock-old-passphrase-after-update", "accepted")
	}
	if err := ks.Unlock(acc, pass3); err != nil {
		fail("unlock-after-update", err)
	}
	// TimedUnlock: wrong passphrase refused; signs for the right address while unlocked; locked again after the timeout
	ks.Lock(acc.Address)
	if err := ks.TimedUnlock(acc, pass3+"x", 50*time.Millisecond); err == nil {
		fail("timed-unlock-wrong-passphrase", "accepted")
	}
	if _, err := signer(ks, acc); err == nil {
		fail("sign-after-refused-timed-unlock", "signed")
	}
	tStart := time.Now()
	if i != 0 && !c.Thorough() {
		c.Count("keystore-flow/real-time-part-only-in-flow-0")
	} else if err := ks.TimedUnlock(acc, pass3, 2*time.Second); err != nil {
		fail("timed-unlock", err)
	} else {
		if a, err := signer(ks, acc); time.Since(tStart) > time.Second {
			c.Count("keystore-flow/timed-unlock-undecided(machine too slow)")
		} else if err != nil || a != acc.Address {
			fail("sign-after-timed-unlock", fmt.Sprint(a, err))
		}
		if !keystore.NoSignMode() {
			tx := types.NewTransaction(1, common.Address{7}, big.NewInt(1), 21000, big.NewInt(1), nil)
			for _, cid := range []*big.Int{nil, big.NewInt(61717561)} {
				stx, err := ks.SignTx(acc, tx, cid)
				var sg types.Signer = types.HomesteadSigner{}
				if cid != nil {
					sg = types.NewEIP155Signer(cid)
				}
				if err != nil {
					fail("signtx-after-unlock", err)
				} else if a, err := types.Sender(sg, stx); err != nil || a != acc.Address {
					fail("signtx-sender", fmt.Sprint(a, err))
				}
			}
			if sig, err := ks.SignHashWithPassphrase(acc, pass3, hash); err != nil {
				fail("sign-with-passphrase", err)
			} else if pub, err := crypto.SigToPub(hash, sig); err != nil || crypto.PubkeyToAddress(pub) != acc.Address {
				fail("sign-with-passphrase-address", err)
			}
			if _, err := ks.SignHashWithPassphrase(acc, pass3+"z", hash); err == nil {
				fail("sign-with-wrong-passphrase", "signed")
			}
		}
		// expiry must come eventually: poll well beyond the timeout before raising an alarm
		expired := false
		for time.Since(tStart) < 30*time.Second {
			if _, err := signer(ks, acc); err != nil {
				expired = true
				break
			}
			time.Sleep(100 * time.Millisecond)
		}
		if !expired {
			fail("sign-after-timed-unlock-expired", "still signing 30 s after a 2 s timed unlock")
		}
	}
	// tamper with the stored file: IV edit, then unlock must fail or keep the address
	raw, _ := os.ReadFile(acc.URL.Path)
	var doc map[string]interface{}
	json.Unmarshal(raw, &doc)
	doc["crypto"].(map[string]interface{})["cipherparams"].(map[string]interface{})["iv"] = hex.EncodeToString(r.Bytes(16))
	mut, _ := json.Marshal(doc)
	os.WriteFile(acc.URL.Path, mut, 0o600)
	ks.Lock(acc.Address)
	uerr := ks.Unlock(acc, pass3)
	if uerr == nil {
		if a, err := signer(ks, acc); err == nil && a != acc.Address {
			fail("unlock-after-iv-tamper", "signs as "+a.Hex())
		}
		k2, err := keystore.VerifGetKey(acc.Address, acc.URL.Path, pass3)
		if err == nil && !bytes.Equal(crypto.FromECDSA(k2.PrivateKey), orig) {
			fail("getkey-after-iv-tamper", "different key")
		}
	}
	c.Count(fmt.Sprintf("keystore-flow/unlock-after-iv-tamper:%v", uerr == nil))
}

// ------------------------------------------------------------ Unicode: the passphrase is a byte string

// exotic passphrases: not in NFKC/NFC form, or not valid UTF-8 at all.  The key derivation must see exactly these bytes.
var exoticPass = []string{
	"pＡssword",          // full-width A
	"ﬁsh and chips",     // ligature fi
	"secret ²",          // superscript two
	"école",            // e + combining acute (NFD form)
	"Ångström",     // Angstrom sign
	"K elvin 273",       // Kelvin sign
	"\x80\xfe\xff\xc3 bytes", // invalid UTF-8
	"Ǆungla ẛ̣", // DZ-caron digraph, long s with dots
}

// unicodeVariants: passphrases a user (or a normalising implementation) would consider "the same" but that are
// different byte strings: they must be rejected
func unicodeVariants(p string) []string {
	seen := map[string]bool{p: true}
	var out []string
	add := func(v string) {
		if !seen[v] && !kdfEquivalent(v, p) {
			seen[v] = true
			out = append(out, v)
		}
	}
	add(norm.NFC.String(p))
	add(norm.NFD.String(p))
	add(norm.NFKC.String(p))
	add(norm.NFKD.String(p))
	add(width.Fold.String(p))
	add(width.Narrow.String(p))
	add(width.Widen.String(p))
	add(strings.ToLower(p))
	add(strings.ToUpper(p))
	add(strings.ToValidUTF8(p, "�"))
	add(norm.NFKC.String(strings.ToLower(p)))
	return out
}

//go:embed testdata/corpus.json
var corpusJSON []byte

type corpusEntry struct {
	Kind       string `json:"kind"`
	Passphrase string `json:"passphrase_hex"`
	Key        string `json:"key_hex"`
	Address    string `json:"address"`
	JSON       string `json:"json"`
}

// writeCorpus generates the committed corpus ONCE with the code as it is at that moment
func writeCorpus(path string) {
	r := vh.NewRNG(20260923)
	var ents []corpusEntry
	for i, p := range exoticPass {
		for _, kind := range []string{"scrypt-v3", "pbkdf2-v3", "scrypt-v1"} {
			key := genKey(r, i%3)
			var js []byte
			if kind == "scrypt-v3" {
				n, pp := 4, 1
				if i < 3 {
					n, pp = keystore.LightScryptN, keystore.LightScryptP
				}
				k := &keystore.Key{Id: []byte{0x31, 0x98, 0xbc, 0x9c, 0x66, 0x72, 0x4a, 0xb3, 0x99, 0x95, 0x49, 0x42, 0x34, 0x3a, 0xe5, 0xb6}, Address: crypto.PubkeyToAddress(key.PubKey()), PrivateKey: key}
				var err error
				if js, err = keystore.EncryptKey(k, p, n, pp); err != nil {
					panic(err)
				}
			} else {
				js = buildManual(r, kind, key, p)
			}
			a := crypto.PubkeyToAddress(key.PubKey())
			ents = append(ents, corpusEntry{kind, hex.EncodeToString([]byte(p)), hex.EncodeToString(crypto.FromECDSA(key)), hex.EncodeToString(a[:]), string(js)})
		}
	}
	b, _ := json.MarshalIndent(ents, "", " ")
	if err := os.WriteFile(path, b, 0o644); err != nil {
		panic(err)
	}
	fmt.Println("wrote", len(ents), "corpus entries to", path)
}

func (h *harness) corpus() {
	c := h.c
	var ents []corpusEntry
	if err := json.Unmarshal(corpusJSON, &ents); err != nil || len(ents) == 0 {
		c.Fatal("committed corpus testdata/corpus.json unusable: %v", err)
	}
	for i, e := range ents {
		pass, _ := hex.DecodeString(e.Passphrase)
		kb, _ := hex.DecodeString(e.Key)
		spec := fileSpec{kind: "corpus/" + e.Kind, js: []byte(e.JSON), kb: kb, addr: common.HexToAddress(e.Address), pass: string(pass)}
		h.check("corpus/"+e.Kind+"/own-passphrase", spec, spec.js, spec.pass, "")
		vs := unicodeVariants(spec.pass)
		if strings.Contains(e.JSON, `"n":4096`) && !c.Thorough() && len(vs) > 3 {
			vs = vs[:2] // light scrypt: a few variants in the quick tier
		}
		for _, v := range vs {
			h.check("corpus/"+e.Kind+"/unicode-equivalent-passphrase", spec, spec.js, v, "")
		}
		_ = i
	}
}

// attackerMACs: weakened KDF parameters with the MAC recomputed for a degenerate (empty / all-zero) MAC key, which
// an attacker can do without the passphrase.  Nothing of this may open with any passphrase.
func (h *harness) attackerMACs(spec fileSpec) {
	var doc map[string]interface{}
	d := json.NewDecoder(bytes.NewReader(spec.js))
	d.UseNumber()
	d.Decode(&doc)
	cr := doc["crypto"].(map[string]interface{})
	kp := cr["kdfparams"].(map[string]interface{})
	ct, _ := hex.DecodeString(cr["ciphertext"].(string))
	for _, dklen := range []int{0, 1, 15, 16, 17, 31, 32, 48} {
		z := dklen - 16
		if z < 0 {
			z = 0
		}
		macs := map[string][]byte{"mac=keccak(ct)": crypto.Keccak256(ct), "mac=keccak(0^16|ct)": crypto.Keccak256(make([]byte, 16), ct), "mac=keccak(0^(dklen-16)|ct)": crypto.Keccak256(make([]byte, z), ct)}
		for name, mac := range macs {
			kp["dklen"] = json.Number(strconv.Itoa(dklen))
			cr["mac"] = hex.EncodeToString(mac)
			mut, _ := json.Marshal(doc)
			for _, pass := range []string{spec.pass + "?", "attacker", spec.pass} {
				if pass == spec.pass && dklen == 32 {
					continue
				}
				label := fmt.Sprintf("kdfparams.dklen=%d,%s", dklen, name)
				if pass == spec.pass {
					h.check(spec.kind+"/attacker-mac", spec, mut, pass, label)
				} else {
					h.checkForged(spec, mut, pass, label)
				}
			}
		}
	}
}

// checkForged: a document an attacker assembled without the passphrase, tried with some passphrase
func (h *harness) checkForged(spec fileSpec, js []byte, pass, label string) {
	c := h.c
	ps := parseFile(js)
	if !ps.ok {
		return
	}
	tb := makeTables(ps, []byte(pass))
	if tb.heavy {
		return
	}
	d := observe(func() (*keystore.Key, error) { return keystore.DecryptKey(js, pass) }, tb.plain)
	c.Eval(spec.kind+"/attacker-mac/any-passphrase", "")
	args := " " + ps.tok + " " + vh.Hex([]byte(pass)) + " " + tb.kdf + " " + tb.ctr + " " + tb.cbc + " " + tb.addr
	c.Correspond("DecryptKey~decrypt_key", string(js)+" pass="+strconv.Quote(pass), d.s, h.m.Ask("decrypt"+args))
	if d.ok {
		c.Violate("forged-file-accepted/"+label+"/"+strconv.Quote(pass)+"/"+string(js), "a key file whose MAC was recomputed without the passphrase (weakened dklen, degenerate MAC key) is accepted by DecryptKey with a passphrase that is not the file's",
			map[string]string{"json": string(js), "passphrase": pass, "right_passphrase": spec.pass, "original_key": vh.Hex(spec.kb), "address": vh.Hex(spec.addr[:]), "tampered": label, "decryptkey": d.s, "forged": "1"})
	} else if d.s == "panic" && panicClass(d) != "dklen" {
		c.Violate("decryptkey-panic/"+label+"/"+fmt.Sprint(d.pv)+"/"+string(js), "DecryptKey panics on a forged key file", map[string]string{"json": string(js), "passphrase": pass})
	} else if d.s == "panic" {
		c.Count("panic-class/dklen/" + label)
	}
}

// ------------------------------------------------------------ stateful KeyStore histories

const (
	shortUnlock = 300 * time.Millisecond
	waitSleep   = 700 * time.Millisecond
	timeMargin  = 80 * time.Millisecond
)

type hviol struct {
	sig, what string
	step      int
}

type hresult struct {
	toks      []string // the operations as generated (replayable)
	mtoks     []string // the same for the model
	obs       []string // per step: ok|err[:detail]:<lock letters>
	viols     []hviol
	ambiguous bool // stopped early: a timed unlock could not be placed before/after an operation with certainty
}

func hx(p string) string { return "0x" + hex.EncodeToString([]byte(p)) }

// kdfEquivalent: the KDFs see the passphrase as an HMAC key; keys of at most 64 bytes are zero-padded,
// so two such passphrases that differ only in trailing NUL bytes derive the same key (known finding)
func kdfEquivalent(p, q string) bool {
	if p == q {
		return true
	}
	return len(p) <= 64 && len(q) <= 64 && strings.TrimRight(p, "\x00") == strings.TrimRight(q, "\x00")
}

var edgePass = []string{"", "\x00", strings.Repeat("k", 64), strings.Repeat("L", 65), strings.Repeat("z", 63) + "\x00", "a\x00b"}

func wrongPass(r *vh.RNG, cur string, others []string) string {
	for {
		var w string
		p := []rune(cur)
		switch r.Intn(8) {
		case 0:
			w = ""
		case 1:
			w = cur + "x"
		case 2:
			if len(p) > 0 {
				w = string(p[:len(p)-1])
			}
		case 3:
			if len(p) > 0 {
				q := append([]rune{}, p...)
				q[r.Intn(len(q))] ^= 1
				w = string(q)
			}
		case 4:
			w = cur + "é"
		case 5:
			w = strings.ToUpper(cur)
		case 6:
			w = others[r.Intn(len(others))]
		default:
			w = " " + cur
		}
		if vs := unicodeVariants(cur); len(vs) > 0 && r.Chance(40) {
			w = vs[r.Intn(len(vs))]
		}
		if !kdfEquivalent(w, cur) {
			return w
		}
	}
}

// genHistory: a random operation sequence over 2-3 accounts; the generator only tracks what it needs to
// choose right / wrong passphrases (current passphrase of each account)
func genHistory(r *vh.RNG, n int) []string {
	nacc := 2 + r.Intn(2)
	base := []string{"alpha pass", "пароль-Б", "", "gamma#3"}
	off := r.Intn(4)
	var cur []string
	var toks []string
	for i := 0; i < nacc; i++ {
		p := base[(off+i)%4]
		if r.Chance(30) {
			p = edgePass[r.Intn(len(edgePass))]
		} else if r.Chance(35) {
			p = exoticPass[r.Intn(len(exoticPass))]
		}
		cur = append(cur, p)
		kind := "new"
		if r.Bool() {
			kind = "imp"
		}
		toks = append(toks, kind+":"+hx(p))
	}
	waits := 0
	fresh := 0
	for len(toks) < n {
		i := r.Intn(nacc)
		pass := cur[i]
		right := r.Chance(45)
		if !right {
			pass = wrongPass(r, cur[i], cur)
		}
		switch r.Intn(12) {
		case 0, 1, 2:
			toks = append(toks, fmt.Sprintf("tun:%d:%s:0", i, hx(pass)))
		case 3:
			toks = append(toks, fmt.Sprintf("tun:%d:%s:%s", i, hx(pass), []string{"S", "L"}[r.Intn(2)]))
		case 4:
			toks = append(toks, fmt.Sprintf("lock:%d", i))
		case 5:
			fresh++
			np := fmt.Sprintf("%s/new%d", cur[i], fresh)
			switch r.Intn(4) {
			case 0:
				np = edgePass[r.Intn(len(edgePass))] // "", a single NUL, 64 / 65 bytes, ...
			case 1:
				np = cur[i] // equal to the old one
			}
			toks = append(toks, fmt.Sprintf("upd:%d:%s:%s", i, hx(pass), hx(np)))
			if right {
				cur[i] = np // (a deleted account keeps refusing; harmless for the generator)
			}
		case 6:
			toks = append(toks, fmt.Sprintf("exp:%d:%s", i, hx(pass)))
		case 7:
			if r.Chance(25) {
				toks = append(toks, fmt.Sprintf("del:%d:%s", i, hx(pass)))
			} else {
				toks = append(toks, fmt.Sprintf("%s:%d", []string{"sig", "sgh", "stx"}[r.Intn(3)], i))
			}
		case 8, 9:
			toks = append(toks, fmt.Sprintf("%s:%d", []string{"sig", "sgh", "stx"}[r.Intn(3)], i))
		case 10:
			toks = append(toks, fmt.Sprintf("swp:%d:%s", i, hx(pass)))
		default:
			if waits < 2 {
				waits++
				toks = append(toks, "wait")
			}
		}
	}
	return toks
}

func unhx(s string) string { return string(vh.UnHex(s)) }

// runHistory executes the operations on one KeyStore and evaluates the property after every step
func runHistory(dir string, toks []string, seed uint64, realTime ...bool) hresult {
	logical := len(realTime) == 0 // expiry driven by the logical clock (VerifFireExpiry); real timers only when asked

	res := hresult{toks: toks}
	ks := keystore.NewKeyStore(dir, 2, 1)
	r := vh.NewRNG(seed)
	type acct struct {
		acc    accounts.Account
		pass   string // the passphrase the stored file is encrypted with (reference)
		exists bool
		key    []byte // known only for imported keys
		lo, hi time.Time
		timed  bool
	}
	var accts []*acct
	probeHash := crypto.Keccak256([]byte("probe"))
	noSign := keystore.NoSignMode()
	signOK := func(sig []byte, err error, a *acct, h []byte) string {
		if err != nil {
			return "err"
		}
		pub, perr := crypto.SigToPub(h, sig)
		if perr != nil || crypto.PubkeyToAddress(pub) != a.acc.Address {
			return "ok-wrong-address"
		}
		return "ok"
	}
	locks := func() string {
		var b strings.Builder
		for _, a := range accts {
			sig, err := ks.SignHashAllowed(a.acc, probeHash)
			switch signOK(sig, err, a, probeHash) {
			case "ok":
				b.WriteByte('u')
			case "err":
				b.WriteByte('l')
			default:
				b.WriteByte('!')
			}
		}
		return b.String()
	}
	viol := func(step int, class, what string) {
		res.viols = append(res.viols, hviol{"keystore-history/" + class, what, step})
	}
	for k, tok := range toks {
		f := strings.Split(tok, ":")
		var a *acct
		idx := -1
		if len(f) > 1 && f[0] != "new" && f[0] != "imp" {
			idx, _ = strconv.Atoi(f[1])
			a = accts[idx]
		}
		before := locks()
		var fileBefore []byte
		if a != nil && a.exists {
			fileBefore, _ = os.ReadFile(a.acc.URL.Path)
		}
		start := time.Now()
		out := ""
		mtok := tok
		hasPass, pass := false, ""
		var err error
		switch f[0] {
		case "new", "imp":
			p := unhx(f[1])
			na := &acct{pass: p, exists: true}
			if f[0] == "new" {
				na.acc, err = ks.NewAccount(p)
			} else {
				key := genKey(r, 1+r.Intn(3))
				na.key = crypto.FromECDSA(key)
				na.acc, err = ks.ImportECDSA(key, p)
			}
			accts = append(accts, na)
			mtok = "new:" + f[1]
		case "tun":
			hasPass, pass = true, unhx(f[2])
			switch f[3] {
			case "0":
				err = ks.Unlock(a.acc, pass)
			case "S":
				if logical {
					err = ks.TimedUnlock(a.acc, pass, time.Hour)
				} else {
					err = ks.TimedUnlock(a.acc, pass, shortUnlock)
				}
				mtok = fmt.Sprintf("tun:%d:%s:10", idx, f[2])
			default:
				err = ks.TimedUnlock(a.acc, pass, time.Hour)
				mtok = fmt.Sprintf("tun:%d:%s:1000000", idx, f[2])
			}
		case "lock":
			err = ks.Lock(a.acc.Address)
		case "upd":
			hasPass, pass = true, unhx(f[2])
			err = ks.Update(a.acc, pass, unhx(f[3]))
		case "exp":
			hasPass, pass = true, unhx(f[2])
			var js []byte
			ep := []string{pass + "-exported", "", "\x00", strings.Repeat("E", 64), pass}[(k+idx)%5]
			js, err = ks.Export(a.acc, pass, ep)
			if err == nil {
				kk, derr := keystore.DecryptKey(js, ep)
				if derr == nil && !kdfEquivalent(ep, pass+"#") {
					if _, e2 := keystore.DecryptKey(js, ep+"#"); e2 == nil {
						out = "ok-bad-export"
					}
				}
				if derr != nil || kk.Address != a.acc.Address || (a.key != nil && !bytes.Equal(crypto.FromECDSA(kk.PrivateKey), a.key)) {
					out = "ok-bad-export"
				}
			}
		case "del":
			hasPass, pass = true, unhx(f[2])
			err = ks.Delete(a.acc, pass)
		case "sig", "sgh", "stx":
			mtok = fmt.Sprintf("sig:%d", idx)
			h := r.Bytes(32)
			switch {
			case f[0] == "sgh" && !noSign:
				sig, e := ks.SignHash(a.acc, h)
				out = signOK(sig, e, a, h)
			case f[0] == "stx" && !noSign:
				cid := []*big.Int{nil, big.NewInt(61717561)}[r.Intn(2)]
				tx, e := ks.SignTx(a.acc, types.NewTransaction(1, common.Address{9}, big.NewInt(1), 21000, big.NewInt(1), nil), cid)
				out = "err"
				if e == nil {
					var sg types.Signer = types.HomesteadSigner{}
					if cid != nil {
						sg = types.NewEIP155Signer(cid)
					}
					out = "ok-wrong-address"
					if from, e2 := types.Sender(sg, tx); e2 == nil && from == a.acc.Address {
						out = "ok"
					}
				}
			default:
				sig, e := ks.SignHashAllowed(a.acc, h)
				out = signOK(sig, e, a, h)
			}
		case "swp":
			hasPass, pass = true, unhx(f[2])
			h := r.Bytes(32)
			if noSign {
				// SignHashWithPassphrase is disabled in this process; use the same path it takes (getDecryptedKey)
				_, e := ks.Export(a.acc, pass, "x")
				out = "err"
				if e == nil {
					out = "ok"
				}
			} else {
				sig, e := ks.SignHashWithPassphrase(a.acc, pass, h)
				out = signOK(sig, e, a, h)
			}
		case "wait":
			if logical {
				for _, x := range accts {
					if x.timed {
						ks.VerifFireExpiry(x.acc.Address)
						x.timed = false
					}
				}
			} else {
				time.Sleep(waitSleep)
			}
			for _, x := range accts {
				if x.timed {
					for time.Now().Before(x.hi.Add(timeMargin)) {
						time.Sleep(20 * time.Millisecond)
					}
					x.timed = false
				}
			}
			mtok = "wait:20"
		}
		end := time.Now()
		if out == "" {
			out = "ok"
			if err != nil {
				out = "err"
			}
		}
		// a pending short unlock must lie clearly in the future, otherwise what this step should have seen is undecided
		for _, x := range accts {
			if !logical && x.timed && !end.Before(x.lo.Add(-timeMargin)) {
				res.ambiguous = true
			}
		}
		if res.ambiguous {
			break
		}
		after := locks()
		if t2 := time.Now(); true {
			for _, x := range accts {
				if !logical && x.timed && !t2.Before(x.lo.Add(-timeMargin)) {
					res.ambiguous = true
				}
			}
			if res.ambiguous {
				break
			}
		}
		res.mtoks = append(res.mtoks, mtok)
		res.obs = append(res.obs, out+":"+after)
		// ---- the property, evaluated on the implementation (independent of the model)
		if strings.Contains(after, "!") || out == "ok-wrong-address" {
			viol(k, "signature-by-wrong-address/"+f[0], "a signature made by the KeyStore does not recover to the account's address")
		}
		if out == "ok-bad-export" {
			viol(k, "export-not-decryptable/"+f[0], "an exported key does not decrypt to the account's key with the new passphrase")
		}
		if hasPass {
			right := a.exists && kdfEquivalent(pass, a.pass)
			if !right {
				if out != "err" {
					viol(k, "wrong-passphrase-accepted/"+f[0], "an operation given a passphrase other than the account's returned no error")
				}
				if after != before {
					viol(k, "wrong-passphrase-changed-lock-state/"+f[0], "an operation given a wrong passphrase changed which accounts are unlocked ("+before+" -> "+after+")")
				}
				if a.exists {
					if now, _ := os.ReadFile(a.acc.URL.Path); !bytes.Equal(now, fileBefore) {
						viol(k, "wrong-passphrase-changed-file/"+f[0], "an operation given a wrong passphrase changed the stored key file")
					}
				}
			} else if out != "ok" {
				viol(k, "right-passphrase-refused/"+f[0], "an operation given the account's passphrase failed: "+fmt.Sprint(err))
			}
			// reference bookkeeping for right-passphrase operations
			if right && out == "ok" {
				switch f[0] {
				case "upd":
					old := a.pass
					a.pass = unhx(f[3])
					if _, e := keystore.VerifGetKey(a.acc.Address, a.acc.URL.Path, a.pass); e != nil {
						viol(k, "update-lost-key/upd", "after Update the file does not open with the new passphrase")
					}
					if !kdfEquivalent(old, a.pass) {
						if _, e := keystore.VerifGetKey(a.acc.Address, a.acc.URL.Path, old); e == nil {
							viol(k, "update-keeps-old-passphrase/upd", "after Update the file still opens with the old passphrase")
						}
					}
				case "del":
					a.exists = false
				case "tun":
					wasForever := before[idx] == 'u' && !a.timed && a.lo.IsZero() == false && false
					_ = wasForever
				}
			}
		}
		// timed-unlock bookkeeping (which accounts hold a short unlock and until when, in real time)
		switch f[0] {
		case "tun":
			if out == "ok" && !(before[idx] == 'u' && !a.timed) { // an indefinite unlock is not altered
				a.timed = f[3] == "S"
				if a.timed {
					a.lo, a.hi = start.Add(shortUnlock), end.Add(shortUnlock)
				}
			}
		case "lock":
			a.timed = false
		}
		if f[0] == "sig" || f[0] == "sgh" || f[0] == "stx" {
			if (out == "ok") != (before[idx] == 'u') {
				viol(k, "sign-disagrees-with-lock-state/"+f[0], "signing succeeded on a locked account or failed on an unlocked one")
			}
		}
	}
	return res
}

func (h *harness) histories() {
	c := h.c
	n := c.Scale(24, 300)
	results := make([]hresult, n)
	hists := make([][]string, n)
	seeds := make([]uint64, n)
	for i := range hists {
		hists[i] = genHistory(c.Rng, 14+c.Rng.Intn(14))
		seeds[i] = c.Rng.Uint64()
	}
	// directed prefix: unlock indefinitely with the right passphrase, then try wrong ones without locking in between
	hists[0] = []string{"new:" + hx("alpha pass"), "imp:" + hx("пароль-Б"), "tun:0:" + hx("alpha pass") + ":0", "tun:0:" + hx("alpha pas") + ":0", "tun:0:" + hx("") + ":S",
		"tun:0:" + hx("пароль-Б") + ":L", "sig:0", "tun:1:" + hx("alpha pass") + ":0", "sig:1", "upd:0:" + hx("wrong") + ":" + hx("n"), "exp:0:" + hx("alpha pass "), "del:0:" + hx("Alpha pass"),
		"lock:0", "tun:0:" + hx("alpha pasS") + ":0", "sig:0", "tun:0:" + hx("alpha pass") + ":L", "tun:0:" + hx("x") + ":0", "sig:0"}
	hists[1] = []string{"imp:" + hx("old pass"), "new:" + hx(""), "upd:0:" + hx("old pass") + ":" + hx(""), "tun:0:" + hx("old pass") + ":0", "tun:0:" + hx("") + ":0", "sig:0", "lock:0",
		"upd:0:" + hx("") + ":" + hx("\x00"), "tun:0:" + hx("\x00") + ":0", "lock:0", "upd:0:" + hx("\x00") + ":" + hx(strings.Repeat("k", 64)), "tun:0:" + hx("") + ":0", "tun:0:" + hx(strings.Repeat("k", 64)) + ":0",
		"upd:0:" + hx(strings.Repeat("k", 64)) + ":" + hx(strings.Repeat("k", 64)), "upd:0:" + hx(strings.Repeat("k", 64)) + ":" + hx(strings.Repeat("L", 65)), "exp:0:" + hx(strings.Repeat("L", 65)),
		"upd:1:" + hx("") + ":" + hx("x"), "upd:1:" + hx("x") + ":" + hx(""), "swp:1:" + hx(""), "swp:1:" + hx("x"), "tun:1:" + hx("") + ":S", "sig:1"}
	sem := make(chan struct{}, 8)
	done := make(chan int, n)
	for i := range hists {
		go func(i int) {
			sem <- struct{}{}
			d, _ := os.MkdirTemp(h.dir, "hist")
			if i == 2 || i == 3 {
				results[i] = runHistory(d, hists[i], seeds[i], true) // two histories keep the real 300 ms timers (undecided when the machine is too slow)
			} else {
				results[i] = runHistory(d, hists[i], seeds[i])
			}
			<-sem
			done <- i
		}(i)
	}
	for range hists {
		<-done
	}
	for i, res := range results {
		h.reportHistory(res, i)
	}
}

func (h *harness) reportHistory(res hresult, i int) {
	c := h.c
	if res.ambiguous {
		c.Count("keystore-history/stopped-early(timing undecided)")
	}
	for _, o := range res.obs {
		c.Count("keystore-history/step:" + strings.SplitN(o, ":", 2)[0])
	}
	key := ""
	if len(res.obs) > 0 {
		key = strings.Join(res.mtoks, " ")
	}
	c.Eval(fmt.Sprintf("keystore-history/len%d", len(res.obs)/5*5), key)
	if len(res.mtoks) > 0 {
		c.Correspond("KeyStore operation history~ks_run", strings.Join(res.toks[:len(res.mtoks)], " "), strings.Join(res.obs, " "), h.m.Ask("ks "+strings.Join(res.mtoks, " ")))
	}
	for _, v := range res.viols {
		c.Violate(v.sig+"/"+strings.Join(res.toks[:v.step+1], " "), v.what,
			map[string]interface{}{"history": strings.Join(res.toks[:v.step+1], " "), "failing_step": v.step, "operation": res.toks[v.step], "observed": res.obs[:min(len(res.obs), v.step+1)]})
	}
	if i < 2 {
		c.Sample(map[string]interface{}{"history": strings.Join(res.toks, " "), "observed": strings.Join(res.obs, " ")})
	}
}

// ------------------------------------------------------------ main

func main() {
	if p := os.Getenv("C20_WRITE_CORPUS"); p != "" {
		writeCorpus(p)
		return
	}
	c := vh.Init("C20")
	m := c.StartModel()
	defer m.Close()
	dir, err := os.MkdirTemp("", "c20")
	if err != nil {
		c.Fatal("tempdir: %v", err)
	}
	defer os.RemoveAll(dir)
	h := &harness{c: c, m: m, dir: dir}
	r := c.Rng
	c.Res.Rule = "key files made by EncryptKey (scrypt, tiny and light parameters), hand-built pbkdf2 v3 and scrypt v1 files, for random keys (0-3 leading zero bytes) and passphrases (empty, 1 KiB, non-ASCII); each file is checked untouched, with passphrases at edit distance 1, with every single-character alteration of every string/number/member name, and with members removed/nulled/retyped/out of range; through DecryptKey, keyStorePassphrase.GetKey and the KeyStore API. A case is distinct non-trivial when DecryptKey returns a key for that (document, passphrase)"
	if c.Replay != "" {
		c.Assume("replay of one recorded case")
		replay(h, c.Replay)
		c.Finish()
		return
	}

	for i := 0; i < 4; i++ {
		b := r.Bytes([]int{0, 48, 136, 300}[i])
		c.Correspond("crypto.Keccak256~keccak256", vh.Hex(b), vh.Hex(crypto.Keccak256(b)), m.Ask("keccak "+vh.Hex(b)))
	}
	for _, s := range []string{"", "0", "00", "0g", "aAfF09", "abc", "zz", "0x00"} {
		o := "err"
		if b, err := hex.DecodeString(s); err == nil {
			o = "ok " + vh.Hex(b)
		}
		c.Correspond("hex.DecodeString~hex_decode", s, o, m.Ask("hexdec "+vh.Hex([]byte(s))))
	}

	t0 := time.Now()
	var specs []fileSpec
	// 1. EncryptKey round trips: keys x passphrases x scrypt parameters
	nEnc := c.Scale(12, 120)
	for i := 0; i < nEnc; i++ {
		lz := i % 4
		key := genKey(r, lz)
		pass := genPass(r, i)
		n, p := []int{2, 4, 16, 2}[i%4], 1+i%2
		if i == 1 || (c.Thorough() && i%10 == 1) {
			n, p = keystore.LightScryptN, keystore.LightScryptP
		}
		if c.Thorough() && i == 7 {
			n, p = keystore.StandardScryptN, keystore.StandardScryptP
		}
		spec, ok := h.encryptCase(r, key, pass, n, p, lz)
		if !ok {
			continue
		}
		if n > 1<<15 {
			// standard parameters: round trip through the implementation only
			k, err := keystore.DecryptKey(spec.js, pass)
			if err != nil || !bytes.Equal(crypto.FromECDSA(k.PrivateKey), spec.kb) {
				c.Violate("roundtrip/standard-scrypt", "standard scrypt round trip fails", map[string]string{"json": string(spec.js)})
			}
			continue
		}
		h.check("scrypt-v3/untouched", spec, spec.js, pass, "")
		if n <= 16 {
			h.passphrases(spec, c.Scale(2, 6))
			specs = append(specs, spec)
		} else {
			h.check("scrypt-v3/wrong-passphrase", spec, spec.js, pass+"x", "")
		}
		if i < 3 {
			c.Sample(map[string]string{"json": string(spec.js), "passphrase": pass, "key": vh.Hex(spec.kb)})
		}
	}
	// 2. pbkdf2 v3 and scrypt v1 files
	for i := 0; i < c.Scale(6, 40); i++ {
		kind := []string{"pbkdf2-v3", "scrypt-v1"}[i%2]
		key := genKey(r, i%4)
		pass := genPass(r, i+2)
		js := buildManual(r, kind, key, pass)
		spec := fileSpec{kind: kind, js: js, key: key, kb: crypto.FromECDSA(key), addr: crypto.PubkeyToAddress(key.PubKey()), pass: pass}
		h.check(kind+"/untouched", spec, js, pass, "")
		h.passphrases(spec, c.Scale(1, 4))
		specs = append(specs, spec)
	}
	c.Note("phase files-done at %.1fs", time.Since(t0).Seconds())
	// 3. character sweeps and structural tampering
	done := map[string]int{}
	for _, spec := range specs {
		done[spec.kind]++
		if done[spec.kind] <= c.Scale(1, 2) {
			h.sweepCharacters(spec, c.Thorough(), 1)
			h.structural(spec)
		} else if done[spec.kind] <= c.Scale(1, 12) {
			h.sweepCharacters(spec, false, c.Scale(13, 3))
		}
	}
	// 3b. directed: a v3 file whose CTR ciphertext happens to CBC-decrypt to valid PKCS7 padding,
	//     with its version changed to "1" (neither version nor cipher is covered by the MAC)
	for try := 0; try < 20000; try++ {
		key := genKey(r, 0)
		pass := "v1-downgrade"
		js := buildManual(r, "scrypt-v3", key, pass)
		mut := bytes.Replace(js, []byte(`"version":3}`), []byte(`"version":"1"}`), 1)
		if _, err := keystore.DecryptKey(mut, pass); err != nil {
			continue
		}
		spec := fileSpec{kind: "scrypt-v3", js: js, key: key, kb: crypto.FromECDSA(key), addr: crypto.PubkeyToAddress(key.PubKey()), pass: pass}
		h.check("scrypt-v3/version-downgrade", spec, mut, pass, "version=1")
		break
	}
	phase := func(n string) { c.Note("phase %s at %.1fs", n, time.Since(t0).Seconds()) }
	phase("sweeps-done")
	// 3a'. the committed corpus (files written once, under passphrases that are not NFC/NFKC-stable or not UTF-8)
	h.corpus()
	phase("corpus-done")
	// 3a''. weakened parameters with an attacker-recomputed MAC
	forged := map[string]int{}
	for _, spec := range specs {
		forged[spec.kind]++
		if forged[spec.kind] <= c.Scale(1, 6) {
			h.attackerMACs(spec)
		}
	}
	phase("forged-done")
	// 3b'. address asked for / address member / derived address made to disagree, through GetKey
	for i := 0; i+1 < len(specs) && i < c.Scale(6, 60); i++ {
		h.addressMismatch(specs[i], specs[i+1])
	}
	// 3c. stateful KeyStore histories against the lock-state machine
	h.histories()
	// 3d. KeyStore histories against the concrete model (key files compared; logical clock)
	h.storeHistories()
	phase("histories-done")
	// 4. KeyStore API
	for i := 0; i < c.Scale(4, 24); i++ {
		h.keystoreFlow(r, i)
	}
	c.Assume("KDF / AES / key-to-address results enter the model as oracle tables recorded from the implementation's own primitives on the same case; the KDF output is recorded up to its capacity (derivedKey[16:32] re-slices into it)")
	c.Assume("documents with duplicate or case-colliding member names, and KDF parameters that would take more than a fraction of a second (n > 2^15 etc.), are not compared with the model")
	c.Assume("the model reports the decrypted bytes; the implementation's key is compared after crypto.ToECDSAUnsafe normalisation")
	c.Finish()
}

// replay: {"replay": {"json": ..., "passphrase": ..., "original_key": ..., "address": ..., "tampered": ...}}
func replay(h *harness, file string) {
	raw, err := os.ReadFile(file)
	if err != nil {
		h.c.Fatal("replay: %v", err)
	}
	var rp struct {
		Replay map[string]string `json:"replay"`
	}
	var hp struct {
		Replay struct {
			History string `json:"history"`
		} `json:"replay"`
	}
	if json.Unmarshal(raw, &hp) == nil && hp.Replay.History != "" {
		d, _ := os.MkdirTemp(h.dir, "hist")
		h.reportHistory(runHistory(d, strings.Fields(hp.Replay.History), 1), 0)
		return
	}
	if err := json.Unmarshal(raw, &rp); err != nil || rp.Replay["json"] == "" {
		h.c.Fatal("replay: unusable file")
	}
	kb := vh.UnHex(rp.Replay["original_key"])
	right, ok := rp.Replay["right_passphrase"]
	if !ok {
		right = rp.Replay["passphrase"]
	}
	spec := fileSpec{kind: "replay", js: []byte(rp.Replay["json"]), kb: kb, addr: common.BytesToAddress(vh.UnHex(rp.Replay["address"])), pass: right}
	h.check("replay", spec, spec.js, rp.Replay["passphrase"], rp.Replay["tampered"])
}
