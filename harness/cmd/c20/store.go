// store.go: histories on a real KeyStore compared with the CONCRETE model
// (coq/Keystore/StoreModel.v cstep): every passphrase operation of the model runs
// get_key on the key file the account has on disk, every writing operation runs
// encrypt_key; the files themselves are compared after each writing step.
// Expiry of timed unlocks is driven by a logical clock (VerifFireExpiry hook), so
// no verdict of these histories depends on the wall clock.
package main

import (
	"bytes"
	"encoding/hex"
	"encoding/json"
	"fmt"
	"math/big"
	"os"
	"sort"
	"strconv"
	"strings"
	"time"

	"github.com/btcsuite/btcd/btcec/v2"
	"gitlab.com/aquachain/aquachain/aqua/accounts"
	"gitlab.com/aquachain/aquachain/aqua/accounts/keystore"
	"gitlab.com/aquachain/aquachain/common"
	"gitlab.com/aquachain/aquachain/crypto"
	"gitlab.com/aquachain/aquachain/verifharness/vh"
)

type tableSet struct{ kdf, ctr, cbc, addr map[string]string }

func newTableSet() *tableSet {
	return &tableSet{map[string]string{}, map[string]string{}, map[string]string{}, map[string]string{}}
}
func addEntries(m map[string]string, s string) {
	if s == "-" || s == "" {
		return
	}
	for _, e := range strings.Split(s, ";") {
		if i := strings.IndexByte(e, '='); i > 0 {
			m[e[:i]] = e[i+1:]
		}
	}
}
func renderEntries(m map[string]string) string {
	if len(m) == 0 {
		return "-"
	}
	ks := make([]string, 0, len(m))
	for k := range m {
		ks = append(ks, k)
	}
	sort.Strings(ks)
	for i, k := range ks {
		ks[i] = k + "=" + m[k]
	}
	return strings.Join(ks, ";")
}

// decryptTables: what DecryptKey(js, pass) asks of the primitives
func (t *tableSet) decryptTables(js []byte, pass string) bool {
	ps := parseFile(js)
	if !ps.ok {
		return false
	}
	tb := makeTables(ps, []byte(pass))
	if tb.heavy {
		return false
	}
	addEntries(t.kdf, tb.kdf)
	addEntries(t.ctr, tb.ctr)
	addEntries(t.cbc, tb.cbc)
	addEntries(t.addr, tb.addr)
	return true
}

// encryptTables: what EncryptKey(key, pass) asked when it wrote js (salt and IV read back from js)
func (t *tableSet) encryptTables(js []byte, pass string, kb []byte) (salt, iv string) {
	ps := parseFile(js)
	if !ps.ok || !ps.saltOK || !ps.ivOK {
		return "0x", "0x"
	}
	kk, dk, res, _ := runKDF(ps, []byte(pass), true)
	if kk != "" {
		t.kdf[kk] = res
	}
	if len(dk) >= 32 {
		ct, err := keystore.VerifAesCTRXOR(dk[:16], kb, ps.iv)
		t.ctr[vh.Hex(dk[:16])+":"+vh.Hex(ps.iv)+":"+vh.Hex(kb)] = presHex(ct, err, false)
	}
	return vh.Hex(ps.salt), vh.Hex(ps.iv)
}

func fileID(js []byte) string {
	var d struct {
		ID string `json:"id"`
	}
	json.Unmarshal(js, &d)
	return hx(d.ID)
}

type sacct struct {
	acc      accounts.Account
	kb       []byte // the account's key
	exists   bool   // file present
	filePass string // passphrase of the file now at the URL
	fileOK   bool   // that file decrypts to the account's key (not swapped / IV-tampered)
	timed    bool   // holds a timed unlock (logical clock)
	until    int    // logical expiry time
}

type sresult struct {
	mops  []string
	obs   []string
	tabs  *tableSet
	viols []hviol
	desc  []string
}

// runStoreHistory generates and runs one history; all random choices come from seed
func runStoreHistory(dir string, seed uint64, steps int) sresult {
	r := vh.NewRNG(seed)
	res := sresult{tabs: newTableSet()}
	ks := keystore.NewKeyStore(dir, 2, 1)
	var accts []*sacct
	var exported [][2]string // (json, passphrase) of files produced by Export, candidates for Import
	now := 0
	probeHash := crypto.Keccak256([]byte("probe"))
	locks := func() string {
		var b strings.Builder
		for _, a := range accts {
			sig, err := ks.SignHashAllowed(a.acc, probeHash)
			switch {
			case err != nil:
				b.WriteByte('l')
			default:
				if pub, e := crypto.SigToPub(probeHash, sig); e == nil && crypto.PubkeyToAddress(pub) == a.acc.Address {
					b.WriteByte('u')
				} else {
					b.WriteByte('!')
				}
			}
		}
		return b.String()
	}
	viol := func(class, what string) {
		res.viols = append(res.viols, hviol{"keystore-store-history/" + class, what, len(res.mops) - 1})
	}
	passes := []string{"alpha pass", "пароль-Б", "", "gamma#3", "pＡssword", "école", "\x00", strings.Repeat("k", 64)}
	pickPass := func() string { return passes[r.Intn(len(passes))] }
	readFile := func(a *sacct) []byte { b, _ := os.ReadFile(a.acc.URL.Path); return b }
	tokOf := func(js []byte) string {
		if ps := parseFile(js); ps.ok {
			return ps.tok
		}
		return "?"
	}
	outcome := func(err error, pan bool) string {
		switch {
		case pan:
			return "panic"
		case err != nil:
			return "err"
		}
		return "ok"
	}
	create := func() {
		key := genKey(r, r.Intn(4))
		kb := crypto.FromECDSA(key)
		p := pickPass()
		acc, err := ks.ImportECDSA(key, p)
		a := &sacct{acc: acc, kb: kb, exists: err == nil, filePass: p, fileOK: true}
		salt, iv, id, ft := "0x", "0x", "0x", "-"
		if err == nil {
			js := readFile(a)
			salt, iv = res.tabs.encryptTables(js, p, kb)
			id, ft = fileID(js), tokOf(js)
			accts = append(accts, a)
		}
		addr := crypto.PubkeyToAddress(key.PubKey())
		res.tabs.addr[vh.Hex(kb)] = vh.Hex(addr[:])
		res.mops = append(res.mops, fmt.Sprintf("create|0x%x|%s|%s|%s|%s", new(big.Int).SetBytes(kb), id, hx(p), salt, iv))
		res.desc = append(res.desc, "ImportECDSA pass="+strconv.Quote(p))
		res.obs = append(res.obs, outcome(err, false)+";"+locks()+";"+ft)
	}
	create()
	create()
	for len(res.mops) < steps {
		if len(accts) == 0 {
			break
		}
		i := r.Intn(len(accts))
		a := accts[i]
		right := r.Chance(50)
		pass := a.filePass
		if !right {
			others := []string{}
			for _, x := range accts {
				others = append(others, x.filePass)
			}
			pass = wrongPass(r, a.filePass, others)
		}
		isRight := a.exists && a.fileOK && kdfEquivalent(pass, a.filePass)
		before := locks()
		var fileBefore []byte
		if a.exists {
			fileBefore = readFile(a)
			res.tabs.decryptTables(fileBefore, pass)
		}
		var err error
		pan := false
		mop, desc, ft := "", "", "-"
		hasPass := true
		catch := func(f func()) { pan, _ = vh.CatchPanic(f) }
		switch k := r.Intn(14); {
		case k <= 2: // Unlock / TimedUnlock (the timeout is an hour of real time; expiry is fired by the logical clock)
			d := []int{0, 0, 10, 1000000}[r.Intn(4)]
			catch(func() {
				if d == 0 {
					err = ks.Unlock(a.acc, pass)
				} else {
					err = ks.TimedUnlock(a.acc, pass, time.Hour)
				}
			})
			mop, desc = fmt.Sprintf("tun|%d|%s|%d", i, hx(pass), d), fmt.Sprintf("TimedUnlock(%d,%s,%d)", i, strconv.Quote(pass), d)
			if err == nil && !pan && !(before[i] == 'u' && !a.timed) {
				a.timed, a.until = d != 0, now+d
			}
		case k == 3:
			hasPass = false
			catch(func() { err = ks.Lock(a.acc.Address) })
			a.timed = false
			mop, desc = fmt.Sprintf("lock|%d", i), fmt.Sprintf("Lock(%d)", i)
		case k == 4 || k == 5: // Update
			np := pickPass()
			if r.Chance(20) {
				np = a.filePass
			}
			catch(func() { err = ks.Update(a.acc, pass, np) })
			salt, iv := "0x", "0x"
			if err == nil && !pan {
				js := readFile(a)
				salt, iv = res.tabs.encryptTables(js, np, a.kb)
				ft = tokOf(js)
				a.filePass = np
			}
			mop, desc = fmt.Sprintf("upd|%d|%s|%s|%s|%s", i, hx(pass), hx(np), salt, iv), fmt.Sprintf("Update(%d,%s,%s)", i, strconv.Quote(pass), strconv.Quote(np))
		case k == 6: // Export
			np := pickPass()
			var js []byte
			catch(func() { js, err = ks.Export(a.acc, pass, np) })
			salt, iv := "0x", "0x"
			if err == nil && !pan {
				salt, iv = res.tabs.encryptTables(js, np, a.kb)
				ft = tokOf(js)
				exported = append(exported, [2]string{string(js), np})
			}
			mop, desc = fmt.Sprintf("exp|%d|%s|%s|%s|%s", i, hx(pass), hx(np), salt, iv), fmt.Sprintf("Export(%d,%s,%s)", i, strconv.Quote(pass), strconv.Quote(np))
		case k == 7 && r.Chance(40): // Delete
			catch(func() { err = ks.Delete(a.acc, pass) })
			if err == nil && !pan {
				a.exists = false
			}
			mop, desc = fmt.Sprintf("del|%d|%s", i, hx(pass)), fmt.Sprintf("Delete(%d,%s)", i, strconv.Quote(pass))
		case k == 7 || k == 8: // Sign
			hasPass = false
			h := r.Bytes(32)
			catch(func() {
				var sig []byte
				sig, err = ks.SignHashAllowed(a.acc, h)
				if err == nil {
					if pub, e := crypto.SigToPub(h, sig); e != nil || crypto.PubkeyToAddress(pub) != a.acc.Address {
						viol("signature-by-wrong-address", "a signature made by the KeyStore does not recover to the account's address")
					}
				}
			})
			mop, desc = fmt.Sprintf("sig|%d", i), fmt.Sprintf("SignHash(%d)", i)
		case k == 9: // SignHashWithPassphrase (or, where signing is disabled, the same getDecryptedKey path via Export)
			catch(func() {
				if keystore.NoSignMode() {
					_, err = ks.Export(a.acc, pass, "x")
				} else {
					_, err = ks.SignHashWithPassphrase(a.acc, pass, r.Bytes(32))
				}
			})
			mop, desc = fmt.Sprintf("swp|%d|%s", i, hx(pass)), fmt.Sprintf("SignHashWithPassphrase(%d,%s)", i, strconv.Quote(pass))
		case k == 10: // logical time passes: every timed unlock that is due is expired
			hasPass = false
			now += 20
			for _, x := range accts {
				if x.timed && x.until <= now {
					ks.VerifFireExpiry(x.acc.Address)
					x.timed = false
				}
			}
			mop, desc = "wait|20", "wait"
		case k == 11 && len(exported) > 0: // Import of an exported file (right or wrong passphrase)
			hasPass = false
			e := exported[r.Intn(len(exported))]
			ipass := e[1]
			if r.Chance(35) {
				ipass = wrongPass(r, e[1], []string{"x"})
			}
			np := pickPass()
			res.tabs.decryptTables([]byte(e[0]), ipass)
			var acc accounts.Account
			catch(func() { acc, err = ks.Import([]byte(e[0]), ipass, np) })
			salt, iv, id := "0x", "0x", "0x"
			if err == nil && !pan {
				na := &sacct{acc: acc, exists: true, filePass: np, fileOK: true}
				if kk, derr := keystore.DecryptKey([]byte(e[0]), ipass); derr == nil {
					na.kb = crypto.FromECDSA(kk.PrivateKey)
				}
				js := readFile(na)
				salt, iv = res.tabs.encryptTables(js, np, na.kb)
				id, ft = fileID(js), tokOf(js)
				accts = append(accts, na)
				if !kdfEquivalent(ipass, e[1]) {
					viol("import-wrong-passphrase-accepted", "Import accepted a passphrase other than the one the file was exported under")
				}
			} else if kdfEquivalent(ipass, e[1]) && !pan {
				viol("import-right-passphrase-refused", "Import refused the passphrase the file was exported under: "+fmt.Sprint(err))
			}
			mop, desc = fmt.Sprintf("import|%s|%s|%s|%s|%s|%s", tokOf([]byte(e[0])), hx(ipass), hx(np), id, salt, iv), fmt.Sprintf("Import(pass=%s,new=%s)", strconv.Quote(ipass), strconv.Quote(np))
		case k == 11: // ImportECDSA of a key the store already has: "account already exists" (unless its file was deleted)
			hasPass = false
			key, _ := btcec.PrivKeyFromBytes(a.kb)
			p := pickPass()
			var acc accounts.Account
			catch(func() { acc, err = ks.ImportECDSA(key, p) })
			salt, iv, id := "0x", "0x", "0x"
			if err == nil && !pan {
				na := &sacct{acc: acc, kb: a.kb, exists: true, filePass: p, fileOK: true}
				js := readFile(na)
				salt, iv = res.tabs.encryptTables(js, p, a.kb)
				id, ft = fileID(js), tokOf(js)
				accts = append(accts, na)
			}
			mop, desc = fmt.Sprintf("create|0x%x|%s|%s|%s|%s", new(big.Int).SetBytes(a.kb), id, hx(p), salt, iv), "ImportECDSA of a key already present"
		case k >= 12 && a.exists && len(accts) > 1: // the file at the URL is replaced from outside
			hasPass = false
			var js []byte
			var label string
			o := accts[(i+1+r.Intn(len(accts)-1))%len(accts)]
			switch v := r.Intn(3); {
			case v == 0 && o.exists && o.fileOK:
				// another account's file, its address member rewritten to this account's: derived address disagrees
				var doc map[string]interface{}
				json.Unmarshal(readFile(o), &doc)
				doc["address"] = hex.EncodeToString(a.acc.Address[:])
				js, _ = json.Marshal(doc)
				a.filePass, a.fileOK, label = o.filePass, bytes.Equal(o.kb, a.kb), "other account's file under this address"
			case v == 1:
				var doc map[string]interface{}
				json.Unmarshal(fileBefore, &doc)
				doc["crypto"].(map[string]interface{})["cipherparams"].(map[string]interface{})["iv"] = hex.EncodeToString(r.Bytes(16))
				js, _ = json.Marshal(doc)
				a.fileOK, label = false, "own file with another IV"
			default:
				js, label = fileBefore, "own file rewritten unchanged"
			}
			os.WriteFile(a.acc.URL.Path, js, 0o600)
			mop, desc = fmt.Sprintf("put|%d|%s", i, tokOf(js)), "file replaced: "+label
		default:
			continue
		}
		res.mops = append(res.mops, mop)
		res.desc = append(res.desc, desc)
		after := locks()
		out := outcome(err, pan)
		res.obs = append(res.obs, out+";"+after+";"+ft)
		// ---- the property on the implementation
		if strings.Contains(after, "!") {
			viol("signature-by-wrong-address", "an unlocked account signs with a key that is not the account's")
		}
		if pan {
			viol("panic/"+strings.SplitN(mop, "|", 2)[0], "a KeyStore operation panics")
		}
		if hasPass && !pan {
			if !isRight {
				if out == "ok" {
					viol("wrong-passphrase-accepted/"+strings.SplitN(mop, "|", 2)[0], "an operation given a passphrase that does not open the account's key file returned no error")
				}
				if after != before {
					viol("wrong-passphrase-changed-lock-state/"+strings.SplitN(mop, "|", 2)[0], "lock states changed: "+before+" -> "+after)
				}
				if a.exists && !bytes.Equal(readFile(a), fileBefore) {
					viol("wrong-passphrase-changed-file/"+strings.SplitN(mop, "|", 2)[0], "the stored key file changed")
				}
			} else if out != "ok" {
				viol("right-passphrase-refused/"+strings.SplitN(mop, "|", 2)[0], "an operation given the passphrase of the account's key file failed: "+fmt.Sprint(err))
			}
		}
	}
	return res
}

func (h *harness) storeHistories() {
	c := h.c
	n := c.Scale(10, 120)
	seeds := make([]uint64, n)
	for i := range seeds {
		seeds[i] = c.Rng.Uint64()
	}
	results := make([]sresult, n)
	sem := make(chan struct{}, 6)
	done := make(chan int, n)
	for i := range seeds {
		go func(i int) {
			sem <- struct{}{}
			d, _ := os.MkdirTemp(h.dir, "store")
			results[i] = runStoreHistory(d, seeds[i], 16+int(seeds[i]%10))
			<-sem
			done <- i
		}(i)
	}
	for range seeds {
		<-done
	}
	for i, res := range results {
		h.reportStore(res, seeds[i])
	}
}

func (h *harness) reportStore(res sresult, seed uint64) {
	c := h.c
	c.Eval(fmt.Sprintf("keystore-store-history/len%d", len(res.mops)/5*5), strings.Join(res.mops, " "))
	for _, m := range res.mops {
		c.Count("keystore-store-history/op:" + strings.SplitN(m, "|", 2)[0])
	}
	req := "cks 2 1 " + renderEntries(res.tabs.kdf) + " " + renderEntries(res.tabs.ctr) + " " + renderEntries(res.tabs.cbc) + " " + renderEntries(res.tabs.addr) + " " + strings.Join(res.mops, " ")
	ans := h.m.Ask(req)
	if !c.Correspond("KeyStore history with key files~cstep", strings.Join(res.desc, " ; "), strings.Join(res.obs, " "), ans) {
		// name the first differing step (the full strings are clipped in the evidence)
		mo := strings.Split(ans, " ")
		for k := range res.obs {
			if k >= len(mo) || mo[k] != res.obs[k] {
				m := "(none)"
				if k < len(mo) {
					m = mo[k]
				}
				c.Note("store history seed %d: first difference at step %d (%s): observed %.300s model %.300s", seed, k, res.desc[k], res.obs[k], m)
				break
			}
		}
		if len(mo) != len(res.obs) {
			c.Note("store history seed %d: model answered %d steps for %d: %.300s", seed, len(mo), len(res.obs), ans)
		}
	}
	for _, v := range res.viols {
		c.Violate(v.sig+"/"+strings.Join(res.desc[:min(len(res.desc), v.step+1)], ";"), v.what,
			map[string]interface{}{"store_history_seed": fmt.Sprint(seed), "steps": len(res.mops), "failing_step": v.step, "operations": res.desc[:min(len(res.desc), v.step+1)], "observed": res.obs[:min(len(res.obs), v.step+1)]})
	}
}

// ------------------------------------------------------------ address-mismatch files through GetKey

// addressMismatch: the three places an address lives (the account asked for, the file's address member,
// the address derived from the decrypted key) made to disagree, through keyStorePassphrase.GetKey
func (h *harness) addressMismatch(spec, other fileSpec) {
	c := h.c
	rewrite := func(js []byte, addr common.Address) []byte {
		var doc map[string]interface{}
		json.Unmarshal(js, &doc)
		doc["address"] = hex.EncodeToString(addr[:])
		out, _ := json.Marshal(doc)
		return out
	}
	cases := []struct {
		label string
		ask   common.Address
		js    []byte
		pass  string
		ok    bool
	}{
		{"asked=own,member=own,derived=own", spec.addr, spec.js, spec.pass, true},
		{"asked=other,member=own,derived=own", other.addr, spec.js, spec.pass, false},
		{"asked=own,member=other,derived=own", spec.addr, rewrite(spec.js, other.addr), spec.pass, true},
		{"asked=own,member=own,derived=other", spec.addr, rewrite(other.js, spec.addr), other.pass, false},
		{"asked=other,member=other,derived=own", other.addr, rewrite(spec.js, other.addr), spec.pass, false},
		{"asked=own,member=missing,derived=own", spec.addr, bytes.Replace(spec.js, []byte(`"address"`), []byte(`"addres5"`), 1), spec.pass, true},
	}
	for _, k := range cases {
		ps := parseFile(k.js)
		if !ps.ok {
			continue
		}
		tb := makeTables(ps, []byte(k.pass))
		h.n++
		fn := fmt.Sprintf("%s/m%d", h.dir, h.n%64)
		os.WriteFile(fn, k.js, 0o600)
		g := observe(func() (*keystore.Key, error) { return keystore.VerifGetKey(k.ask, fn, k.pass) }, tb.plain)
		c.Eval("address-mismatch/"+k.label, "")
		args := " " + ps.tok + " " + vh.Hex([]byte(k.pass)) + " " + tb.kdf + " " + tb.ctr + " " + tb.cbc + " " + tb.addr
		c.Correspond("keyStorePassphrase.GetKey~get_key", k.label+" "+string(k.js), g.s, h.m.Ask("getkey "+vh.Hex(k.ask[:])+args))
		rp := map[string]string{"json": string(k.js), "passphrase": k.pass, "asked_address": vh.Hex(k.ask[:]), "case": k.label, "getkey": g.s}
		switch {
		case g.ok && g.addr != k.ask:
			c.Violate("getkey-returns-foreign-address/"+k.label+"/"+string(k.js), "GetKey returned a key whose address is not the one asked for", rp)
		case g.ok != k.ok:
			c.Violate("getkey-address-check/"+k.label+"/"+string(k.js), "GetKey's verdict does not follow the derived address (asked vs derived; the file's address member is irrelevant)", rp)
		}
	}
}
