// widechain.go: integer width as a class.  Chain ids are arbitrary big integers: values at and beyond the
// 32- and 64-bit borders, and PAIRS congruent modulo 2^32 / 2^64.  For every pair of distinct chain ids the
// signing hashes must differ, and a transaction signed for one must not be attributed to its signer under
// the other - also after V is rewritten to the other chain's encoding (V itself exceeds 64 bits there),
// whether the rewritten transaction arrives through WithSignature, raw RLP or JSON.
package main

import (
	"fmt"
	"math/big"

	"github.com/btcsuite/btcd/btcec/v2"
	"gitlab.com/aquachain/aquachain/common"
	"gitlab.com/aquachain/aquachain/core/types"
	"gitlab.com/aquachain/aquachain/crypto"
	"gitlab.com/aquachain/aquachain/verifharness/vh"
)

func pow2(n uint) *big.Int              { return new(big.Int).Lsh(big.NewInt(1), n) }
func plus(a *big.Int, k int64) *big.Int { return new(big.Int).Add(a, big.NewInt(k)) }
func sum(a, b *big.Int) *big.Int        { return new(big.Int).Add(a, b) }

func wideChainIDs() []*big.Int {
	return []*big.Int{big.NewInt(1), big.NewInt(61717561), plus(pow2(31), -1), plus(pow2(31), 1), pow2(32), plus(pow2(63), -1), pow2(63),
		plus(pow2(64), -1), pow2(64), plus(pow2(64), 61717561), plus(pow2(128), 1), pow2(255)}
}

// widePairs: distinct chain ids that a narrowing conversion would identify, and neighbours in the list
func widePairs() [][2]*big.Int {
	aqua := big.NewInt(61717561)
	ps := [][2]*big.Int{
		{aqua, sum(aqua, pow2(64))}, {aqua, sum(aqua, pow2(32))}, {aqua, sum(aqua, pow2(65))}, {aqua, sum(aqua, pow2(128))},
		{big.NewInt(1), plus(pow2(64), 1)}, {big.NewInt(1), plus(pow2(32), 1)}, {big.NewInt(3), plus(pow2(63), 3)},
		{pow2(63), sum(pow2(63), pow2(64))}, {plus(pow2(64), -1), plus(pow2(65), -1)}, {plus(pow2(128), 1), sum(plus(pow2(128), 1), pow2(64))},
		{plus(pow2(31), 1), sum(plus(pow2(31), 1), pow2(32))}, {pow2(255), sum(pow2(255), pow2(64))},
	}
	w := wideChainIDs()
	for i := 0; i+1 < len(w); i++ {
		ps = append(ps, [2]*big.Int{w[i], w[i+1]})
	}
	return ps
}

func (h *harness) wideChains() {
	c, r := h.c, h.c.Rng
	pairs := widePairs()
	if !c.Thorough() {
		// quick: the twelve congruent pairs always, a rotating third of the neighbour pairs
		keep := pairs[:12]
		for i := 12; i < len(pairs); i++ {
			if (i+int(c.Seed))%3 == 0 {
				keep = append(keep, pairs[i])
			}
		}
		pairs = keep
	}
	for pi, pr := range pairs {
		for dir := 0; dir < 2; dir++ {
			h.widePair(pr[dir], pr[1-dir], genKey(r, pi%3), genTx(r))
		}
	}
	h.vWidth()
}

// widePair: sign t for chain c1 with key ON THE TREE UNDER TEST, then try it under chain c2
func (h *harness) widePair(c1, c2 *big.Int, key *btcec.PrivateKey, t txv) {
	c := h.c
	{
		{
			s1, s2 := eip155(c1), eip155(c2)
			want := crypto.PubkeyToAddress(key.PubKey())
			unsigned := t.build()
			signed, err := types.SignTx(unsigned, s1.s, key)
			if err != nil {
				c.Violate("signtx-fails/"+s1.tok+"/"+t.token(), "types.SignTx fails for a wide chain id", map[string]string{"signer": s1.tok, "tx": t.token(), "err": err.Error()})
				return
			}
			sv := fromTx(signed)
			c.Eval("wide-chain/pair", s1.tok+"->"+s2.tok)
			// the signing hashes of the two chains differ (and equal the model's)
			h1, h2 := s1.s.Hash(unsigned), s2.s.Hash(unsigned)
			c.Correspond("Signer.Hash~sighash", s1.tok+" "+t.token(), vh.Hex(h1[:]), h.m.Ask("sighash "+s1.tok+" "+t.token()))
			c.Correspond("Signer.Hash~sighash", s2.tok+" "+t.token(), vh.Hex(h2[:]), h.m.Ask("sighash "+s2.tok+" "+t.token()))
			rp := func(tv txv, sg sgn, via string) map[string]string {
				// the replay re-signs on the tree it runs on (a recorded signature would carry the defect of the tree that made it)
				return map[string]string{"scenario": "wide-chain-pair", "key": vh.Hex(key.Serialize()), "unsigned_rlp": vh.Hex(t.rlp()), "chain_signed": q(c1), "chain_replayed": q(c2),
					"observed_signer": sg.tok, "observed_tx": tv.token(), "entrance": via, "signer_address": vh.Hex(want[:])}
			}
			if h1 == h2 {
				c.Violate("chain-binding/same-signing-hash/"+s1.tok+"/"+s2.tok+"/"+t.token(), "two different chain ids give one signing hash (the preimage does not carry the whole chain id)", rp(sv, s2, "hash"))
			}
			// own chain: attributed; the other chain, V untouched: refused
			if _, a, ok := h.senderCase("wide-chain/own", s1, sv); !ok || a != want {
				c.Violate("signed-wrong-sender/"+s1.tok+"/"+sv.token(), "a transaction signed under a wide chain id is not attributed to its signer", rp(sv, s1, "rlp"))
			}
			if _, a, ok := h.senderCase("wide-chain/foreign", s2, sv); ok && a == want {
				c.Violate("chain-binding/replay-across-chain-ids/"+s1.tok+"/"+s2.tok+"/"+sv.token(), "a transaction signed for one chain id is attributed to its signer under another", rp(sv, s2, "rlp"))
			}
			// V rewritten to the other chain's encoding, R, S and contents untouched - three entrances
			parity := new(big.Int).Sub(sv.v, sum(big.NewInt(35), new(big.Int).Lsh(c1, 1)))
			rew := sv.clone()
			rew.v = sum(sum(big.NewInt(35), new(big.Int).Lsh(c2, 1)), parity)
			if _, a, ok := h.senderCase("wide-chain/v-rewritten(rlp)", s2, rew); ok && a == want {
				c.Violate("chain-binding/replay-across-chain-ids/"+s1.tok+"/"+s2.tok+"/"+rew.token(), "after rewriting only V to another chain's encoding the transaction is attributed to its signer under that chain", rp(rew, s2, "rlp"))
			}
			h.jsonEntrance(s2, rew)
			sig := append(append(pad32(sv.r), pad32(sv.s)...), byte(parity.Int64()))
			var viaWS *types.Transaction
			vh.CatchPanic(func() { viaWS, _ = unsigned.WithSignature(s2.s, sig) })
			if viaWS != nil {
				wv := fromTx(viaWS)
				c.Correspond("Signer.SignatureValues~signature_values", s2.tok+" "+vh.Hex(sig), "ok "+q(wv.r)+" "+q(wv.s)+" "+q(wv.v), h.m.Ask("sigvalues "+s2.tok+" "+vh.Hex(sig)))
				if !wv.sameAs(rew) {
					c.Violate("withsignature-v/"+s2.tok+"/"+wv.token(), "WithSignature under a wide chain id does not produce V = 35 + 2c + parity", map[string]string{"got": wv.token(), "want": rew.token()})
				}
				if a, err := types.Sender(s2.s, viaWS); err == nil && a == want {
					c.Violate("chain-binding/replay-across-chain-ids/"+s1.tok+"/"+s2.tok+"/"+wv.token(), "a signature made for one chain id, attached under another with WithSignature, is attributed to its signer", rp(wv, s2, "WithSignature"))
				}
			}
			// pre-EIP155 signers never attribute it either
			for _, sg := range []sgn{frontier(), homestead()} {
				if _, a, ok := h.senderCase("wide-chain/pre-eip155", sg, sv); ok && a == want {
					c.Violate("replay-unprotected/"+s1.tok+"/"+sg.tok, "a replay-protected transaction is attributed to its signer by a pre-EIP155 signer", rp(sv, sg, "rlp"))
				}
			}
		}
	}
}

// vWidth: V around multiples of 2^64 (Uint64() truncation, BitLen > 8, byte() narrowing) through both entrances
func (h *harness) vWidth() {
	c, r := h.c, h.c.Rng
	for i, cid := range []*big.Int{big.NewInt(1), big.NewInt(61717561), plus(pow2(64), 61717561)} {
		key := genKey(r, i)
		want := crypto.PubkeyToAddress(key.PubKey())
		s := eip155(cid)
		signed, err := types.SignTx(genTx(r).build(), s.s, key)
		if err != nil {
			continue
		}
		sv := fromTx(signed)
		hom, _ := types.SignTx(genTx(r).build(), types.HomesteadSigner{}, key)
		hv := fromTx(hom)
		var cases []struct {
			s sgn
			t txv
		}
		add := func(s sgn, base txv, dv *big.Int) {
			m := base.clone()
			m.v = sum(m.v, dv)
			cases = append(cases, struct {
				s sgn
				t txv
			}{s, m})
		}
		for _, k := range []*big.Int{pow2(64), pow2(65), pow2(63), pow2(32), pow2(8), pow2(128), plus(pow2(64), 1), plus(pow2(64), -1)} {
			for _, sg := range []sgn{s, eip155(sum(cid, new(big.Int).Rsh(k, 1))), frontier(), homestead()} {
				add(sg, sv, k)
				add(sg, hv, k) // 27/28 + k
			}
		}
		for _, k := range cases {
			_, a, ok := h.senderCase("v-width", k.s, k.t)
			h.jsonEntrance(k.s, k.t)
			if ok && a == want && (k.s.tok == s.tok || k.s.c == nil) {
				c.Violate("chain-binding/signer-kept-under-shift/"+k.s.tok+"/"+k.t.token(), "a V moved by a power of two is still attributed to the signer", map[string]string{"signer": k.s.tok, "rlp": vh.Hex(k.t.rlp()), "tx": k.t.token(), "expect_not": vh.Hex(want[:])})
			}
		}
	}
	_ = btcec.PrivKeyFromBytes
	_ = common.Address{}
	_ = fmt.Sprint
}
