// c12: correspondence between core/types transaction signing (Go) and the Coq
// model Signing/SigningModel.v, plus the direct oracle for property C12
// (a transaction is bound to its signer and to its chain).
package main

import (
	"bytes"
	"encoding/hex"
	"encoding/json"
	"errors"
	"fmt"
	"math/big"
	"os"
	"strings"
	"sync"
	"time"

	"github.com/btcsuite/btcd/btcec/v2"
	"gitlab.com/aquachain/aquachain/aqua/event"
	"gitlab.com/aquachain/aquachain/aquadb"
	"gitlab.com/aquachain/aquachain/common"
	"gitlab.com/aquachain/aquachain/common/log"
	"gitlab.com/aquachain/aquachain/core"
	"gitlab.com/aquachain/aquachain/core/state"
	"gitlab.com/aquachain/aquachain/core/vm"
	"gitlab.com/aquachain/aquachain/params"
	"gitlab.com/aquachain/aquachain/common/hexutil"
	"gitlab.com/aquachain/aquachain/crypto"
	"gitlab.com/aquachain/aquachain/rlp"
	"gitlab.com/aquachain/aquachain/core/types"
	"gitlab.com/aquachain/aquachain/verifharness/vh"
)

var (
	secpN, _ = new(big.Int).SetString("fffffffffffffffffffffffffffffffebaaedce6af48a03bbfd25e8cd0364141", 16)
	halfN    = new(big.Int).Div(secpN, big.NewInt(2))
	two256   = new(big.Int).Lsh(big.NewInt(1), 256)
)

// ------------------------------------------------------------ transaction values

type txv struct {
	nonce   uint64
	price   *big.Int
	gas     uint64
	to      *common.Address
	value   *big.Int
	data    []byte
	v, r, s *big.Int
}

func q(b *big.Int) string { return "0x" + b.Text(16) }

func (t txv) token() string {
	to := "nil"
	if t.to != nil {
		to = vh.Hex(t.to[:])
	}
	return strings.Join([]string{fmt.Sprintf("0x%x", t.nonce), q(t.price), fmt.Sprintf("0x%x", t.gas), to, q(t.value), vh.Hex(t.data), q(t.v), q(t.r), q(t.s)}, ",")
}

func (t txv) rlp() []byte {
	var to []byte
	if t.to != nil {
		to = t.to[:]
	}
	b, err := rlp.EncodeToBytes([]interface{}{t.nonce, t.price, t.gas, to, t.value, t.data, t.v, t.r, t.s})
	if err != nil {
		panic(err)
	}
	return b
}

// build goes through the public RLP decoder: the only way to obtain a
// Transaction with arbitrary V, R, S without touching the package.
func (t txv) build() *types.Transaction {
	tx := new(types.Transaction)
	if err := rlp.DecodeBytes(t.rlp(), tx); err != nil {
		panic(fmt.Sprintf("build: %v (%s)", err, t.token()))
	}
	return tx
}

func fromTx(tx *types.Transaction) txv {
	v, r, s := tx.RawSignatureValues()
	return txv{tx.Nonce(), tx.GasPrice(), tx.Gas(), tx.To(), tx.Value(), tx.Data(), new(big.Int).Set(v), new(big.Int).Set(r), new(big.Int).Set(s)}
}

func (t txv) clone() txv {
	c := t
	c.price, c.value = new(big.Int).Set(t.price), new(big.Int).Set(t.value)
	c.v, c.r, c.s = new(big.Int).Set(t.v), new(big.Int).Set(t.r), new(big.Int).Set(t.s)
	c.data = append([]byte{}, t.data...)
	if t.to != nil {
		a := *t.to
		c.to = &a
	}
	return c
}

func (t txv) sameAs(o txv) bool { return t.token() == o.token() }

// ------------------------------------------------------------ signers

type sgn struct {
	tok string
	s   types.Signer
	c   *big.Int // nil unless EIP155
}

func frontier() sgn  { return sgn{"F", types.FrontierSigner{}, nil} }
func homestead() sgn { return sgn{"H", types.HomesteadSigner{}, nil} }
func eip155(c *big.Int) sgn {
	return sgn{"E:" + q(c), types.NewEIP155Signer(c), c}
}

var chainIDs = []*big.Int{big.NewInt(1), big.NewInt(3), big.NewInt(127), big.NewInt(128), big.NewInt(61717561), new(big.Int).Lsh(big.NewInt(1), 40)}

func allSigners() []sgn {
	l := []sgn{frontier(), homestead()}
	for _, c := range chainIDs {
		l = append(l, eip155(c))
	}
	return l
}

// ------------------------------------------------------------ oracle tables

func pad32(b *big.Int) []byte {
	out := make([]byte, 32)
	bb := b.Bytes()
	copy(out[32-len(bb):], bb)
	return out
}

// ecTable records crypto.Ecrecover for every (hash, signature) the signers could ask for on t.
func ecTable(t txv, tx *types.Transaction, signers []sgn) string {
	if t.r.Sign() < 0 || t.s.Sign() < 0 || t.r.Cmp(two256) >= 0 || t.s.Cmp(two256) >= 0 {
		return "-"
	}
	seen := map[string]bool{}
	var ents []string
	hs := []common.Hash{types.FrontierSigner{}.Hash(tx)}
	for _, s := range signers {
		if s.c != nil {
			hs = append(hs, s.s.Hash(tx))
		}
	}
	for _, h := range hs {
		for v := byte(0); v < 2; v++ {
			sig := append(append(pad32(t.r), pad32(t.s)...), v)
			k := vh.Hex(h[:]) + ":" + vh.Hex(sig)
			if seen[k] {
				continue
			}
			seen[k] = true
			val := "err"
			vh.CatchPanic(func() {
				if pub, err := crypto.Ecrecover(h[:], sig); err == nil {
					val = vh.Hex(pub)
				}
			})
			ents = append(ents, k+"="+val)
		}
	}
	if len(ents) == 0 {
		return "-"
	}
	return strings.Join(ents, ";")
}

func classify(err error) string {
	switch {
	case err == nil:
		return "ok"
	case errors.Is(err, types.ErrInvalidChainId):
		return "err chain"
	case errors.Is(err, types.ErrInvalidSig):
		return "err sig"
	case strings.Contains(err.Error(), "invalid public key"):
		return "err pub"
	default:
		return "err recover"
	}
}

// signerSender: Signer.Sender on a fresh object (no cache involved)
func signerSender(s sgn, tx *types.Transaction) (res string, addr common.Address, ok bool) {
	p, pv := vh.CatchPanic(func() {
		a, err := s.s.Sender(tx)
		if err != nil {
			res = classify(err)
			return
		}
		res, addr, ok = "ok "+vh.Hex(a[:]), a, true
	})
	if p {
		return fmt.Sprintf("panic %v", pv), addr, false
	}
	return
}

func cachedSender(s sgn, tx *types.Transaction) string {
	var res string
	p, pv := vh.CatchPanic(func() {
		a, err := types.Sender(s.s, tx)
		if err != nil {
			res = classify(err)
			return
		}
		res = "ok " + vh.Hex(a[:])
	})
	if p {
		return fmt.Sprintf("panic %v", pv)
	}
	return res
}

// ------------------------------------------------------------ generators

func genKey(r *vh.RNG, leadingZeros int) *btcec.PrivateKey {
	for {
		b := r.Bytes(32)
		for i := 0; i < leadingZeros; i++ {
			b[i] = 0
		}
		d := new(big.Int).SetBytes(b)
		if d.Sign() == 0 || d.Cmp(secpN) >= 0 {
			continue
		}
		k, _ := btcec.PrivKeyFromBytes(b)
		return k
	}
}

func genBig(r *vh.RNG) *big.Int {
	switch r.Intn(7) {
	case 0:
		return big.NewInt(0)
	case 1:
		return big.NewInt(int64(r.Intn(256)))
	case 2:
		return new(big.Int).SetUint64(r.Uint64())
	case 3:
		return new(big.Int).Sub(two256, big.NewInt(1))
	case 4:
		return new(big.Int).Lsh(big.NewInt(1), uint(r.Intn(256)))
	default:
		return new(big.Int).SetBytes(r.Bytes(1 + r.Intn(32)))
	}
}

func genU64(r *vh.RNG) uint64 {
	switch r.Intn(5) {
	case 0:
		return 0
	case 1:
		return ^uint64(0)
	case 2:
		return uint64(r.Intn(300))
	default:
		return r.Uint64() >> uint(r.Intn(64))
	}
}

func genTx(r *vh.RNG) txv {
	t := txv{nonce: genU64(r), price: genBig(r), gas: genU64(r), value: genBig(r), v: new(big.Int), r: new(big.Int), s: new(big.Int)}
	if r.Chance(75) {
		a := common.BytesToAddress(r.Bytes(20))
		if r.Chance(15) {
			a[0], a[1] = 0, 0
		}
		t.to = &a
	}
	t.data = r.Bytes([]int{0, 0, 1, 4, 36, 55, 56, 200}[r.Intn(8)])
	if len(t.data) == 1 && r.Bool() {
		t.data[0] = []byte{0, 1, 0x7f, 0x80}[r.Intn(4)]
	}
	return t
}

// ------------------------------------------------------------ checks

type harness struct {
	c *vh.Ctx
	m *vh.Model
}

// senderCase: model vs implementation for Signer.Sender on t; returns the observation
func (h *harness) senderCase(class string, s sgn, t txv) (string, common.Address, bool) {
	tx := t.build()
	obs, addr, ok := signerSender(s, tx)
	key := ""
	if ok {
		key = s.tok + "/" + t.token()
	}
	h.c.Eval(class+"/"+strings.SplitN(s.tok, ":", 2)[0], key)
	h.c.Count("sender:" + strings.SplitN(obs, " 0x", 2)[0])
	tbl := ecTable(t, tx, []sgn{s})
	h.c.Correspond("Signer.Sender~sender_signer", s.tok+" "+t.token(), obs, h.m.Ask("sender "+s.tok+" "+t.token()+" "+tbl))
	if strings.HasPrefix(obs, "panic") {
		h.c.Violate("sender-panic/"+s.tok+"/"+t.token(), "Signer.Sender panics", map[string]string{"signer": s.tok, "tx": t.token(), "rlp": vh.Hex(t.rlp()), "observed": obs})
	}
	// direct oracle (clause: hash and sender survive the JSON re-encoding), for every attributed transaction
	if ok {
		h.c.Count("json-roundtrip-of-attributed-tx/" + strings.SplitN(s.tok, ":", 2)[0])
		if js, err := tx.MarshalJSON(); err != nil {
			h.c.Violate("json-marshal/"+t.token(), "MarshalJSON fails", map[string]string{"tx": t.token(), "err": err.Error()})
		} else {
			tx2 := new(types.Transaction)
			if err := tx2.UnmarshalJSON(js); err != nil {
				if t.price.BitLen() > 256 || t.value.BitLen() > 256 || t.v.BitLen() > 256 {
					h.c.Count("json-rejects-over-256-bit-amount-or-V(hexutil.Big limit)")
				} else {
					h.c.Violate("json-roundtrip/"+t.token(), "an attributed transaction's JSON form is rejected", map[string]string{"json": string(js), "err": err.Error(), "signer": s.tok, "rlp": vh.Hex(t.rlp())})
				}
			} else if a2, err := s.s.Sender(tx2); err != nil || a2 != addr || tx2.Hash() != tx.Hash() {
				h.c.Violate("json-roundtrip/"+t.token(), "hash or sender changed by a JSON round trip", map[string]string{"json": string(js), "signer": s.tok, "rlp": vh.Hex(t.rlp())})
			}
		}
	}
	// direct oracle (clause: malleable and out-of-range signatures are rejected)
	if ok {
		rng := t.r.Sign() > 0 && t.s.Sign() > 0 && t.r.Cmp(secpN) < 0 && t.s.Cmp(secpN) < 0
		if !rng {
			h.c.Violate("accepts-out-of-range/"+s.tok+"/"+t.token(), "sender recovered from out-of-range R/S", map[string]string{"signer": s.tok, "tx": t.token(), "rlp": vh.Hex(t.rlp())})
		}
		if t.s.Cmp(halfN) > 0 {
			switch {
			case s.tok == "F":
				h.c.Count("frontier-accepts-high-s(by-rule)")
			case s.tok == "H" || !tx.Protected():
				h.c.Violate("homestead-accepts-high-s/"+t.token(), "Homestead rules accepted S > N/2", map[string]string{"signer": s.tok, "tx": t.token(), "rlp": vh.Hex(t.rlp())})
			default:
				h.c.Violate("eip155-accepts-high-s", "EIP155Signer.Sender accepts a malleable signature (S > N/2): it passes homestead=false to recoverPlain",
					map[string]string{"signer": s.tok, "tx": t.token(), "rlp": vh.Hex(t.rlp()), "sender": vh.Hex(addr[:]), "oracle": tbl, "replay": "rlp.DecodeBytes(rlp, tx); types.NewEIP155Signer(chainid).Sender(tx) returns the sender although S > secp256k1 N/2"})
			}
		}
	}
	return obs, addr, ok
}

func (h *harness) mutationOracle(kind string, s sgn, orig, mut txv, origAddr common.Address) {
	if mut.sameAs(orig) {
		h.c.Count("mutation-identical-skip")
		return
	}
	obs, addr, ok := h.senderCase("mutation/"+kind, s, mut)
	_ = obs
	if ok && addr == origAddr {
		// malleated signature on a protected tx under EIP155 is the known class (reported by senderCase)
		isMalleation := mut.s.Cmp(halfN) > 0 && mut.r.Cmp(orig.r) == 0 && new(big.Int).Add(mut.s, orig.s).Cmp(secpN) == 0
		if isMalleation && s.tok != "H" {
			h.c.Count("malleation-accepted/" + strings.SplitN(s.tok, ":", 2)[0])
			return
		}
		h.c.Violate("mutation-keeps-sender/"+kind+"/"+s.tok+"/"+mut.token(), "a mutated signed transaction is still attributed to the original signer",
			map[string]string{"signer": s.tok, "original": orig.token(), "mutated": mut.token(), "mutated_rlp": vh.Hex(mut.rlp()), "sender": vh.Hex(addr[:])})
	}
}

func flipV(t txv, s sgn) *big.Int {
	// the other recovery id under the same signer
	base := big.NewInt(27)
	if s.c != nil && s.c.Sign() != 0 {
		base = new(big.Int).Add(big.NewInt(35), new(big.Int).Mul(s.c, big.NewInt(2)))
	}
	d := new(big.Int).Sub(t.v, base)
	if d.Sign() == 0 {
		return new(big.Int).Add(base, big.NewInt(1))
	}
	return base
}

func main() {
	c := vh.Init("C12")
	log.Root().SetHandler(log.DiscardHandler())
	m := c.StartModel()
	defer m.Close()
	h := &harness{c, m}
	r := c.Rng
	c.Res.Rule = "random keys (0-3 leading zero bytes) sign random transactions under Frontier/Homestead/EIP-155 (chain ids 1,3,127,128,61717561,2^40); each signed tx is mutated (every field, signature component, malleation, single bits of its RLP); boundary R,S,V grids; cache across signers; RLP/JSON round trips. A case is distinct non-trivial when Signer.Sender recovers an address for that (signer, tx)"
	if c.Replay != "" {
		c.Assume("replay of one recorded case")
		replay(h, c.Replay)
		c.Finish()
		return
	}

	// 0. Keccak model validation
	for i := 0; i < 6; i++ {
		b := r.Bytes([]int{0, 1, 135, 136, 137, 300}[i])
		c.Correspond("crypto.Keccak256~keccak256", vh.Hex(b), vh.Hex(crypto.Keccak256(b)), m.Ask("keccak "+vh.Hex(b)))
	}

	// 1. V classification: Protected / ChainId
	vs := []*big.Int{}
	for _, x := range []int64{0, 1, 26, 27, 28, 29, 34, 35, 36, 37, 38, 255, 256, 257, 289, 290, 291, 292} {
		vs = append(vs, big.NewInt(x))
	}
	for _, cid := range chainIDs {
		b := new(big.Int).Add(big.NewInt(35), new(big.Int).Mul(cid, big.NewInt(2)))
		for d := int64(-2); d <= 3; d++ {
			vs = append(vs, new(big.Int).Add(b, big.NewInt(d)))
		}
	}
	for _, sh := range []uint{63, 64, 65, 128} {
		b := new(big.Int).Lsh(big.NewInt(1), sh)
		for d := int64(-2); d <= 37; d += 3 {
			vs = append(vs, new(big.Int).Add(b, big.NewInt(d)))
		}
	}
	for _, v := range vs {
		t := genTx(r)
		t.v = v
		tx := t.build()
		obs := fmt.Sprintf("%v %s", tx.Protected(), q(tx.ChainId()))
		c.Eval("vinfo", "")
		c.Correspond("Protected,ChainId~is_protected_v,derive_chain_id", q(v), obs, m.Ask("vinfo "+q(v)))
	}

	// 2. ValidateSignatureValues grid
	bnd := []*big.Int{big.NewInt(0), big.NewInt(1), big.NewInt(2), halfN, new(big.Int).Add(halfN, big.NewInt(1)), new(big.Int).Sub(secpN, big.NewInt(1)), secpN, new(big.Int).Add(secpN, big.NewInt(1)), new(big.Int).Sub(two256, big.NewInt(1))}
	for _, rr := range bnd {
		for _, ss := range bnd {
			for _, v := range []byte{0, 1, 2, 27, 28, 255} {
				for _, hs := range []bool{false, true} {
					got := crypto.ValidateSignatureValues(v, rr, ss, hs)
					c.Eval("validate-grid", "")
					c.Correspond("ValidateSignatureValues~validate_sig", fmt.Sprintf("%d %s %s %v", v, q(rr), q(ss), hs), fmt.Sprint(got),
						m.Ask(fmt.Sprintf("validate %d %s %s %v", v, q(rr), q(ss), hs)))
					want := (v == 0 || v == 1) && rr.Sign() > 0 && ss.Sign() > 0 && rr.Cmp(secpN) < 0 && ss.Cmp(secpN) < 0 && (!hs || ss.Cmp(halfN) <= 0)
					if got != want {
						c.Violate(fmt.Sprintf("validate-spec/%d/%s/%s/%v", v, q(rr), q(ss), hs), "ValidateSignatureValues differs from its specification", map[string]string{"v": fmt.Sprint(v), "r": q(rr), "s": q(ss), "homestead": fmt.Sprint(hs)})
					}
				}
			}
		}
	}

	// 3. SignatureValues on raw signatures (byte arithmetic on sig[64]) incl. wrong length
	for _, s := range allSigners() {
		for _, vb := range []byte{0, 1, 2, 220, 221, 228, 229, 255} {
			sig := append(r.Bytes(64), vb)
			if r.Chance(30) {
				sig[0], sig[32] = 0, 0
			}
			h.sigValues(s, sig)
		}
		h.sigValues(s, r.Bytes(64))
		h.sigValues(s, r.Bytes(66))
	}
	h.sigValues(eip155(big.NewInt(0)), append(r.Bytes(64), 1))

	// 4. signed transactions and their mutations
	var prevSigned *types.Transaction
	nSigned := c.Scale(24, 600)
	fullBits := c.Scale(1, 40)
	for i := 0; i < nSigned; i++ {
		lz := []int{0, 0, 1, 2, 3}[i%5]
		key := genKey(r, lz)
		signers := allSigners()
		s := signers[i%len(signers)]
		t := genTx(r)
		if i < fullBits && !c.Thorough() && len(t.data) > 4 {
			t.data = t.data[:4] // the exhaustive single-bit sweep of the quick tier uses a short payload
		}
		if i%len(signers) == 2 && i%3 == 0 {
			s = eip155(big.NewInt(0)) // chain id 0: SignatureValues yields 27/28
		}
		signed, signedV, ok := h.signCase(s, key, t, lz)
		if !ok {
			continue
		}
		want := crypto.PubkeyToAddress(key.PubKey())
		obs, addr, sok := h.senderCase("signed", s, signedV)
		if !sok || addr != want {
			c.Violate("signed-wrong-sender/"+s.tok+"/"+signedV.token(), "a signed transaction is not attributed to the key's address", map[string]string{"signer": s.tok, "tx": signedV.token(), "key": vh.Hex(key.Serialize()), "observed": obs, "want": vh.Hex(want[:])})
			continue
		}
		if i < 4 {
			c.Sample(map[string]string{"signer": s.tok, "tx": signedV.token(), "sender": vh.Hex(addr[:]), "leading_zero_key_bytes": fmt.Sprint(lz)})
		}
		// 4a. every single-field mutation
		for _, mu := range fieldMutations(r, signedV, s) {
			h.mutationOracle(mu.kind, s, signedV, mu.t, want)
		}
		// 4b. replay under other signers (chain binding)
		for _, s2 := range signers {
			if s2.tok == s.tok {
				continue
			}
			_, a2, ok2 := h.senderCase("cross-signer", s2, signedV)
			if ok2 && a2 == want && s.c != nil && s.c.Sign() != 0 && s2.tok != "F" && s2.tok != "H" {
				c.Violate("replay-across-chains/"+s.tok+"/"+s2.tok, "a replay-protected transaction is attributed to its signer under a foreign chain id", map[string]string{"signed_with": s.tok, "accepted_by": s2.tok, "tx": signedV.token()})
			}
			if ok2 && a2 == want && s.c != nil && s.c.Sign() != 0 {
				c.Violate("replay-unprotected/"+s.tok+"/"+s2.tok, "a replay-protected transaction is attributed to its signer by a pre-EIP155 signer", map[string]string{"signed_with": s.tok, "accepted_by": s2.tok, "tx": signedV.token()})
			}
		}
		// 4c. single-bit mutations of the RLP encoding
		enc := signedV.rlp()
		nbits := len(enc) * 8
		step := 1
		if i >= fullBits {
			step = nbits/c.Scale(12, 64) + 1
		}
		for b := r.Intn(step); b < nbits; b += step {
			mut := append([]byte{}, enc...)
			mut[b/8] ^= 1 << uint(b%8)
			tx2 := new(types.Transaction)
			if err := rlp.DecodeBytes(mut, tx2); err != nil {
				c.Eval("bitflip/undecodable", "")
				c.Correspond("rlp.DecodeBytes(tx)~decode_tx", vh.Hex(mut), "err", firstWord(m.Ask("decode_tx "+vh.Hex(mut))))
				continue
			}
			mv := fromTx(tx2)
			c.Correspond("rlp.DecodeBytes(tx)~decode_tx", vh.Hex(mut), "ok "+mv.token(), m.Ask("decode_tx "+vh.Hex(mut)))
			h.mutationOracle("bitflip", s, signedV, mv, want)
		}
		// 4d. cache: query under the signing signer, then under another one, on the same object
		for k := 0; k < 3; k++ {
			s2 := signers[r.Intn(len(signers))]
			h.cacheCase(s, s2, signedV)
			h.cacheCase(s2, s, signedV)
		}
		// 4d'. every ordered pair (and some triples) of signers on ONE object, for the valid tx and its
		//      malleated / V / chain variants; other cache-filling paths; copies of a cached object
		h.cacheMatrix(i, s, signed, signedV, i < c.Scale(3, 24))
		// 4e. RLP and JSON round trips keep hash and sender
		h.roundTrips(s, signed, signedV, want)
		// 4f. chain id / V offsets around the signed values
		h.chainSweep(i, s, signedV, want, i >= 2 && i < c.Scale(3, 24))
		// 4g. field-patched JSON documents (values taken from the previously signed transaction)
		if prevSigned != nil && i < c.Scale(6, 200) {
			h.jsonPatched(signed, prevSigned, s)
		}
		prevSigned = signed
	}

	// 5. boundary R, S, V grids on otherwise random transactions
	nGrid := c.Scale(3, 30)
	for i := 0; i < nGrid; i++ {
		base := genTx(r)
		for _, s := range []sgn{frontier(), homestead(), eip155(chainIDs[i%len(chainIDs)])} {
			vsl := []*big.Int{big.NewInt(0), big.NewInt(1), big.NewInt(26), big.NewInt(27), big.NewInt(28), big.NewInt(29), big.NewInt(283), big.NewInt(284)}
			if s.c != nil {
				b := new(big.Int).Add(big.NewInt(35), new(big.Int).Mul(s.c, big.NewInt(2)))
				for d := int64(-9); d <= 2; d++ {
					vsl = append(vsl, new(big.Int).Add(b, big.NewInt(d)))
				}
				vsl = append(vsl, new(big.Int).Add(b, big.NewInt(256)), new(big.Int).Add(b, big.NewInt(257)))
			}
			grid := []*big.Int{big.NewInt(0), big.NewInt(1), halfN, new(big.Int).Add(halfN, big.NewInt(1)), new(big.Int).Sub(secpN, big.NewInt(1)), secpN}
			for _, rr := range grid {
				for _, ss := range grid {
					for _, v := range vsl {
						if r.Chance(c.Scale(88, 0)) {
							continue
						}
						t := base.clone()
						t.r, t.s, t.v = rr, ss, v
						h.senderCase("grid", s, t)
						if r.Chance(c.Scale(35, 100)) {
							h.jsonEntrance(s, t)
						}
					}
				}
			}
		}
	}
	// random R (valid x coordinate is likely) with boundary S, so that recovery actually succeeds at the S boundaries
	for i := 0; i < c.Scale(30, 600); i++ {
		s := allSigners()[i%8]
		t := genTx(r)
		t.r = new(big.Int).SetBytes(r.Bytes(32))
		t.s = []*big.Int{big.NewInt(1), halfN, new(big.Int).Add(halfN, big.NewInt(1)), new(big.Int).Sub(secpN, big.NewInt(1)), new(big.Int).SetBytes(r.Bytes(32))}[i%5]
		t.v = big.NewInt(27 + int64(r.Intn(2)))
		if s.c != nil {
			t.v = new(big.Int).Add(big.NewInt(35+int64(r.Intn(2))), new(big.Int).Mul(s.c, big.NewInt(2)))
		}
		h.senderCase("random-r-boundary-s", s, t)
		h.jsonEntrance(s, t)
	}

	// 5a'. chain ids beyond 32 / 64 bits, pairs congruent modulo 2^32 / 2^64, V around multiples of 2^64
	h.wideChains()

	// 5b. acceptance at the places the property's anchors name
	h.acceptance()

	// 6. hex quantity codec on malformed / boundary strings
	for _, str := range []string{"", "0x", "0X1", "0x0", "0x00", "0x01", "0x1", "0xg", "1", "x1", "0xFFff", "0x" + strings.Repeat("f", 16), "0x1" + strings.Repeat("0", 16), "0x" + strings.Repeat("f", 64), "0x1" + strings.Repeat("0", 64), "0x 1", "00x1"} {
		var bg hexutil.Big
		o := "err"
		if err := bg.UnmarshalText([]byte(str)); err == nil {
			o = "ok " + q((*big.Int)(&bg))
		}
		c.Eval("quantity/decode", "")
		c.Correspond("hexutil.Big.UnmarshalText~dec_quantity 64", str, o, m.Ask("dec_quantity 64 0x"+hex.EncodeToString([]byte(str))))
		var u hexutil.Uint64
		o = "err"
		if err := u.UnmarshalText([]byte(str)); err == nil {
			o = fmt.Sprintf("ok 0x%x", uint64(u))
		}
		c.Correspond("hexutil.Uint64.UnmarshalText~dec_quantity 16", str, o, m.Ask("dec_quantity 16 0x"+hex.EncodeToString([]byte(str))))
	}

	c.Assume("Frontier rules accept S > N/2 by definition (pre-EIP-2); a malleated signature accepted by FrontierSigner is counted, not reported")
	c.Assume("secp256k1 results (Ecrecover, Sign, PubkeyToAddress) enter the model as oracle tables recorded from the implementation on the same case")
	c.Assume("Transactions with arbitrary V,R,S are built through the public RLP decoder; acceptance is exercised on a chain configuration with Homestead at 2 and EIP-155 at 5 (pool: a fresh pool per case below and above the fork, and one pool living across it; state processor: heights 1,2,4,5,6)")
	c.Finish()
}

// ------------------------------------------------------------ acceptance: TxPool.AddRemote, ApplyTransaction, AsMessage

type fchain struct {
	mu   sync.Mutex
	blk  *types.Block
	st   *state.StateDB
	feed event.Feed
}

func (c *fchain) CurrentBlock() *types.Block {
	c.mu.Lock()
	defer c.mu.Unlock()
	return c.blk
}
func (c *fchain) GetBlock(common.Hash, uint64) *types.Block { return c.CurrentBlock() }
func (c *fchain) StateAt(common.Hash) (*state.StateDB, error) {
	c.mu.Lock()
	defer c.mu.Unlock()
	return c.st.Copy(), nil
}
func (c *fchain) SubscribeChainHeadEvent(ch chan<- core.ChainHeadEvent) event.Subscription {
	return c.feed.Subscribe(ch)
}

func mkBlock(num uint64) *types.Block {
	return types.NewBlock(&types.Header{Number: new(big.Int).SetUint64(num), GasLimit: 8000000, Difficulty: big.NewInt(1), Version: 1,
		Extra: []byte(fmt.Sprint(num)), Time: big.NewInt(int64(1500000000 + num))}, nil, nil, nil)
}

func optTok(b *big.Int) string {
	if b == nil {
		return "nil"
	}
	return q(b)
}
func cfgTok(cfg *params.ChainConfig) string {
	return q(cfg.ChainId) + " " + optTok(cfg.HomesteadBlock) + " " + optTok(cfg.EIP155Block)
}
func signerTok(s types.Signer) string {
	switch x := s.(type) {
	case types.EIP155Signer:
		_, _, v, _ := x.SignatureValues(nil, make([]byte, 65))
		if v.Cmp(big.NewInt(27)) == 0 {
			return "E:0x0"
		}
		id := new(big.Int).Sub(v, big.NewInt(35))
		return "E:" + q(id.Rsh(id, 1))
	case types.HomesteadSigner:
		return "H"
	case types.FrontierSigner:
		return "F"
	}
	return fmt.Sprintf("?%T", s)
}

type accCase struct {
	kind   string
	t      txv
	orig   txv
	signer common.Address // who signed the original
	signed sgn
}

// expected maps the model's answer ("<signer> | ok 0x.. / err ..") to the acceptance outcome:
// a recovered sender that is not funded cannot pay
func expected(ans string, funded map[common.Address]bool, pool bool) string {
	parts := strings.SplitN(ans, " | ", 2)
	if len(parts) != 2 {
		return ans
	}
	r := parts[1]
	if strings.HasPrefix(r, "ok ") {
		a := common.BytesToAddress(vh.UnHex(strings.TrimPrefix(r, "ok ")))
		if funded[a] {
			return parts[0] + " | " + r
		}
		return parts[0] + " | err funds"
	}
	if pool {
		return parts[0] + " | err invalid-sender"
	}
	return parts[0] + " | " + r
}

func (h *harness) acceptance() {
	c, r := h.c, h.c.Rng
	cid := big.NewInt(3)
	cfg := *params.TestChainConfig
	cfg.ChainId = cid
	cfg.HomesteadBlock = big.NewInt(2)
	cfg.EIP155Block = big.NewInt(5)
	cfg.EIP158Block = big.NewInt(5)
	cfg.ByzantiumBlock = big.NewInt(5)
	ctok := cfgTok(&cfg)
	coinbase := common.HexToAddress("0xc0ffee")

	// cases: transactions signed for this chain, for a foreign chain and unprotected, and their variants
	db, _ := state.New(common.Hash{}, state.NewDatabase(aquadb.NewMemDatabase()))
	funded := map[common.Address]bool{}
	var cases []accCase
	signKinds := []sgn{eip155(cid), homestead(), eip155(big.NewInt(61717561)), eip155(new(big.Int).Lsh(big.NewInt(1), 40)), frontier()}
	n := c.Scale(5, 30)
	for i := 0; i < n; i++ {
		s := signKinds[i%len(signKinds)]
		key := genKey(r, i%3)
		addr := crypto.PubkeyToAddress(key.PubKey())
		funded[addr] = true
		db.AddBalance(addr, new(big.Int).Lsh(big.NewInt(1), 80))
		t := txv{nonce: 0, price: big.NewInt(10), gas: 100000, value: big.NewInt(int64(1 + r.Intn(1000))), data: r.Bytes([]int{0, 4, 36}[r.Intn(3)]), v: new(big.Int), r: new(big.Int), s: new(big.Int)}
		if i%4 != 3 {
			a := common.BytesToAddress(r.Bytes(20))
			t.to = &a
		}
		signed, err := types.SignTx(t.build(), s.s, key)
		if err != nil {
			c.Fatal("acceptance: SignTx: %v", err)
		}
		o := fromTx(signed)
		cases = append(cases, accCase{"original", o, o, addr, s})
		mk := func(kind string, f func(m *txv)) {
			m := o.clone()
			f(&m)
			cases = append(cases, accCase{kind, m, o, addr, s})
		}
		mk("malleate(r,N-s,v^1)", func(m *txv) { m.s.Sub(secpN, m.s); m.v = flipV(o, s) })
		mk("s->N-s", func(m *txv) { m.s.Sub(secpN, m.s) })
		mk("v-flip", func(m *txv) { m.v = flipV(o, s) })
		mk("value+1", func(m *txv) { m.value.Add(m.value, big.NewInt(1)) })
		mk("data+byte", func(m *txv) { m.data = append(m.data, 7) })
		if o.to != nil {
			mk("to^bit", func(m *txv) { m.to[3] ^= 4 })
		}
		bit := int64(0)
		if new(big.Int).Sub(o.v, flipV(o, s)).Sign() > 0 {
			bit = 1
		}
		mk("chainid->own", func(m *txv) { m.v = new(big.Int).Add(big.NewInt(35+bit), new(big.Int).Mul(cid, big.NewInt(2))) })
		mk("chainid->1", func(m *txv) { m.v = big.NewInt(37 + bit) })
		mk("chainid->unprotected", func(m *txv) { m.v = big.NewInt(27 + bit) })
	}
	root := db.IntermediateRoot(false)
	_ = root

	oracle := func(where string, ac accCase, okAddr common.Address, height uint64, rules string) {
		if okAddr != ac.signer || ac.kind == "original" {
			return
		}
		if ac.t.sameAs(ac.orig) {
			return
		}
		rp := map[string]string{"where": where, "height": fmt.Sprint(height), "config": ctok, "signed_with": ac.signed.tok, "original": ac.orig.token(), "accepted": ac.t.token(), "rlp": vh.Hex(ac.t.rlp()), "signer": "E:" + q(cid), "kind": ac.kind}
		malleation := ac.t.s.Cmp(halfN) > 0 && new(big.Int).Add(ac.t.s, ac.orig.s).Cmp(secpN) == 0 && ac.t.r.Cmp(ac.orig.r) == 0
		switch {
		case malleation && rules == "F":
			c.Count("frontier-accepts-high-s(by-rule)/" + where)
		case malleation && ac.t.build().Protected():
			c.Count("malleated-twin-accepted/" + where)
			c.Violate("eip155-accepts-high-s", "the malleated (r, N-s, v xor 1) twin of a replay-protected transaction is accepted by "+where+" for the same sender (EIP155Signer.Sender passes homestead=false)", rp)
		default:
			c.Violate("acceptance-of-mutated-tx/"+where+"/"+ac.kind+"/"+ac.t.token(), "a mutated transaction is accepted for the original signer", rp)
		}
	}

	// (a) TxPool.AddRemote: a fresh pool per case, created below and above the EIP-155 height
	poolObs := func(pool *core.TxPool, tx *types.Transaction) (string, common.Address, bool) {
		var err error
		if p, pv := vh.CatchPanic(func() { err = pool.AddRemote(tx) }); p {
			return fmt.Sprintf("panic %v", pv), common.Address{}, false
		}
		switch {
		case err == nil:
			pend, queued := pool.Content()
			for _, m := range []map[common.Address]types.Transactions{pend, queued} {
				for a, l := range m {
					for _, x := range l {
						if x.Hash() == tx.Hash() {
							return "ok " + vh.Hex(a[:]), a, true
						}
					}
				}
			}
			return "ok not-found", common.Address{}, false
		case errors.Is(err, core.ErrInvalidSender):
			return "err invalid-sender", common.Address{}, false
		case errors.Is(err, core.ErrInsufficientFunds):
			return "err funds", common.Address{}, false
		}
		return "err other:" + err.Error(), common.Address{}, false
	}
	pcfg := core.DefaultTxPoolConfig
	pcfg.Journal = ""
	pooled := map[uint64][]*types.Transaction{} // the objects that went through a pool (their cache is filled under the pool's signer)
	for _, height := range []uint64{1, 6} {
		for _, ac := range cases {
			ch := &fchain{blk: mkBlock(height), st: db}
			pool := core.NewTxPool(pcfg, &cfg, ch)
			tx := ac.t.build()
			pooled[height] = append(pooled[height], tx)
			obs, a, ok := poolObs(pool, tx)
			pool.Stop()
			c.Eval(fmt.Sprintf("pool/h%d/%s/%s", height, strings.SplitN(ac.signed.tok, ":", 2)[0], ac.kind), "")
			c.Count("pool:" + strings.SplitN(obs, " 0x", 2)[0])
			tbl := ecTable(ac.t, tx, []sgn{eip155(cid)})
			ans := h.m.Ask("sender_pool " + ctok + " " + ac.t.token() + " " + tbl)
			c.Correspond("TxPool.AddRemote~sender_signer(pool_signer)", fmt.Sprintf("h=%d %s", height, ac.t.token()), "E:"+q(cid)+" | "+obs, expected(ans, funded, true))
			if ok {
				oracle("TxPool.AddRemote", ac, a, height, "E")
				if tx.Protected() && tx.ChainId().Cmp(cid) != 0 {
					c.Violate("replay-across-chains/pool/"+ac.t.token(), "the pool accepts a transaction protected for another chain", map[string]string{"tx": ac.t.token(), "height": fmt.Sprint(height)})
				}
				if tx.Protected() && height < 5 {
					c.Count("pool-accepts-protected-tx-before-eip155-height(not executable yet)")
				}
			}
		}
	}
	// (a') one pool that lives across the EIP-155 height: created at 4, head moves to 6
	{
		ch := &fchain{blk: mkBlock(4), st: db}
		pool := core.NewTxPool(pcfg, &cfg, ch)
		first := cases[0]
		pool.AddRemote(first.t.build())
		st2 := db.Copy()
		st2.SetNonce(first.signer, 1)
		ch.mu.Lock()
		ch.blk, ch.st = mkBlock(6), st2
		ch.mu.Unlock()
		ch.feed.Send(core.ChainHeadEvent{Block: ch.CurrentBlock()})
		deadline := time.Now().Add(3 * time.Second)
		for time.Now().Before(deadline) {
			if p, _ := pool.Stats(); p == 0 {
				break
			}
			time.Sleep(2 * time.Millisecond)
		}
		if p, _ := pool.Stats(); p != 0 {
			c.Note("pool did not process the head event within 3 s; across-fork cases skipped")
		} else {
			seen := map[common.Address]bool{first.signer: true}
			for _, ac := range cases {
				if seen[ac.signer] || ac.kind == "malleate(r,N-s,v^1)" && false {
					continue
				}
				// one variant per signer so that replacement rules do not interfere
				if ac.kind != []string{"original", "malleate(r,N-s,v^1)", "chainid->1", "chainid->unprotected", "v-flip"}[len(seen)%5] {
					continue
				}
				seen[ac.signer] = true
				tx := ac.t.build()
				obs, a, ok := poolObs(pool, tx)
				c.Eval("pool/across-fork/"+ac.kind, "")
				tbl := ecTable(ac.t, tx, []sgn{eip155(cid)})
				ans := h.m.Ask("sender_pool " + ctok + " " + ac.t.token() + " " + tbl)
				c.Correspond("TxPool.AddRemote(after head moved across EIP-155)~sender_signer(pool_signer)", ac.t.token(), "E:"+q(cid)+" | "+obs, expected(ans, funded, true))
				if ok {
					oracle("TxPool.AddRemote", ac, a, 6, "E")
				}
			}
		}
		pool.Stop()
	}

	// (b) core.ApplyTransaction and tx.AsMessage(types.MakeSigner(config, height)) on both sides of each fork
	for _, height := range []uint64{1, 2, 4, 5, 6} {
		num := new(big.Int).SetUint64(height)
		for ci, ac := range cases {
			tx := ac.t.build()
			sg := types.MakeSigner(&cfg, num)
			tbl := ecTable(ac.t, tx, []sgn{eip155(cid)})
			ans := h.m.Ask(fmt.Sprintf("sender_at %s %d %s %s", ctok, height, ac.t.token(), tbl))
			// AsMessage
			var mobs string
			vh.CatchPanic(func() {
				msg, err := ac.t.build().AsMessage(sg)
				if err != nil {
					mobs = classify(err)
				} else {
					f := msg.From()
					mobs = "ok " + vh.Hex(f[:])
				}
			})
			c.Eval(fmt.Sprintf("apply/h%d/%s/%s", height, strings.SplitN(ac.signed.tok, ":", 2)[0], ac.kind), "")
			c.Correspond("tx.AsMessage(MakeSigner(cfg,h))~sender_signer(make_signer)", fmt.Sprintf("h=%d %s", height, ac.t.token()), signerTok(sg)+" | "+mobs, ans)
			// ApplyTransaction
			applyOn := func(tx *types.Transaction) (aobs string, from common.Address, okApplied bool) {
				st := db.Copy()
				hdr := mkBlock(height).Header()
				gp := new(core.GasPool).AddGas(hdr.GasLimit)
				var used uint64
				var err error
				p, pv := vh.CatchPanic(func() { _, _, err = core.ApplyTransaction(&cfg, nil, &coinbase, gp, st, hdr, tx, &used, vm.Config{}) })
				switch {
				case p:
					aobs = fmt.Sprintf("panic %v", pv)
					c.Violate("apply-panic/"+ac.t.token(), "ApplyTransaction panics", map[string]string{"tx": ac.t.token(), "panic": fmt.Sprint(pv)})
				case err == nil:
					for a := range funded {
						if st.GetNonce(a) == 1 {
							from, okApplied = a, true
						}
					}
					aobs = "ok " + vh.Hex(from[:])
				case strings.Contains(err.Error(), "insufficient balance"):
					aobs = "err funds"
				case strings.Contains(err.Error(), "could not recover sender") || errors.Is(err, types.ErrInvalidSig) || errors.Is(err, types.ErrInvalidChainId):
					aobs = classify(err)
				default:
					aobs = "err other:" + err.Error()
				}
				return
			}
			aobs, from, okApplied := applyOn(tx)
			// the same transaction as an object that went through TxPool.AddRemote first (sender cached under
			// the pool's signer), applied at this height: must behave like the fresh object
			for _, ph := range []uint64{1, 6} {
				if got, _, _ := applyOn(pooled[ph][ci]); got != aobs {
					c.Violate("cache-unsound/pool-then-apply/"+signerTok(sg)+"/"+ac.t.token(), "a transaction object that passed TxPool.AddRemote is applied differently from a fresh copy (sender cached under the pool's signer reused by the state processor)",
						map[string]string{"path": "pool-then-apply", "pool_height": fmt.Sprint(ph), "apply_height": fmt.Sprint(height), "rlp": vh.Hex(ac.t.rlp()), "got": got, "fresh": aobs})
				}
				c.Eval("cache/pool-then-apply", "")
			}
			c.Count("apply:" + strings.SplitN(aobs, " 0x", 2)[0])
			c.Correspond("core.ApplyTransaction~sender_signer(make_signer)", fmt.Sprintf("h=%d %s", height, ac.t.token()), signerTok(sg)+" | "+aobs, expected(ans, funded, false))
			if okApplied {
				oracle("core.ApplyTransaction", ac, from, height, strings.SplitN(signerTok(sg), ":", 2)[0])
				if tx.Protected() && (tx.ChainId().Cmp(cid) != 0 || height < 5) {
					c.Violate("replay-across-chains/apply/"+ac.t.token(), "the state processor applies a transaction protected for another chain (or before EIP-155 is active)", map[string]string{"tx": ac.t.token(), "height": fmt.Sprint(height)})
				}
			}
		}
	}

	// (c) types.MakeSigner on the built-in configurations around their fork heights and on random configurations
	builtins := []*params.ChainConfig{params.MainnetChainConfig, params.TestnetChainConfig, params.Testnet2ChainConfig, params.Testnet3ChainConfig, params.AllAquahashProtocolChanges, params.TestChainConfig}
	probe := func(cf *params.ChainConfig, num *big.Int, class string) {
		c.Eval(class, "")
		c.Correspond("types.MakeSigner~make_signer", cfgTok(cf)+" @"+q(num), signerTok(types.MakeSigner(cf, num)), h.m.Ask("makesigner "+cfgTok(cf)+" "+q(num)))
	}
	for _, cf := range builtins {
		for _, b := range []*big.Int{big.NewInt(0), cf.HomesteadBlock, cf.EIP155Block} {
			if b == nil {
				continue
			}
			for d := int64(-1); d <= 1; d++ {
				if x := new(big.Int).Add(b, big.NewInt(d)); x.Sign() >= 0 {
					probe(cf, x, "makesigner/builtin")
				}
			}
		}
	}
	for i := 0; i < c.Scale(60, 600); i++ {
		pick := func() *big.Int {
			switch r.Intn(5) {
			case 0:
				return nil
			case 1:
				return big.NewInt(0)
			case 2:
				return new(big.Int).Lsh(big.NewInt(1), 64)
			default:
				return big.NewInt(int64(r.Intn(12)))
			}
		}
		cf := &params.ChainConfig{ChainId: chainIDs[r.Intn(len(chainIDs))], HomesteadBlock: pick(), EIP155Block: pick()}
		num := pick()
		if num == nil {
			num = big.NewInt(int64(r.Intn(12)))
		}
		probe(cf, num, "makesigner/random")
	}
}

func firstWordIfErr(s string) string { return s }

func firstWord(s string) string {
	if i := strings.IndexByte(s, ' '); i >= 0 {
		return s[:i]
	}
	return s
}

func (h *harness) sigValues(s sgn, sig []byte) {
	var obs string
	p, _ := vh.CatchPanic(func() {
		rr, ss, v, err := s.s.SignatureValues(nil, sig)
		if err != nil {
			obs = "err"
			return
		}
		obs = "ok " + q(rr) + " " + q(ss) + " " + q(v)
	})
	if p {
		obs = "panic"
	}
	h.c.Eval("sigvalues", "")
	h.c.Correspond("Signer.SignatureValues~signature_values", s.tok+" "+vh.Hex(sig), obs, h.m.Ask("sigvalues "+s.tok+" "+vh.Hex(sig)))
}

// signCase: types.SignTx vs sign_tx (oracle tables: Sign, PubkeyToAddress, Ecrecover)
func (h *harness) signCase(s sgn, key *btcec.PrivateKey, t txv, lz int) (*types.Transaction, txv, bool) {
	tx := t.build()
	kb := key.Serialize()
	hh := s.s.Hash(tx)
	sig, serr := crypto.Sign(hh[:], key)
	stbl := vh.Hex(kb) + ":" + vh.Hex(hh[:]) + "="
	if serr != nil {
		stbl += "err"
	} else {
		stbl += vh.Hex(sig)
	}
	addr := crypto.PubkeyToAddress(key.PubKey())
	atbl := vh.Hex(kb) + "=" + vh.Hex(addr[:])
	var signed *types.Transaction
	var err error
	p, pv := vh.CatchPanic(func() { signed, err = types.SignTx(tx, s.s, key) })
	obs := ""
	var sv txv
	etbl := "-"
	switch {
	case p:
		obs = fmt.Sprintf("panic %v", pv)
	case err != nil:
		switch {
		case strings.Contains(err.Error(), "mismatch"):
			obs = "err mismatch"
		case strings.Contains(err.Error(), "could not sign"):
			obs = "err sign"
		default:
			obs = "err sender-" + strings.TrimPrefix(classify(errors.Unwrap(err)), "err ")
		}
	default:
		sv = fromTx(signed)
		obs = "ok " + sv.token()
	}
	if serr == nil {
		// the transaction SignTx recovers from: t with the signature attached
		var w *types.Transaction
		vh.CatchPanic(func() { w, _ = tx.WithSignature(s.s, sig) })
		if w != nil {
			etbl = ecTable(fromTx(w), w, []sgn{s})
		}
	}
	h.c.Eval(fmt.Sprintf("sign/%s/keylz%d", strings.SplitN(s.tok, ":", 2)[0], lz), "")
	h.c.Correspond("types.SignTx~sign_tx", s.tok+" "+t.token(), obs, h.m.Ask("signtx "+s.tok+" "+vh.Hex(kb)+" "+t.token()+" "+stbl+" "+atbl+" "+etbl))
	if !strings.HasPrefix(obs, "ok") {
		if s.c != nil && s.c.Sign() == 0 {
			h.c.Count("sign-fails/chainid0(hash covers chain id 0 but V is 27/28)")
			return nil, sv, false
		}
		h.c.Violate("signtx-fails/"+s.tok+"/"+t.token(), "types.SignTx fails on a valid key and transaction", map[string]string{"signer": s.tok, "tx": t.token(), "key": vh.Hex(kb), "observed": obs})
		return nil, sv, false
	}
	if sv.s.Cmp(halfN) > 0 {
		h.c.Violate("sign-produces-high-s/"+sv.token(), "crypto.Sign produced S > N/2", map[string]string{"tx": sv.token()})
	}
	return signed, sv, true
}

type mutation struct {
	kind string
	t    txv
}

func fieldMutations(r *vh.RNG, t txv, s sgn) []mutation {
	var l []mutation
	add := func(kind string, f func(m *txv)) {
		m := t.clone()
		f(&m)
		l = append(l, mutation{kind, m})
	}
	one := big.NewInt(1)
	add("nonce+1", func(m *txv) { m.nonce++ })
	add("nonce^bit", func(m *txv) { m.nonce ^= 1 << uint(r.Intn(64)) })
	add("price+1", func(m *txv) { m.price.Add(m.price, one) })
	add("price^bit", func(m *txv) { m.price.Xor(m.price, new(big.Int).Lsh(one, uint(r.Intn(256)))) })
	add("gas+1", func(m *txv) { m.gas++ })
	add("gas^bit", func(m *txv) { m.gas ^= 1 << uint(r.Intn(64)) })
	add("value+1", func(m *txv) { m.value.Add(m.value, one) })
	add("value^bit", func(m *txv) { m.value.Xor(m.value, new(big.Int).Lsh(one, uint(r.Intn(256)))) })
	if t.to == nil {
		add("to:nil->addr", func(m *txv) { a := common.BytesToAddress(r.Bytes(20)); m.to = &a })
		add("to:nil->zero", func(m *txv) { a := common.Address{}; m.to = &a })
	} else {
		add("to->nil", func(m *txv) { m.to = nil })
		add("to^bit", func(m *txv) { m.to[r.Intn(20)] ^= 1 << uint(r.Intn(8)) })
	}
	add("data+byte", func(m *txv) { m.data = append(m.data, byte(r.Intn(256))) })
	add("data+0prefix", func(m *txv) { m.data = append([]byte{0}, m.data...) })
	if len(t.data) > 0 {
		add("data^bit", func(m *txv) { m.data[r.Intn(len(m.data))] ^= 1 << uint(r.Intn(8)) })
		add("data-trunc", func(m *txv) { m.data = m.data[:len(m.data)-1] })
	}
	// signature components
	add("r+1", func(m *txv) { m.r.Add(m.r, one) })
	add("r^bit", func(m *txv) { m.r.Xor(m.r, new(big.Int).Lsh(one, uint(r.Intn(256)))) })
	add("s+1", func(m *txv) { m.s.Add(m.s, one) })
	add("s^bit", func(m *txv) { m.s.Xor(m.s, new(big.Int).Lsh(one, uint(r.Intn(255)))) })
	add("v-flip", func(m *txv) { m.v = flipV(t, s) })
	add("v+256", func(m *txv) { m.v.Add(m.v, big.NewInt(256)) })
	add("v+2^64", func(m *txv) { m.v.Add(m.v, new(big.Int).Lsh(one, 64)) })
	add("s->N-s", func(m *txv) { m.s.Sub(secpN, m.s) })
	add("malleate(r,N-s,v^1)", func(m *txv) { m.s.Sub(secpN, m.s); m.v = flipV(t, s) })
	add("s+N", func(m *txv) { m.s.Add(m.s, secpN) })
	add("r+N", func(m *txv) { m.r.Add(m.r, secpN) })
	// chain id moved: V re-based onto other chains / unprotected
	rec := new(big.Int).Sub(t.v, flipV(t, s)) // -1 or +1
	bit := int64(0)
	if rec.Sign() > 0 {
		bit = 1
	}
	for _, cid := range chainIDs {
		if s.c != nil && cid.Cmp(s.c) == 0 {
			continue
		}
		cid := cid
		add("chainid->"+cid.String(), func(m *txv) { m.v = new(big.Int).Add(big.NewInt(35+bit), new(big.Int).Mul(cid, big.NewInt(2))) })
	}
	if s.c != nil && s.c.Sign() != 0 {
		add("chainid->unprotected", func(m *txv) { m.v = big.NewInt(27 + bit) })
	}
	return l
}

func (h *harness) cacheCase(s1, s2 sgn, t txv) {
	tx := t.build()
	o1 := cachedSender(s1, tx)
	o2 := cachedSender(s2, tx)
	tbl := ecTable(t, tx, []sgn{s1, s2})
	h.c.Eval("cache/"+strings.SplitN(s1.tok, ":", 2)[0]+"-then-"+strings.SplitN(s2.tok, ":", 2)[0], "")
	h.c.Correspond("types.Sender(cache)~sender_cached", s1.tok+" "+s2.tok+" "+t.token(), o1+" | "+o2, h.m.Ask("sender2 "+s1.tok+" "+s2.tok+" "+t.token()+" "+tbl))
	// direct oracle: the answer under s2 on the used object equals the answer on a fresh object
	fresh, _, _ := signerSender(s2, t.build())
	if o2 != fresh {
		h.c.Violate("cache-unsound/"+s1.tok+"/"+s2.tok, "a cached sender was returned to a different signer", map[string]string{"first": s1.tok, "second": s2.tok, "tx": t.token(), "cached": o2, "fresh": fresh})
	}
}

// ------------------------------------------------------------ chain-id / V offset sweep (sign and width hazards)

// chainSweep: a transaction signed under chain c is queried under EIP155(c+d) and with V shifted by k, for all
// small d and k.  V - 2c - 8 goes negative on one side of every such line, which is where BitLen / Uint64 /
// byte() narrowing of a big.Int difference can go wrong.
func (h *harness) chainSweep(idx int, s sgn, signed txv, want common.Address, withModel bool) {
	c := h.c
	base := big.NewInt(0)
	if s.c != nil {
		base = s.c
	}
	type pt struct{ d, k int64 }
	var pts []pt
	span := int64(64)
	for d := -span; d <= span; d++ {
		pts = append(pts, pt{d, 0})        // signer chain id moved, V unchanged
		pts = append(pts, pt{0, 2 * d})    // V moved by 2d' (another chain's V), signer unchanged
		pts = append(pts, pt{0, 2*d + 1})  // odd V offsets
		for _, off := range []int64{0, -27, -28, 27, 28, -13, -14, 1, -1} { // diagonals d' - d = const
			pts = append(pts, pt{d, 2 * (d + off)})
		}
	}
	if c.Thorough() && idx < 4 {
		for d := -span; d <= span; d++ {
			for dp := -span; dp <= span; dp++ {
				pts = append(pts, pt{d, 2 * dp})
			}
		}
	}
	seen := map[pt]bool{}
	for _, p := range pts {
		if seen[p] {
			continue
		}
		seen[p] = true
		cid := new(big.Int).Add(base, big.NewInt(p.d))
		v := new(big.Int).Add(signed.v, big.NewInt(p.k))
		if cid.Sign() < 0 || v.Sign() < 0 {
			continue
		}
		sg := eip155(cid)
		t := signed.clone()
		t.v = v
		tx := t.build()
		obs, addr, ok := signerSender(sg, tx)
		c.Eval("chain-sweep/"+kind(s), "")
		model := withModel && (p.k == 0 || p.d == 0 || p.k == 2*(p.d-27) || p.k == 2*(p.d-28))
		if model {
			c.Correspond("Signer.Sender~sender_signer", sg.tok+" "+t.token(), obs, h.m.Ask("sender "+sg.tok+" "+t.token()+" "+ecTable(t, tx, []sgn{sg})))
		}
		if !ok {
			continue
		}
		rp := map[string]string{"signer": sg.tok, "rlp": vh.Hex(t.rlp()), "tx": t.token(), "signed_with": s.tok, "original": signed.token(), "chain_offset": fmt.Sprint(p.d), "v_offset": fmt.Sprint(p.k),
			"expect_not": vh.Hex(want[:]), "observed": obs, "tx.ChainId()": q(tx.ChainId())}
		if tx.Protected() && tx.ChainId().Cmp(cid) != 0 {
			c.Violate("chain-binding/attributed-under-foreign-chain-id/"+sg.tok+"/"+t.token(), "EIP155Signer.Sender attributes a replay-protected transaction whose ChainId() is not the signer's chain id", rp)
		}
		if addr == want && !(p.d == 0 && p.k == 0) && !(s.c == nil && p.k == 0 && !tx.Protected()) && !(s.c != nil && s.c.Sign() == 0 && p.k == 0) {
			c.Violate("chain-binding/signer-kept-under-shift/"+sg.tok+"/"+t.token(), "a transaction signed for one chain id / V is attributed to its signer under another chain id or with another V", rp)
		}
	}
}

// jsonEntrance: the same fields offered through the JSON entrance (which range-checks V, R, S) and the RLP
// entrance (which checks nothing): which one admits them, and that an attributed sender does not depend on it
func (h *harness) jsonEntrance(s sgn, t txv) {
	c := h.c
	to := "null"
	if t.to != nil {
		to = `"` + vh.Hex(t.to[:]) + `"`
	}
	qs := func(b *big.Int) string { return `"` + q(b) + `"` }
	d := []jmember{{"nonce", fmt.Sprintf(`"0x%x"`, t.nonce)}, {"gasPrice", qs(t.price)}, {"gas", fmt.Sprintf(`"0x%x"`, t.gas)}, {"to", to},
		{"value", qs(t.value)}, {"input", `"` + vh.Hex(t.data) + `"`}, {"v", qs(t.v)}, {"r", qs(t.r)}, {"s", qs(t.s)}}
	doc := jrender(d)
	viaJSON := new(types.Transaction)
	err := viaJSON.UnmarshalJSON(doc)
	obs := "err"
	if err == nil {
		hh := viaJSON.Hash()
		obs = "ok " + fromTx(viaJSON).token() + " " + vh.Hex(hh[:])
	}
	c.Eval("entrance/json-vs-rlp/"+kind(s), "")
	c.Count("entrance:json-" + strings.SplitN(obs, " ", 2)[0])
	c.Correspond("Transaction.UnmarshalJSON~tx_of_json,tx_hash", string(doc), obs, h.m.Ask("json_tx "+jtokens(d)))
	viaRLP := t.build()
	rr, ra, rok := signerSender(s, viaRLP)
	if err != nil {
		if rok && t.price.BitLen() <= 256 && t.value.BitLen() <= 256 && t.v.BitLen() <= 256 {
			c.Violate("json-entrance-refuses-attributed-tx/"+s.tok+"/"+t.token(), "the JSON entrance refuses a transaction that is attributed to a sender when it arrives as RLP", map[string]string{"json": string(doc), "signer": s.tok, "rlp": vh.Hex(t.rlp()), "sender": rr})
		}
		return
	}
	jr, ja, jok := signerSender(s, viaJSON)
	if jok != rok || ja != ra || jr != rr || viaJSON.Hash() != viaRLP.Hash() {
		c.Violate("entrance-dependent-sender/"+s.tok+"/"+t.token(), "hash or sender of the same fields depends on the entrance (JSON vs RLP)", map[string]string{"json": string(doc), "patched": "entrance", "signer": s.tok, "rlp": vh.Hex(t.rlp()), "via_json": jr, "via_rlp": rr})
	}
}

// ------------------------------------------------------------ field-patched JSON documents

type jmember struct{ name, raw string }

func jdoc(tx *types.Transaction) []jmember {
	js, _ := tx.MarshalJSON()
	var m map[string]json.RawMessage
	json.Unmarshal(js, &m)
	var d []jmember
	for _, n := range []string{"nonce", "gasPrice", "gas", "to", "value", "input", "v", "r", "s", "hash"} {
		if raw, ok := m[n]; ok {
			d = append(d, jmember{n, string(raw)})
		}
	}
	return d
}

func jrender(d []jmember) []byte {
	parts := make([]string, len(d))
	for i, m := range d {
		parts[i] = fmt.Sprintf("%q:%s", m.name, m.raw)
	}
	return []byte("{" + strings.Join(parts, ",") + "}")
}

func jtokens(d []jmember) string {
	last := map[string]string{}
	for _, m := range d {
		last[m.name] = m.raw
	}
	var toks []string
	for _, n := range []string{"nonce", "gasPrice", "gas", "to", "value", "input", "v", "r", "s", "hash"} {
		raw, ok := last[n]
		switch {
		case !ok || raw == "null":
			toks = append(toks, "M")
		case len(raw) >= 2 && raw[0] == '"':
			toks = append(toks, "S:0x"+hex.EncodeToString([]byte(raw[1:len(raw)-1])))
		default:
			toks = append(toks, "X")
		}
	}
	return strings.Join(toks, " ")
}

func (h *harness) jsonPatched(a, b *types.Transaction, s sgn) {
	c, r := h.c, h.c.Rng
	da, db := jdoc(a), jdoc(b)
	other := map[string]string{}
	for _, m := range db {
		other[m.name] = m.raw
	}
	if _, ok := other["to"]; !ok || other["to"] == "null" {
		other["to"] = `"0x00000000000000000000000000000000000000aa"`
	}
	names := []string{"hash", "nonce", "gasPrice", "gas", "to", "value", "input", "v", "r", "s"}
	check := func(class string, d []jmember) {
		doc := jrender(d)
		tx2 := new(types.Transaction)
		var err error
		if p, pv := vh.CatchPanic(func() { err = tx2.UnmarshalJSON(doc) }); p {
			c.Violate("json-unmarshal-panic/"+string(doc), "Transaction.UnmarshalJSON panics", map[string]string{"json": string(doc), "panic": fmt.Sprint(pv)})
			return
		}
		c.Eval("json-patched/"+class, "")
		obs := "err"
		if err == nil {
			hh := tx2.Hash()
			obs = "ok " + fromTx(tx2).token() + " " + vh.Hex(hh[:])
			c.Count("json-patched:accepted")
		} else {
			c.Count("json-patched:rejected")
		}
		c.Correspond("Transaction.UnmarshalJSON~tx_of_json,tx_hash", string(doc), obs, h.m.Ask("json_tx "+jtokens(d)))
		if err != nil {
			return
		}
		// direct oracle: the hash is that of the transaction's own RLP encoding, and survives JSON -> RLP;
		// the sender is the one a fresh RLP copy has
		enc, _ := rlp.EncodeToBytes(tx2)
		tx3 := new(types.Transaction)
		if derr := rlp.DecodeBytes(enc, tx3); derr != nil {
			c.Violate("json-then-rlp-fails/"+string(doc), "a transaction accepted from JSON does not survive RLP re-encoding", map[string]string{"json": string(doc), "err": derr.Error()})
			return
		}
		rp := map[string]string{"json": string(doc), "patched": class, "hash_reported": tx2.Hash().Hex(), "hash_of_rlp": crypto.Keccak256Hash(enc).Hex(), "rlp": vh.Hex(enc)}
		if tx2.Hash() != crypto.Keccak256Hash(enc) || tx3.Hash() != tx2.Hash() {
			c.Violate("json-hash-not-content-derived/"+class+"/"+string(doc), "Hash() of a transaction decoded from JSON is not the hash of its RLP encoding (it does not survive JSON -> RLP re-encoding)", rp)
		}
		var sg types.Signer = types.HomesteadSigner{}
		if tx2.Protected() {
			sg = types.NewEIP155Signer(tx2.ChainId())
		}
		f2, e2 := types.Sender(sg, tx2)
		f3, e3 := types.Sender(sg, tx3)
		if (e2 == nil) != (e3 == nil) || f2 != f3 {
			c.Violate("json-sender-differs-from-rlp-copy/"+class+"/"+string(doc), "the sender of a transaction decoded from JSON differs from that of its RLP copy", rp)
		}
	}
	check("unpatched", da)
	for _, n := range names {
		idx := -1
		for i, m := range da {
			if m.name == n {
				idx = i
			}
		}
		patch := func(class, raw string) {
			d := append([]jmember{}, da...)
			if idx >= 0 {
				d[idx].raw = raw
			} else {
				d = append(d, jmember{n, raw})
			}
			check(n+"/"+class, d)
		}
		patch("other-tx-value", other[n])
		patch("null", "null")
		patch("number", "5")
		patch("empty-string", `""`)
		switch n {
		case "hash":
			patch("wrong", `"`+vh.Hex(r.Bytes(32))+`"`)
			patch("short", `"0x1234"`)
			patch("no-prefix", `"`+hex.EncodeToString(r.Bytes(32))+`"`)
		case "to":
			patch("wrong", `"`+vh.Hex(r.Bytes(20))+`"`)
			patch("short", `"0x1234"`)
			patch("upper-prefix", `"0X`+hex.EncodeToString(r.Bytes(20))+`"`)
		case "input":
			patch("wrong", `"0x00"`)
			patch("odd", `"0x123"`)
			patch("no-prefix", `"1234"`)
		default:
			patch("zero", `"0x0"`)
			patch("one", `"0x1"`)
			patch("leading-zero", `"0x01"`)
			patch("no-prefix", `"17"`)
			patch("65-digits", `"0x1`+strings.Repeat("0", 64)+`"`)
			patch("17-digits", `"0x1`+strings.Repeat("0", 16)+`"`)
		}
		if idx >= 0 {
			d := append(append([]jmember{}, da[:idx]...), da[idx+1:]...)
			check(n+"/dropped", d)
			check(n+"/duplicated-other-last", append(append([]jmember{}, da...), jmember{n, other[n]}))
			check(n+"/duplicated-other-first", append([]jmember{{n, other[n]}}, da...))
		}
	}
}

// ------------------------------------------------------------ the `from` cache across signers

// cacheVariants: the signed transaction and the variants on which different signers disagree
func cacheVariants(t txv, s sgn, idx int) []mutation {
	var l []mutation
	add := func(kind string, f func(m *txv)) {
		m := t.clone()
		f(&m)
		l = append(l, mutation{kind, m})
	}
	bit := int64(0)
	if new(big.Int).Sub(t.v, flipV(t, s)).Sign() > 0 {
		bit = 1
	}
	add("valid", func(m *txv) {})
	add("malleated(r,N-s,v^1)", func(m *txv) { m.s.Sub(secpN, m.s); m.v = flipV(t, s) })
	add("s->N-s", func(m *txv) { m.s.Sub(secpN, m.s) })
	add("v-flip", func(m *txv) { m.v = flipV(t, s) })
	if s.c != nil && s.c.Sign() != 0 {
		add("v->unprotected", func(m *txv) { m.v = big.NewInt(27 + bit) })
		add("v->unprotected,malleated", func(m *txv) { m.s.Sub(secpN, m.s); m.v = big.NewInt(28 - bit) })
	} else {
		cid := chainIDs[idx%len(chainIDs)]
		add("v->protected", func(m *txv) { m.v = new(big.Int).Add(big.NewInt(35+bit), new(big.Int).Mul(cid, big.NewInt(2))) })
	}
	add("v+256", func(m *txv) { m.v.Add(m.v, big.NewInt(256)) })
	return l
}

func cacheSigners(s sgn, idx int) []sgn {
	own := chainIDs[idx%len(chainIDs)]
	if s.c != nil && s.c.Sign() != 0 {
		own = s.c
	}
	foreign := chainIDs[(idx+1)%len(chainIDs)]
	if foreign.Cmp(own) == 0 {
		foreign = chainIDs[(idx+2)%len(chainIDs)]
	}
	return []sgn{frontier(), homestead(), eip155(own), eip155(foreign), eip155(big.NewInt(0))}
}

func kind(s sgn) string { return strings.SplitN(s.tok, ":", 2)[0] }

// seqOracle: the answers a sequence of cache-using queries gave on one object must each equal
// the answer of Signer.Sender on a fresh copy
func (h *harness) seqOracle(path string, seq []sgn, got []string, fresh map[string]string, t txv) {
	for i := range seq {
		if got[i] != fresh[seq[i].tok] {
			toks := make([]string, len(seq))
			kinds := make([]string, len(seq))
			for j, x := range seq {
				toks[j], kinds[j] = x.tok, kind(x)
			}
			h.c.Violate("cache-unsound/"+path+"/"+strings.Join(kinds[:i+1], "-then-")+"/"+t.token(),
				"types.Sender answered query "+fmt.Sprint(i+1)+" of a sequence on one transaction object differently from a fresh copy of the transaction (a cached sender was handed to a signer with other rules)",
				map[string]string{"path": path, "sequence": strings.Join(toks, ";"), "rlp": vh.Hex(t.rlp()), "tx": t.token(), "got": strings.Join(got, " | "), "fresh_answer_for_query": fresh[seq[i].tok], "failing_query": fmt.Sprint(i + 1)})
			return
		}
	}
}

func (h *harness) cacheMatrix(idx int, s sgn, signedObj *types.Transaction, signed txv, withModel bool) {
	c, r := h.c, h.c.Rng
	set := cacheSigners(s, idx)
	if !c.Thorough() && idx >= 10 {
		set = set[:3] // quick tier: the full 5-signer matrix on the first ten signed transactions, {F, H, E(own)} on the rest
	}
	for _, va := range cacheVariants(signed, s, idx) {
		t := va.t
		fresh := map[string]string{}
		for _, b := range set {
			fresh[b.tok], _, _ = signerSender(b, t.build())
		}
		tbl := ""
		if withModel {
			tbl = ecTable(t, t.build(), set)
		}
		run := func(path string, seq []sgn, model bool) {
			tx := t.build()
			got := make([]string, len(seq))
			toks := make([]string, len(seq))
			for i, x := range seq {
				toks[i] = x.tok
				if path == "AsMessage-then-Sender" && i == 0 {
					vh.CatchPanic(func() {
						msg, err := tx.AsMessage(x.s)
						if err != nil {
							got[i] = classify(err)
						} else {
							f := msg.From()
							got[i] = "ok " + vh.Hex(f[:])
						}
					})
				} else {
					got[i] = cachedSender(x, tx)
				}
			}
			c.Eval(fmt.Sprintf("cache%d/%s/%s", len(seq), path, va.kind), "")
			c.Count("cache-seq:" + kind(seq[0]) + "-then-" + kind(seq[1]))
			h.seqOracle(path, seq, got, fresh, t)
			if model {
				c.Correspond("types.Sender sequence on one object~sender_cached", strings.Join(toks, ";")+" "+t.token(), strings.Join(got, " | "),
					h.m.Ask("sendern "+strings.Join(toks, ";")+" "+t.token()+" "+tbl))
			}
		}
		for _, a := range set {
			for _, b := range set {
				run("Sender-then-Sender", []sgn{a, b}, withModel)
				run("AsMessage-then-Sender", []sgn{a, b}, false)
			}
		}
		for k := 0; k < 6; k++ {
			run("Sender-x3", []sgn{set[r.Intn(len(set))], set[r.Intn(len(set))], set[r.Intn(len(set))]}, withModel && k < 2)
		}
		// copies of an object whose cache was filled under a: decoded from its RLP, decoded from its JSON,
		// WithSignature (another signature attached): none may inherit the cached sender
		for _, a := range set {
			tx := t.build()
			first := cachedSender(a, tx)
			enc, _ := rlp.EncodeToBytes(tx)
			js, jerr := tx.MarshalJSON()
			copies := map[string]func() *types.Transaction{"rlp-copy": func() *types.Transaction {
				cp := new(types.Transaction)
				rlp.DecodeBytes(enc, cp)
				return cp
			}}
			if jerr == nil && new(types.Transaction).UnmarshalJSON(js) == nil {
				copies["json-copy"] = func() *types.Transaction {
					cp := new(types.Transaction)
					cp.UnmarshalJSON(js)
					return cp
				}
			}
			for name, mk := range copies {
				for _, b := range set {
					// a new copy of the cached object per query, so that only inheritance of the cache can show
					if got := cachedSender(b, mk()); got != fresh[b.tok] {
						c.Violate("cache-unsound/"+name+"/"+kind(a)+"-then-"+kind(b)+"/"+t.token(), "a copy of a transaction whose sender was cached answers differently from a fresh transaction",
							map[string]string{"path": name, "sequence": a.tok + ";" + b.tok, "rlp": vh.Hex(t.rlp()), "got": got, "fresh_answer_for_query": fresh[b.tok]})
					}
					c.Eval("cache-copy/"+name, "")
				}
			}
			// WithSignature: attach the malleated twin of the signature under signer b
			for _, b := range set {
				sig := append(append(pad32(t.r), pad32(new(big.Int).Mod(new(big.Int).Sub(secpN, t.s), two256))...), byte(r.Intn(2)))
				var cp *types.Transaction
				vh.CatchPanic(func() { cp, _ = tx.WithSignature(b.s, sig) })
				if cp == nil {
					continue
				}
				want, _, _ := signerSender(b, fromTx(cp).build())
				got := cachedSender(b, cp)
				if withModel {
					// model: cache filled under a, with_signature_obj under b, then the copy queried under b
					cv := fromTx(cp)
					tb2 := ecTable(cv, cv.build(), set)
					if tbl != "-" && tb2 != "-" {
						tb2 = tbl + ";" + tb2
					} else if tb2 == "-" {
						tb2 = tbl
					}
					c.Correspond("WithSignature copy then Sender~with_signature_obj,sender_seq", a.tok+" "+b.tok+" "+t.token()+" "+vh.Hex(sig),
						"ok "+cv.token()+" "+got, h.m.Ask("withsig "+a.tok+" "+b.tok+" "+t.token()+" "+vh.Hex(sig)+" "+b.tok+" "+tb2))
				}
				if got != want {
					c.Violate("cache-unsound/with-signature/"+kind(a)+"-then-"+kind(b)+"/"+t.token(), "WithSignature returned an object that still answers with the sender cached on the original",
						map[string]string{"path": "with-signature", "sequence": a.tok + ";" + b.tok, "rlp": vh.Hex(t.rlp()), "sig": vh.Hex(sig), "got": got, "fresh_answer_for_query": want})
				}
				c.Eval("cache-copy/with-signature", "")
			}
			if again := cachedSender(a, tx); again != first {
				c.Violate("cache-unsound/original-after-copies/"+kind(a)+"/"+t.token(), "the original object's answer changed after copies were made", map[string]string{"rlp": vh.Hex(t.rlp()), "first": first, "again": again})
			}
		}
	}
	// concurrent callers with different signers on one object (atomic.Value Load / Store interleave freely):
	// every answer must be the signer's own
	for _, va := range cacheVariants(signed, s, idx)[:2] {
		t := va.t
		fresh := map[string]string{}
		for _, b := range set {
			fresh[b.tok], _, _ = signerSender(b, t.build())
		}
		obj := t.build()
		type ans struct{ tok, got string }
		out := make(chan ans, 64)
		var wg sync.WaitGroup
		for g := 0; g < 8; g++ {
			wg.Add(1)
			go func(g int) {
				defer wg.Done()
				for k := 0; k < 8; k++ {
					b := set[(g+k)%len(set)]
					out <- ans{b.tok, cachedSender(b, obj)}
				}
			}(g)
		}
		wg.Wait()
		close(out)
		for a := range out {
			if a.got != fresh[a.tok] {
				c.Violate("cache-unsound/concurrent/"+a.tok+"/"+t.token(), "under concurrent Sender calls with different signers one caller got another signer's answer", map[string]string{"rlp": vh.Hex(t.rlp()), "signer": a.tok, "got": a.got, "fresh_answer_for_query": fresh[a.tok]})
			}
		}
		c.Eval("cache/concurrent-callers", "")
	}
	// the object types.SignTx returned (it ran signer.Sender on it): queried under every signer in turn
	if signedObj != nil {
		fresh := map[string]string{}
		got := make([]string, len(set))
		for i, b := range set {
			fresh[b.tok], _, _ = signerSender(b, signed.build())
			got[i] = cachedSender(b, signedObj)
		}
		c.Eval("cache/SignTx-object-then-all-signers", "")
		h.seqOracle("SignTx-object", set, got, fresh, signed)
	}
}

func (h *harness) roundTrips(s sgn, signed *types.Transaction, t txv, want common.Address) {
	c := h.c
	enc, _ := rlp.EncodeToBytes(signed)
	c.Eval("roundtrip/rlp", "")
	c.Correspond("rlp.EncodeToBytes(tx)~encode_tx", t.token(), vh.Hex(enc), h.m.Ask("encode_tx "+t.token()))
	hash := signed.Hash()
	c.Correspond("Transaction.Hash~tx_hash", t.token(), vh.Hex(hash[:]), h.m.Ask("txhash "+t.token()))
	sh := s.s.Hash(signed)
	c.Correspond("Signer.Hash~sighash", s.tok+" "+t.token(), vh.Hex(sh[:]), h.m.Ask("sighash "+s.tok+" "+t.token()))
	back := new(types.Transaction)
	if err := rlp.DecodeBytes(enc, back); err != nil {
		c.Violate("rlp-roundtrip/"+vh.Hex(enc), "an encoded transaction does not decode", map[string]string{"rlp": vh.Hex(enc), "err": err.Error()})
	} else {
		c.Correspond("rlp.DecodeBytes(tx)~decode_tx", vh.Hex(enc), "ok "+fromTx(back).token(), h.m.Ask("decode_tx "+vh.Hex(enc)))
		a, err := types.Sender(s.s, back)
		if back.Hash() != hash || err != nil || a != want {
			c.Violate("rlp-roundtrip/"+vh.Hex(enc), "hash or sender changed by an RLP round trip", map[string]string{"rlp": vh.Hex(enc), "signer": s.tok})
		}
	}
	// directed: the recipient given as an empty LIST instead of the empty string must not decode
	if alt, err := rlp.EncodeToBytes([]interface{}{t.nonce, t.price, t.gas, []interface{}{}, t.value, t.data, t.v, t.r, t.s}); err == nil {
		o := "err"
		tx3 := new(types.Transaction)
		if err := rlp.DecodeBytes(alt, tx3); err == nil {
			o = "ok " + fromTx(tx3).token()
			c.Violate("tx-decodes-noncanonical-recipient/"+vh.Hex(alt), "a transaction whose recipient is encoded as an empty list decodes (as a contract creation)", map[string]string{"rlp": vh.Hex(alt)})
		}
		c.Eval("decode/recipient-as-empty-list", "")
		c.Correspond("rlp.DecodeBytes(tx)~decode_tx", vh.Hex(alt), o, firstWordIfErr(h.m.Ask("decode_tx "+vh.Hex(alt))))
	}
	// JSON
	c.Eval("roundtrip/json", "")
	js, err := signed.MarshalJSON()
	if err != nil {
		c.Violate("json-marshal/"+t.token(), "MarshalJSON fails", map[string]string{"tx": t.token(), "err": err.Error()})
		return
	}
	c.Correspond("Transaction.MarshalJSON~json_of_tx", t.token(), jtokens(jdoc(signed)), h.m.Ask("json_of "+t.token()))
	var fields map[string]interface{}
	json.Unmarshal(js, &fields)
	for name, val := range map[string]*big.Int{"nonce": new(big.Int).SetUint64(t.nonce), "gasPrice": t.price, "gas": new(big.Int).SetUint64(t.gas), "value": t.value, "v": t.v, "r": t.r, "s": t.s} {
		str, _ := fields[name].(string)
		c.Correspond("hexutil.Big/Uint64 MarshalText~enc_quantity", name+" "+q(val), str, h.m.Ask("quantity "+q(val)))
		mx := 64
		if name == "nonce" || name == "gas" {
			mx = 16
		}
		o := "ok " + q(val)
		if val.BitLen() > 256 {
			o = "err"
		}
		c.Correspond("hexutil UnmarshalText~dec_quantity", name+" "+str, o, h.m.Ask(fmt.Sprintf("dec_quantity %d 0x%s", mx, hex.EncodeToString([]byte(str)))))
	}
	tx2 := new(types.Transaction)
	err = tx2.UnmarshalJSON(js)
	acc := fmt.Sprint(err == nil)
	big256 := t.price.BitLen() > 256 || t.value.BitLen() > 256
	if !big256 {
		c.Correspond("Transaction.UnmarshalJSON(sig check)~json_accepts", t.token(), acc, h.m.Ask("json_accepts "+t.token()))
	}
	if err != nil {
		if big256 {
			c.Count("json-rejects-over-256-bit-amount")
			return
		}
		c.Violate("json-roundtrip/"+t.token(), "a signed transaction's JSON form is rejected", map[string]string{"json": string(js), "err": err.Error()})
		return
	}
	a, err := types.Sender(s.s, tx2)
	if tx2.Hash() != hash || err != nil || a != want || !bytes.Equal(mustRlp(tx2), enc) {
		c.Violate("json-roundtrip/"+t.token(), "hash or sender changed by a JSON round trip", map[string]string{"json": string(js), "signer": s.tok})
	}
}

func mustRlp(tx *types.Transaction) []byte {
	b, _ := rlp.EncodeToBytes(tx)
	return b
}

// replay: {"replay": {"signer": "E:0x1", "rlp": "0x..."}} re-evaluates Signer.Sender on the recorded transaction
func replay(h *harness, file string) {
	raw, err := os.ReadFile(file)
	if err != nil {
		h.c.Fatal("replay: %v", err)
	}
	var rp struct {
		Replay map[string]string `json:"replay"`
	}
	if err := json.Unmarshal(raw, &rp); err != nil {
		h.c.Fatal("replay: %v", err)
	}
	if rp.Replay["scenario"] == "wide-chain-pair" {
		c1, _ := new(big.Int).SetString(strings.TrimPrefix(rp.Replay["chain_signed"], "0x"), 16)
		c2, _ := new(big.Int).SetString(strings.TrimPrefix(rp.Replay["chain_replayed"], "0x"), 16)
		key, _ := btcec.PrivKeyFromBytes(vh.UnHex(rp.Replay["key"]))
		utx := new(types.Transaction)
		if err := rlp.DecodeBytes(vh.UnHex(rp.Replay["unsigned_rlp"]), utx); err != nil || c1 == nil || c2 == nil {
			h.c.Fatal("replay: unusable wide-chain scenario")
		}
		h.widePair(c1, c2, key, fromTx(utx))
		return
	}
	if doc := rp.Replay["json"]; doc != "" && rp.Replay["patched"] != "" {
		tx2 := new(types.Transaction)
		if err := tx2.UnmarshalJSON([]byte(doc)); err != nil {
			h.c.Note("replay: document rejected: %v", err)
			return
		}
		enc, _ := rlp.EncodeToBytes(tx2)
		h.c.Eval("replay/json", "")
		if tx2.Hash() != crypto.Keccak256Hash(enc) {
			h.c.Violate("json-hash-not-content-derived/"+rp.Replay["patched"]+"/"+doc, "Hash() of a transaction decoded from JSON is not the hash of its RLP encoding", map[string]string{"json": doc, "hash_reported": tx2.Hash().Hex(), "hash_of_rlp": crypto.Keccak256Hash(enc).Hex()})
		}
		return
	}
	enc := rp.Replay["rlp"]
	if enc == "" {
		enc = rp.Replay["mutated_rlp"]
	}
	tx := new(types.Transaction)
	if err := rlp.DecodeBytes(vh.UnHex(enc), tx); err != nil {
		h.c.Fatal("replay: transaction does not decode: %v", err)
	}
	var s sgn
	switch tok := rp.Replay["signer"]; {
	case tok == "F":
		s = frontier()
	case tok == "H":
		s = homestead()
	case strings.HasPrefix(tok, "E:"):
		cid, _ := new(big.Int).SetString(strings.TrimPrefix(tok, "E:0x"), 16)
		s = eip155(cid)
	default:
		if rp.Replay["sequence"] == "" {
			h.c.Fatal("replay: no signer")
		}
	}
	if seq := rp.Replay["sequence"]; seq != "" {
		// a sequence of types.Sender queries on one object vs fresh copies
		t := fromTx(tx)
		var sq []sgn
		for _, tok := range strings.Split(seq, ";") {
			switch {
			case tok == "F":
				sq = append(sq, frontier())
			case tok == "H":
				sq = append(sq, homestead())
			default:
				cid, _ := new(big.Int).SetString(strings.TrimPrefix(tok, "E:0x"), 16)
				sq = append(sq, eip155(cid))
			}
		}
		fresh := map[string]string{}
		got := make([]string, len(sq))
		obj := t.build()
		for i, x := range sq {
			fresh[x.tok], _, _ = signerSender(x, t.build())
			got[i] = cachedSender(x, obj)
		}
		h.c.Eval("replay/cache-sequence", "")
		h.seqOracle("Sender-then-Sender", sq, got, fresh, t)
		h.c.Note("replay: sequence %s on %s -> %s (fresh: %v)", seq, t.token(), strings.Join(got, " | "), fresh)
		return
	}
	t := fromTx(tx)
	if orig := rp.Replay["original"]; orig != "" {
		h.c.Note("replaying a mutation of %s", orig)
	}
	obs, raddr, rok := h.senderCase("replay", s, t)
	h.c.Note("replay: %s %s -> %s", s.tok, t.token(), obs)
	if en := rp.Replay["expect_not"]; en != "" && rok && vh.Hex(raddr[:]) == en {
		h.c.Violate("chain-binding/signer-kept-under-shift/"+s.tok+"/"+t.token(), "a transaction signed for one chain id / V is attributed to its signer under another chain id or with another V", rp.Replay)
	}
}
