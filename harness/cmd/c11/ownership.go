package main

// Two sections added after seeded changes C11-7 and C11-8 were missed:
//   earlyFailureAlloc  - "bounded": a length-limited decode that fails early must not have
//                        allocated from the declared size of a list;
//   readerInterleaved  - EncodeToReader results stay intact while other encodes run.

import (
	"bytes"
	"fmt"
	"io"
	"math/big"
	"reflect"
	"runtime"

	"gitlab.com/aquachain/aquachain/rlp"
	"gitlab.com/aquachain/aquachain/verifharness/rlptypes"
	"gitlab.com/aquachain/aquachain/verifharness/vh"
)

// garbageList: a list header declaring n payload bytes whose first element (81 00, a
// wrapped single byte) is rejected by every decoder; the rest is filler.
func garbageList(n int) []byte {
	payload := bytes.Repeat([]byte{0x01}, n)
	payload[0], payload[1] = 0x81, 0x00
	return append(canonHeader(true, payload), payload...)
}

type wideElem struct {
	A, B, C, D uint64
	E          []byte
	F          *big.Int
}

const allocAllowance = 16 << 10

func allocOf(f func()) uint64 {
	var m0, m1 runtime.MemStats
	runtime.GC()
	runtime.ReadMemStats(&m0)
	f()
	runtime.ReadMemStats(&m1)
	return m1.TotalAlloc - m0.TotalAlloc
}

// splitElems: byte ranges of the elements of a top-level list
func splitElems(enc []byte) ([][]byte, bool) {
	k, content, rest, err := rlp.Split(enc)
	if err != nil || k != rlp.List || len(rest) != 0 {
		return nil, false
	}
	var out [][]byte
	for len(content) > 0 {
		_, _, r2, err := rlp.Split(content)
		if err != nil {
			return nil, false
		}
		out = append(out, content[:len(content)-len(r2)])
		content = r2
	}
	return out, true
}

func earlyFailureAlloc(c *vh.Ctx, m *vh.Model) {
	sizes := []int{4 << 10, 256 << 10}
	if c.Tier == "thorough" {
		sizes = append(sizes, 2<<20)
	}
	targets := []reflect.Type{
		reflect.TypeOf([]uint64{}), reflect.TypeOf([][32]byte{}), reflect.TypeOf([][64]byte{}), reflect.TypeOf([]*big.Int{}),
		reflect.TypeOf([]wideElem{}), reflect.TypeOf([]*wideElem{}), reflect.TypeOf([]interface{}{}), reflect.TypeOf([]string{}),
		reflect.TypeOf([][]uint64{}), reflect.TypeOf(struct {
			N uint64
			L []wideElem
		}{}),
	}
	var maxOver uint64
	defer func() { c.Note(fmt.Sprintf("early-failure allocation: largest fixed cost observed %d bytes (allowance %d)", maxOver, allocAllowance)) }()
	check := func(name string, n int, in []byte, run func() error) {
		var err error
		var pv interface{}
		var p bool
		vh.CatchPanic(func() { run() }) // warm-up: first use of a type fills the typecache
		got := allocOf(func() { p, pv = vh.CatchPanic(func() { err = run() }) })
		c.Eval("early-failure-alloc/"+name, "")
		if p {
			c.Violate("typed-panic/"+name+"/garbage-list", "decode panics", map[string]string{"target": name, "input_len": fmt.Sprint(len(in)), "panic": fmt.Sprint(pv)})
			return
		}
		if err == nil {
			c.Violate("garbage-list-accepted/"+name, "a list whose first element is the non-canonical 8100 was accepted", map[string]string{"target": name, "input_len": fmt.Sprint(len(in))})
			return
		}
		// the input has a known length; the decode failed at the first element of the list
		// (allowance: the fixed cost of a decode - stream, target value, first slice growth
		// to 4 elements, error value - measured at < 6 KiB for every target here)
		if got > maxOver {
			maxOver = got
		}
		if got > uint64(len(in))+allocAllowance {
			c.Violate("alloc-beyond-input/"+name, "a length-limited decode that fails at the first list element allocated more than the input length",
				map[string]interface{}{"target": name, "input_len": len(in), "declared_list_payload": n, "allocated": got, "allowance": allocAllowance,
					"input": "list header declaring the payload, then 8100, then 01 filler"})
		}
	}
	for _, n := range sizes {
		g := garbageList(n)
		for _, t := range targets {
			t := t
			in := g
			if t.Kind() == reflect.Struct { // struct{N; L}: c? 05 <garbage list>
				payload := append([]byte{0x05}, g...)
				in = append(canonHeader(true, payload), payload...)
			}
			check("DecodeBytes/"+t.String(), n, in, func() error { return rlp.DecodeBytes(in, reflect.New(t).Interface()) })
			check("Stream(limit).Decode/"+t.String(), n, in, func() error {
				return rlp.NewStream(bytes.NewReader(in), uint64(len(in))).Decode(reflect.New(t).Interface())
			})
		}
		// every generated consensus / storage type: each non-byte slice field in turn holds the garbage list
		for _, e := range rlptypes.Registry() {
			wire := rlptypes.Fill(c.Rng, e.Type, 2)
			enc, err := rlp.EncodeToBytes(wire.Interface())
			if err != nil {
				continue
			}
			elems, ok := splitElems(enc)
			wt := wire.Type()
			if !ok || wt.Kind() != reflect.Struct {
				continue
			}
			idx := 0
			for i := 0; i < wt.NumField() && idx < len(elems); i++ {
				f := wt.Field(i)
				if f.PkgPath != "" || f.Tag.Get("rlp") == "-" {
					continue
				}
				ft := f.Type
				if ft.Kind() == reflect.Slice && ft.Elem().Kind() != reflect.Uint8 {
					var payload []byte
					for j, el := range elems {
						if j == idx {
							payload = append(payload, g...)
						} else {
							payload = append(payload, el...)
						}
					}
					in := append(canonHeader(true, payload), payload...)
					check("DecodeBytes/"+e.Name+"."+f.Name, n, in, func() error { return rlp.DecodeBytes(in, reflect.New(e.Type).Interface()) })
				}
				idx++
			}
		}
	}
}

// readerInterleaved: the (size, reader) pair of EncodeToReader must deliver exactly the
// encoding whatever the caller's read sizes are and whatever else is encoded meanwhile.
func readerInterleaved(c *vh.Ctx, m *vh.Model) {
	rounds := c.Scale(150, 2000)
	for i := 0; i < rounds; i++ {
		var v interface{}
		switch c.Rng.Intn(3) {
		case 0: // a list ending in a long string: the final piece is longer than the read buffer
			v = []interface{}{c.Rng.Bytes(c.Rng.Intn(4)), c.Rng.Bytes(60 + c.Rng.Intn(400))}
		case 1:
			v = genItem(c.Rng, 3)
		default:
			v = []interface{}{[]interface{}{c.Rng.Bytes(70)}, c.Rng.Bytes(3), []interface{}{c.Rng.Bytes(1), c.Rng.Bytes(200)}}
		}
		want, err := rlp.EncodeToBytes(v)
		if err != nil {
			c.Fatal("encode failed: %v", err)
		}
		other := []interface{}{bytes.Repeat([]byte{0xbb}, 300), []interface{}{bytes.Repeat([]byte{0xcc}, 90)}}
		mode := c.Rng.Intn(4)
		var got []byte
		var size int
		p, pv := vh.CatchPanic(func() {
			var rd io.Reader
			size, rd, err = rlp.EncodeToReader(v)
			if err != nil {
				return
			}
			var rd2 io.Reader
			if mode == 3 { // a second reader alive at the same time
				_, rd2, _ = rlp.EncodeToReader(other)
			}
			chunk := []int{1, 7, 16, 33, 64}[c.Rng.Intn(5)]
			buf := make([]byte, chunk)
			for {
				n, e := rd.Read(buf)
				got = append(got, buf[:n]...)
				if e != nil {
					break
				}
				switch mode {
				case 1, 3: // something else is encoded between two reads
					rlp.EncodeToBytes(other)
				case 2:
					if _, r3, e3 := rlp.EncodeToReader(other); e3 == nil {
						io.Copy(io.Discard, r3)
					}
				}
				if len(got) > len(want)+64 {
					break
				}
			}
			if rd2 != nil {
				b2, _ := io.ReadAll(rd2)
				if w2, _ := rlp.EncodeToBytes(other); !bytes.Equal(b2, w2) {
					got = append(got, []byte("|second reader differs")...)
				}
			}
		})
		c.Eval(fmt.Sprintf("reader-interleaved/mode%d", mode), vh.Hex(want))
		if p {
			c.Violate("encode-to-reader-panic/"+vh.Hex(want), "EncodeToReader panics", map[string]string{"value": render(v), "panic": fmt.Sprint(pv)})
			continue
		}
		c.Correspond("EncodeToReader(piecewise, interleaved)~encode", render(v), vh.Hex(got), m.Ask("encode "+render(v)))
		if err != nil || !bytes.Equal(got, want) || size != len(want) {
			c.Violate(fmt.Sprintf("encode-to-reader-differs/mode%d", mode), "bytes read piecewise from EncodeToReader differ from EncodeToBytes of the same value (other encodes ran between the reads)",
				map[string]interface{}{"value": render(v), "expected": vh.Hex(want), "read": vh.Hex(got), "announced_size": size, "mode": mode,
					"modes": "0 plain, 1 EncodeToBytes between reads, 2 EncodeToReader+drain between reads, 3 second reader alive + encodes"})
		}
	}
}
