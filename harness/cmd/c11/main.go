// c11: correspondence between rlp (Go) and the Coq item-level codec, plus the
// direct oracle for property C11 (decode∘encode, canonicity, no panic, bounded
// allocation).
package main

import (
	"bytes"
	"fmt"
	"runtime"
	"strings"

	"gitlab.com/aquachain/aquachain/crypto"
	"gitlab.com/aquachain/aquachain/rlp"
	"gitlab.com/aquachain/aquachain/verifharness/vh"
)

func render(v interface{}) string {
	switch x := v.(type) {
	case []byte:
		return vh.Hex(x)
	case []interface{}:
		parts := make([]string, len(x))
		for i, e := range x {
			parts[i] = render(e)
		}
		return "[" + strings.Join(parts, ",") + "]"
	default:
		return fmt.Sprintf("?%T", v)
	}
}

var alphabet = []byte{0x00, 0x01, 0x7f, 0x80, 0x81, 0x82, 0xb7, 0xb8, 0xb9, 0xbf, 0xc0, 0xc1, 0xc2, 0xf7, 0xf8, 0xff}

type obs struct{ exact, split, count string }

func observe(c *vh.Ctx, b []byte) (o obs, val interface{}, ok bool) {
	var v interface{}
	p, pv := vh.CatchPanic(func() {
		if err := rlp.DecodeBytes(b, &v); err != nil {
			o.exact = "err"
		} else {
			o.exact = "ok " + render(v)
			ok = true
		}
	})
	if p {
		o.exact = fmt.Sprintf("panic %v", pv)
		c.Violate("decode-panic/"+vh.Hex(b), "rlp.DecodeBytes panics", map[string]string{"input": vh.Hex(b), "panic": fmt.Sprint(pv)})
	}
	p, pv = vh.CatchPanic(func() {
		k, content, rest, err := rlp.Split(b)
		if err != nil {
			o.split = "err"
		} else {
			ks := "S"
			if k == rlp.List {
				ks = "L"
			}
			o.split = "ok " + ks + " " + vh.Hex(content) + " " + vh.Hex(rest)
		}
	})
	if p {
		o.split = fmt.Sprintf("panic %v", pv)
		c.Violate("split-panic/"+vh.Hex(b), "rlp.Split panics", map[string]string{"input": vh.Hex(b), "panic": fmt.Sprint(pv)})
	}
	p, pv = vh.CatchPanic(func() {
		n, err := rlp.CountValues(b)
		if err != nil {
			o.count = "err"
		} else {
			o.count = fmt.Sprintf("ok %d", n)
		}
	})
	if p {
		o.count = fmt.Sprintf("panic %v", pv)
		c.Violate("count-panic/"+vh.Hex(b), "rlp.CountValues panics", map[string]string{"input": vh.Hex(b), "panic": fmt.Sprint(pv)})
	}
	return o, v, ok
}

// one input: implementation vs model (three correspondences) + direct oracle
func checkInput(c *vh.Ctx, m *vh.Model, class string, b []byte) {
	hx := vh.Hex(b)
	o, v, ok := observe(c, b)
	key := ""
	if ok {
		key = hx
	}
	c.Eval(class, key)
	if ok {
		c.Count("accepted")
	} else {
		c.Count("rejected")
	}
	c.Correspond("DecodeBytes(interface{})~decode_exact", hx, o.exact, m.Ask("decode_exact "+hx))
	c.Correspond("Split~split", hx, o.split, m.Ask("split "+hx))
	c.Correspond("CountValues~count_values", hx, o.count, m.Ask("count "+hx))
	if ok {
		// direct oracle: whatever decodes re-encodes to exactly the input
		enc, err := rlp.EncodeToBytes(v)
		if err != nil || !bytes.Equal(enc, b) {
			c.Violate("noncanonical-accept/"+hx, "decoded value does not re-encode to the input",
				map[string]string{"input": hx, "decoded": render(v), "reencoded": vh.Hex(enc)})
		}
	}
}

// structured values
func genItem(r *vh.RNG, depth int) interface{} {
	if depth > 0 && r.Chance(40) {
		n := r.Intn(5)
		l := make([]interface{}, n)
		for i := range l {
			l[i] = genItem(r, depth-1)
		}
		return l
	}
	sizes := []int{0, 1, 1, 2, 31, 32, 55, 56, 57, 255, 256, 300}
	n := sizes[r.Intn(len(sizes))]
	b := r.Bytes(n)
	if n == 1 && r.Bool() {
		b[0] = []byte{0x00, 0x01, 0x7f, 0x80, 0x81, 0xff}[r.Intn(6)]
	}
	return b
}

func main() {
	c := vh.Init("C11")
	m := c.StartModel()
	defer m.Close()
	c.Res.Rule = "all strings over a 16-symbol boundary alphabet up to length L (exhaustive), structured items with boundary sizes and their single-byte mutations/truncations/extensions, long-form size re-encodings; a case is non-trivial and distinct when the implementation accepts it (distinct accepted byte strings)"

	// 0. Keccak model validation (shared primitive)
	for i := 0; i < 24; i++ {
		n := []int{0, 1, 31, 32, 55, 135, 136, 137, 271, 272, 273, 500}[i%12] + c.Rng.Intn(2)*i
		b := c.Rng.Bytes(n)
		c.Correspond("crypto.Keccak256~keccak256", vh.Hex(b), vh.Hex(crypto.Keccak256(b)), m.Ask("keccak "+vh.Hex(b)))
	}

	// 1. exhaustive over the boundary alphabet
	maxLen := c.Scale(4, 5)
	for l := 0; l <= maxLen; l++ {
		idx := make([]int, l)
		for {
			b := make([]byte, l)
			for i, j := range idx {
				b[i] = alphabet[j]
			}
			checkInput(c, m, fmt.Sprintf("alphabet/len%d", l), b)
			i := l - 1
			for i >= 0 {
				idx[i]++
				if idx[i] < len(alphabet) {
					break
				}
				idx[i] = 0
				i--
			}
			if i < 0 {
				break
			}
		}
	}
	c.Res.Exhaustive = true

	// 2. structured values: round trip, then mutations
	nStruct := c.Scale(300, 5000)
	for i := 0; i < nStruct; i++ {
		v := genItem(c.Rng, 4)
		enc, err := rlp.EncodeToBytes(v)
		if err != nil {
			c.Fatal("encode of generated item failed: %v", err)
		}
		hx := vh.Hex(enc)
		// model encodes the same value to the same bytes
		c.Correspond("EncodeToBytes~encode", render(v), hx, m.Ask("encode "+render(v)))
		// direct oracle: decode(encode v) == v
		var back interface{}
		if err := rlp.DecodeBytes(enc, &back); err != nil || render(back) != render(normalize(v)) {
			c.Violate("roundtrip/"+hx, "decode(encode(v)) != v", map[string]string{"value": render(v), "encoding": hx, "decoded": render(back), "err": fmt.Sprint(err)})
		}
		checkInput(c, m, "structured/valid", enc)
		if i < 5 {
			c.Sample(map[string]string{"value": render(v), "encoding": hx})
		}
		// mutations: a bounded number per value so that long encodings do not dominate
		nm := 24
		for k := 0; k < nm && len(enc) > 0; k++ {
			mut := append([]byte{}, enc...)
			switch c.Rng.Intn(5) {
			case 0: // single byte replaced by an alphabet symbol
				mut[c.Rng.Intn(len(mut))] = alphabet[c.Rng.Intn(len(alphabet))]
				checkInput(c, m, "structured/mut-byte", mut)
			case 1: // bit flip
				mut[c.Rng.Intn(len(mut))] ^= 1 << uint(c.Rng.Intn(8))
				checkInput(c, m, "structured/mut-bit", mut)
			case 2: // truncation
				checkInput(c, m, "structured/truncated", mut[:c.Rng.Intn(len(mut))])
			case 3: // extension
				checkInput(c, m, "structured/extended", append(mut, alphabet[c.Rng.Intn(len(alphabet))]))
			case 4: // header mutation near the front (first 3 bytes)
				p := c.Rng.Intn(min(3, len(mut)))
				mut[p] = byte(int(mut[p]) + []int{-1, 1, 0x37, -0x37}[c.Rng.Intn(4)])
				checkInput(c, m, "structured/mut-header", mut)
			}
		}
	}

	// 3. non-minimal size re-encodings: long form used where the short form fits,
	//    zero-prefixed size fields, single byte wrapped in a string header
	for n := 0; n < 70; n++ {
		payload := bytes.Repeat([]byte{0x01}, n)
		for _, off := range []byte{0xb7, 0xf7} {
			checkInput(c, m, "resize/long-for-short", append([]byte{off + 1, byte(n)}, payload...))
			checkInput(c, m, "resize/zero-prefixed", append([]byte{off + 2, 0, byte(n)}, payload...))
			checkInput(c, m, "resize/zero-prefixed", append([]byte{off + 3, 0, 0, byte(n)}, payload...))
		}
	}
	for b := 0; b < 256; b++ {
		checkInput(c, m, "resize/wrapped-single", []byte{0x81, byte(b)})
		checkInput(c, m, "single", []byte{byte(b)})
	}
	// 4. hostile sizes: huge declared length with short input must fail without allocating it
	for _, pre := range [][]byte{
		{0xbf, 0xff, 0xff, 0xff, 0xff, 0xff, 0xff, 0xff, 0xff}, {0xbb, 0x7f, 0xff, 0xff, 0xff}, {0xff, 0xff, 0xff, 0xff, 0xff, 0xff, 0xff, 0xff, 0xff},
		{0xfb, 0x7f, 0xff, 0xff, 0xff}, {0xba, 0x10, 0x00, 0x00}, {0xfa, 0x10, 0x00, 0x00}} {
		var ms0, ms1 runtime.MemStats
		runtime.ReadMemStats(&ms0)
		checkInput(c, m, "hostile-size", pre)
		var v interface{}
		rlp.DecodeBytes(pre, &v)
		var s []uint64
		rlp.DecodeBytes(pre, &s)
		var bs []byte
		rlp.DecodeBytes(pre, &bs)
		runtime.ReadMemStats(&ms1)
		if d := ms1.TotalAlloc - ms0.TotalAlloc; d > 1<<20 {
			c.Violate("alloc-unbounded/"+vh.Hex(pre), "decoding a short input with a huge declared size allocated more than 1 MiB",
				map[string]interface{}{"input": vh.Hex(pre), "allocated": d})
		}
	}
	c.Assume("Go reflect and the rlp typecache are exercised only through interface{}/[]byte/[]uint64 targets in this item-level check; typed consensus structures are covered by the typed layer")
	c.Finish()
}

// normalize: what decoding into interface{} yields for an encoded Go value
func normalize(v interface{}) interface{} {
	switch x := v.(type) {
	case []byte:
		if x == nil {
			return []byte{}
		}
		return x
	case []interface{}:
		l := make([]interface{}, len(x))
		for i, e := range x {
			l[i] = normalize(e)
		}
		return l
	}
	return v
}
