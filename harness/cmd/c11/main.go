// c11: correspondence between rlp (Go) and the Coq item-level codec, plus the
// direct oracle for property C11 (decode∘encode, canonicity, no panic, bounded
// allocation).
package main

import (
	"bytes"
	"fmt"
	"runtime"
	"strings"

	"encoding/hex"
	"reflect"

	"gitlab.com/aquachain/aquachain/crypto"
	"gitlab.com/aquachain/aquachain/rlp"
	"gitlab.com/aquachain/aquachain/verifharness/rlptypes"
	"gitlab.com/aquachain/aquachain/verifharness/vh"
)

// header bytes of the canonical encoding of a (kind, content) pair — an
// independent re-implementation used only by the direct oracle
func canonHeader(list bool, content []byte) []byte {
	off := byte(0x80)
	if list {
		off = 0xc0
	}
	n := len(content)
	if !list && n == 1 && content[0] < 0x80 {
		return nil
	}
	if n < 56 {
		return []byte{off + byte(n)}
	}
	var be []byte
	for x := n; x > 0; x >>= 8 {
		be = append([]byte{byte(x)}, be...)
	}
	return append([]byte{off + 55 + byte(len(be))}, be...)
}

// streamWalk decodes b with the Stream API only (Kind/List/Bytes/ListEnd), the way
// hand-written DecodeRLP methods use it, and returns the rendering of the value.
func streamWalk(b []byte, limited bool) (out string) {
	defer func() {
		if r := recover(); r != nil {
			out = fmt.Sprintf("panic %v", r)
		}
	}()
	var s *rlp.Stream
	rd := bytes.NewReader(b)
	if limited {
		s = rlp.NewStream(rd, uint64(len(b)))
	} else {
		s = rlp.NewStream(rd, 0)
	}
	var walk func() (interface{}, error)
	walk = func() (interface{}, error) {
		k, _, err := s.Kind()
		if err != nil {
			return nil, err
		}
		if k == rlp.List {
			if _, err := s.List(); err != nil {
				return nil, err
			}
			l := []interface{}{}
			for {
				v, err := walk()
				if err == rlp.EOL {
					break
				}
				if err != nil {
					return nil, err
				}
				l = append(l, v)
			}
			if err := s.ListEnd(); err != nil {
				return nil, err
			}
			return l, nil
		}
		return s.Bytes()
	}
	v, err := walk()
	if err != nil {
		return "err"
	}
	// exactly one value: nothing may be left in the reader (Stream does not read ahead)
	if rd.Len() > 0 {
		return "err"
	}
	if bs, ok := v.([]byte); ok && bs == nil {
		v = []byte{}
	}
	return "ok " + render(v)
}

// treeMutate: decode b into an item tree, change one node (leaf string replaced by a
// boundary string, kind flipped, element added / dropped / duplicated) and re-encode
// canonically: structurally valid RLP that deviates at the type level.
func treeMutate(r *vh.RNG, b []byte) ([]byte, bool) {
	var tree interface{}
	if err := rlp.DecodeBytes(b, &tree); err != nil {
		return nil, false
	}
	var nodes []*interface{}
	var walk func(p *interface{})
	walk = func(p *interface{}) {
		nodes = append(nodes, p)
		if l, ok := (*p).([]interface{}); ok {
			for i := range l {
				walk(&l[i])
			}
		}
	}
	walk(&tree)
	p := nodes[r.Intn(len(nodes))]
	switch x := (*p).(type) {
	case []byte:
		switch r.Intn(10) {
		case 0:
			*p = []byte{0x00}
		case 1:
			*p = append([]byte{0x00}, x...) // leading zero
		case 2:
			*p = []byte{}
		case 3:
			*p = []byte{0x02}
		case 4:
			*p = append(append([]byte{}, x...), 0x01) // one byte longer
		case 5:
			if len(x) > 0 {
				*p = x[:len(x)-1] // one byte shorter
			} else {
				*p = []byte{0x80}
			}
		case 6:
			*p = []interface{}{} // string -> empty list
		case 7:
			*p = []interface{}{x} // wrapped in a list
		case 8:
			switch r.Intn(4) {
			case 0:
				*p = r.Bytes(9) // too wide for uint64
			case 1: // sizes whose low byte is small: 256*k + r (width checks done on a truncated size)
				*p = bytes.Repeat([]byte{0x01}, []int{256, 257, 258, 264, 512, 513}[r.Intn(6)])
			case 2:
				*p = append([]byte{0x01}, make([]byte, []int{255, 256, 263, 511}[r.Intn(4)])...)
			default:
				*p = make([]byte, []int{256, 257, 264}[r.Intn(3)]) // all zero
			}
		default:
			*p = []byte{0x01}
		}
	case []interface{}:
		switch r.Intn(5) {
		case 0:
			*p = append(append([]interface{}{}, x...), []byte{})
		case 1:
			if len(x) > 0 {
				*p = x[:len(x)-1]
			} else {
				*p = []byte{}
			}
		case 2:
			if len(x) > 0 {
				*p = append(append([]interface{}{}, x...), x[len(x)-1])
			} else {
				*p = []interface{}{[]interface{}{}}
			}
		case 3:
			*p = []byte{} // list -> empty string
		default:
			if len(x) > 1 {
				y := append([]interface{}{}, x...)
				y[0], y[1] = y[1], y[0]
				*p = y
			} else {
				*p = []interface{}{[]byte{0x01}}
			}
		}
	}
	out, err := rlp.EncodeToBytes(tree)
	return out, err == nil
}

// leafCandidates: boundary strings substituted systematically for every leaf
var leafCandidates = func() [][]byte {
	rep := func(b byte, n int) []byte { return bytes.Repeat([]byte{b}, n) }
	return [][]byte{{}, {0x00}, {0x01}, {0x02}, {0x7f}, {0x80}, {0x00, 0x01}, rep(0xff, 8), rep(0xff, 9), rep(0x01, 19), rep(0x01, 20), rep(0x01, 21),
		rep(0x01, 31), rep(0x01, 32), rep(0x01, 33), rep(0x01, 55), rep(0x01, 56), rep(0x01, 255), rep(0x01, 256), rep(0x01, 257), rep(0x01, 264), rep(0x00, 256), rep(0x01, 512)}
}()

// treeMutateAll enumerates, for every string leaf of the value encoded by b, every
// boundary candidate (and the two kind flips), re-encoded canonically.
func treeMutateAll(b []byte, maxLeaves int) [][]byte {
	var tree interface{}
	if err := rlp.DecodeBytes(b, &tree); err != nil {
		return nil
	}
	var leaves []*interface{}
	var walk func(p *interface{})
	walk = func(p *interface{}) {
		if l, ok := (*p).([]interface{}); ok {
			for i := range l {
				walk(&l[i])
			}
			return
		}
		leaves = append(leaves, p)
	}
	walk(&tree)
	var out [][]byte
	for i, p := range leaves {
		if i >= maxLeaves {
			break
		}
		orig := *p
		for _, c := range leafCandidates {
			*p = c
			if e, err := rlp.EncodeToBytes(tree); err == nil {
				out = append(out, e)
			}
		}
		*p = []interface{}{}
		if e, err := rlp.EncodeToBytes(tree); err == nil {
			out = append(out, e)
		}
		*p = []interface{}{orig}
		if e, err := rlp.EncodeToBytes(tree); err == nil {
			out = append(out, e)
		}
		*p = orig
	}
	return out
}

// typed: decode b into the public Go type and re-encode; compare with the model's
// typed_recode; direct oracle: an accepted input re-encodes to itself.
func typedCheck(c *vh.Ctx, m *vh.Model, e rlptypes.Entry, class string, b []byte, mustAccept bool) {
	hx := vh.Hex(b)
	var observed string
	var b2 []byte
	accepted := false
	p, pv := vh.CatchPanic(func() {
		ptr := reflect.New(e.Type)
		if err := rlp.DecodeBytes(b, ptr.Interface()); err != nil {
			observed = "err"
			return
		}
		var err error
		b2, err = rlp.EncodeToBytes(ptr.Interface())
		if err != nil {
			observed = "encode-err " + err.Error()
			return
		}
		accepted = true
		observed = "ok " + vh.Hex(b2)
	})
	if p {
		observed = fmt.Sprintf("panic %v", pv)
		c.Violate("typed-panic/"+e.Name+"/"+hx, "typed decode/encode panics", map[string]string{"type": e.Name, "input": hx, "panic": fmt.Sprint(pv)})
	}
	key := ""
	if accepted {
		key = e.Name + hx
	}
	c.Eval("typed/"+e.Name+"/"+class, key)
	c.Correspond("DecodeBytes+EncodeToBytes("+e.Name+")~typed_recode", e.Name+" "+hx, observed, m.Ask("typed 0x"+hex.EncodeToString([]byte(e.Name))+" "+hx))
	if accepted && !bytes.Equal(b2, b) {
		c.Violate("typed-noncanonical-accept/"+e.Name+"/"+hx, "typed decoding accepts an input that is not the encoding of the value it yields",
			map[string]string{"type": e.Name, "input": hx, "reencoded": vh.Hex(b2)})
	}
	if mustAccept && !accepted {
		c.Violate("typed-roundtrip/"+e.Name+"/"+hx, "the encoding of a valid value is rejected", map[string]string{"type": e.Name, "input": hx, "observed": observed})
	}
}

func render(v interface{}) string {
	switch x := v.(type) {
	case []byte:
		return vh.Hex(x)
	case []interface{}:
		parts := make([]string, len(x))
		for i, e := range x {
			parts[i] = render(e)
		}
		return "[" + strings.Join(parts, ",") + "]"
	default:
		return fmt.Sprintf("?%T", v)
	}
}

var alphabet = []byte{0x00, 0x01, 0x7f, 0x80, 0x81, 0x82, 0xb7, 0xb8, 0xb9, 0xbf, 0xc0, 0xc1, 0xc2, 0xf7, 0xf8, 0xff}

type obs struct{ exact, split, count string }

func observe(c *vh.Ctx, b []byte) (o obs, val interface{}, ok bool) {
	var v interface{}
	p, pv := vh.CatchPanic(func() {
		if err := rlp.DecodeBytes(b, &v); err != nil {
			o.exact = "err"
		} else {
			o.exact = "ok " + render(v)
			ok = true
		}
	})
	if p {
		o.exact = fmt.Sprintf("panic %v", pv)
		c.Violate("decode-panic/"+vh.Hex(b), "rlp.DecodeBytes panics", map[string]string{"input": vh.Hex(b), "panic": fmt.Sprint(pv)})
	}
	p, pv = vh.CatchPanic(func() {
		k, content, rest, err := rlp.Split(b)
		if err != nil {
			o.split = "err"
		} else {
			ks := "S"
			if k == rlp.List {
				ks = "L"
			}
			o.split = "ok " + ks + " " + vh.Hex(content) + " " + vh.Hex(rest)
		}
	})
	if p {
		o.split = fmt.Sprintf("panic %v", pv)
		c.Violate("split-panic/"+vh.Hex(b), "rlp.Split panics", map[string]string{"input": vh.Hex(b), "panic": fmt.Sprint(pv)})
	}
	p, pv = vh.CatchPanic(func() {
		n, err := rlp.CountValues(b)
		if err != nil {
			o.count = "err"
		} else {
			o.count = fmt.Sprintf("ok %d", n)
		}
	})
	if p {
		o.count = fmt.Sprintf("panic %v", pv)
		c.Violate("count-panic/"+vh.Hex(b), "rlp.CountValues panics", map[string]string{"input": vh.Hex(b), "panic": fmt.Sprint(pv)})
	}
	return o, v, ok
}

// one input: implementation vs model (three correspondences) + direct oracle
func checkInput(c *vh.Ctx, m *vh.Model, class string, b []byte) {
	hx := vh.Hex(b)
	o, v, ok := observe(c, b)
	key := ""
	if ok {
		key = hx
	}
	c.Eval(class, key)
	if ok {
		c.Count("accepted")
	} else {
		c.Count("rejected")
	}
	mExact := m.Ask("decode_exact " + hx)
	c.Correspond("DecodeBytes(interface{})~decode_exact", hx, o.exact, mExact)
	c.Correspond("Split~split", hx, o.split, m.Ask("split "+hx))
	c.Correspond("CountValues~count_values", hx, o.count, m.Ask("count "+hx))
	c.Correspond("Stream(Kind/List/Bytes/ListEnd, limited)~decode_exact", hx, streamWalk(b, true), mExact)
	c.Correspond("Stream(Kind/List/Bytes/ListEnd, unlimited)~decode_exact", hx, streamWalk(b, false), mExact)
	if strings.HasPrefix(o.split, "ok ") {
		// direct oracle for Split: header(kind, content) ++ content ++ rest is the input
		k, content, rest, _ := rlp.Split(b)
		re := append(append(canonHeader(k == rlp.List, content), content...), rest...)
		if !bytes.Equal(re, b) {
			c.Violate("split-noncanonical-accept/"+hx, "rlp.Split accepts a non-canonical header", map[string]string{"input": hx, "canonical": vh.Hex(re)})
		}
	}
	if strings.HasPrefix(o.count, "ok ") {
		// direct oracle for CountValues: splitting that many times consumes the input canonically
		rest := b
		for len(rest) > 0 {
			k, content, r2, err := rlp.Split(rest)
			if err != nil {
				c.Violate("count-accepts-what-split-rejects/"+hx, "CountValues accepts a sequence Split rejects", map[string]string{"input": hx})
				break
			}
			if !bytes.Equal(append(append(canonHeader(k == rlp.List, content), content...), r2...), rest) {
				c.Violate("count-noncanonical-accept/"+hx, "CountValues accepts a non-canonical header", map[string]string{"input": hx})
				break
			}
			rest = r2
		}
	}
	if ok {
		// direct oracle: whatever decodes re-encodes to exactly the input
		enc, err := rlp.EncodeToBytes(v)
		if err != nil || !bytes.Equal(enc, b) {
			c.Violate("noncanonical-accept/"+hx, "decoded value does not re-encode to the input",
				map[string]string{"input": hx, "decoded": render(v), "reencoded": vh.Hex(enc)})
		}
	}
}

// structured values
func genItem(r *vh.RNG, depth int) interface{} {
	if depth > 0 && r.Chance(40) {
		n := r.Intn(5)
		l := make([]interface{}, n)
		for i := range l {
			l[i] = genItem(r, depth-1)
		}
		return l
	}
	sizes := []int{0, 1, 1, 2, 31, 32, 55, 56, 57, 255, 256, 300}
	n := sizes[r.Intn(len(sizes))]
	b := r.Bytes(n)
	if n == 1 && r.Bool() {
		b[0] = []byte{0x00, 0x01, 0x7f, 0x80, 0x81, 0xff}[r.Intn(6)]
	}
	return b
}

func main() {
	c := vh.Init("C11")
	m := c.StartModel()
	defer m.Close()
	c.Res.Rule = "all strings over a 16-symbol boundary alphabet up to length L (exhaustive), structured items with boundary sizes and their single-byte mutations/truncations/extensions, long-form size re-encodings; a case is non-trivial and distinct when the implementation accepts it (distinct accepted byte strings)"

	// 0. Keccak model validation (shared primitive)
	for i := 0; i < 24; i++ {
		n := []int{0, 1, 31, 32, 55, 135, 136, 137, 271, 272, 273, 500}[i%12] + c.Rng.Intn(2)*i
		b := c.Rng.Bytes(n)
		c.Correspond("crypto.Keccak256~keccak256", vh.Hex(b), vh.Hex(crypto.Keccak256(b)), m.Ask("keccak "+vh.Hex(b)))
	}

	// 1. exhaustive over the boundary alphabet
	maxLen := c.Scale(4, 5)
	for l := 0; l <= maxLen; l++ {
		idx := make([]int, l)
		for {
			b := make([]byte, l)
			for i, j := range idx {
				b[i] = alphabet[j]
			}
			checkInput(c, m, fmt.Sprintf("alphabet/len%d", l), b)
			i := l - 1
			for i >= 0 {
				idx[i]++
				if idx[i] < len(alphabet) {
					break
				}
				idx[i] = 0
				i--
			}
			if i < 0 {
				break
			}
		}
	}
	c.Res.Exhaustive = true

	// 2. structured values: round trip, then mutations
	nStruct := c.Scale(300, 5000)
	for i := 0; i < nStruct; i++ {
		v := genItem(c.Rng, 4)
		enc, err := rlp.EncodeToBytes(v)
		if err != nil {
			c.Fatal("encode of generated item failed: %v", err)
		}
		hx := vh.Hex(enc)
		// model encodes the same value to the same bytes
		c.Correspond("EncodeToBytes~encode", render(v), hx, m.Ask("encode "+render(v)))
		if _, rd, err := rlp.EncodeToReader(v); err == nil {
			rb := new(bytes.Buffer)
			rb.ReadFrom(rd)
			c.Correspond("EncodeToReader~encode", render(v), vh.Hex(rb.Bytes()), hx)
		}
		// direct oracle: decode(encode v) == v
		var back interface{}
		if err := rlp.DecodeBytes(enc, &back); err != nil || render(back) != render(normalize(v)) {
			c.Violate("roundtrip/"+hx, "decode(encode(v)) != v", map[string]string{"value": render(v), "encoding": hx, "decoded": render(back), "err": fmt.Sprint(err)})
		}
		checkInput(c, m, "structured/valid", enc)
		if i < 5 {
			c.Sample(map[string]string{"value": render(v), "encoding": hx})
		}
		// mutations: a bounded number per value so that long encodings do not dominate
		nm := 24
		for k := 0; k < nm && len(enc) > 0; k++ {
			mut := append([]byte{}, enc...)
			switch c.Rng.Intn(5) {
			case 0: // single byte replaced by an alphabet symbol
				mut[c.Rng.Intn(len(mut))] = alphabet[c.Rng.Intn(len(alphabet))]
				checkInput(c, m, "structured/mut-byte", mut)
			case 1: // bit flip
				mut[c.Rng.Intn(len(mut))] ^= 1 << uint(c.Rng.Intn(8))
				checkInput(c, m, "structured/mut-bit", mut)
			case 2: // truncation
				checkInput(c, m, "structured/truncated", mut[:c.Rng.Intn(len(mut))])
			case 3: // extension
				checkInput(c, m, "structured/extended", append(mut, alphabet[c.Rng.Intn(len(alphabet))]))
			case 4: // header mutation near the front (first 3 bytes)
				p := c.Rng.Intn(min(3, len(mut)))
				mut[p] = byte(int(mut[p]) + []int{-1, 1, 0x37, -0x37}[c.Rng.Intn(4)])
				checkInput(c, m, "structured/mut-header", mut)
			}
		}
	}

	// 3. non-minimal size re-encodings: long form used where the short form fits,
	//    zero-prefixed size fields, single byte wrapped in a string header
	for n := 0; n < 70; n++ {
		payload := bytes.Repeat([]byte{0x01}, n)
		for _, off := range []byte{0xb7, 0xf7} {
			checkInput(c, m, "resize/long-for-short", append([]byte{off + 1, byte(n)}, payload...))
			checkInput(c, m, "resize/zero-prefixed", append([]byte{off + 2, 0, byte(n)}, payload...))
			checkInput(c, m, "resize/zero-prefixed", append([]byte{off + 3, 0, 0, byte(n)}, payload...))
		}
	}
	for b := 0; b < 256; b++ {
		checkInput(c, m, "resize/wrapped-single", []byte{0x81, byte(b)})
		checkInput(c, m, "single", []byte{byte(b)})
	}
	// 4. hostile sizes: huge declared length with short input must fail without allocating it
	for _, pre := range [][]byte{
		{0xbf, 0xff, 0xff, 0xff, 0xff, 0xff, 0xff, 0xff, 0xff}, {0xbb, 0x7f, 0xff, 0xff, 0xff}, {0xff, 0xff, 0xff, 0xff, 0xff, 0xff, 0xff, 0xff, 0xff},
		{0xfb, 0x7f, 0xff, 0xff, 0xff}, {0xba, 0x10, 0x00, 0x00}, {0xfa, 0x10, 0x00, 0x00}} {
		var ms0, ms1 runtime.MemStats
		runtime.ReadMemStats(&ms0)
		checkInput(c, m, "hostile-size", pre)
		var v interface{}
		rlp.DecodeBytes(pre, &v)
		var s []uint64
		rlp.DecodeBytes(pre, &s)
		var bs []byte
		rlp.DecodeBytes(pre, &bs)
		runtime.ReadMemStats(&ms1)
		if d := ms1.TotalAlloc - ms0.TotalAlloc; d > 1<<20 {
			c.Violate("alloc-unbounded/"+vh.Hex(pre), "decoding a short input with a huge declared size allocated more than 1 MiB",
				map[string]interface{}{"input": vh.Hex(pre), "allocated": d})
		}
	}
	// 5. typed layer: every generated consensus / storage descriptor
	nTyped := c.Scale(60, 1500)
	for _, e := range rlptypes.Registry() {
		for i := 0; i < nTyped; i++ {
			wire := rlptypes.Fill(c.Rng, e.Type, 3)
			enc, err := rlp.EncodeToBytes(wire.Interface())
			if err != nil {
				c.Fatal("encode of generated %s failed: %v", e.Name, err)
			}
			typedCheck(c, m, e, "valid", enc, true)
			if i == 0 {
				c.Sample(map[string]string{"type": e.Name, "encoding": vh.Hex(enc)})
			}
			if i < c.Scale(2, 20) {
				for _, mut := range treeMutateAll(enc, 40) {
					typedCheck(c, m, e, "leaf-sweep", mut, false)
				}
			}
			for k := 0; k < 24; k++ {
				if mut, ok := treeMutate(c.Rng, enc); ok {
					typedCheck(c, m, e, "tree-mut", mut, false)
				}
			}
			for k := 0; k < 12 && len(enc) > 0; k++ {
				mut := append([]byte{}, enc...)
				switch c.Rng.Intn(7) {
				case 0:
					mut[c.Rng.Intn(len(mut))] = alphabet[c.Rng.Intn(len(alphabet))]
					typedCheck(c, m, e, "mut-byte", mut, false)
				case 1:
					mut[c.Rng.Intn(len(mut))] ^= 1 << uint(c.Rng.Intn(8))
					typedCheck(c, m, e, "mut-bit", mut, false)
				case 2:
					typedCheck(c, m, e, "truncated", mut[:c.Rng.Intn(len(mut))], false)
				case 3:
					typedCheck(c, m, e, "extended", append(mut, alphabet[c.Rng.Intn(len(alphabet))]), false)
				case 4: // swap an empty string for an empty list or vice versa (nil-pointer kinds)
					var pos []int
					for j, x := range mut {
						if x == 0x80 || x == 0xc0 {
							pos = append(pos, j)
						}
					}
					if len(pos) > 0 {
						j := pos[c.Rng.Intn(len(pos))]
						mut[j] ^= 0x40
						typedCheck(c, m, e, "swap-empty-kind", mut, false)
					}
				case 5: // insert a leading zero into / wrap some element: splice a byte and fix nothing (usually rejected)
					j := c.Rng.Intn(len(mut))
					mut = append(mut[:j], append([]byte{[]byte{0x00, 0x80, 0x81, 0xc0}[c.Rng.Intn(4)]}, mut[j:]...)...)
					typedCheck(c, m, e, "spliced", mut, false)
				case 6: // element-count changes: re-wrap the outer list around payload plus/minus an element
					if k, content, _, err := rlp.Split(mut); err == nil && k == rlp.List {
						var payload []byte
						if c.Rng.Bool() {
							payload = append(append([]byte{}, content...), []byte{0x80, 0x01, 0xc0}[c.Rng.Intn(3)])
						} else if _, _, rest, err := rlp.Split(content); err == nil {
							payload = rest // drop the first element
						}
						typedCheck(c, m, e, "rewrapped", append(canonHeader(true, payload), payload...), false)
					}
				}
			}
		}
	}
	c.Assume("Go reflect and the rlp typecache are exercised only through interface{}/[]byte/[]uint64 targets in this item-level check; typed consensus structures are covered by the typed layer")
	c.Finish()
}

// normalize: what decoding into interface{} yields for an encoded Go value
func normalize(v interface{}) interface{} {
	switch x := v.(type) {
	case []byte:
		if x == nil {
			return []byte{}
		}
		return x
	case []interface{}:
		l := make([]interface{}, len(x))
		for i, e := range x {
			l[i] = normalize(e)
		}
		return l
	}
	return v
}
