// c11: correspondence between rlp (Go) and the Coq item-level codec, plus the
// direct oracle for property C11 (decode∘encode, canonicity, no panic, bounded
// allocation).
package main

import (
	"bytes"
	"fmt"
	"math/big"
	"os"
	"runtime"
	"runtime/debug"
	"strings"
	"sync"
	"sync/atomic"

	"encoding/hex"
	"reflect"

	"gitlab.com/aquachain/aquachain/crypto"
	"gitlab.com/aquachain/aquachain/rlp"
	"gitlab.com/aquachain/aquachain/verifharness/rlptypes"
	"gitlab.com/aquachain/aquachain/verifharness/vh"
)

// header bytes of the canonical encoding of a (kind, content) pair — an
// independent re-implementation used only by the direct oracle
func canonHeader(list bool, content []byte) []byte {
	off := byte(0x80)
	if list {
		off = 0xc0
	}
	n := len(content)
	if !list && n == 1 && content[0] < 0x80 {
		return nil
	}
	if n < 56 {
		return []byte{off + byte(n)}
	}
	var be []byte
	for x := n; x > 0; x >>= 8 {
		be = append([]byte{byte(x)}, be...)
	}
	return append([]byte{off + 55 + byte(len(be))}, be...)
}

// streamWalk decodes b with the Stream API only (Kind/List/Bytes/ListEnd), the way
// hand-written DecodeRLP methods use it, and returns the rendering of the value.
func streamWalk(b []byte, limited bool) (out string) {
	defer func() {
		if r := recover(); r != nil {
			out = fmt.Sprintf("panic %v", r)
		}
	}()
	var s *rlp.Stream
	rd := bytes.NewReader(b)
	if limited {
		s = rlp.NewStream(rd, uint64(len(b)))
	} else {
		s = rlp.NewStream(rd, 0)
	}
	var walk func() (interface{}, error)
	walk = func() (interface{}, error) {
		k, _, err := s.Kind()
		if err != nil {
			return nil, err
		}
		if k == rlp.List {
			if _, err := s.List(); err != nil {
				return nil, err
			}
			l := []interface{}{}
			for {
				v, err := walk()
				if err == rlp.EOL {
					break
				}
				if err != nil {
					return nil, err
				}
				l = append(l, v)
			}
			if err := s.ListEnd(); err != nil {
				return nil, err
			}
			return l, nil
		}
		return s.Bytes()
	}
	v, err := walk()
	if err != nil {
		return "err"
	}
	// exactly one value: nothing may be left in the reader (Stream does not read ahead)
	if rd.Len() > 0 {
		return "err"
	}
	if bs, ok := v.([]byte); ok && bs == nil {
		v = []byte{}
	}
	return "ok " + render(v)
}

// treeMutate: decode b into an item tree, change one node (leaf string replaced by a
// boundary string, kind flipped, element added / dropped / duplicated) and re-encode
// canonically: structurally valid RLP that deviates at the type level.
func treeMutate(r *vh.RNG, b []byte) ([]byte, bool) {
	var tree interface{}
	if err := rlp.DecodeBytes(b, &tree); err != nil {
		return nil, false
	}
	var nodes []*interface{}
	var walk func(p *interface{})
	walk = func(p *interface{}) {
		nodes = append(nodes, p)
		if l, ok := (*p).([]interface{}); ok {
			for i := range l {
				walk(&l[i])
			}
		}
	}
	walk(&tree)
	p := nodes[r.Intn(len(nodes))]
	switch x := (*p).(type) {
	case []byte:
		switch r.Intn(10) {
		case 0:
			*p = []byte{0x00}
		case 1:
			*p = append([]byte{0x00}, x...) // leading zero
		case 2:
			*p = []byte{}
		case 3:
			*p = []byte{0x02}
		case 4:
			*p = append(append([]byte{}, x...), 0x01) // one byte longer
		case 5:
			if len(x) > 0 {
				*p = x[:len(x)-1] // one byte shorter
			} else {
				*p = []byte{0x80}
			}
		case 6:
			*p = []interface{}{} // string -> empty list
		case 7:
			*p = []interface{}{x} // wrapped in a list
		case 8:
			switch r.Intn(4) {
			case 0:
				*p = r.Bytes(9) // too wide for uint64
			case 1: // sizes whose low byte is small: 256*k + r (width checks done on a truncated size)
				*p = bytes.Repeat([]byte{0x01}, []int{256, 257, 258, 264, 512, 513}[r.Intn(6)])
			case 2:
				*p = append([]byte{0x01}, make([]byte, []int{255, 256, 263, 511}[r.Intn(4)])...)
			default:
				*p = make([]byte, []int{256, 257, 264}[r.Intn(3)]) // all zero
			}
		default:
			*p = []byte{0x01}
		}
	case []interface{}:
		switch r.Intn(5) {
		case 0:
			*p = append(append([]interface{}{}, x...), []byte{})
		case 1:
			if len(x) > 0 {
				*p = x[:len(x)-1]
			} else {
				*p = []byte{}
			}
		case 2:
			if len(x) > 0 {
				*p = append(append([]interface{}{}, x...), x[len(x)-1])
			} else {
				*p = []interface{}{[]interface{}{}}
			}
		case 3:
			*p = []byte{} // list -> empty string
		default:
			if len(x) > 1 {
				y := append([]interface{}{}, x...)
				y[0], y[1] = y[1], y[0]
				*p = y
			} else {
				*p = []interface{}{[]byte{0x01}}
			}
		}
	}
	out, err := rlp.EncodeToBytes(tree)
	return out, err == nil
}

// leafCandidates: boundary strings substituted systematically for every leaf
var leafCandidates = func() [][]byte {
	rep := func(b byte, n int) []byte { return bytes.Repeat([]byte{b}, n) }
	return [][]byte{{}, {0x00}, {0x01}, {0x02}, {0x7f}, {0x80}, {0x00, 0x01}, rep(0xff, 8), rep(0xff, 9), rep(0x01, 19), rep(0x01, 20), rep(0x01, 21),
		rep(0x01, 31), rep(0x01, 32), rep(0x01, 33), rep(0x01, 55), rep(0x01, 56), rep(0x01, 255), rep(0x01, 256), rep(0x01, 257), rep(0x01, 264), rep(0x00, 256), rep(0x01, 512)}
}()

// treeMutateAll enumerates, for every string leaf of the value encoded by b, every
// boundary candidate (and the two kind flips), re-encoded canonically.
func treeMutateAll(b []byte, maxLeaves int) [][]byte {
	var tree interface{}
	if err := rlp.DecodeBytes(b, &tree); err != nil {
		return nil
	}
	var leaves []*interface{}
	var walk func(p *interface{})
	walk = func(p *interface{}) {
		if l, ok := (*p).([]interface{}); ok {
			for i := range l {
				walk(&l[i])
			}
			return
		}
		leaves = append(leaves, p)
	}
	walk(&tree)
	var out [][]byte
	for i, p := range leaves {
		if i >= maxLeaves {
			break
		}
		orig := *p
		for _, c := range leafCandidates {
			*p = c
			if e, err := rlp.EncodeToBytes(tree); err == nil {
				out = append(out, e)
			}
		}
		*p = []interface{}{}
		if e, err := rlp.EncodeToBytes(tree); err == nil {
			out = append(out, e)
		}
		*p = []interface{}{orig}
		if e, err := rlp.EncodeToBytes(tree); err == nil {
			out = append(out, e)
		}
		*p = orig
	}
	return out
}

// typed: decode b into the public Go type and re-encode; compare with the model's
// typed_recode; direct oracle: an accepted input re-encodes to itself.
func typedCheck(c *vh.Ctx, m *vh.Model, e rlptypes.Entry, class string, b []byte, mustAccept bool) {
	hx := vh.Hex(b)
	var observed, again string
	var b2 []byte
	accepted := false
	p, pv := vh.CatchPanic(func() {
		ptr := reflect.New(e.Type)
		in := append([]byte{}, b...)
		if err := rlp.DecodeBytes(in, ptr.Interface()); err != nil {
			observed = "err"
			return
		}
		scribbleBytes(in) // the decoded value must not depend on the caller's input buffer
		var err error
		b2, err = rlp.EncodeToBytes(ptr.Interface())
		if err != nil {
			observed = "encode-err " + err.Error()
			return
		}
		accepted = true
		observed = "ok " + vh.Hex(b2)
		// ownership: the caller edits everything it got back (decoded byte slices, the
		// encoder's output) in place; a later decode of the same input is unaffected
		scribbleValue(ptr.Elem(), 0)
		keep := append([]byte{}, b2...)
		scribbleBytes(b2)
		ptr2 := reflect.New(e.Type)
		if err := rlp.DecodeBytes(b, ptr2.Interface()); err != nil {
			again = "err"
			b2 = keep
			return
		}
		b3, err := rlp.EncodeToBytes(ptr2.Interface())
		again = "ok " + vh.Hex(b3)
		if err != nil {
			again = "encode-err " + err.Error()
		}
		b2 = keep
	})
	if p {
		observed = fmt.Sprintf("panic %v", pv)
		c.Violate("typed-panic/"+e.Name+"/"+hx, "typed decode/encode panics", map[string]string{"type": e.Name, "input": hx, "panic": fmt.Sprint(pv)})
	}
	key := ""
	if accepted {
		key = e.Name + hx
	}
	c.Eval("typed/"+e.Name+"/"+class, key)
	req := "typed 0x" + hex.EncodeToString([]byte(e.Name)) + " " + hx
	if d, ok := tyDescr[e.Name]; ok { // a type outside the generated registry: the model gets its descriptor (nilkinds.go)
		req = "typed_ty 0x" + d + " " + hx
	}
	c.Correspond("DecodeBytes+EncodeToBytes("+e.Name+")~typed_recode", e.Name+" "+hx, observed, m.Ask(req))
	if accepted && !bytes.Equal(b2, b) {
		c.Violate("typed-noncanonical-accept/"+e.Name+"/"+hx, "typed decoding accepts an input that is not the encoding of the value it yields",
			map[string]string{"type": e.Name, "input": hx, "reencoded": vh.Hex(b2)})
	}
	if accepted && again != observed {
		c.Violate("typed-decoded-value-shared/"+e.Name+"/"+hx, "after the caller edited an earlier decoded value / encoder output in place, decoding the same input again gives a different result",
			map[string]string{"type": e.Name, "input": hx, "first": observed, "after_edit": again})
	}
	if mustAccept && !accepted {
		c.Violate("typed-roundtrip/"+e.Name+"/"+hx, "the encoding of a valid value is rejected", map[string]string{"type": e.Name, "input": hx, "observed": observed})
	}
}

// scribbleBytes / scribbleItem / scribbleValue: what a caller may do with memory it
// owns (its input buffer, a decoded value, the encoder's output): overwrite it in place.
func scribbleBytes(b []byte) {
	for i := range b {
		b[i] ^= 0xff
	}
}

func scribbleItem(v interface{}) {
	switch x := v.(type) {
	case []byte:
		scribbleBytes(x)
	case []interface{}:
		for _, e := range x {
			scribbleItem(e)
		}
	}
}

func scribbleValue(v reflect.Value, depth int) {
	if depth > 12 {
		return
	}
	switch v.Kind() {
	case reflect.Ptr, reflect.Interface:
		if !v.IsNil() {
			scribbleValue(v.Elem(), depth+1)
		}
	case reflect.Struct:
		if v.Type() == reflect.TypeOf(big.Int{}) {
			return
		}
		for i := 0; i < v.NumField(); i++ {
			scribbleValue(v.Field(i), depth+1)
		}
	case reflect.Slice:
		if v.Type().Elem().Kind() == reflect.Uint8 {
			scribbleBytes(v.Bytes())
			return
		}
		for i := 0; i < v.Len(); i++ {
			scribbleValue(v.Index(i), depth+1)
		}
	case reflect.Array:
		if v.Type().Elem().Kind() == reflect.Uint8 {
			return
		}
		for i := 0; i < v.Len(); i++ {
			scribbleValue(v.Index(i), depth+1)
		}
	}
}

func render(v interface{}) string {
	switch x := v.(type) {
	case []byte:
		return vh.Hex(x)
	case []interface{}:
		parts := make([]string, len(x))
		for i, e := range x {
			parts[i] = render(e)
		}
		return "[" + strings.Join(parts, ",") + "]"
	default:
		return fmt.Sprintf("?%T", v)
	}
}

var alphabet = []byte{0x00, 0x01, 0x7f, 0x80, 0x81, 0x82, 0xb7, 0xb8, 0xb9, 0xbf, 0xc0, 0xc1, 0xc2, 0xf7, 0xf8, 0xff}

type obs struct{ exact, split, count string }

func observe(c *vh.Ctx, b []byte) (o obs, val interface{}, ok bool) {
	var v interface{}
	p, pv := vh.CatchPanic(func() {
		in := append([]byte{}, b...)
		err := rlp.DecodeBytes(in, &v)
		scribbleBytes(in) // the decoded value must not depend on the caller's input buffer
		if err != nil {
			o.exact = "err"
		} else {
			o.exact = "ok " + render(v)
			ok = true
		}
	})
	if p {
		o.exact = fmt.Sprintf("panic %v", pv)
		c.Violate("decode-panic/"+vh.Hex(b), "rlp.DecodeBytes panics", map[string]string{"input": vh.Hex(b), "panic": fmt.Sprint(pv)})
	}
	p, pv = vh.CatchPanic(func() {
		k, content, rest, err := rlp.Split(b)
		if err != nil {
			o.split = "err"
		} else {
			ks := "S"
			if k == rlp.List {
				ks = "L"
			}
			o.split = "ok " + ks + " " + vh.Hex(content) + " " + vh.Hex(rest)
		}
	})
	if p {
		o.split = fmt.Sprintf("panic %v", pv)
		c.Violate("split-panic/"+vh.Hex(b), "rlp.Split panics", map[string]string{"input": vh.Hex(b), "panic": fmt.Sprint(pv)})
	}
	p, pv = vh.CatchPanic(func() {
		n, err := rlp.CountValues(b)
		if err != nil {
			o.count = "err"
		} else {
			o.count = fmt.Sprintf("ok %d", n)
		}
	})
	if p {
		o.count = fmt.Sprintf("panic %v", pv)
		c.Violate("count-panic/"+vh.Hex(b), "rlp.CountValues panics", map[string]string{"input": vh.Hex(b), "panic": fmt.Sprint(pv)})
	}
	return o, v, ok
}

// one input: implementation vs model (three correspondences) + direct oracle
func checkInput(c *vh.Ctx, m *vh.Model, class string, b []byte) {
	hx := vh.Hex(b)
	o, v, ok := observe(c, b)
	key := ""
	if ok {
		key = hx
	}
	c.Eval(class, key)
	if ok {
		c.Count("accepted")
	} else {
		c.Count("rejected")
	}
	mExact := m.Ask("decode_exact " + hx)
	c.Correspond("DecodeBytes(interface{})~decode_exact", hx, o.exact, mExact)
	c.Correspond("Split~split", hx, o.split, m.Ask("split "+hx))
	c.Correspond("CountValues~count_values", hx, o.count, m.Ask("count "+hx))
	c.Correspond("Stream(Kind/List/Bytes/ListEnd, limited)~decode_exact", hx, streamWalk(b, true), mExact)
	c.Correspond("Stream(Kind/List/Bytes/ListEnd, unlimited)~decode_exact", hx, streamWalk(b, false), mExact)
	if strings.HasPrefix(o.split, "ok ") {
		// direct oracle for Split: header(kind, content) ++ content ++ rest is the input
		k, content, rest, _ := rlp.Split(b)
		re := append(append(canonHeader(k == rlp.List, content), content...), rest...)
		if !bytes.Equal(re, b) {
			c.Violate("split-noncanonical-accept/"+hx, "rlp.Split accepts a non-canonical header", map[string]string{"input": hx, "canonical": vh.Hex(re)})
		}
	}
	if strings.HasPrefix(o.count, "ok ") {
		// direct oracle for CountValues: splitting that many times consumes the input canonically
		rest := b
		for len(rest) > 0 {
			k, content, r2, err := rlp.Split(rest)
			if err != nil {
				c.Violate("count-accepts-what-split-rejects/"+hx, "CountValues accepts a sequence Split rejects", map[string]string{"input": hx})
				break
			}
			if !bytes.Equal(append(append(canonHeader(k == rlp.List, content), content...), r2...), rest) {
				c.Violate("count-noncanonical-accept/"+hx, "CountValues accepts a non-canonical header", map[string]string{"input": hx})
				break
			}
			rest = r2
		}
	}
	if ok {
		// direct oracle: whatever decodes re-encodes to exactly the input
		enc, err := rlp.EncodeToBytes(v)
		if err != nil || !bytes.Equal(enc, b) {
			c.Violate("noncanonical-accept/"+hx, "decoded value does not re-encode to the input",
				map[string]string{"input": hx, "decoded": render(v), "reencoded": vh.Hex(enc)})
		}
		// ownership: a decoded value and the encoder's output belong to the caller; editing
		// them in place changes nothing a later call returns (the model has value semantics)
		first := render(v)
		scribbleItem(v)
		scribbleBytes(enc)
		var v2 interface{}
		err2 := rlp.DecodeBytes(b, &v2)
		if err2 != nil || render(v2) != first {
			c.Violate("decoded-value-shared/"+hx, "after the caller edited an earlier decoded value in place, decoding the same input again gives a different value",
				map[string]string{"input": hx, "first": first, "after_edit": render(v2), "err": fmt.Sprint(err2)})
		}
		if sw := streamWalkScribble(b); sw != "ok "+first {
			c.Violate("stream-value-shared/"+hx, "Stream.Bytes results edited in place change what a later Stream returns",
				map[string]string{"input": hx, "first": first, "after_edit": sw})
		}
	}
}

// streamWalkScribble: walk b with the Stream API, overwriting every Stream.Bytes result
// in place, then walk it again with a fresh Stream and return what that one yields.
func streamWalkScribble(b []byte) string {
	s := rlp.NewStream(bytes.NewReader(b), uint64(len(b)))
	var walk func() error
	walk = func() error {
		k, _, err := s.Kind()
		if err != nil {
			return err
		}
		if k == rlp.List {
			if _, err := s.List(); err != nil {
				return err
			}
			for {
				err := walk()
				if err == rlp.EOL {
					break
				}
				if err != nil {
					return err
				}
			}
			return s.ListEnd()
		}
		bs, err := s.Bytes()
		scribbleBytes(bs)
		return err
	}
	if p, pv := vh.CatchPanic(func() { walk() }); p {
		return fmt.Sprintf("panic %v", pv)
	}
	return streamWalk(b, true)
}

// structured values
func genItem(r *vh.RNG, depth int) interface{} {
	if depth > 0 && r.Chance(40) {
		n := r.Intn(5)
		l := make([]interface{}, n)
		for i := range l {
			l[i] = genItem(r, depth-1)
		}
		return l
	}
	sizes := []int{0, 1, 1, 2, 31, 32, 55, 56, 57, 255, 256, 300}
	n := sizes[r.Intn(len(sizes))]
	b := r.Bytes(n)
	if n == 1 && r.Bool() {
		b[0] = []byte{0x00, 0x01, 0x7f, 0x80, 0x81, 0xff}[r.Intn(6)]
	}
	return b
}

func main() {
	c := vh.Init("C11")
	m := c.StartModel()
	defer m.Close()
	c.Res.Rule = "all strings over a 16-symbol boundary alphabet up to length L (exhaustive), structured items with boundary sizes and their single-byte mutations/truncations/extensions, long-form size re-encodings; a case is non-trivial and distinct when the implementation accepts it (distinct accepted byte strings)"

	// 0. Keccak model validation (shared primitive)
	for i := 0; i < 24; i++ {
		n := []int{0, 1, 31, 32, 55, 135, 136, 137, 271, 272, 273, 500}[i%12] + c.Rng.Intn(2)*i
		b := c.Rng.Bytes(n)
		c.Correspond("crypto.Keccak256~keccak256", vh.Hex(b), vh.Hex(crypto.Keccak256(b)), m.Ask("keccak "+vh.Hex(b)))
	}

	// 1. exhaustive over the boundary alphabet
	maxLen := c.Scale(4, 5)
	for l := 0; l <= maxLen; l++ {
		idx := make([]int, l)
		for {
			b := make([]byte, l)
			for i, j := range idx {
				b[i] = alphabet[j]
			}
			checkInput(c, m, fmt.Sprintf("alphabet/len%d", l), b)
			i := l - 1
			for i >= 0 {
				idx[i]++
				if idx[i] < len(alphabet) {
					break
				}
				idx[i] = 0
				i--
			}
			if i < 0 {
				break
			}
		}
	}
	c.Res.Exhaustive = true

	// 2. structured values: round trip, then mutations
	nStruct := c.Scale(300, 5000)
	for i := 0; i < nStruct; i++ {
		v := genItem(c.Rng, 4)
		enc, err := rlp.EncodeToBytes(v)
		if err != nil {
			c.Fatal("encode of generated item failed: %v", err)
		}
		hx := vh.Hex(enc)
		// model encodes the same value to the same bytes
		c.Correspond("EncodeToBytes~encode", render(v), hx, m.Ask("encode "+render(v)))
		if _, rd, err := rlp.EncodeToReader(v); err == nil {
			rb := new(bytes.Buffer)
			rb.ReadFrom(rd)
			c.Correspond("EncodeToReader~encode", render(v), vh.Hex(rb.Bytes()), hx)
		}
		// direct oracle: decode(encode v) == v
		var back interface{}
		if err := rlp.DecodeBytes(enc, &back); err != nil || render(back) != render(normalize(v)) {
			c.Violate("roundtrip/"+hx, "decode(encode(v)) != v", map[string]string{"value": render(v), "encoding": hx, "decoded": render(back), "err": fmt.Sprint(err)})
		}
		checkInput(c, m, "structured/valid", enc)
		if i < 5 {
			c.Sample(map[string]string{"value": render(v), "encoding": hx})
		}
		// mutations: a bounded number per value so that long encodings do not dominate
		nm := 24
		for k := 0; k < nm && len(enc) > 0; k++ {
			mut := append([]byte{}, enc...)
			switch c.Rng.Intn(5) {
			case 0: // single byte replaced by an alphabet symbol
				mut[c.Rng.Intn(len(mut))] = alphabet[c.Rng.Intn(len(alphabet))]
				checkInput(c, m, "structured/mut-byte", mut)
			case 1: // bit flip
				mut[c.Rng.Intn(len(mut))] ^= 1 << uint(c.Rng.Intn(8))
				checkInput(c, m, "structured/mut-bit", mut)
			case 2: // truncation
				checkInput(c, m, "structured/truncated", mut[:c.Rng.Intn(len(mut))])
			case 3: // extension
				checkInput(c, m, "structured/extended", append(mut, alphabet[c.Rng.Intn(len(alphabet))]))
			case 4: // header mutation near the front (first 3 bytes)
				p := c.Rng.Intn(min(3, len(mut)))
				mut[p] = byte(int(mut[p]) + []int{-1, 1, 0x37, -0x37}[c.Rng.Intn(4)])
				checkInput(c, m, "structured/mut-header", mut)
			}
		}
	}

	// 3. non-minimal size re-encodings: long form used where the short form fits,
	//    zero-prefixed size fields, single byte wrapped in a string header
	for n := 0; n < 70; n++ {
		payload := bytes.Repeat([]byte{0x01}, n)
		for _, off := range []byte{0xb7, 0xf7} {
			checkInput(c, m, "resize/long-for-short", append([]byte{off + 1, byte(n)}, payload...))
			checkInput(c, m, "resize/zero-prefixed", append([]byte{off + 2, 0, byte(n)}, payload...))
			checkInput(c, m, "resize/zero-prefixed", append([]byte{off + 3, 0, 0, byte(n)}, payload...))
		}
	}
	for b := 0; b < 256; b++ {
		checkInput(c, m, "resize/wrapped-single", []byte{0x81, byte(b)})
		checkInput(c, m, "single", []byte{byte(b)})
	}
	// 4. hostile sizes: huge declared length with short input must fail without allocating it
	for _, pre := range [][]byte{
		{0xbf, 0xff, 0xff, 0xff, 0xff, 0xff, 0xff, 0xff, 0xff}, {0xbb, 0x7f, 0xff, 0xff, 0xff}, {0xff, 0xff, 0xff, 0xff, 0xff, 0xff, 0xff, 0xff, 0xff},
		{0xfb, 0x7f, 0xff, 0xff, 0xff}, {0xba, 0x10, 0x00, 0x00}, {0xfa, 0x10, 0x00, 0x00}} {
		var ms0, ms1 runtime.MemStats
		runtime.ReadMemStats(&ms0)
		checkInput(c, m, "hostile-size", pre)
		var v interface{}
		rlp.DecodeBytes(pre, &v)
		var s []uint64
		rlp.DecodeBytes(pre, &s)
		var bs []byte
		rlp.DecodeBytes(pre, &bs)
		runtime.ReadMemStats(&ms1)
		if d := ms1.TotalAlloc - ms0.TotalAlloc; d > 1<<20 {
			c.Violate("alloc-unbounded/"+vh.Hex(pre), "decoding a short input with a huge declared size allocated more than 1 MiB",
				map[string]interface{}{"input": vh.Hex(pre), "allocated": d})
		}
	}
	// 5. typed layer: every generated consensus / storage descriptor
	nTyped := c.Scale(60, 1500)
	for _, e := range rlptypes.Registry() {
		for i := 0; i < nTyped; i++ {
			wire := rlptypes.Fill(c.Rng, e.Type, 3)
			enc, err := rlp.EncodeToBytes(wire.Interface())
			if err != nil {
				c.Fatal("encode of generated %s failed: %v", e.Name, err)
			}
			typedCheck(c, m, e, "valid", enc, true)
			if i == 0 {
				c.Sample(map[string]string{"type": e.Name, "encoding": vh.Hex(enc)})
			}
			if i < c.Scale(2, 20) {
				for _, mut := range treeMutateAll(enc, 40) {
					typedCheck(c, m, e, "leaf-sweep", mut, false)
				}
			}
			for k := 0; k < 24; k++ {
				if mut, ok := treeMutate(c.Rng, enc); ok {
					typedCheck(c, m, e, "tree-mut", mut, false)
				}
			}
			for k := 0; k < 12 && len(enc) > 0; k++ {
				mut := append([]byte{}, enc...)
				switch c.Rng.Intn(7) {
				case 0:
					mut[c.Rng.Intn(len(mut))] = alphabet[c.Rng.Intn(len(alphabet))]
					typedCheck(c, m, e, "mut-byte", mut, false)
				case 1:
					mut[c.Rng.Intn(len(mut))] ^= 1 << uint(c.Rng.Intn(8))
					typedCheck(c, m, e, "mut-bit", mut, false)
				case 2:
					typedCheck(c, m, e, "truncated", mut[:c.Rng.Intn(len(mut))], false)
				case 3:
					typedCheck(c, m, e, "extended", append(mut, alphabet[c.Rng.Intn(len(alphabet))]), false)
				case 4: // swap an empty string for an empty list or vice versa (nil-pointer kinds)
					var pos []int
					for j, x := range mut {
						if x == 0x80 || x == 0xc0 {
							pos = append(pos, j)
						}
					}
					if len(pos) > 0 {
						j := pos[c.Rng.Intn(len(pos))]
						mut[j] ^= 0x40
						typedCheck(c, m, e, "swap-empty-kind", mut, false)
					}
				case 5: // insert a leading zero into / wrap some element: splice a byte and fix nothing (usually rejected)
					j := c.Rng.Intn(len(mut))
					mut = append(mut[:j], append([]byte{[]byte{0x00, 0x80, 0x81, 0xc0}[c.Rng.Intn(4)]}, mut[j:]...)...)
					typedCheck(c, m, e, "spliced", mut, false)
				case 6: // element-count changes: re-wrap the outer list around payload plus/minus an element
					if k, content, _, err := rlp.Split(mut); err == nil && k == rlp.List {
						var payload []byte
						if c.Rng.Bool() {
							payload = append(append([]byte{}, content...), []byte{0x80, 0x01, 0xc0}[c.Rng.Intn(3)])
						} else if _, _, rest, err := rlp.Split(content); err == nil {
							payload = rest // drop the first element
						}
						typedCheck(c, m, e, "rewrapped", append(canonHeader(true, payload), payload...), false)
					}
				}
			}
		}
	}
	// 5b. rlp:"nil" pointers to every element kind (nilkinds.go)
	nilKindSection(c, m)
	// 6. first use of a type from several goroutines at once (the typecache is shared
	//    process state): fresh struct types, 8 workers behind a barrier, each encodes the
	//    value, decodes the bytes into a new value and re-encodes; nobody may panic and
	//    everybody gets what a later single-threaded call and the item-level model give
	// 7. rlp.Stream as a state machine: the walker and arbitrary operation sequences
	//    against the code-shaped model coq/Rlp/StreamModel.v (stream_ops.go)
	streamSection(c, m)
	concurrentFirstUse(c, m)
	// 8. allocation on early failure (known input length), 9. EncodeToReader under interleaved encodes
	earlyFailureAlloc(c, m)
	readerInterleaved(c, m)
	c.Assume("Go reflect and the rlp typecache are exercised only through interface{}/[]byte/[]uint64 targets in this item-level check; typed consensus structures are covered by the typed layer")
	c.Finish()
}

// normalize: what decoding into interface{} yields for an encoded Go value
func normalize(v interface{}) interface{} {
	switch x := v.(type) {
	case []byte:
		if x == nil {
			return []byte{}
		}
		return x
	case []interface{}:
		l := make([]interface{}, len(x))
		for i, e := range x {
			l[i] = normalize(e)
		}
		return l
	}
	return v
}

var freshCounter int

// freshType: a struct type no rlp call has seen yet (unique field names), over the
// field kinds of the consensus types; nested fresh struct / pointer / slice fields make
// the generator publish more than one new typecache entry per first use.
func freshType(c *vh.Ctx, depth int) reflect.Type {
	palette := []reflect.Type{
		reflect.TypeOf(uint64(0)), reflect.TypeOf(uint8(0)), reflect.TypeOf([]byte{}), reflect.TypeOf(new(big.Int)),
		reflect.TypeOf(""), reflect.TypeOf([4]byte{}), reflect.TypeOf([]uint64{}), reflect.TypeOf(false),
		reflect.TypeOf([20]byte{}), reflect.TypeOf([][]byte{}),
	}
	n := 1 + c.Rng.Intn(5)
	if depth >= 2 {
		n = 6 + c.Rng.Intn(10) // a wide top-level struct: its typeinfo takes longer to generate
	}
	fs := make([]reflect.StructField, 0, n)
	for i := 0; i < n; i++ {
		freshCounter++
		var t reflect.Type
		switch {
		case depth > 0 && c.Rng.Chance(25):
			t = freshType(c, depth-1)
			switch c.Rng.Intn(3) {
			case 1:
				t = reflect.PtrTo(t)
			case 2:
				t = reflect.SliceOf(t)
			}
		default:
			t = palette[c.Rng.Intn(len(palette))]
		}
		fs = append(fs, reflect.StructField{Name: fmt.Sprintf("F%dx%d", c.Seed%1000003, freshCounter), Type: t})
	}
	return reflect.StructOf(fs)
}

func concurrentFirstUse(c *vh.Ctx, m *vh.Model) {
	const workers = 16
	rounds := c.Scale(160, 1500)
	for r := 0; r < rounds; r++ {
		t := freshType(c, 2)
		val := rlptypes.Fill(c.Rng, t, 3)
		results := make([]string, workers)
		var done sync.WaitGroup
		var ready, gate int32
		for w := 0; w < workers; w++ {
			done.Add(1)
			go func(w int) {
				defer done.Done()
				defer func() {
					if p := recover(); p != nil {
						results[w] = fmt.Sprintf("panic %v", p)
						if os.Getenv("C11_DEBUG") != "" {
							fmt.Fprintln(os.Stderr, string(debug.Stack()))
						}
					}
				}()
				// spin barrier: all workers leave within nanoseconds of each other, so that the
				// losers of the race for the typecache entry arrive while the winner is still generating it
				atomic.AddInt32(&ready, 1)
				for atomic.LoadInt32(&gate) == 0 {
				}
				var enc []byte
				var err error
				if w%2 == 0 { // half of the workers meet the type in the encoder, half in the decoder
					enc, err = rlp.EncodeToBytes(val.Interface())
					if err != nil {
						results[w] = "encode-err " + err.Error()
						return
					}
				} else {
					enc = nil
				}
				if enc == nil {
					// decoder first: the zero value's encoding is known without the typecache only
					// for the empty list, so decode an item-level copy of the value instead
					enc = firstUseInput(val)
				}
				ptr := reflect.New(t)
				if err := rlp.DecodeBytes(enc, ptr.Interface()); err != nil {
					results[w] = "decode-err " + err.Error()
					return
				}
				re, err := rlp.EncodeToBytes(ptr.Interface())
				if err != nil {
					results[w] = "encode-err " + err.Error()
					return
				}
				results[w] = "ok " + vh.Hex(re)
			}(w)
		}
		for i := 0; atomic.LoadInt32(&ready) < workers && i < 1e7; i++ {
			runtime.Gosched()
		}
		atomic.StoreInt32(&gate, 1)
		done.Wait()
		// afterwards, single-threaded: the reference result
		enc, err := rlp.EncodeToBytes(val.Interface())
		if err != nil {
			c.Fatal("encode of fresh type failed: %v", err)
		}
		want := "ok " + vh.Hex(enc)
		c.Eval(fmt.Sprintf("concurrent-first-use/fields%d", t.NumField()), vh.Hex(enc)+t.String())
		var asItem interface{}
		if err := rlp.DecodeBytes(enc, &asItem); err == nil {
			c.Correspond("EncodeToBytes(fresh struct, concurrent first use)~encode", render(asItem), vh.Hex(enc), m.Ask("encode "+render(asItem)))
		} else {
			c.Violate("roundtrip/"+vh.Hex(enc), "encoding of a struct value is rejected as an item", map[string]string{"encoding": vh.Hex(enc)})
		}
		for w, got := range results {
			if got != want {
				sig := "concurrent-first-use/differs"
				if strings.HasPrefix(got, "panic") {
					sig = "concurrent-first-use/panic"
				}
				c.Violate(sig, "encoding/decoding a value of a type for the first time from several goroutines at once panics or gives a different result than a later call",
					map[string]interface{}{"type": t.String(), "value_encoding": vh.Hex(enc), "worker": w, "observed": got, "expected": want, "workers": workers, "round": r})
				break
			}
		}
	}
}

// firstUseInput: the encoding of val computed without touching the typecache entry
// of its (fresh) struct type: fields are encoded one by one and wrapped by hand.
func firstUseInput(val reflect.Value) []byte {
	var payload []byte
	for i := 0; i < val.NumField(); i++ {
		f := val.Field(i)
		anon := func(t reflect.Type) bool { return t.Kind() == reflect.Struct && t.Name() == "" }
		if anon(f.Type()) || ((f.Kind() == reflect.Ptr || f.Kind() == reflect.Slice) && anon(f.Type().Elem())) {
			switch f.Kind() {
			case reflect.Struct:
				payload = append(payload, firstUseInput(f)...)
			case reflect.Ptr:
				if f.IsNil() {
					payload = append(payload, 0xc0)
				} else {
					payload = append(payload, firstUseInput(f.Elem())...)
				}
			default:
				var inner []byte
				for j := 0; j < f.Len(); j++ {
					inner = append(inner, firstUseInput(f.Index(j))...)
				}
				payload = append(payload, append(canonHeader(true, inner), inner...)...)
			}
			continue
		}
		b, err := rlp.EncodeToBytes(f.Interface())
		if err != nil {
			panic(err)
		}
		payload = append(payload, b...)
	}
	return append(canonHeader(true, payload), payload...)
}
