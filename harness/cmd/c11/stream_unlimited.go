// c11, section "stream", part: declared sizes that cannot be trusted.  A Stream without an
// input limit (reader of unknown length) must neither panic nor allocate what a header
// merely declares (property C11: total and bounded; fixed in /repo by commit a810c36,
// readContent).  Short inputs declaring 2^16 .. 2^64-1 bytes, at top level and inside
// lists whose own declared size is just as untrusted, and genuine strings larger than the
// 64 KiB first chunk, through every entry point that reads string content.
package main

import (
	"bytes"
	"fmt"
	"math/big"
	"runtime"

	"gitlab.com/aquachain/aquachain/rlp"
	"gitlab.com/aquachain/aquachain/verifharness/vh"
)

// canonical header for a declared payload of n bytes (off = 0x80 string, 0xc0 list)
func hdrFor(off byte, n uint64) []byte {
	if n < 56 {
		return []byte{off + byte(n)}
	}
	var be []byte
	for x := n; x > 0; x >>= 8 {
		be = append([]byte{byte(x)}, be...)
	}
	return append([]byte{off + 55 + byte(len(be))}, be...)
}

// the operations that read string content: result bytes (nil if none), error
type contentOp struct {
	name string
	op   string // the operation of the sequence interface it corresponds to ("" = oracle only)
	run  func(s *rlp.Stream) ([]byte, error)
}

var contentOps = []contentOp{
	{"Bytes", "B", func(s *rlp.Stream) ([]byte, error) { return s.Bytes() }},
	{"Raw", "R", func(s *rlp.Stream) ([]byte, error) { return s.Raw() }},
	{"Decode([]byte)", "DB", func(s *rlp.Stream) ([]byte, error) {
		var v []byte
		err := s.Decode(&v)
		return v, err
	}},
	{"Decode(string)", "DS", func(s *rlp.Stream) ([]byte, error) {
		var v string
		err := s.Decode(&v)
		return []byte(v), err
	}},
	{"Decode(big.Int)", "", func(s *rlp.Stream) ([]byte, error) {
		v := new(big.Int)
		err := s.Decode(v)
		return v.Bytes(), err
	}},
	{"Decode(interface{})", "", func(s *rlp.Stream) ([]byte, error) {
		var v interface{}
		err := s.Decode(&v)
		b, _ := v.([]byte)
		return b, err
	}},
}

// one measured call: panic?, bytes allocated by the call
func measured(f func()) (panicked bool, pv interface{}, alloc uint64) {
	var m0, m1 runtime.MemStats
	runtime.ReadMemStats(&m0)
	panicked, pv = vh.CatchPanic(f)
	runtime.ReadMemStats(&m1)
	return panicked, pv, m1.TotalAlloc - m0.TotalAlloc
}

func allocBound(input []byte) uint64 { return 4*uint64(len(input)) + 256<<10 }

// input declaring a string of `declared` bytes but holding only `data`; inList wraps it in a
// list whose declared size covers the declared string (capped at 2^64-1)
func hostileInput(declared uint64, data []byte, inList bool) []byte {
	if !inList {
		return cat(hdrFor(0x80, declared), data)
	}
	sh := hdrFor(0x80, declared)
	total := uint64(len(sh)) + declared
	if total < declared { // wrapped: the largest list there is, holding the largest string that fits
		total = 1<<64 - 1
		sh = hdrFor(0x80, total-9)
	}
	return cat(hdrFor(0xc0, total), sh, data)
}

func streamUnlimitedProbes(c *vh.Ctx, m *vh.Model) {
	// ---- (1) short inputs, escalating declared sizes: direct oracle ----
	sizes := []uint64{1<<16 + 1, 1 << 20, 1 << 26, 1 << 32, 1 << 40, 1 << 47, 1<<48 + 1, 1 << 56, 1 << 63, 1<<64 - 1}
	var cases []streamCase
	for _, mode := range []string{"unlim", "long"} {
		for _, inList := range []bool{false, true} {
			pos := "top"
			if inList {
				pos = "inlist"
			}
			for _, co := range contentOps {
				skipAllocatable := false
				for _, declared := range sizes {
					if skipAllocatable && declared <= 1<<48 {
						continue
					}
					b := hostileInput(declared, []byte{1, 2, 3}, inList)
					hx := vh.Hex(b)
					var got []byte
					var err error
					listErr := error(nil)
					p, pv, alloc := measured(func() {
						s, _, _, _ := openStream(b, mode)
						if inList {
							if _, listErr = s.List(); listErr != nil {
								return
							}
						}
						got, err = co.run(s)
					})
					c.Eval("stream/hostile/"+mode+"/"+pos+"/"+co.name, "")
					replay := map[string]interface{}{"input": hx, "mode": mode, "position": pos, "op": co.name, "declared": declared}
					bad := false
					if p {
						replay["panic"] = fmt.Sprint(pv)
						c.Violate("stream-unlimited-declared-size-panics/"+co.name, "a Stream panics on a short input that declares a huge string", replay)
						bad = true
					}
					if alloc > allocBound(b) {
						replay["allocated"] = alloc
						c.Violate("stream-unlimited-alloc-beyond-input/"+co.name, "reading a short input that declares a huge string allocates far more than the input holds", replay)
						bad = true
					}
					if !p && listErr == nil && err == nil {
						replay["returned"] = len(got)
						c.Violate("stream-short-input-accepted/"+co.name, "a string declared longer than the input is returned without error", replay)
					}
					if bad {
						// the implementation trusts declared sizes: the sizes up to 2^48 that follow
						// would really be allocated — skip them here and keep them away from it below;
						// beyond 2^48 make() refuses at once, so those are still run (panic oracle)
						unsafeUnlimited = true
						skipAllocatable = true
						continue
					}
					if co.op != "" {
						ops := []string{co.op, "K"}
						if inList {
							ops = []string{"L", co.op, "K", "E"}
						}
						cases = append(cases, streamCase{"stream/hostile-seq", mode, b, ops})
					}
				}
			}
		}
	}
	// the same inputs against the model, operation by operation (skipped sizes apart when the
	// implementation was just seen to trust them)
	runStreamCases(c, m, cases)

	// ---- (2) genuine content larger than the first chunk: 1, 2, 3 chunks ----
	cases = nil
	var walkInputs [][]byte
	for _, n := range []int{65536, 65537, 131072 + 5, 300000} {
		data := c.Rng.Bytes(n)
		if data[0] == 0 {
			data[0] = 1 // also a canonical big integer
		}
		for _, inList := range []bool{false, true} {
			pos := "top"
			if inList {
				pos = "inlist"
			}
			raw := cat(hdrFor(0x80, uint64(n)), data)
			b := raw
			if inList {
				b = cat(hdrFor(0xc0, uint64(len(raw))), raw)
			}
			for _, mode := range []string{"unlim", "lim", "long"} {
				for _, co := range contentOps {
					var got []byte
					var err error
					p, pv, alloc := measured(func() {
						s, _, _, _ := openStream(b, mode)
						if inList {
							if _, err = s.List(); err != nil {
								return
							}
						}
						got, err = co.run(s)
					})
					c.Eval("stream/large/"+mode+"/"+pos+"/"+co.name, fmt.Sprintf("%s %s %d", mode, pos, n))
					want := data
					if co.name == "Raw" {
						want = raw
					}
					replay := map[string]interface{}{"mode": mode, "position": pos, "op": co.name, "size": n, "seed_note": "content = first Rng.Bytes(size) of this section"}
					if p {
						replay["panic"] = fmt.Sprint(pv)
						c.Violate("stream-unlimited-declared-size-panics/"+co.name, "a Stream panics on a large genuine string", replay)
					} else if err != nil || !bytes.Equal(got, want) {
						replay["err"] = fmt.Sprint(err)
						replay["returned"] = len(got)
						c.Violate("stream-large-content-mismatch/"+co.name, "a string larger than 64 KiB is not returned exactly", replay)
					}
					if alloc > allocBound(b) {
						replay["allocated"] = alloc
						c.Violate("stream-unlimited-alloc-beyond-input/"+co.name, "reading a genuine large string allocates more than 4x the input + 256 KiB", replay)
					}
				}
			}
			// correspondence on the same inputs, and on truncations (error, reader drained).  The
			// extracted model needs about a second per 300 KB request, so the quick tier sends it
			// the 2-chunk and 3-chunk sizes in a few combinations; thorough sends everything.
			if !c.Thorough() && n != 65537 && n != 131072+5 {
				continue
			}
			modes := []string{"unlim"}
			if c.Thorough() {
				modes = []string{"unlim", "lim", "long"}
			}
			for _, mode := range modes {
				if inList {
					cases = append(cases, streamCase{"stream/large-seq", mode, b, []string{"L", "B", "E"}})
					if c.Thorough() || n == 65537 {
						cases = append(cases, streamCase{"stream/large-seq", mode, b, []string{"L", "R", "E", "K"}})
					}
				} else {
					cases = append(cases, streamCase{"stream/large-seq", mode, b, []string{"B", "K"}})
					if c.Thorough() || n == 65537 {
						cases = append(cases, streamCase{"stream/large-seq", mode, b, []string{"K", "R"}}, streamCase{"stream/large-seq", "lim", b, []string{"DB"}})
					}
				}
			}
			if n > 100000 {
				if inList {
					cases = append(cases, streamCase{"stream/large-truncated", "unlim", b[:len(b)-1], []string{"L", "B", "E"}})
				} else {
					cases = append(cases, streamCase{"stream/large-truncated", "unlim", b[:70000], []string{"R", "K"}})
				}
				if c.Thorough() {
					cases = append(cases, streamCase{"stream/large-truncated", "long", b[:len(b)-1], []string{"K", "DS"}})
				}
			}
			if c.Thorough() || (n == 65537 && inList) {
				walkInputs = append(walkInputs, b)
			}
		}
	}
	runStreamCases(c, m, cases)
	streamWalkCases(c, m, "large", walkInputs, []string{"unlim"})
}
