// c11, section "stream": the real rlp.Stream against the code-shaped model
// coq/Rlp/StreamModel.v — the generic walker and arbitrary operation sequences
// (valid and invalid orders), compared after every operation: result (value or
// error, errors mapped by identity) and how many bytes the reader still holds.
package main

import (
	"bytes"
	"errors"
	"fmt"
	"io"
	"strings"
	"time"

	"gitlab.com/aquachain/aquachain/rlp"
	"gitlab.com/aquachain/aquachain/verifharness/vh"
)

// a ByteReader that is not a *bytes.Reader: Stream does not discover an input limit
// and does not wrap it in a bufio.Reader
type plainReader struct{ r *bytes.Reader }

func (p *plainReader) Read(b []byte) (int, error) { return p.r.Read(b) }
func (p *plainReader) ReadByte() (byte, error)    { return p.r.ReadByte() }

// set by streamUnlimitedProbes when the implementation allocates / panics on a declared size
var unsafeUnlimited bool

var streamModes = []string{"lim", "auto", "unlim", "short", "long"}

// openStream: the Stream, the reader underneath, the model's (inputLimit, bytesReader)
// arguments, and whether declared sizes can exceed the input (no effective limit).
func openStream(b []byte, mode string) (*rlp.Stream, *bytes.Reader, string, bool) {
	rd := bytes.NewReader(b)
	switch mode {
	case "lim":
		return rlp.NewStream(rd, uint64(len(b))), rd, fmt.Sprintf("%d 1", len(b)), false
	case "auto":
		return rlp.NewStream(rd, 0), rd, "0 1", false
	case "unlim":
		return rlp.NewStream(&plainReader{rd}, 0), rd, "0 0", true
	case "short":
		return rlp.NewStream(rd, uint64(len(b)/2)), rd, fmt.Sprintf("%d 1", len(b)/2), false
	default: // long
		return rlp.NewStream(rd, uint64(len(b)+3)), rd, fmt.Sprintf("%d 1", len(b)+3), true
	}
}

// the unexported error values, captured by provoking them once (compared by identity)
var errNotInListRef, errNotAtEOLRef, errUintOverflowRef error

func captureStreamErrors(c *vh.Ctx) {
	errNotInListRef = rlp.NewStream(bytes.NewReader(nil), 0).ListEnd()
	s := rlp.NewStream(bytes.NewReader([]byte{0xc1, 0x01}), 0)
	if _, err := s.List(); err != nil {
		c.Violate("stream-list-rejects-c101", "Stream.List fails on the list c101", map[string]string{"err": fmt.Sprint(err)})
	}
	errNotAtEOLRef = s.ListEnd()
	_, errUintOverflowRef = rlp.NewStream(bytes.NewReader([]byte{0x89, 1, 2, 3, 4, 5, 6, 7, 8, 9}), 0).Uint()
	// a missing error here is already a break of the state machine (direct oracle); the
	// comparison goes on with a placeholder that matches nothing
	if errNotInListRef == nil {
		c.Violate("stream-listend-outside-list-accepted", "ListEnd outside of any list returns no error", nil)
		errNotInListRef = errors.New("placeholder: errNotInList")
	}
	if errNotAtEOLRef == nil {
		c.Violate("stream-listend-before-eol-accepted", "ListEnd before the end of the list (c101, nothing read) returns no error", nil)
		errNotAtEOLRef = errors.New("placeholder: errNotAtEOL")
	}
	if errUintOverflowRef == nil {
		c.Violate("stream-uint-9-bytes-accepted", "Uint() accepts a 9-byte string", nil)
		errUintOverflowRef = errors.New("placeholder: errUintOverflow")
	}
	refs := []error{errNotInListRef, errNotAtEOLRef, errUintOverflowRef, rlp.EOL, rlp.ErrExpectedString, rlp.ErrExpectedList,
		rlp.ErrCanonInt, rlp.ErrCanonSize, rlp.ErrElemTooLarge, rlp.ErrValueTooLarge, io.EOF, io.ErrUnexpectedEOF}
	for i, a := range refs {
		for j, b := range refs {
			if i < j && a == b {
				c.Violate(fmt.Sprintf("stream-reference-errors-coincide/%d/%d", i, j), "two operations that must fail differently return the same error value", map[string]string{"err": fmt.Sprint(a)})
			}
		}
	}
}

func streamErrName(err error) string {
	switch err {
	case rlp.EOL:
		return "eol"
	case rlp.ErrExpectedString:
		return "expstr"
	case rlp.ErrExpectedList:
		return "explist"
	case rlp.ErrCanonInt:
		return "canonint"
	case rlp.ErrCanonSize:
		return "canonsize"
	case rlp.ErrElemTooLarge:
		return "elemlarge"
	case rlp.ErrValueTooLarge:
		return "vallarge"
	case errNotInListRef:
		return "notinlist"
	case errNotAtEOLRef:
		return "notateol"
	case errUintOverflowRef:
		return "uintoverflow"
	case io.EOF:
		return "eof"
	case io.ErrUnexpectedEOF:
		return "uneof"
	}
	return "other"
}

// hugeAhead: with no effective input limit a toplevel Bytes/Raw does make([]byte, size)
// with the declared size before reading.  Above 2^48 Go panics (modelled); between
// 2^24 and 2^48 it would really allocate: such cases are not run.  Kind is cached, so
// peeking does not change what the next operation does.
// With an effective limit (guard == false) Kind must never hand out a size beyond the
// input: that is the "bounded" clause itself (direct oracle), and the case is not run
// further (the allocation would be attempted).
func hugeAhead(c *vh.Ctx, s *rlp.Stream, guard bool, b []byte, mode string) bool {
	k, size, err := s.Kind()
	if err != nil || k == rlp.Byte {
		return false
	}
	if !guard && size > uint64(len(b)) {
		if c == nil {
			return true
		}
		c.Violate("stream-size-beyond-input/"+mode+"/"+vh.Hex(b), "Kind() of a Stream whose input limit is at most the input length returns, without error, a size larger than the whole input (Bytes/Raw would allocate it)",
			map[string]interface{}{"input": vh.Hex(b), "mode": mode, "size": size})
		return true
	}
	// since commit a810c36 an unlimited Stream does not allocate a declared size up front: all
	// sizes are run.  Only if the probes of streamUnlimitedProbes have just seen it do so
	// (reverted tree) are the sizes that would really be allocated kept away from it.
	return guard && unsafeUnlimited && size > 1<<24 && size <= 1<<48
}

// streamWalk2: streamWalk with the error and the reader position in the result
func streamWalk2(c *vh.Ctx, b []byte, mode string) (out string, modelArgs string, skipped bool) {
	s, rd, margs, guard := openStream(b, mode)
	modelArgs = margs
	defer func() {
		if r := recover(); r != nil {
			out = "panic"
		}
	}()
	var walk func() (interface{}, error)
	walk = func() (interface{}, error) {
		k, _, err := s.Kind()
		if err != nil {
			return nil, err
		}
		if k == rlp.List {
			if _, err := s.List(); err != nil {
				return nil, err
			}
			l := []interface{}{}
			for {
				v, err := walk()
				if err == rlp.EOL {
					break
				}
				if err != nil {
					return nil, err
				}
				l = append(l, v)
			}
			if err := s.ListEnd(); err != nil {
				return nil, err
			}
			return l, nil
		}
		if hugeAhead(c, s, guard, b, mode) {
			skipped = true
			return nil, io.ErrNoProgress
		}
		bs, err := s.Bytes()
		if err == nil && bs == nil {
			bs = []byte{}
		}
		return bs, err
	}
	v, err := walk()
	if skipped {
		return "", modelArgs, true
	}
	if err != nil {
		return fmt.Sprintf("err %s left=%d", streamErrName(err), rd.Len()), modelArgs, false
	}
	return fmt.Sprintf("ok %s left=%d", render(v), rd.Len()), modelArgs, false
}

var streamOps = []string{"K", "L", "E", "B", "R", "U8", "U16", "U32", "U64", "O"}

// one operation on the real Stream: "ok:<val>" | "err:<name>" | "panic"
func streamDo(s *rlp.Stream, op string, inputLen int, onBig func(int)) (res string) {
	defer func() {
		if r := recover(); r != nil {
			res = "panic"
		}
	}()
	fin := func(val string, err error, wrapped bool) string {
		if err != nil {
			n := streamErrName(err)
			if wrapped && n == "other" {
				n = "wrapped"
			}
			return "err:" + n
		}
		return "ok:" + val
	}
	switch op {
	case "K":
		k, size, err := s.Kind()
		return fin(fmt.Sprintf("k%d:0x%x", int(k), size), err, false)
	case "L":
		size, err := s.List()
		return fin(fmt.Sprintf("n0x%x", size), err, false)
	case "E":
		return fin("u", s.ListEnd(), false)
	case "B":
		b, err := s.Bytes()
		if err == nil && len(b) > inputLen {
			onBig(len(b))
		}
		return fin("x"+vh.Hex(b), err, false)
	case "R":
		b, err := s.Raw()
		if err == nil && len(b) > inputLen {
			onBig(len(b))
		}
		return fin("x"+vh.Hex(b), err, false)
	case "U64":
		v, err := s.Uint()
		return fin(fmt.Sprintf("n0x%x", v), err, false)
	case "O":
		v, err := s.Bool()
		if v {
			return fin("t", err, false)
		}
		return fin("f", err, false)
	// uint(maxbits) is unexported: Decode into a uintN runs it (decodeUint) and passes the
	// error through wrapStreamError, which replaces six of the error values by a fresh
	// *decodeError — those are compared as the class "wrapped"
	// Decode into []byte / string: decodeByteSlice / decodeString = Bytes() + wrapStreamError
	case "DB":
		var v []byte
		err := s.Decode(&v)
		if err == nil && len(v) > inputLen {
			onBig(len(v))
		}
		return fin("x"+vh.Hex(v), err, true)
	case "DS":
		var v string
		err := s.Decode(&v)
		if err == nil && len(v) > inputLen {
			onBig(len(v))
		}
		return fin("x"+vh.Hex([]byte(v)), err, true)
	case "U8":
		var v uint8
		err := s.Decode(&v)
		return fin(fmt.Sprintf("n0x%x", v), err, true)
	case "U16":
		var v uint16
		err := s.Decode(&v)
		return fin(fmt.Sprintf("n0x%x", v), err, true)
	case "U32":
		var v uint32
		err := s.Decode(&v)
		return fin(fmt.Sprintf("n0x%x", v), err, true)
	}
	return "bad-op"
}

var wrappedSet = map[string]bool{"canonint": true, "canonsize": true, "explist": true, "expstr": true, "uintoverflow": true, "notateol": true}

// the model's answer with the entries of U8/U16/U32 coarsened the way wrapStreamError does
func coarsenModel(ans string, ops []string) string {
	parts := strings.Split(ans, ";")
	for i := range parts {
		if i >= len(ops) {
			break
		}
		if ops[i] != "U8" && ops[i] != "U16" && ops[i] != "U32" && ops[i] != "DB" && ops[i] != "DS" {
			continue
		}
		if strings.HasPrefix(parts[i], "err:") {
			rest := parts[i][4:]
			j := strings.IndexByte(rest, '/')
			if j >= 0 && wrappedSet[rest[:j]] {
				parts[i] = "err:wrapped" + rest[j:]
			}
		}
	}
	return strings.Join(parts, ";")
}

// the model has no Decode: DB and DS are Bytes there
func modelOps(ops []string) string {
	out := make([]string, len(ops))
	for i, o := range ops {
		if o == "DB" || o == "DS" {
			o = "B"
		}
		out[i] = o
	}
	return strings.Join(out, ",")
}

type streamCase struct {
	class, mode string
	b           []byte
	ops         []string
}

// run the cases on the implementation, ask the model in one batch, compare
func runStreamCases(c *vh.Ctx, m *vh.Model, cases []streamCase) {
	var reqs, texts, obs []string
	var kept []streamCase
	for _, cs := range cases {
		s, rd, margs, guard := openStream(cs.b, cs.mode)
		hx := vh.Hex(cs.b)
		var out []string
		skipped, anyOk := false, false
		for _, op := range cs.ops {
			if (op == "B" || op == "R" || op == "DB" || op == "DS") && hugeAhead(c, s, guard, cs.b, cs.mode) {
				skipped = true
				break
			}
			r := streamDo(s, op, len(cs.b), func(n int) {
				c.Violate("stream-alloc-beyond-input/"+hx+"/"+strings.Join(cs.ops, ","), "Stream.Bytes/Raw returned more bytes than the whole input holds",
					map[string]interface{}{"input": hx, "mode": cs.mode, "ops": cs.ops, "len": n})
			})
			c.Count("stream/op/" + op)
			if r == "panic" {
				out = append(out, r)
				break
			}
			if strings.HasPrefix(r, "ok:") {
				anyOk = true
			}
			out = append(out, fmt.Sprintf("%s/%d", r, rd.Len()))
		}
		if skipped {
			c.Count("stream/skipped-huge-alloc")
			continue
		}
		text := cs.mode + " " + hx + " " + strings.Join(cs.ops, ",")
		key := ""
		if anyOk {
			key = text
		}
		c.Eval(cs.class+"/"+cs.mode, key)
		reqs = append(reqs, "stream_ops "+margs+" "+hx+" "+modelOps(cs.ops))
		texts = append(texts, text)
		obs = append(obs, strings.Join(out, ";"))
		kept = append(kept, cs)
	}
	ans := m.AskAll(reqs)
	for i := range reqs {
		c.Correspond("Stream.ops("+kept[i].mode+")~StreamModel.st_op", texts[i], obs[i], coarsenModel(ans[i], kept[i].ops))
	}
}

func streamWalkCases(c *vh.Ctx, m *vh.Model, class string, inputs [][]byte, modes []string) {
	var reqs, texts, obs, mds []string
	for _, b := range inputs {
		hx := vh.Hex(b)
		for _, mode := range modes {
			o, margs, skipped := streamWalk2(c, b, mode)
			if skipped {
				c.Count("stream/skipped-huge-alloc")
				continue
			}
			key := ""
			if strings.HasPrefix(o, "ok ") {
				key = mode + " " + hx
			}
			c.Eval("stream/walk/"+class+"/"+mode, key)
			if mode == "lim" && strings.HasPrefix(o, "ok ") && strings.HasSuffix(o, " left=0") {
				// direct oracle: what the Stream API accepts as one whole value is the
				// canonical encoding of what it yielded
				var v interface{}
				if err := rlp.DecodeBytes(b, &v); err != nil {
					c.Violate("stream-accepts-what-decode-rejects/"+hx, "the Stream walk accepts an input DecodeBytes rejects", map[string]string{"input": hx, "walk": o, "err": fmt.Sprint(err)})
				} else if enc, err := rlp.EncodeToBytes(v); err != nil || !bytes.Equal(enc, b) || "ok "+render(v)+" left=0" != o {
					c.Violate("stream-walk-noncanonical-accept/"+hx, "the value walked from the Stream does not re-encode to the input", map[string]string{"input": hx, "walk": o, "reencoded": vh.Hex(enc)})
				}
			}
			reqs = append(reqs, "stream_walk "+margs+" "+hx)
			texts = append(texts, mode+" "+hx)
			obs = append(obs, o)
			mds = append(mds, mode)
		}
	}
	ans := m.AskAll(reqs)
	for i := range reqs {
		c.Correspond("Stream.walk("+mds[i]+")~StreamModel.walk", texts[i], obs[i], ans[i])
	}
}

func mutateBytes(c *vh.Ctx, enc []byte) []byte {
	mut := append([]byte{}, enc...)
	if len(mut) == 0 {
		return []byte{alphabet[c.Rng.Intn(len(alphabet))]}
	}
	switch c.Rng.Intn(5) {
	case 0:
		mut[c.Rng.Intn(len(mut))] = alphabet[c.Rng.Intn(len(alphabet))]
	case 1:
		mut[c.Rng.Intn(len(mut))] ^= 1 << uint(c.Rng.Intn(8))
	case 2:
		mut = mut[:c.Rng.Intn(len(mut))]
	case 3:
		mut = append(mut, alphabet[c.Rng.Intn(len(alphabet))])
	case 4:
		p := c.Rng.Intn(min(3, len(mut)))
		mut[p] = byte(int(mut[p]) + []int{-1, 1, 0x37, -0x37}[c.Rng.Intn(4)])
	}
	return mut
}

func rep(b byte, n int) []byte { return bytes.Repeat([]byte{b}, n) }
func cat(parts ...[]byte) []byte {
	var out []byte
	for _, p := range parts {
		out = append(out, p...)
	}
	return out
}

// small inputs chosen to reach every branch of Kind/readKind/readUint/willRead/List/ListEnd/
// Bytes/Raw/uint
var streamCorpus = [][]byte{
	{}, {0x00}, {0x01}, {0x7f}, {0x80}, {0x81, 0x00}, {0x81, 0x7f}, {0x81, 0x80}, {0x82, 0x00, 0x01}, {0x82, 0x01, 0x00},
	{0x83, 0x01, 0x02, 0x03}, cat([]byte{0xb8, 0x38}, rep(2, 56)), cat([]byte{0xb8, 0x37}, rep(2, 55)), cat([]byte{0xb9, 0x00, 0x38}, rep(2, 56)),
	{0xb8}, {0xb9, 0x01}, {0xb8, 0x00}, {0xc0}, {0xc1, 0x80}, {0xc1, 0x01}, {0xc2, 0x01, 0x02}, {0xc3, 0xc1, 0x01, 0x02}, {0xc2, 0xc1}, {0xc1, 0xb8},
	{0xc2, 0xb8, 0x38}, {0xc3, 0x82, 0x01}, cat([]byte{0xf8, 0x38}, rep(1, 56)), {0xf8, 0x01, 0x01}, {0xc1}, {0x83, 0x01}, cat([]byte{0x89}, rep(3, 9)),
	{0xc0, 0xc0}, {0x01, 0x02}, {0x88, 0xff, 1, 2, 3, 4, 5, 6, 7}, {0x88, 0x00, 1, 2, 3, 4, 5, 6, 7}, {0xc4, 0x83, 0x01, 0x02, 0x03}, {0xc2, 0xc0, 0xc0},
	{0xc3, 0xc2, 0x01, 0x02, 0x03}, {0xbf, 0xff, 0xff, 0xff, 0xff, 0xff, 0xff, 0xff, 0xff}, {0xff, 0xff, 0xff, 0xff, 0xff, 0xff, 0xff, 0xff, 0xff},
	{0xbf, 0xff, 0xff, 0xff, 0xff, 0xff, 0xff, 0xff, 0xfa}, {0xba, 0x10, 0x00, 0x00}, {0xfa, 0x10, 0x00, 0x00}, {0xbb, 0x7f, 0xff, 0xff, 0xff},
	{0xbe, 0x01, 0x00, 0x00, 0x00, 0x00, 0x00, 0x01}, {0xfe, 0x01, 0x00, 0x00, 0x00, 0x00, 0x00, 0x01},
}

func streamSection(c *vh.Ctx, m *vh.Model) {
	captureStreamErrors(c)
	t0 := time.Now()
	streamUnlimitedProbes(c, m)
	tProbes := time.Since(t0)
	allModes := streamModes
	mainModes := []string{"lim", "auto", "unlim"}

	// (i) the walker
	var inputs [][]byte
	maxLen := c.Scale(3, 4)
	for l := 0; l <= maxLen; l++ {
		idx := make([]int, l)
		for {
			b := make([]byte, l)
			for i, j := range idx {
				b[i] = alphabet[j]
			}
			inputs = append(inputs, b)
			i := l - 1
			for i >= 0 {
				idx[i]++
				if idx[i] < len(alphabet) {
					break
				}
				idx[i] = 0
				i--
			}
			if i < 0 {
				break
			}
		}
	}
	streamWalkCases(c, m, "alphabet", inputs, mainModes)
	inputs = append([][]byte{}, streamCorpus...)
	for _, n := range []int{0, 1, 55, 56, 57} {
		payload := rep(1, n)
		for _, off := range []byte{0xb7, 0xf7} {
			inputs = append(inputs, cat([]byte{off + 1, byte(n)}, payload), cat([]byte{off + 2, 0, byte(n)}, payload))
		}
	}
	for b := 0; b < 256; b++ {
		inputs = append(inputs, []byte{byte(b)}, []byte{0x81, byte(b)})
	}
	streamWalkCases(c, m, "boundary", inputs, allModes)
	inputs = nil
	var valid [][]byte
	for i, n := 0, c.Scale(150, 2000); i < n; i++ {
		enc, err := rlp.EncodeToBytes(genItem(c.Rng, 4))
		if err != nil {
			c.Fatal("stream: encode of generated item failed: %v", err)
		}
		valid = append(valid, enc)
		inputs = append(inputs, enc)
		for k := 0; k < 8; k++ {
			inputs = append(inputs, mutateBytes(c, enc))
		}
	}
	streamWalkCases(c, m, "structured", inputs, allModes)

	// (ii) operation sequences.  Exhaustive: every sequence of 3 operations (their
	// prefixes are the sequences of 1 and 2) on the corpus.
	var cases []streamCase
	exhModes := []string{"lim", "unlim"}
	if c.Thorough() {
		exhModes = allModes
	}
	for _, b := range streamCorpus {
		for _, mode := range exhModes {
			for _, o1 := range streamOps {
				for _, o2 := range streamOps {
					for _, o3 := range streamOps {
						cases = append(cases, streamCase{"stream/exh3", mode, b, []string{o1, o2, o3}})
					}
				}
			}
		}
	}
	runStreamCases(c, m, cases)
	cases = nil
	// guided: follow the structure (Kind, then the fitting operation; ListEnd at EOL), with a
	// chance of a wrong operation at every step; plus uniformly random sequences
	for i, n := 0, c.Scale(1500, 40000); i < n; i++ {
		var b []byte
		switch c.Rng.Intn(6) {
		case 0, 1:
			b = valid[c.Rng.Intn(len(valid))]
		case 2, 3:
			b = mutateBytes(c, valid[c.Rng.Intn(len(valid))])
		case 4:
			b = cat(valid[c.Rng.Intn(len(valid))], valid[c.Rng.Intn(len(valid))])
		default:
			b = streamCorpus[c.Rng.Intn(len(streamCorpus))]
		}
		mode := allModes[c.Rng.Intn(len(allModes))]
		if c.Rng.Intn(4) == 0 {
			nops := 1 + c.Rng.Intn(24)
			ops := make([]string, nops)
			for j := range ops {
				ops[j] = streamOps[c.Rng.Intn(len(streamOps))]
			}
			cases = append(cases, streamCase{"stream/random", mode, b, ops})
		} else {
			cases = append(cases, streamCase{"stream/guided", mode, b, guidedOps(c, b, mode)})
		}
	}
	runStreamCases(c, m, cases)
	// informational only (no verdict depends on it)
	c.Note("stream section: untrusted-size probes %.1fs, whole section %.1fs", tProbes.Seconds(), time.Since(t0).Seconds())
}

// guidedOps: choose the operations by looking at what a scout Stream over the same input
// reports (Kind), so that long well-formed traversals are reached; the scout's answers
// are not part of the comparison.
func guidedOps(c *vh.Ctx, b []byte, mode string) []string {
	s, _, _, guard := openStream(b, mode)
	var ops []string
	depth := 0
	do := func(op string) {
		ops = append(ops, op)
		if (op == "B" || op == "R") && hugeAhead(nil, s, guard, b, mode) {
			return // the runner will skip the case at this point as well
		}
		r := streamDo(s, op, len(b), func(int) {})
		if op == "L" && strings.HasPrefix(r, "ok:") {
			depth++
		}
		if op == "E" && strings.HasPrefix(r, "ok:") {
			depth--
		}
	}
	for len(ops) < 40 {
		if c.Rng.Intn(100) < 12 {
			do(streamOps[c.Rng.Intn(len(streamOps))])
			continue
		}
		var k rlp.Kind
		var size uint64
		var err error
		func() {
			defer func() { recover() }()
			k, size, err = s.Kind()
		}()
		if c.Rng.Intn(3) == 0 {
			ops = append(ops, "K")
		}
		switch {
		case err == rlp.EOL:
			do("E")
		case err != nil:
			// sticky error or end of input: a few more operations, then stop
			for j := 0; j < 1+c.Rng.Intn(3); j++ {
				do(streamOps[c.Rng.Intn(len(streamOps))])
			}
			return ops
		case k == rlp.List:
			if c.Rng.Intn(5) == 0 {
				do("R")
			} else {
				do("L")
			}
		default:
			pick := []string{"B", "B", "R", "U64", "O", "U8", "U16", "U32"}
			if size > 8 {
				pick = []string{"B", "B", "R", "U64"}
			}
			do(pick[c.Rng.Intn(len(pick))])
		}
	}
	return ops
}
