package main

// Section 5b: rlp:"nil" pointer fields of every element kind.
//
// makeOptionalPtrDecoder pins the kind of the empty value that stands for a nil
// pointer to the one the encoder writes (makePtrWriter): 0x80 for string-kind
// elements (uints, bool, string, []byte, byte arrays), 0xC0 for list-kind elements
// (structs, non-byte slices / arrays, interface{}).  The registry types only have
// nil-tagged pointers to a struct and to byte arrays; the types below cover the
// other element kinds.  They are described to the model by their Typed.v descriptor
// (driver command typed_ty, same dec_typed / enc_typed as typed_recode), and the
// model-independent oracle of typedCheck applies unchanged: whatever Go accepts
// re-encodes to exactly the input.

import (
	"encoding/hex"
	"math/big"
	"reflect"

	"gitlab.com/aquachain/aquachain/rlp"
	"gitlab.com/aquachain/aquachain/verifharness/rlptypes"
	"gitlab.com/aquachain/aquachain/verifharness/vh"
)

type NkInner struct {
	X uint16
	Y []byte
}
type NkStr struct {
	A uint
	S *string `rlp:"nil"`
}
type NkU64 struct {
	A uint
	U *uint64 `rlp:"nil"`
	Z uint8
}
type NkBool struct {
	B *bool `rlp:"nil"`
	A uint
}
type NkBytes struct {
	B *[]byte `rlp:"nil"`
	A uint
}
type NkUints struct {
	A uint
	L *[]uint `rlp:"nil"`
}
type NkArr struct {
	A uint
	L *[2]uint `rlp:"nil"`
}
type NkBig struct { // *big.Int is decoded by decodeBigInt; the tag has no effect
	A uint
	P *big.Int `rlp:"nil"`
}
type NkStruct struct {
	A uint
	N *NkInner `rlp:"nil"`
}
type NkIface struct {
	A uint
	I *interface{} `rlp:"nil"`
}
type NkMix struct {
	S  *string   `rlp:"nil"`
	U  *uint64   `rlp:"nil"`
	Bs *[]byte   `rlp:"nil"`
	L  *[]uint   `rlp:"nil"`
	N  *NkInner  `rlp:"nil"`
	H  *[2]byte  `rlp:"nil"`
	LL *[][]byte `rlp:"nil"`
	P  *big.Int  `rlp:"nil"`
}

// tyDescr: type name -> hex of the Typed.v descriptor, for types outside the generated
// registry (typedCheck asks the model with typed_ty instead of typed for these)
var tyDescr = map[string]string{}

func nilKindTypes(c *vh.Ctx) []rlptypes.Entry {
	es := []rlptypes.Entry{
		{Name: "NkStr", Type: reflect.TypeOf(NkStr{})},
		{Name: "NkU64", Type: reflect.TypeOf(NkU64{})},
		{Name: "NkBool", Type: reflect.TypeOf(NkBool{})},
		{Name: "NkBytes", Type: reflect.TypeOf(NkBytes{})},
		{Name: "NkUints", Type: reflect.TypeOf(NkUints{})},
		{Name: "NkArr", Type: reflect.TypeOf(NkArr{})},
		{Name: "NkBig", Type: reflect.TypeOf(NkBig{})},
		{Name: "NkStruct", Type: reflect.TypeOf(NkStruct{})},
		{Name: "NkIface", Type: reflect.TypeOf(NkIface{})},
		{Name: "NkMix", Type: reflect.TypeOf(NkMix{})},
	}
	for _, e := range es {
		d, err := rlptypes.Describe(e.Type)
		if err != nil {
			c.Fatal("describe %s: %v", e.Name, err)
		}
		tyDescr[e.Name] = hex.EncodeToString([]byte(d))
	}
	return es
}

func wrapList(elems [][]byte) []byte {
	var payload []byte
	for _, e := range elems {
		payload = append(payload, e...)
	}
	return append(canonHeader(true, payload), payload...)
}

func nilKindSection(c *vh.Ctx, m *vh.Model) {
	small := []byte{0x00, 0x01, 0x7f, 0x80, 0x81, 0xc0, 0xc1, 0xff}
	nValid := c.Scale(40, 800)
	for _, e := range nilKindTypes(c) {
		// a *interface{} holding an empty string encodes as 0x80, which the decoder rejects
		// for a list-kind nil (the descriptor is outside Typed.wf: never_empty fails); no
		// round-trip obligation for generated values of that type
		mustAccept := e.Name != "NkIface"
		// (a) exhaustive small scope: every payload over the boundary alphabet up to length 2,
		//     over the reduced alphabet at length 3 and 4, as the content of the outer list
		var payloads [][]byte
		payloads = append(payloads, nil)
		for _, a := range alphabet {
			payloads = append(payloads, []byte{a})
			for _, b := range alphabet {
				payloads = append(payloads, []byte{a, b})
			}
		}
		for _, a := range small {
			for _, b := range small {
				for _, d := range small {
					payloads = append(payloads, []byte{a, b, d})
				}
			}
		}
		if c.Thorough() || e.Name == "NkMix" || e.Name == "NkU64" {
			for _, a := range small {
				for _, b := range small {
					for _, d := range small {
						for _, f := range small {
							payloads = append(payloads, []byte{a, b, d, f})
						}
					}
				}
			}
		}
		for _, p := range payloads {
			typedCheck(c, m, e, "nil-kinds/exhaustive", append(canonHeader(true, p), p...), false)
		}
		// (b) valid values; each top-level element replaced by either empty value; the
		//     existing tree mutations and the empty-kind swap
		for i := 0; i < nValid; i++ {
			wire := rlptypes.Fill(c.Rng, e.Type, 3)
			enc, err := rlp.EncodeToBytes(wire.Interface())
			if err != nil {
				c.Fatal("encode of generated %s failed: %v", e.Name, err)
			}
			typedCheck(c, m, e, "nil-kinds/valid", enc, mustAccept)
			if i == 0 {
				c.Sample(map[string]string{"type": e.Name, "encoding": vh.Hex(enc)})
			}
			if elems, ok := splitElems(enc); ok {
				for j := range elems {
					for _, empty := range []byte{0x80, 0xc0} {
						mut := make([][]byte, len(elems))
						copy(mut, elems)
						mut[j] = []byte{empty}
						typedCheck(c, m, e, "nil-kinds/empty-at-field", wrapList(mut), false)
					}
				}
			}
			for k := 0; k < 8; k++ {
				if mut, ok := treeMutate(c.Rng, enc); ok {
					typedCheck(c, m, e, "nil-kinds/tree-mut", mut, false)
				}
			}
			mut := append([]byte{}, enc...)
			var pos []int
			for j, x := range mut {
				if x == 0x80 || x == 0xc0 {
					pos = append(pos, j)
				}
			}
			if len(pos) > 0 {
				mut[pos[c.Rng.Intn(len(pos))]] ^= 0x40
				typedCheck(c, m, e, "nil-kinds/swap-empty-kind", mut, false)
			}
		}
	}
}
