package main

// Holders of a committed root (round 6, seeded change C10-10): trie.Database keeps nodes of a
// committed trie in memory while somebody holds a reference to the root.  References taken
// from the meta-root (parent = common.Hash{}) are counted once per holder, so after h
// Reference calls and fewer than h Dereference calls the root must still open and every
// key must still resolve ("still held => still openable").  Model-independent oracle; the
// histories are multisets of Reference/Dereference on one or two roots, nothing flushed.

import (
	"fmt"

	"gitlab.com/aquachain/aquachain/aquadb"
	"gitlab.com/aquachain/aquachain/common"
	"gitlab.com/aquachain/aquachain/trie"
)

func (h *H) refcountCases() {
	c := h.c
	r := c.Rng
	n := c.Scale(40, 1500)
	for cas := 0; cas < n; cas++ {
		db := trie.NewDatabase(aquadb.NewMemDatabase())
		nroots := 1 + r.Intn(2)
		type held struct {
			root    common.Hash
			keys    [][]byte
			vals    [][]byte
			holders int
		}
		var hs []*held
		hist := []string{}
		bad := false
		for i := 0; i < nroots && !bad; i++ {
			t, err := trie.New(common.Hash{}, db)
			if err != nil {
				c.Violate("panic/New/-", fmt.Sprint("New fails: ", err), nil)
				return
			}
			e := &held{}
			for j, m := 0, 2+r.Intn(12); j < m; j++ {
				k := []byte(fmt.Sprintf("k%d-%d-%d", cas%7, i, j)) // shared prefixes across roots of one case
				v := make([]byte, 1+r.Intn(70))
				for x := range v {
					v[x] = byte(1 + r.Intn(255))
				}
				t.Update(k, v)
				e.keys, e.vals = append(e.keys, k), append(e.vals, v)
			}
			root, err := t.Commit(nil)
			if err != nil {
				c.Violate("error/Commit/-", fmt.Sprint("Commit fails: ", err), nil)
				return
			}
			e.root = root
			hs = append(hs, e)
			hist = append(hist, fmt.Sprintf("commit %d keys -> %x", len(e.keys), root[:4]))
		}
		steps := 2 + r.Intn(8)
		for s := 0; s < steps; s++ {
			e := hs[r.Intn(len(hs))]
			if e.holders > 1 && r.Intn(2) == 0 { // never drop the last holder: the root stays held
				db.Dereference(e.root, common.Hash{})
				e.holders--
				hist = append(hist, fmt.Sprintf("deref %x", e.root[:4]))
			} else {
				db.Reference(e.root, common.Hash{})
				e.holders++
				hist = append(hist, fmt.Sprintf("ref %x", e.root[:4]))
			}
			c.Eval("refcount-step", "")
			for _, e := range hs {
				if e.holders == 0 {
					continue
				}
				what := ""
				t, err := trie.New(e.root, db)
				if err != nil {
					what = "reopen: " + err.Error()
				} else {
					for j, k := range e.keys {
						got, gerr := t.TryGet(k)
						if gerr != nil || string(got) != string(e.vals[j]) {
							what = fmt.Sprintf("get %q: %x, %v", k, got, gerr)
							break
						}
					}
				}
				if what != "" {
					c.Violate("held-root-not-openable", "a committed root that still has a holder (more Reference than Dereference calls from the meta-root) can no longer be opened completely: "+what,
						map[string]interface{}{"history": hist, "root": vh_hex(e.root[:]), "holders": e.holders})
					bad = true
					break
				}
			}
			if bad {
				break
			}
		}
		c.Count("refcount-history")
	}
}

func vh_hex(b []byte) string { return fmt.Sprintf("%x", b) }
