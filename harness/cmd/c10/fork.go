package main

// Fork discipline (C10): a trie VALUE that was shallow-copied (`cpy := *t`, which is what
// SecureTrie.Copy and the state copies do) shares all its nodes with the copy.  Whatever is
// done afterwards to one of the two values, the other one must keep exactly the content it had
// at the time of the copy: every key Gets its value, the iterator yields exactly the remembered
// pairs, and Hash() is the Merkle-Patricia root of the remembered content (fresh rebuild =
// model-independent oracle; mpt_root of the extracted model = specification oracle).
//
// History tokens: u:0xK:0xV  d:0xK  h (Hash on the value that is being continued)
//                 F (fork, continue on the COPY, the original is frozen)
//                 G (fork, continue on the ORIGINAL, the copy is frozen)
// Replay: {"fork_history": "plain|secure tok tok ..."}.

import (
	"bytes"
	"fmt"
	"sort"
	"strings"

	"gitlab.com/aquachain/aquachain/common"
	"gitlab.com/aquachain/aquachain/crypto"
	"gitlab.com/aquachain/aquachain/trie"

	"gitlab.com/aquachain/aquachain/verifharness/vh"
)

type forkTrie interface {
	get(k []byte) ([]byte, error)
	update(k, v []byte) error
	del(k []byte) error
	hash() common.Hash
	iter() (keys, vals [][]byte, err error)
	fork() forkTrie
	ckey(k []byte) string // key under which the content map remembers k
}

type plainFork struct{ t *trie.Trie }

func (p plainFork) get(k []byte) ([]byte, error) { return p.t.TryGet(k) }
func (p plainFork) update(k, v []byte) error     { return p.t.TryUpdate(k, v) }
func (p plainFork) del(k []byte) error           { return p.t.TryDelete(k) }
func (p plainFork) hash() common.Hash            { return p.t.Hash() }
func (p plainFork) iter() ([][]byte, [][]byte, error) {
	return iterAll(p.t)
}
func (p plainFork) fork() forkTrie       { cpy := *p.t; return plainFork{&cpy} }
func (p plainFork) ckey(k []byte) string { return string(k) }

type secureFork struct{ t *trie.SecureTrie }

func (p secureFork) get(k []byte) ([]byte, error) { return p.t.TryGet(k) }
func (p secureFork) update(k, v []byte) error     { return p.t.TryUpdate(k, v) }
func (p secureFork) del(k []byte) error           { return p.t.TryDelete(k) }
func (p secureFork) hash() common.Hash            { return p.t.Hash() }
func (p secureFork) iter() (keys, vals [][]byte, err error) {
	it := trie.NewIterator(p.t.NodeIterator(nil))
	for it.Next() {
		keys = append(keys, common.CopyBytes(it.Key))
		vals = append(vals, common.CopyBytes(it.Value))
	}
	return keys, vals, it.Err
}
func (p secureFork) fork() forkTrie       { return secureFork{p.t.Copy()} }
func (p secureFork) ckey(k []byte) string { return string(crypto.Keccak256(k)) }

// runFork executes one fork history; toks[0] is "plain" or "secure".
func (h *H) runFork(class string, toks []string, askModel bool) {
	c := h.c
	if len(toks) == 0 {
		return
	}
	secure := toks[0] == "secure"
	_, triedb, pt := newTrie()
	var active forkTrie = plainFork{pt}
	if secure {
		st, err := trie.NewSecure(common.Hash{}, triedb, 0)
		if err != nil || st == nil {
			c.Violate("panic/NewSecure/-", fmt.Sprint("NewSecure fails: ", err), nil)
			return
		}
		active = secureFork{st}
	}
	hist := strings.Join(toks, " ")
	nforks := strings.Count(hist, " F") + strings.Count(hist, " G")
	c.Eval(class, fmt.Sprintf("fork:%d:%s", nforks, sha16(hist)))
	content := map[string][]byte{}
	var frozen forkTrie
	var frozenContent map[string][]byte
	frozenRole, frozenAt, done := "", 0, 0
	viol := func(what, text string, extra map[string]interface{}) {
		rp := map[string]interface{}{"fork_history": strings.Join(toks[:done+1], " "), "op": done, "class": class}
		for k, v := range extra {
			rp[k] = v
		}
		c.Violate("trie-copy-aliasing/"+what, text, rp)
	}
	// plainKey: for messages, the key bytes the content map was indexed with
	check := func(t forkTrie, want map[string][]byte, role string, at int) {
		what := func(s string) string {
			if role == "continued" {
				return "continued-value-" + s
			}
			return s
		}
		extra := func(m map[string]interface{}) map[string]interface{} {
			m["value"] = role
			m["forked_at_op"] = at
			m["expected_content"] = contentListing(want)
			return m
		}
		p, pv := vh.CatchPanic(func() {
			// 1. iteration first (it does not touch cached hashes), compared as a sorted listing
			keys, vals, err := t.iter()
			idx := make([]int, len(keys))
			for i := range idx {
				idx[i] = i
			}
			sort.SliceStable(idx, func(a, b int) bool { return bytes.Compare(keys[idx[a]], keys[idx[b]]) < 0 })
			parts := make([]string, len(idx))
			for i, j := range idx {
				parts[i] = hx(keys[j]) + "=" + hx(vals[j])
			}
			got := strings.Join(parts, ",")
			if err != nil {
				got += " err:" + errName(err)
			}
			if got != contentListing(want) {
				viol(what("iterate"), "after a shallow copy and updates/deletes on the other value, the "+role+" trie value iterates over something else than the content it had when it was copied",
					extra(map[string]interface{}{"observed_listing": got}))
			}
			// 2. Get of every remembered key (content keys are the stored keys: hashed for the secure variant)
			for _, k := range sortedKeys(want) {
				var v []byte
				var gerr error
				if st, ok := t.(secureFork); ok {
					// the content map is indexed by the hashed key; ask through the iterator-level key space
					v, gerr = secureGetHashed(st, []byte(k), toks)
				} else {
					v, gerr = t.get([]byte(k))
				}
				if gerr != nil || !bytes.Equal(v, want[k]) {
					viol(what("get"), "after a shallow copy and updates/deletes on the other value, Get on the "+role+" trie value does not return the value it held when it was copied",
						extra(map[string]interface{}{"key": vh.Hex([]byte(k)), "observed": vh.Hex(v), "expected": vh.Hex(want[k]), "error": fmt.Sprint(gerr)}))
					break
				}
			}
			// 3. Hash against a fresh rebuild (model independent) and the specification root
			root := t.hash()
			rb, ok := rebuildRoot(want)
			if !ok || rb != root {
				viol(what("hash"), "after a shallow copy and updates/deletes on the other value, Hash() of the "+role+" trie value is not the root of the content it had when it was copied",
					extra(map[string]interface{}{"root": vh.Hex(root[:]), "rebuild_root": vh.Hex(rb[:]), "rebuild_ok": ok}))
			}
			if askModel {
				cs := contentString(want)
				obs := vh.Hex(root[:])
				cas := fmt.Sprintf("%s value (forked at op#%d) after op#%d of fork history %s content %s", role, at, done, clipStr(hist, 1500), cs)
				rpl := extra(map[string]interface{}{"fork_history": strings.Join(toks[:done+1], " "), "op": done, "class": class, "content": cs, "go_root": obs})
				h.ask("mptroot "+cs, func(m string) {
					h.corr("Trie.Hash(forked value)~mpt_root(spec)", cas, obs, m)
					if strings.HasPrefix(m, "0x") && len(m) == 66 && m != obs {
						rpl["spec_root"] = m
						c.Violate("trie-copy-aliasing/"+what("hash-vs-spec"), "Hash() of a trie value that shares nodes with a modified copy differs from the specification root of its content", rpl)
					}
				})
			}
		})
		if p {
			viol(what("panic"), "checking the "+role+" trie value after a fork panics: "+fmt.Sprint(pv), extra(map[string]interface{}{"panic": fmt.Sprint(pv)}))
		}
	}
	for i := 1; i < len(toks); i++ {
		done = i
		parts := strings.Split(toks[i], ":")
		var err error
		p, pv := vh.CatchPanic(func() {
			switch parts[0] {
			case "u":
				k, v := vh.UnHex(parts[1]), vh.UnHex(parts[2])
				err = active.update(k, v)
				if len(v) == 0 {
					delete(content, active.ckey(k))
				} else {
					content[active.ckey(k)] = v
				}
			case "d":
				k := vh.UnHex(parts[1])
				err = active.del(k)
				delete(content, active.ckey(k))
			case "h":
				active.hash()
			case "F", "G":
				if frozen != nil {
					check(frozen, frozenContent, frozenRole, frozenAt)
				}
				cp := active.fork()
				if parts[0] == "F" {
					frozen, active, frozenRole = active, cp, "original"
				} else {
					frozen, frozenRole = cp, "copy"
				}
				frozenContent, frozenAt = copyContent(content), i
			default:
				c.Fatal("fork history: unknown token %q", toks[i])
			}
		})
		if p {
			viol("panic", toks[i]+" panics: "+fmt.Sprint(pv), map[string]interface{}{"panic": fmt.Sprint(pv)})
			return
		}
		if err != nil {
			viol("error", toks[i]+" fails on a fully in-memory trie: "+err.Error(), nil)
			return
		}
	}
	if frozen != nil {
		check(frozen, frozenContent, frozenRole, frozenAt)
	}
	check(active, content, "continued", frozenAt)
}

// secureGetHashed: Get on a SecureTrie for a remembered HASHED key; the plain key is found in the history.
func secureGetHashed(st secureFork, hk []byte, toks []string) ([]byte, error) {
	for _, t := range toks {
		parts := strings.Split(t, ":")
		if len(parts) >= 2 && (parts[0] == "u" || parts[0] == "d") {
			k := vh.UnHex(parts[1])
			if bytes.Equal(crypto.Keccak256(k), hk) {
				return st.get(k)
			}
		}
	}
	return nil, fmt.Errorf("no preimage in the history")
}

// securePool: plain keys whose keccak hashes share their first byte (so that the secure trie has extensions).
func securePool() [][][]byte {
	buckets := map[byte][][]byte{}
	for i := 0; i < 3072; i++ {
		k := []byte{byte(i >> 8), byte(i), 0x5a}
		b := crypto.Keccak256(k)[0]
		buckets[b] = append(buckets[b], k)
	}
	var out [][][]byte
	for b := 0; b < 256; b++ {
		if len(buckets[byte(b)]) >= 2 {
			out = append(out, buckets[byte(b)])
		}
	}
	return out
}

func (h *H) forkCases() {
	c := h.c
	r := c.Rng
	u := func(k, v []byte) string { return "u:" + vh.Hex(k) + ":" + vh.Hex(v) }
	d := func(k []byte) string { return "d:" + vh.Hex(k) }

	// directed (every seed): two keys under a common extension, the later-inserted one is deleted
	// on one side of a fork; with and without a Hash before the fork; both directions; small
	// (embedded) and large (hashed) values; fork twice; delete and re-insert.
	keyB, keyA, keyC := []byte{0x12, 0x34, 0x99, 0x01}, []byte{0x12, 0x34, 0x56, 0x78}, []byte{0x12, 0x34, 0x56, 0x79}
	for _, vl := range []int{7, 33} {
		vA, vB, vC := bytes.Repeat([]byte{0xaa}, vl), bytes.Repeat([]byte{0xbb}, vl), bytes.Repeat([]byte{0xcc}, vl)
		for _, f := range []string{"F", "G"} {
			for _, pre := range []string{"", "h"} {
				for _, body := range [][]string{
					{u(keyB, vB), u(keyA, vA), pre, f, d(keyA)},
					{u(keyA, vA), u(keyB, vB), pre, f, d(keyB)},
					{u(keyB, vB), u(keyA, vA), u(keyC, vC), pre, f, d(keyC), d(keyA)},
					{u(keyB, vB), u(keyA, vA), pre, f, d(keyA), u(keyA, vC), f, d(keyB)},
					{u(keyB, vB), pre, f, u(keyA, vA), f, d(keyA), "h", f, d(keyB)},
					{u([]byte{0x12}, vB), u([]byte{0x12, 0x34}, vA), u([]byte{0x12, 0x34, 0x56}, vC), pre, f, d([]byte{0x12, 0x34, 0x56}), d([]byte{0x12, 0x34})},
				} {
					toks := []string{"plain"}
					for _, t := range body {
						if t != "" {
							toks = append(toks, t)
						}
					}
					h.runFork("fork/directed", toks, true)
				}
			}
		}
	}
	pool := securePool()
	for i := 0; i < 3 && i < len(pool); i++ {
		b := pool[i*7%len(pool)]
		for _, f := range []string{"F", "G"} {
			h.runFork("fork/directed-secure", []string{"secure", u(b[0], []byte("value-B")), u(b[1], []byte("value-A")), f, d(b[1])}, true)
			h.runFork("fork/directed-secure", []string{"secure", u(b[0], []byte("value-B")), u(b[1], []byte("value-A")), "h", f, d(b[1]), f, d(b[0])}, true)
		}
	}

	// random fork histories
	nf := c.Scale(160, 4000)
	for i := 0; i < nf; i++ {
		secure := r.Chance(25)
		var keys [][]byte
		small := r.Bool()
		if secure {
			for j := 0; j < 1+r.Intn(3); j++ {
				keys = append(keys, pool[r.Intn(len(pool))]...)
			}
		} else {
			uni := genUniverse(c)
			keys, small = uni.keys, uni.small
		}
		if len(keys) == 0 {
			continue
		}
		val := func() []byte {
			v := genValue(r, small)
			if len(v) == 0 {
				v = []byte{byte(1 + r.Intn(255))}
			}
			return v
		}
		toks := []string{"plain"}
		if secure {
			toks[0] = "secure"
		}
		n := 6 + r.Intn(30)
		forkAt := 2 + r.Intn(n-3)
		var present [][]byte // keys of the continued value, in insertion order
		has := func(k []byte) int {
			for j, p := range present {
				if bytes.Equal(p, k) {
					return j
				}
			}
			return -1
		}
		forked := false
		for j := 0; j < n; j++ {
			pdel := 12
			if forked {
				pdel = 45
			}
			switch {
			case j == forkAt || (len(present) >= 2 && r.Chance(6)):
				if r.Bool() {
					toks = append(toks, "F")
				} else {
					toks = append(toks, "G")
				}
				forked = true
			case r.Chance(4): // a Hash on the continued value; rare, so most forks see nodes never hashed
				toks = append(toks, "h")
			case len(present) >= 1 && r.Chance(pdel):
				var k []byte
				switch {
				case r.Chance(50): // the most recently inserted key
					k = present[len(present)-1]
				case r.Chance(80):
					k = present[r.Intn(len(present))]
				default:
					k = keys[r.Intn(len(keys))]
				}
				toks = append(toks, d(k))
				if x := has(k); x >= 0 {
					present = append(present[:x:x], present[x+1:]...)
				}
			default:
				k := keys[r.Intn(len(keys))]
				toks = append(toks, u(k, val()))
				if has(k) < 0 {
					present = append(present, k)
				}
			}
		}
		cls := "fork/random-plain"
		if secure {
			cls = "fork/random-secure"
		}
		h.runFork(cls, toks, r.Chance(25))
	}
	h.flush()
}
