// c10: property C10 "the Merkle-Patricia trie commits to exactly its content".
//
// (a) random operation histories are run on the real trie package and every
// observable (results of Update/Delete/Get, roots of Hash/Commit, reopen,
// iteration, proofs, the in-memory node structure with its cache flags) is
// compared with the extracted Coq model (modelrun_trie, one `run` line per
// history); (b) direct oracles, independent of the model, are evaluated on the
// implementation: root == root of a sorted rebuild, get/iterate/reopen ==
// reference content, proofs verify to the content, altered proofs never verify to
// something else, nothing panics.  Plus a malformed-node stream through
// decodeNode/VerifyProof, the compact/hex key encodings, SecureTrie and DeriveSha.
package main

import (
	"bytes"
	"crypto/sha256"
	"encoding/hex"
	"encoding/json"
	"errors"
	"fmt"
	"os"
	"runtime"
	"sort"
	"strconv"
	"strings"
	"sync"
	"sync/atomic"

	"gitlab.com/aquachain/aquachain/aquadb"
	"gitlab.com/aquachain/aquachain/common"
	"gitlab.com/aquachain/aquachain/core/types"
	"gitlab.com/aquachain/aquachain/crypto"
	"gitlab.com/aquachain/aquachain/rlp"
	"gitlab.com/aquachain/aquachain/trie"
	"gitlab.com/aquachain/aquachain/verifharness/vh"
)

var emptyRoot = common.HexToHash("56e81f171bcc55a6ff8345e692c0f86e5b48e01b996cadc001622fb5e363b421")

const knownEmptyCompact = "verifyproof-panic-empty-compact-key"

// ---------------------------------------------------------------- model pool

// Requests to the model are queued together with the function that consumes the
// answer; flush() asks several model processes in parallel (the extracted
// Keccak dominates the cost) and then consumes the answers in queue order, so
// the result does not depend on scheduling.
type req struct {
	line   string
	handle func(ans string)
}

type H struct {
	c      *vh.Ctx
	models []*vh.Model
	queue  []req
	replay bool
	ncorr  map[string]int
}

// corr records one correspondence case and keeps a per-name case count for the notes.
func (h *H) corr(name, cas, observed, model string) bool {
	if h.ncorr == nil {
		h.ncorr = map[string]int{}
	}
	h.ncorr[name]++
	return h.c.Correspond(name, cas, observed, model)
}

func (h *H) noteCounts() {
	names := make([]string, 0, len(h.ncorr))
	for n := range h.ncorr {
		names = append(names, n)
	}
	sort.Strings(names)
	parts := make([]string, len(names))
	for i, n := range names {
		parts[i] = fmt.Sprintf("%s=%d", n, h.ncorr[n])
	}
	h.c.Note("correspondence cases: %s", strings.Join(parts, ", "))
}

func (h *H) ask(line string, handle func(string)) {
	h.queue = append(h.queue, req{line, handle})
	if len(h.queue) >= 768 {
		h.flush()
	}
}

func (h *H) flush() {
	q := h.queue
	h.queue = nil
	if len(q) == 0 {
		return
	}
	res := make([]string, len(q))
	var next int64 = -1
	var wg sync.WaitGroup
	for _, m := range h.models {
		wg.Add(1)
		go func(m *vh.Model) {
			defer wg.Done()
			for {
				i := int(atomic.AddInt64(&next, 1))
				if i >= len(q) {
					return
				}
				res[i] = m.Ask(q[i].line)
			}
		}(m)
	}
	wg.Wait()
	for i := range q {
		if strings.HasPrefix(res[i], "model-dead") {
			h.c.Fatal("model died on request %s: %s", clipStr(q[i].line, 300), res[i])
		}
		q[i].handle(res[i])
	}
}

// ---------------------------------------------------------------- small helpers

func hx(b []byte) string { return hex.EncodeToString(b) }

func clipStr(s string, n int) string {
	if len(s) > n {
		return s[:n]
	}
	return s
}

func sha16(s string) string {
	d := sha256.Sum256([]byte(s))
	return hex.EncodeToString(d[:])[:16]
}

func errName(err error) string {
	var mn *trie.MissingNodeError
	if errors.As(err, &mn) {
		return "missing"
	}
	return "err"
}

func copyContent(m map[string][]byte) map[string][]byte {
	r := make(map[string][]byte, len(m))
	for k, v := range m {
		r[k] = v
	}
	return r
}

func sortedKeys(m map[string][]byte) []string {
	ks := make([]string, 0, len(m))
	for k := range m {
		ks = append(ks, k)
	}
	sort.Strings(ks)
	return ks
}

// contentString renders a content for the model's mptroot command.
func contentString(m map[string][]byte) string {
	if len(m) == 0 {
		return "-"
	}
	parts := make([]string, 0, len(m))
	for _, k := range sortedKeys(m) {
		parts = append(parts, vh.Hex([]byte(k))+"="+vh.Hex(m[k]))
	}
	return strings.Join(parts, ",")
}

// contentListing renders a content like a sorted iteration listing.
func contentListing(m map[string][]byte) string {
	parts := make([]string, 0, len(m))
	for _, k := range sortedKeys(m) {
		parts = append(parts, hx([]byte(k))+"="+hx(m[k]))
	}
	return strings.Join(parts, ",")
}

// panicSig implements the signature rule for panics.
func panicSig(op string, inVerify bool, pv interface{}, input string) string {
	if inVerify && strings.Contains(fmt.Sprint(pv), "index out of range [0] with length 0") {
		return knownEmptyCompact
	}
	return "panic/" + op + "/" + clipStr(input, 80)
}

func newTrie() (*aquadb.MemDatabase, *trie.Database, *trie.Trie) {
	diskdb := aquadb.NewMemDatabase()
	triedb := trie.NewDatabase(diskdb)
	t, err := trie.New(common.Hash{}, triedb)
	if err != nil {
		panic(err)
	}
	return diskdb, triedb, t
}

// rebuildRoot: root of a fresh trie that receives the content in sorted key order.
func rebuildRoot(content map[string][]byte) (root common.Hash, ok bool) {
	p, _ := vh.CatchPanic(func() {
		_, _, t := newTrie()
		for _, k := range sortedKeys(content) {
			if err := t.TryUpdate([]byte(k), content[k]); err != nil {
				return
			}
		}
		root = t.Hash()
		ok = true
	})
	if p {
		ok = false
	}
	return
}

// iterAll lists a trie through its leaf iterator, in the iterator's own order.
func iterAll(t *trie.Trie) (keys, vals [][]byte, err error) {
	it := trie.NewIterator(t.NodeIterator(nil))
	for it.Next() {
		keys = append(keys, common.CopyBytes(it.Key))
		vals = append(vals, common.CopyBytes(it.Value))
		for i := range it.Key { // the caller owns the returned key: scribbling it must not disturb the iteration
			it.Key[i] ^= 0xff
		}
	}
	return keys, vals, it.Err
}

// goVerify runs VerifyProof over a proof db built as Put(keccak(node), node).
func goVerify(root common.Hash, key []byte, nodes [][]byte) (ans string, pv interface{}) {
	db := aquadb.NewMemDatabase()
	for _, n := range nodes {
		db.Put(crypto.Keccak256(n), n)
	}
	return goVerifyDB(root, key, db)
}

func goVerifyDB(root common.Hash, key []byte, db trie.DatabaseReader) (ans string, pv interface{}) {
	var val []byte
	var err error
	p, v := vh.CatchPanic(func() { val, err, _ = trie.VerifyProof(root, key, db) })
	switch {
	case p:
		return "panic", v
	case err != nil:
		return "err", nil
	case val == nil:
		return "absent", nil
	}
	return "v:" + vh.Hex(val), nil
}

func nodesString(nodes [][]byte) string {
	if len(nodes) == 0 {
		return "-"
	}
	parts := make([]string, len(nodes))
	for i, n := range nodes {
		parts[i] = vh.Hex(n)
	}
	return strings.Join(parts, ",")
}

func proofReplay(root common.Hash, key []byte, nodes [][]byte) map[string]interface{} {
	ns := make([]string, len(nodes))
	for i, n := range nodes {
		ns[i] = vh.Hex(n)
	}
	return map[string]interface{}{"root": vh.Hex(root[:]), "key": vh.Hex(key), "nodes": ns}
}

// verifyCheck: VerifyProof on the implementation vs the model's verify command;
// a panic is a violation.  want == "" means "no expectation about the result".
func (h *H) verifyCheck(corr string, root common.Hash, key []byte, nodes [][]byte, want string, extra map[string]interface{}) string {
	c := h.c
	ans, pv := goVerify(root, key, nodes)
	rp := proofReplay(root, key, nodes)
	for k, v := range extra {
		rp[k] = v
	}
	line := "verify " + vh.Hex(root[:]) + " " + vh.Hex(key) + " " + nodesString(nodes)
	if ans == "panic" {
		rp["panic"] = fmt.Sprint(pv)
		c.Violate(panicSig("VerifyProof", true, pv, sha16(line)+":"+vh.Hex(key)), "trie.VerifyProof panics on this proof: "+fmt.Sprint(pv), rp)
	} else if want != "" && ans != "err" && ans != want {
		rp["expected"] = "err or " + want
		rp["observed"] = ans
		c.Violate("altered-proof-verifies/"+sha16(line), "an altered proof verifies to something the trie does not contain", rp)
	}
	h.ask(line, func(m string) { h.corr(corr, line, ans, m) })
	return ans
}

// ---------------------------------------------------------------- one history on the implementation

type exec struct {
	h           *H
	class       string
	diskdb      *aquadb.MemDatabase
	triedb      *trie.Database
	t           *trie.Trie
	content     map[string][]byte
	snaps       map[common.Hash]map[string][]byte
	committed   map[common.Hash]bool
	commitRoots []common.Hash
	hashRoots   []common.Hash
	toks        []string
	answers     []string
	flushed     []int
	shouldFlush func(idx int) bool
	alterProof  func() bool
	askSpec     func() bool
	final       bool // the next root is the final one of the history
	prevReopen  bool // the previous op was a successful reopen
	nontrivial  bool
	modelDb     bool             // compare Database.Commit with the two-layer model
	noModel     bool             // history too large for the model run: direct oracles only
	kbuf        []byte           // ONE key buffer shared by all calls made in buffer-reuse mode
	sharedKey   func(idx int) bool // does op idx pass its key through the shared buffer?
	sharedOps   []int
}

func (h *H) newExec(class string) *exec {
	e := &exec{h: h, class: class, content: map[string][]byte{}, snaps: map[common.Hash]map[string][]byte{}, committed: map[common.Hash]bool{}}
	e.diskdb, e.triedb, e.t = newTrie()
	r := h.c.Rng
	e.shouldFlush = func(int) bool { return r.Chance(20) }
	e.modelDb = true
	e.alterProof = func() bool { return r.Chance(30) }
	e.askSpec = func() bool { return r.Chance(20) }
	return e
}

func (e *exec) prefix(i int) string { return "run " + strings.Join(e.toks[:i+1], " ") }

func (e *exec) replayObj(idx int, extra map[string]interface{}) map[string]interface{} {
	rp := map[string]interface{}{"run": e.prefix(idx), "op": idx, "flush": append([]int{}, e.flushed...), "class": e.class,
		"shared_key_ops": append([]int{}, e.sharedOps...)}
	for k, v := range extra {
		rp[k] = v
	}
	return rp
}

// guard runs one call into the implementation; a panic becomes a violation.
func (e *exec) guard(idx int, op string, inVerify bool, f func()) bool {
	p, pv := vh.CatchPanic(f)
	if p {
		e.h.c.Violate(panicSig(op, inVerify, pv, sha16(e.prefix(idx))+":"+e.toks[idx]), op+" panics: "+fmt.Sprint(pv),
			e.replayObj(idx, map[string]interface{}{"panic": fmt.Sprint(pv)}))
	}
	return p
}

func (e *exec) setContent(k, v []byte) {
	if len(v) == 0 {
		delete(e.content, string(k))
	} else {
		e.content[string(k)] = v
	}
}

// flushToDisk: trie.Database.Commit(root) — the memory layer is written to the disk store through a
// write batch that is flushed every aquadb.IdealBatchSize bytes.  Compared with the two-layer model
// (Trie/DbModel.v tdb_commit) on the dumped layers; then the committed root is re-read through a
// FRESH trie.Database over the same disk store (direct oracle: a trie reopened from a committed root
// reads back identically, from disk alone).
func (e *exec) flushToDisk(idx int, root common.Hash) {
	c := e.h.c
	dumpDisk := func() (string, int) {
		keys := e.diskdb.Keys()
		parts := make([]string, 0, len(keys))
		for _, k := range keys {
			v, _ := e.diskdb.Get(k)
			parts = append(parts, hx(k)+":"+strconv.Itoa(len(v)))
		}
		sort.Strings(parts)
		return strings.Join(parts, ","), len(keys)
	}
	nodes, pre := trie.VerifDbDump(e.triedb)
	var memArg, preArg, diskArg []string
	reach := 0
	for _, n := range nodes {
		cs := make([]string, len(n.Children))
		for i, ch := range n.Children {
			cs[i] = vh.Hex(ch)
		}
		memArg = append(memArg, vh.Hex(n.Hash)+":"+vh.Hex(n.Blob)+":"+strings.Join(cs, "+"))
		reach += len(n.Blob)
	}
	for _, p := range pre {
		preArg = append(preArg, vh.Hex(p[0])+":"+vh.Hex(p[1]))
	}
	for _, k := range e.diskdb.Keys() {
		v, _ := e.diskdb.Get(k)
		diskArg = append(diskArg, vh.Hex(k)+":"+vh.Hex(v))
	}
	sort.Strings(diskArg)
	join := func(l []string) string {
		if len(l) == 0 {
			return "-"
		}
		return strings.Join(l, ",")
	}
	var ferr error
	if !e.guard(idx, "Database.Commit", false, func() { ferr = e.triedb.Commit(root, false) }) && ferr != nil {
		c.Violate("database-commit-fails/"+sha16(e.prefix(idx)), "trie.Database.Commit fails on a memory database: "+ferr.Error(), e.replayObj(idx, nil))
	}
	e.flushed = append(e.flushed, idx)
	c.Count("op/flush-to-disk")
	if reach >= aquadb.IdealBatchSize {
		c.Count("op/flush-to-disk/above-IdealBatchSize")
	}
	after, _ := trie.VerifDbDump(e.triedb)
	mk := make([]string, len(after))
	for i, n := range after {
		mk[i] = hx(n.Hash)
	}
	sort.Strings(mk)
	dk, _ := dumpDisk()
	obs := "ok mem=" + strings.Join(mk, ",") + "|disk=" + dk
	if e.modelDb {
		line := fmt.Sprintf("dbcommit %d %s %s %s %s", aquadb.IdealBatchSize, vh.Hex(root[:]), join(memArg), join(preArg), join(diskArg))
		cas := fmt.Sprintf("flush after op#%d of %s (memory layer %d nodes / %d bytes)", idx, clipStr(e.prefix(idx), 600), len(nodes), reach)
		e.h.ask(line, func(m string) { e.h.corr("Database.Commit~tdb_commit", cas, clipStr(obs, 3000), clipStr(m, 3000)) })
	}
	e.checkDisk(idx, root)
}

// checkDisk re-reads a committed and flushed root through a fresh trie.Database over the same disk store.
func (e *exec) checkDisk(idx int, root common.Hash) {
	c := e.h.c
	want, ok := e.snaps[root]
	if !ok {
		return
	}
	fail := func(what string, extra map[string]interface{}) {
		extra["root"] = vh.Hex(root[:])
		c.Violate("reopen-from-disk-loses-content/"+sha16(e.prefix(idx)), "after Database.Commit, a fresh trie.Database over the same disk store "+what, e.replayObj(idx, extra))
	}
	var t2 *trie.Trie
	var err error
	if p, pv := vh.CatchPanic(func() { t2, err = trie.New(root, trie.NewDatabase(e.diskdb)) }); p {
		fail("panics in trie.New: "+fmt.Sprint(pv), map[string]interface{}{})
		return
	}
	if err != nil {
		if len(want) > 0 {
			fail("cannot open the committed root: "+errName(err), map[string]interface{}{})
		}
		return
	}
	var ks, vs [][]byte
	var ierr error
	if p, pv := vh.CatchPanic(func() { ks, vs, ierr = iterAll(t2) }); p {
		fail("panics while iterating: "+fmt.Sprint(pv), map[string]interface{}{})
		return
	}
	got := map[string][]byte{}
	for i := range ks {
		got[string(ks[i])] = vs[i]
	}
	if ierr != nil || contentString(got) != contentString(want) {
		fail("does not read back the committed content", map[string]interface{}{"iter_error": fmt.Sprint(ierr), "read_back_keys": len(got), "committed_keys": len(want)})
		return
	}
	if rr := t2.Hash(); rr != root {
		fail("re-hashes to a different root", map[string]interface{}{"rehash": vh.Hex(rr[:])})
	}
	c.Count("op/reopen-from-disk")
}

// afterRoot: bookkeeping and oracle (a) after Hash/Commit.
func (e *exec) afterRoot(idx int, root common.Hash, commit bool) {
	c := e.h.c
	if _, ok := e.snaps[root]; !ok {
		e.snaps[root] = copyContent(e.content)
	}
	if commit {
		e.committed[root] = true
		e.commitRoots = append(e.commitRoots, root)
	} else {
		e.hashRoots = append(e.hashRoots, root)
	}
	rb, ok := rebuildRoot(e.content)
	if !ok || rb != root {
		c.Violate("root-differs-from-sorted-rebuild/"+sha16(e.prefix(idx)),
			"the root after this history differs from the root of a fresh trie holding the same content",
			e.replayObj(idx, map[string]interface{}{"root": vh.Hex(root[:]), "rebuild_root": vh.Hex(rb[:]), "rebuild_ok": ok, "content": contentString(e.content)}))
	}
	if e.final || e.askSpec() {
		cs := contentString(e.content)
		obs := vh.Hex(root[:])
		cas := fmt.Sprintf("op#%d of %s (sha %s) content %s", idx, clipStr(e.prefix(idx), 1500), sha16(e.prefix(idx)), cs)
		rpl := e.replayObj(idx, map[string]interface{}{"content": cs, "go_root": obs})
		e.h.ask("mptroot "+cs, func(m string) {
			e.h.corr("Trie.Hash~mpt_root(spec)", cas, obs, m)
			specRootOracle(c, "Trie.Hash/Commit", cs, obs, m, rpl)
		})
	}
}

// specRootOracle: mpt_root is the SPECIFICATION root (Coq: order independent, equal to the
// hash of the canonical trie); a root of the implementation that differs from it on a concrete
// content is a violation of the property itself, reported with the content as replay.
func specRootOracle(c *vh.Ctx, what, content, goRoot, specRoot string, replay map[string]interface{}) {
	if !strings.HasPrefix(specRoot, "0x") || len(specRoot) != 66 || goRoot == specRoot {
		return // model errors are correspondence problems, not findings
	}
	if replay == nil {
		replay = map[string]interface{}{"content": content, "go_root": goRoot}
	}
	replay["spec_root"] = specRoot
	c.Violate("root-differs-from-spec-root/"+sha16(content), what+": the root differs from the specification's Merkle-Patricia root of the content", replay)
}

func (e *exec) step(tok string) {
	c := e.h.c
	idx := len(e.toks)
	e.toks = append(e.toks, tok)
	parts := strings.Split(tok, ":")
	arg := func(i int) []byte {
		if i < len(parts) {
			return vh.UnHex(parts[i])
		}
		return nil
	}
	// buffer-reuse mode: the key of this call is written into the ONE shared key buffer (overwriting
	// the previous call's key in place) and the call receives that slice; the buffer is scribbled
	// over as soon as the call has returned.  The implementation must not retain or compare against
	// caller-owned key memory.  (Values are NOT aliased: Trie.Update documents that value bytes must
	// not be modified while stored in the trie.)
	shared := false
	key := func() []byte {
		k := arg(1)
		if e.sharedKey != nil && e.sharedKey(idx) {
			if e.kbuf == nil {
				e.kbuf = make([]byte, 96)
			}
			if len(k) <= len(e.kbuf) {
				copy(e.kbuf, k)
				shared = true
				e.sharedOps = append(e.sharedOps, idx)
				return e.kbuf[:len(k):len(k)]
			}
		}
		return k
	}
	defer func() {
		if shared {
			for i := range e.kbuf {
				e.kbuf[i] = 0xEE
			}
		}
	}()
	ans := "?"
	reopened := false
	switch parts[0] {
	case "u":
		k, v := key(), arg(2)
		var err error
		if e.guard(idx, "Trie.TryUpdate", false, func() { err = e.t.TryUpdate(k, v) }) {
			ans = "panic"
		} else if err != nil {
			ans = errName(err)
		} else {
			ans = "ok"
			e.setContent(k, v)
		}
	case "d":
		k := key()
		var err error
		if e.guard(idx, "Trie.TryDelete", false, func() { err = e.t.TryDelete(k) }) {
			ans = "panic"
		} else if err != nil {
			ans = errName(err)
		} else {
			ans = "ok"
			e.setContent(k, nil)
		}
	case "g":
		k := key()
		var v []byte
		var err error
		if e.guard(idx, "Trie.TryGet", false, func() { v, err = e.t.TryGet(k) }) {
			ans = "panic"
		} else if err != nil {
			ans = errName(err)
			c.Violate("get-differs-from-content/"+sha16(e.prefix(idx)), "TryGet fails although every node was written", e.replayObj(idx, map[string]interface{}{"observed": ans}))
		} else {
			ans = "v:" + vh.Hex(v)
			if !bytes.Equal(v, e.content[string(k)]) {
				c.Violate("get-differs-from-content/"+sha16(e.prefix(idx)), "TryGet differs from the content written by the history",
					e.replayObj(idx, map[string]interface{}{"observed": ans, "expected": "v:" + vh.Hex(e.content[string(k)])}))
			}
		}
	case "h":
		var root common.Hash
		if e.guard(idx, "Trie.Hash", false, func() { root = e.t.Hash() }) {
			ans = "panic"
		} else {
			ans = "r:" + vh.Hex(root[:])
			e.afterRoot(idx, root, false)
		}
	case "c":
		e.nontrivial = true
		var root common.Hash
		var err error
		if e.guard(idx, "Trie.Commit", false, func() { root, err = e.t.Commit(nil) }) {
			ans = "panic"
		} else if err != nil {
			ans = errName(err)
		} else {
			ans = "r:" + vh.Hex(root[:])
			e.afterRoot(idx, root, true)
			if e.shouldFlush(idx) {
				// flush the memory layer to disk; the model does not distinguish this
				e.flushToDisk(idx, root)
			}
		}
	case "r":
		e.nontrivial = true
		root := common.BytesToHash(arg(1))
		mustSucceed := e.committed[root] || root == emptyRoot || root == (common.Hash{})
		var nt *trie.Trie
		var err error
		if e.guard(idx, "trie.New", false, func() { nt, err = trie.New(root, e.triedb) }) {
			ans = "panic"
		} else if err != nil {
			ans = errName(err)
			if mustSucceed {
				c.Violate("reopen-loses-content/"+sha16(e.prefix(idx)), "trie.New fails on a root that was committed before", e.replayObj(idx, map[string]interface{}{"observed": ans}))
			}
		} else {
			ans = "ok"
			e.t = nt
			reopened = true
			if snap, ok := e.snaps[root]; ok {
				e.content = copyContent(snap)
			} else if root == emptyRoot || root == (common.Hash{}) {
				e.content = map[string][]byte{}
			} else {
				// a root this history never produced (only possible in a replay): adopt what is there
				e.content = map[string][]byte{}
				vh.CatchPanic(func() {
					ks, vs, _ := iterAll(nt)
					for i := range ks {
						e.content[string(ks[i])] = vs[i]
					}
				})
				reopened = false
			}
			if !mustSucceed {
				c.Count("reopen/uncommitted-root-found-in-db")
			}
		}
		if mustSucceed {
			c.Count("reopen/committed-root")
		} else {
			c.Count("reopen/hash-only-root")
		}
	case "l":
		n, _ := strconv.Atoi(parts[1])
		if e.guard(idx, "Trie.SetCacheLimit", false, func() { e.t.SetCacheLimit(uint16(n)) }) {
			ans = "panic"
		} else {
			ans = "ok"
		}
	case "i":
		var ks, vs [][]byte
		var err error
		if e.guard(idx, "Iterator", false, func() { ks, vs, err = iterAll(e.t) }) {
			ans = "panic"
		} else if err != nil {
			ans = errName(err)
		} else {
			ps := make([]string, len(ks))
			for i := range ks {
				ps[i] = hx(ks[i]) + "=" + hx(vs[i])
			}
			ans = "i:" + strings.Join(ps, ",")
		}
		if ans != "panic" {
			got := "!" + ans
			if err == nil {
				sorted := make([]string, len(ks))
				for i := range ks {
					sorted[i] = string(ks[i])
				}
				idxs := make([]int, len(ks))
				for i := range idxs {
					idxs[i] = i
				}
				sort.SliceStable(idxs, func(a, b int) bool { return sorted[idxs[a]] < sorted[idxs[b]] })
				ps := make([]string, len(ks))
				for i, j := range idxs {
					ps[i] = hx(ks[j]) + "=" + hx(vs[j])
				}
				got = strings.Join(ps, ",")
			}
			if want := contentListing(e.content); got != want {
				sig, what := "iterate-differs-from-content/", "the (sorted) iteration differs from the content written by the history"
				if e.prevReopen {
					sig, what = "reopen-loses-content/", "after reopening a committed root the iteration differs from the content at that commit"
				}
				c.Violate(sig+sha16(e.prefix(idx)), what, e.replayObj(idx, map[string]interface{}{"observed": got, "expected": want}))
			}
		}
	case "p":
		e.nontrivial = true
		key := key()
		var root common.Hash
		var perr error
		proof := aquadb.NewMemDatabase()
		if e.guard(idx, "Trie.Prove", false, func() {
			root = e.t.Hash()
			perr = e.t.Prove(key, 0, proof)
		}) {
			ans = "panic"
		} else if perr != nil {
			ans = errName(perr)
			c.Violate("proof-does-not-verify/"+sha16(e.prefix(idx)), "Prove fails although every node was written", e.replayObj(idx, map[string]interface{}{"observed": ans}))
		} else {
			var nodes [][]byte
			var encs []string
			for _, k := range proof.Keys() {
				v, _ := proof.Get(k)
				nodes = append(nodes, v)
				encs = append(encs, hx(v))
			}
			sort.Strings(encs)
			sort.Slice(nodes, func(a, b int) bool { return hx(nodes[a]) < hx(nodes[b]) })
			ver, pv := goVerifyDB(root, key, proof)
			ans = "p:" + strings.Join(encs, ",") + "|" + ver
			want := "absent"
			if v, ok := e.content[string(key)]; ok {
				want = "v:" + vh.Hex(v)
			}
			switch {
			case ver == "panic":
				rp := proofReplay(root, key, nodes)
				rp["panic"] = fmt.Sprint(pv)
				rp["history"] = e.prefix(idx)
				c.Violate(panicSig("VerifyProof", true, pv, sha16(e.prefix(idx))+":"+tok), "VerifyProof panics on a proof produced by Prove: "+fmt.Sprint(pv), rp)
			case len(e.content) == 0 && ver == "err":
				// Prove on the empty trie yields no node at all, VerifyProof then reports the
				// root node as missing: there is no proof of absence for the empty trie.
				c.Count("prove/empty-trie-has-no-proof")
				c.Violate("prove-empty-trie-absence-not-verifiable", "Prove on the empty trie emits no node and VerifyProof(emptyRoot, key, proof) returns an error instead of proving absence",
					e.replayObj(idx, map[string]interface{}{"observed": ver, "expected": want, "proof": proofReplay(root, key, nodes)}))
			case ver != want:
				c.Violate("proof-does-not-verify/"+sha16(e.prefix(idx)), "the proof produced by Prove does not verify to the content",
					e.replayObj(idx, map[string]interface{}{"observed": ver, "expected": want, "proof": proofReplay(root, key, nodes)}))
			}
			if len(nodes) > 0 && e.alterProof() {
				e.alteredProofs(idx, root, key, nodes, want)
			}
		}
	case "x":
		var s string
		if e.guard(idx, "VerifDump", false, func() { s = trie.VerifDump(e.t) }) {
			ans = "panic"
		} else {
			ans = "x:" + s
		}
	default:
		c.Fatal("bad op token %q", tok)
	}
	c.Count("op/" + parts[0])
	e.prevReopen = reopened
	e.answers = append(e.answers, ans)
}

// alteredProofs: oracle (f).  One byte of one node changed; one node dropped.
func (e *exec) alteredProofs(idx int, root common.Hash, key []byte, nodes [][]byte, want string) {
	r := e.h.c.Rng
	extra := map[string]interface{}{"history": e.prefix(idx)}
	alt := make([][]byte, len(nodes))
	for i, n := range nodes {
		alt[i] = common.CopyBytes(n)
	}
	ni := r.Intn(len(alt))
	if len(alt[ni]) > 0 {
		bi := r.Intn(len(alt[ni]))
		old := alt[ni][bi]
		switch r.Intn(4) {
		case 0:
			alt[ni][bi] ^= byte(1 + r.Intn(255))
		case 1:
			alt[ni][bi] = 0x80
		case 2:
			alt[ni][bi] = 0xc0
		case 3:
			alt[ni][bi]++
		}
		if alt[ni][bi] == old {
			alt[ni][bi] ^= 0x01
		}
		e.h.c.Count("altered-proof/byte")
		e.h.verifyCheck("VerifyProof(altered)~verify_proof", root, key, alt, want, extra)
	}
	di := r.Intn(len(nodes))
	dropped := append(append([][]byte{}, nodes[:di]...), nodes[di+1:]...)
	e.h.c.Count("altered-proof/dropped-node")
	e.h.verifyCheck("VerifyProof(altered)~verify_proof", root, key, dropped, want, extra)
}

var opNames = map[byte]string{
	'u': "Trie.TryUpdate~trie_update", 'd': "Trie.TryDelete~trie_delete", 'g': "Trie.TryGet~trie_get",
	'h': "Trie.Hash~trie_hash", 'c': "Trie.Commit~trie_commit", 'r': "trie.New~trie_new",
	'l': "Trie.SetCacheLimit~set_cache_limit", 'i': "Iterator~trie_iterate",
	'p': "Prove+VerifyProof~trie_prove+verify_proof", 'x': "VerifDump~state",
}

// finish sends the whole history to the model and compares op by op.
func (e *exec) finish(names map[byte]string) {
	c := e.h.c
	if len(e.toks) == 0 {
		return
	}
	line := e.prefix(len(e.toks) - 1)
	key := ""
	if e.nontrivial {
		key = sha16(line) + sha16(line+"#")
	}
	c.Eval(e.class, key)
	if e.noModel {
		return
	}
	e.h.ask(line, func(m string) {
		outs := strings.Split(m, ";")
		if len(outs) != len(e.toks) {
			e.h.corr("run~k_step(protocol)", line, fmt.Sprintf("%d answers", len(e.toks)), m)
			return
		}
		seen := map[string]bool{}
		for i, tok := range e.toks {
			name := names[tok[0]]
			if e.answers[i] == outs[i] {
				e.h.corr(name, "", e.answers[i], outs[i])
				continue
			}
			if seen[name] {
				continue // later differences of the same kind in the same history follow from the first
			}
			seen[name] = true
			e.h.corr(name, fmt.Sprintf("op#%d %s (flushes after ops %v) of %s", i, tok, e.flushed, e.prefix(i)), e.answers[i], outs[i])
		}
	})
}

// ---------------------------------------------------------------- generators

type universe struct {
	name  string
	keys  [][]byte
	small bool // prefer small values (embedded nodes)
}

func dedupe(keys [][]byte) [][]byte {
	seen := map[string]bool{}
	var out [][]byte
	for _, k := range keys {
		if !seen[string(k)] {
			seen[string(k)] = true
			out = append(out, k)
		}
	}
	return out
}

func genUniverse(c *vh.Ctx) universe {
	r := c.Rng
	switch r.Intn(5) {
	case 4: // keys longer than a hash (33..40 bytes) with long shared prefixes
		base := r.Bytes(40)
		n := 8 + r.Intn(10)
		keys := make([][]byte, 0, n)
		for i := 0; i < n; i++ {
			k := common.CopyBytes(base[:33+r.Intn(8)])
			for j := 0; j < 1+r.Intn(2); j++ {
				k[len(k)-1-r.Intn(3)] = byte(r.Intn(4))
			}
			keys = append(keys, k)
		}
		return universe{"long-33..40", dedupe(keys), r.Bool()}
	case 0: // varlen keys, many of them prefixes of others
		alpha := []byte{0x00, 0x01, 0x10, 0x11, 0xff}
		rnd := func(n int) []byte {
			b := make([]byte, n)
			for i := range b {
				b[i] = alpha[r.Intn(len(alpha))]
			}
			return b
		}
		keys := [][]byte{}
		if r.Chance(70) {
			keys = append(keys, []byte{})
		}
		keys = append(keys, rnd(1+r.Intn(3)))
		target := 8 + r.Intn(17)
		for tries := 0; tries < 300 && len(keys) < target; tries++ {
			base := keys[r.Intn(len(keys))]
			var k []byte
			switch r.Intn(4) {
			case 0:
				k = common.CopyBytes(base[:r.Intn(len(base)+1)])
			case 1, 2:
				k = append(common.CopyBytes(base), rnd(r.Intn(3))...)
			case 3:
				k = rnd(r.Intn(5))
			}
			if len(k) > 4 {
				k = k[:4]
			}
			keys = dedupe(append(keys, k))
		}
		return universe{"varlen", keys, true}
	case 1: // hashed keys
		n := 12 + r.Intn(c.Scale(14, 29))
		off := r.Intn(1000)
		keys := make([][]byte, n)
		for i := range keys {
			keys[i] = crypto.Keccak256([]byte(strconv.Itoa(off + i)))
		}
		return universe{"hashed", keys, false}
	case 2: // 32-byte keys that differ only in the last 1..4 nibbles
		base := r.Bytes(32)
		nib := 1 + r.Intn(4)
		n := 6 + r.Intn(15)
		keys := [][]byte{base}
		for i := 0; i < n; i++ {
			k := common.CopyBytes(base)
			for j := 0; j < nib; j++ {
				p := 63 - j
				v := byte(r.Intn(16))
				if p%2 == 1 {
					k[p/2] = k[p/2]&0xf0 | v
				} else {
					k[p/2] = k[p/2]&0x0f | v<<4
				}
			}
			keys = append(keys, k)
		}
		return universe{fmt.Sprintf("shared-prefix-32/last%dnibbles", nib), dedupe(keys), false}
	default: // rlp(index) keys as DeriveSha builds them
		var ns []int
		if c.Thorough() {
			ns = []int{1, 2, 17, 128, 129, 300}
		} else {
			ns = []int{1, 2, 17, 17, 40, 130}
		}
		n := ns[r.Intn(len(ns))]
		var idxs []int
		if n <= 17 {
			for i := 0; i <= n; i++ {
				idxs = append(idxs, i)
			}
		} else {
			for _, b := range []int{0, 1, 15, 16, 17, 127, 128, 129, 255, 256, 257, n - 1, n} {
				if b <= n {
					idxs = append(idxs, b)
				}
			}
			for len(idxs) < 26 {
				idxs = append(idxs, r.Intn(n+1))
			}
		}
		var keys [][]byte
		for _, i := range idxs {
			k, _ := rlp.EncodeToBytes(uint(i))
			keys = append(keys, k)
		}
		return universe{fmt.Sprintf("rlp-index/N=%d", n), dedupe(keys), r.Bool()}
	}
}

func genValue(r *vh.RNG, small bool) []byte {
	lens := []int{0, 1, 31, 32, 33, 100}
	n := lens[r.Intn(len(lens))]
	if r.Chance(12) || (small && r.Chance(55)) {
		n = 2 + r.Intn(4)
	}
	v := r.Bytes(n)
	if n == 1 && r.Bool() {
		v[0] = []byte{0x00, 0x01, 0x7f, 0x80, 0x81, 0xff}[r.Intn(6)]
	}
	return v
}

func (h *H) genHistory(n int) {
	c := h.c
	r := c.Rng
	u := genUniverse(c)
	heavy := r.Chance(25)
	class := "history/" + u.name
	if heavy {
		class += "/commit-heavy"
	}
	reuse := r.Chance(35)
	if reuse {
		class += "/key-buffer-reuse"
	}
	e := h.newExec(class)
	if reuse {
		e.sharedKey = func(int) bool { return r.Chance(75) }
	}
	key := func(perturb bool) []byte {
		k := u.keys[r.Intn(len(u.keys))]
		if perturb && r.Chance(12) {
			switch r.Intn(3) {
			case 0:
				k = k[:r.Intn(len(k)+1)]
			case 1:
				k = append(common.CopyBytes(k), byte(r.Intn(256)))
			case 2:
				if len(k) > 0 {
					k = common.CopyBytes(k)
					k[len(k)-1] ^= byte(1 << uint(r.Intn(8)))
				}
			}
		}
		return k
	}
	limit := func() {
		if heavy {
			e.step("l:" + strconv.Itoa(r.Intn(3)))
		}
	}
	limit()
	countdown := 1 + r.Intn(3)
	for nops := 0; nops < n; nops++ {
		p := r.Intn(100)
		switch {
		case p < 45:
			e.step("u:" + vh.Hex(key(false)) + ":" + vh.Hex(genValue(r, u.small)))
			if heavy {
				countdown--
				if countdown <= 0 {
					e.step("c")
					countdown = 1 + r.Intn(3)
				}
			}
		case p < 55:
			e.step("d:" + vh.Hex(key(true)))
		case p < 65:
			e.step("g:" + vh.Hex(key(true)))
		case p < 72:
			e.step("h")
		case p < 80:
			e.step("c")
		case p < 84:
			var root common.Hash
			switch {
			case len(e.commitRoots) == 0 && len(e.hashRoots) == 0:
				e.step("c")
				continue
			case len(e.hashRoots) > 0 && (r.Intn(5) == 0 || len(e.commitRoots) == 0):
				root = e.hashRoots[r.Intn(len(e.hashRoots))]
			case r.Bool():
				root = e.commitRoots[len(e.commitRoots)-1]
			default:
				root = e.commitRoots[r.Intn(len(e.commitRoots))]
			}
			e.step("r:" + vh.Hex(root[:]))
			if e.prevReopen {
				e.step("i") // oracle (d): full iteration right after the reopen
				limit()
			}
		case p < 87:
			e.step("l:" + strconv.Itoa(r.Intn(4)))
		case p < 91:
			e.step("i")
		case p < 97:
			e.step("p:" + vh.Hex(key(true)))
		default:
			e.step("x")
		}
		if r.Chance(30) {
			e.step("x")
		}
	}
	e.step("i")
	e.final = true
	e.step("h")
	e.step("x")
	if len(c.Res.Samples) < 5 {
		c.Sample(map[string]interface{}{"class": class, "run": clipStr(e.prefix(len(e.toks)-1), 900), "final": e.answers[len(e.answers)-2], "keys_in_content": len(e.content)})
	}
	e.finish(opNames)
	if r.Chance(30) {
		start := []byte{}
		if r.Chance(70) {
			start = key(true)
			if r.Chance(30) && len(start) > 0 {
				start = start[:r.Intn(len(start)+1)]
			}
		}
		e.iterProtocol(start, 10+r.Intn(60), r.Chance(70))
	}
}

// iterProtocol walks the NodeIterator protocol on the trie as the history left it (nothing may follow:
// NodeIterator hashes the trie) and compares every step with the state-machine model, then checks the
// key/value iteration from `start` against the sorted reference content (direct oracle).
func (e *exec) iterProtocol(start []byte, steps int, mostlyDescend bool) {
	c := e.h.c
	r := c.Rng
	flags := make([]byte, steps)
	for i := range flags {
		flags[i] = '1'
		if (mostlyDescend && r.Chance(15)) || (!mostlyDescend && r.Chance(50)) {
			flags[i] = '0'
		}
	}
	hist := strings.Join(e.toks, " ")
	var outs []string
	if p, pv := vh.CatchPanic(func() {
		it := e.t.NodeIterator(start)
		for _, f := range flags {
			moved := it.Next(f == '1')
			leaf := "-"
			if it.Leaf() {
				if pp, _ := vh.CatchPanic(func() { leaf = "L" + hx(it.LeafKey()) + "=" + hx(it.LeafBlob()) }); pp {
					leaf = "Lpanic"
				}
			}
			es := "ok"
			if err := it.Error(); err != nil {
				es = errName(err)
			}
			hsh, par := it.Hash(), it.Parent()
			mv := "F"
			if moved {
				mv = "T"
			}
			outs = append(outs, mv+","+hx(it.Path())+","+hx(hsh[:])+","+hx(par[:])+","+leaf+","+es)
		}
	}); p {
		c.Violate(panicSig("NodeIterator", false, pv, sha16(hist)+":"+vh.Hex(start)), "NodeIterator panics: "+fmt.Sprint(pv),
			map[string]interface{}{"run": "run " + hist, "start": vh.Hex(start), "flags": string(flags)})
		return
	}
	obs := strings.Join(outs, ";")
	line := "niter " + vh.Hex(start) + " " + string(flags) + " " + hist
	c.Eval("iterator-protocol", sha16(line))
	e.h.ask(line, func(m string) { e.h.corr("NodeIterator.Next/Path/Hash/Parent/Leaf~it_next", clipStr(line, 1500), obs, m) })
	// key/value iteration from start: direct oracle = the reference content with path >= start, in path order
	var got []string
	if p, pv := vh.CatchPanic(func() {
		it := trie.NewIterator(e.t.NodeIterator(start))
		for it.Next() {
			got = append(got, hx(it.Key)+"="+hx(it.Value))
		}
	}); p {
		c.Violate(panicSig("Iterator", false, pv, sha16(hist)+":"+vh.Hex(start)), "Iterator from a start key panics: "+fmt.Sprint(pv),
			map[string]interface{}{"run": "run " + hist, "start": vh.Hex(start)})
		return
	}
	startPath := trie.VerifKeybytesToHex(start)
	startPath = startPath[:len(startPath)-1]
	var want []string
	type ent struct {
		path []byte
		s    string
	}
	var ents []ent
	for k, v := range e.content {
		pth := trie.VerifKeybytesToHex([]byte(k))
		if bytes.Compare(pth, startPath) >= 0 {
			ents = append(ents, ent{pth, hx([]byte(k)) + "=" + hx(v)})
		}
	}
	sort.Slice(ents, func(a, b int) bool { return bytes.Compare(ents[a].path, ents[b].path) < 0 })
	for _, en := range ents {
		want = append(want, en.s)
	}
	gs, ws := strings.Join(got, ","), strings.Join(want, ",")
	if gs != ws {
		c.Violate("iterate-from-differs-from-content/"+sha16(hist+vh.Hex(start)), "iteration from a start key is not the content at or after it, in path order",
			map[string]interface{}{"run": "run " + hist, "start": vh.Hex(start), "observed": gs, "expected": ws})
	}
	l2 := "iterfrom " + vh.Hex(start) + " " + hist
	e.h.ask(l2, func(m string) { e.h.corr("Iterator(start)~trie_iterate_from", clipStr(l2, 1500), "i:"+gs, m) })
}

// ---------------------------------------------------------------- malformed nodes

func (h *H) checkNode(n []byte) {
	c := h.c
	r := c.Rng
	hexn := vh.Hex(n)
	c.Eval("malformed-node", hexn)
	// (i) decodeNode
	var s string
	var err error
	obs := ""
	p, pv := vh.CatchPanic(func() { s, err = trie.VerifDecodeNode(nil, n) })
	switch {
	case p:
		obs = "panic"
		c.Violate(panicSig("decodeNode", true, pv, hexn), "decodeNode panics on this node encoding: "+fmt.Sprint(pv),
			map[string]interface{}{"node": hexn, "panic": fmt.Sprint(pv), "root": vh.Hex(crypto.Keccak256(n)), "key": "0x00", "nodes": []string{hexn}})
	case err != nil:
		obs = "err"
	default:
		obs = "ok " + s
	}
	c.Count("malformed-node/decode-" + strings.SplitN(obs, " ", 2)[0])
	h.ask("decode - "+hexn, func(m string) { h.corr("decodeNode~decode_node", hexn, obs, m) })
	// (ii) as the root node of a proof
	root := common.BytesToHash(crypto.Keccak256(n))
	keys := [][]byte{derivedKey(r, n), r.Bytes(1 + r.Intn(2))}
	for _, k := range keys {
		h.verifyCheck("VerifyProof(crafted)~verify_proof", root, k, [][]byte{n}, "", nil)
	}
}

// derivedKey follows the node's own key path when that is easy.
func derivedKey(r *vh.RNG, n []byte) []byte {
	var k []byte
	vh.CatchPanic(func() {
		var v interface{}
		if rlp.DecodeBytes(n, &v) != nil {
			return
		}
		l, ok := v.([]interface{})
		if !ok || len(l) != 2 {
			return
		}
		ck, ok := l[0].([]byte)
		if !ok || len(ck) == 0 {
			return
		}
		nib := trie.VerifCompactToHex(ck)
		if len(nib) > 0 && nib[len(nib)-1] == 16 {
			nib = nib[:len(nib)-1]
		} else {
			nib = append(nib, byte(r.Intn(16)))
		}
		if len(nib)%2 == 1 {
			nib = append(nib, byte(r.Intn(16)))
		}
		k = make([]byte, len(nib)/2)
		for i := range k {
			k[i] = nib[2*i]<<4 | nib[2*i+1]&0x0f
		}
		if r.Chance(30) {
			k = append(k, byte(r.Intn(256)))
		}
	})
	if k == nil {
		k = r.Bytes(1 + r.Intn(2))
	}
	return k
}

func (h *H) malformedStream() {
	c := h.c
	r := c.Rng
	// valid node encodings from proofs of small tries
	var valid [][]byte
	for round := 0; round < 8; round++ {
		u := genUniverse(c)
		_, _, t := newTrie()
		nk := 2 + r.Intn(10)
		var used [][]byte
		for i := 0; i < nk; i++ {
			k := u.keys[r.Intn(len(u.keys))]
			v := genValue(r, u.small)
			if len(v) == 0 {
				v = []byte{0x01}
			}
			t.Update(k, v)
			used = append(used, k)
		}
		for _, k := range used {
			db := aquadb.NewMemDatabase()
			t.Prove(k, 0, db)
			for _, hk := range db.Keys() {
				v, _ := db.Get(hk)
				valid = append(valid, v)
			}
		}
	}
	valid = dedupe(valid)
	sort.Slice(valid, func(a, b int) bool { return bytes.Compare(valid[a], valid[b]) < 0 }) // map order must not leak into the run
	if len(valid) == 0 {
		c.Fatal("no valid node encodings collected")
	}
	enc := func(v interface{}) []byte {
		b, err := rlp.EncodeToBytes(v)
		if err != nil {
			c.Fatal("rlp encode of crafted node: %v", err)
		}
		return b
	}
	compactKeys := func() []byte {
		cks := [][]byte{{}, {}, {0x00}, {0x10}, {0x1f}, {0x20}, {0x3a}, {0x30}, {0x20, 0x10}, {0x00, 0x12}, {0x11, 0x23}, {0x20, 0x1f, 0xff},
			{0x40}, {0xff}, {0x0f}, {0x00, 0x01, 0x02}, {0x2f}, {0x80}}
		k := common.CopyBytes(cks[r.Intn(len(cks))])
		if len(k) > 1 && r.Chance(30) {
			k[len(k)-1] = byte(r.Intn(256))
		}
		return k
	}
	var smallEmbedded func(depth int) interface{}
	smallEmbedded = func(depth int) interface{} {
		switch r.Intn(6) {
		case 0:
			return []interface{}{[]byte{0x20}, []byte{byte(1 + r.Intn(0x7f))}}
		case 1:
			return []interface{}{[]byte{byte(0x30 + r.Intn(16))}, r.Bytes(1 + r.Intn(4))}
		case 2:
			return []interface{}{[]byte{}, []byte{0x01}} // empty compact key inside an embedded node
		case 3:
			return []interface{}{}
		case 4:
			if depth > 0 {
				return []interface{}{[]byte{byte(0x10 + r.Intn(16))}, smallEmbedded(depth - 1)}
			}
			return []interface{}{[]byte{0x20}, []byte{0x05}}
		default:
			return []interface{}{[]byte{0x20}, r.Bytes(40)} // oversized: >= 32 bytes must not be embedded
		}
	}
	valueOrRef := func() interface{} {
		switch r.Intn(8) {
		case 0:
			return []byte{}
		case 1:
			return []byte{byte(r.Intn(256))}
		case 2:
			return r.Bytes(31)
		case 3, 4:
			return r.Bytes(32)
		case 5:
			return r.Bytes(33)
		default:
			return smallEmbedded(2)
		}
	}
	craftShort := func() []byte { return enc([]interface{}{compactKeys(), valueOrRef()}) }
	craftFull := func() []byte {
		l := make([]interface{}, 17)
		for i := range l {
			l[i] = []byte{}
		}
		nset := 1 + r.Intn(4)
		if r.Chance(10) {
			nset = 16
		}
		for j := 0; j < nset; j++ {
			i := r.Intn(16)
			switch r.Intn(6) {
			case 0:
				l[i] = []byte{}
			case 1, 2:
				l[i] = r.Bytes(32)
			case 3:
				l[i] = r.Bytes(31)
			default:
				l[i] = smallEmbedded(1)
			}
		}
		switch r.Intn(5) {
		case 0:
			l[16] = []byte{byte(r.Intn(256))}
		case 1:
			l[16] = r.Bytes(33)
		case 2:
			l[16] = smallEmbedded(0) // a list where a value string is expected
		}
		return enc(l)
	}
	craftOther := func() []byte {
		switch r.Intn(5) {
		case 0: // wrong number of elements
			n := []int{0, 1, 3, 16, 18}[r.Intn(5)]
			l := make([]interface{}, n)
			for i := range l {
				if r.Chance(70) {
					l[i] = []byte{}
				} else {
					l[i] = r.Bytes([]int{1, 2, 32}[r.Intn(3)])
				}
			}
			return enc(l)
		case 1: // trailing garbage after a well-formed node
			var b []byte
			if r.Bool() {
				b = craftShort()
			} else {
				b = common.CopyBytes(valid[r.Intn(len(valid))])
			}
			return append(b, r.Bytes(1+r.Intn(3))...)
		case 2: // not a list at all
			return enc(r.Bytes([]int{0, 1, 2, 32, 60}[r.Intn(5)]))
		case 3: // list header that promises more than there is / non-canonical sizes
			b := craftShort()
			if len(b) > 0 {
				b[0]++
			}
			return b
		default:
			return r.Bytes(r.Intn(6))
		}
	}
	mutate := func() []byte {
		b := common.CopyBytes(valid[r.Intn(len(valid))])
		switch r.Intn(5) {
		case 0:
			b[r.Intn(len(b))] ^= byte(1 << uint(r.Intn(8)))
		case 1:
			b[r.Intn(len(b))] = []byte{0x00, 0x80, 0x81, 0xa0, 0xc0, 0xc1, 0xf8, 0xff}[r.Intn(8)]
		case 2:
			b = b[:r.Intn(len(b))]
		case 3:
			b = append(b, byte(r.Intn(256)))
		case 4: // header bytes
			p := r.Intn(min(3, len(b)))
			b[p] = byte(int(b[p]) + []int{-1, 1, 2, -2}[r.Intn(4)])
		}
		return b
	}
	total := c.Scale(400, 20000)
	nodes := [][]byte{vh.UnHex("c28076"), vh.UnHex("c58083aabbcc")}
	seen := map[string]bool{string(nodes[0]): true, string(nodes[1]): true}
	for tries := 0; len(nodes) < total && tries < 20*total; tries++ {
		var n []byte
		switch p := r.Intn(10); {
		case p < 3:
			n = mutate()
		case p < 6:
			n = craftShort()
		case p < 9:
			n = craftFull()
		default:
			n = craftOther()
		}
		if p := r.Intn(100); p < 4 && len(valid) > 0 {
			n = common.CopyBytes(valid[r.Intn(len(valid))]) // a few unaltered ones as a control
		}
		if seen[string(n)] {
			continue
		}
		seen[string(n)] = true
		nodes = append(nodes, n)
	}
	for _, n := range nodes {
		h.checkNode(n)
	}
}

// ---------------------------------------------------------------- encodings

func (h *H) encodings() {
	c := h.c
	r := c.Rng
	uncompact := func(b []byte) (string, []byte) {
		var out []byte
		p, _ := vh.CatchPanic(func() { out = trie.VerifCompactToHex(b) })
		if p {
			return "panic", nil
		}
		return "ok " + vh.Hex(out), out
	}
	n := c.Scale(300, 3000)
	for i := 0; i < n; i++ {
		l := r.Intn(10)
		nib := make([]byte, l)
		for j := range nib {
			nib[j] = byte(r.Intn(16))
		}
		if r.Bool() {
			nib = append(nib, 16)
		}
		hn := vh.Hex(nib)
		c.Eval("encoding/hex-to-compact", hn)
		var comp []byte
		obs := ""
		if p, _ := vh.CatchPanic(func() { comp = trie.VerifHexToCompact(nib) }); p {
			obs = "panic"
			c.Violate("panic/hexToCompact/"+clipStr(hn, 80), "hexToCompact panics", map[string]string{"hex": hn})
		} else {
			obs = vh.Hex(comp)
		}
		h.ask("compact "+hn, func(m string) { h.corr("hexToCompact~hex_to_compact", hn, obs, m) })
		if obs == "panic" {
			continue
		}
		back, out := uncompact(comp)
		if back == "panic" || !bytes.Equal(out, nib) {
			c.Violate("compact-roundtrip/"+hn, "compactToHex(hexToCompact(k)) != k", map[string]string{"hex": hn, "compact": vh.Hex(comp), "back": back})
		}
		hc := vh.Hex(comp)
		h.ask("uncompact "+hc, func(m string) { h.corr("compactToHex~compact_to_hex", hc, back, m) })
	}
	for i := 0; i < n; i++ {
		b := r.Bytes(r.Intn(5))
		if i == 0 {
			b = []byte{}
		}
		if len(b) > 0 && r.Bool() {
			b[0] = byte(r.Intn(4))<<4 | byte(r.Intn(16))
		}
		hb := vh.Hex(b)
		c.Eval("encoding/compact-to-hex", hb)
		obs, _ := uncompact(b) // the bare helper panics on the empty string; recorded, reached through VerifyProof elsewhere
		c.Count("encoding/compact-to-hex/" + strings.SplitN(obs, " ", 2)[0])
		h.ask("uncompact "+hb, func(m string) { h.corr("compactToHex~compact_to_hex", hb, obs, m) })
		kb := r.Bytes(r.Intn(6))
		hk := vh.Hex(kb)
		obk := vh.Hex(trie.VerifKeybytesToHex(kb))
		h.ask("keyhex "+hk, func(m string) { h.corr("keybytesToHex~keybytes_to_hex", hk, obk, m) })
	}
}

// ---------------------------------------------------------------- SecureTrie and DeriveSha

var secureNames = map[byte]string{
	'u': "SecureTrie.TryUpdate~sec_update", 'h': "SecureTrie.Hash~sec_hash",
	'c': "SecureTrie.Commit~sec_commit", 'g': "SecureTrie.TryGet~sec_get",
	'd': "SecureTrie.TryDelete~sec_delete",
	'k': "SecureTrie.GetKey~sec_getkey", 'r': "NewSecure~sec_new",
}

// secureHistory generates a SecureTrie history as plain tokens (keys un-hashed); a leading '*'
// marks a call whose key goes through the ONE shared key buffer (buffer-reuse mode).
func (h *H) secureHistory(forceReuse bool) {
	c := h.c
	r := c.Rng
	reuse := forceReuse || r.Chance(50)
	nk := 4 + r.Intn(12)
	keys := make([][]byte, nk)
	for i := range keys {
		switch r.Intn(4) {
		case 0:
			keys[i] = r.Bytes(32)
		case 1:
			keys[i] = r.Bytes(33 + r.Intn(8))
		default:
			keys[i] = r.Bytes(1 + r.Intn(20))
		}
	}
	var plain []string
	n := 8 + r.Intn(c.Scale(30, 120))
	for i := 0; i <= n; i++ {
		k := keys[r.Intn(nk)]
		mark := ""
		if reuse && r.Chance(75) {
			mark = "*"
		}
		p := r.Intn(100)
		if i == n {
			p = 85
		}
		switch {
		case p < 55:
			plain = append(plain, mark+"u:"+vh.Hex(k)+":"+vh.Hex(genValue(r, false)))
		case p < 65:
			plain = append(plain, mark+"d:"+vh.Hex(k))
		case p < 76:
			plain = append(plain, mark+"g:"+vh.Hex(k))
		case p < 82:
			hk := crypto.Keccak256(k)
			if r.Chance(10) {
				hk = r.Bytes(32)
			}
			plain = append(plain, "k:"+vh.Hex(hk))
		case p < 91:
			plain = append(plain, "h")
		default:
			plain = append(plain, "c")
			if r.Chance(25) {
				plain = append(plain, fmt.Sprintf("r:latest:%d", r.Intn(3)))
			}
		}
	}
	class := "secure"
	if reuse {
		class = "secure/key-buffer-reuse"
	}
	h.runSecure(class, plain)
}

// runSecure executes a plain SecureTrie history on the implementation (with the map oracle) and
// compares it with the model run over the keccak-hashed keys.
func (h *H) runSecure(class string, plain []string) {
	c := h.c
	_, triedb, _ := newTrie()
	var st *trie.SecureTrie
	if p, pv := vh.CatchPanic(func() { st, _ = trie.NewSecure(common.Hash{}, triedb, 0) }); p || st == nil {
		c.Violate("panic/NewSecure/-", fmt.Sprint("NewSecure fails: ", pv), nil)
		return
	}
	content := map[string][]byte{}
	commitContent := map[string][]byte{}
	preimages := map[string][]byte{} // hash -> key currently in the SecureTrie's cache (oracle for GetKey)
	var lastCommit common.Hash
	var toks, answers []string
	kbuf := make([]byte, 96)
	done := 0
	viol := func(sig, what string, extra map[string]interface{}) {
		rp := map[string]interface{}{"secure_history": strings.Join(plain[:done+1], " ")}
		for k, v := range extra {
			rp[k] = v
		}
		c.Violate(sig+sha16(strings.Join(plain[:done+1], " ")), what, rp)
	}
	for i, pt := range plain {
		done = i
		shared := strings.HasPrefix(pt, "*")
		parts := strings.Split(strings.TrimPrefix(pt, "*"), ":")
		var k, hk, v []byte
		if len(parts) > 1 && parts[0] != "r" {
			k0 := vh.UnHex(parts[1])
			hk = crypto.Keccak256(k0)
			k = k0
			if shared && len(k0) <= len(kbuf) {
				copy(kbuf, k0) // overwrite the previous call's key in place
				k = kbuf[:len(k0):len(k0)]
			}
		}
		if len(parts) > 2 && parts[0] != "r" {
			v = vh.UnHex(parts[2])
		}
		ans := ""
		switch parts[0] {
		case "k":
			var got []byte
			if pp, pv := vh.CatchPanic(func() { got = st.GetKey(k) }); pp {
				ans = "panic"
				viol("panic/SecureTrie.GetKey/", fmt.Sprint(pv), nil)
			} else {
				ans = "v:" + vh.Hex(got)
				if want, ok := preimages[string(k)]; ok && !bytes.Equal(got, want) {
					viol("getkey-differs-from-preimage/", "SecureTrie.GetKey does not return the key that was stored under this hash", map[string]interface{}{"hash": parts[1], "observed": ans, "expected": vh.Hex(want)})
				}
			}
			toks = append(toks, "k:"+parts[1])
		case "r":
			root := lastCommit
			if parts[1] != "latest" {
				root = common.BytesToHash(vh.UnHex(parts[1]))
			}
			lim, _ := strconv.Atoi(parts[2])
			var st2 *trie.SecureTrie
			var err error
			if pp, pv := vh.CatchPanic(func() { st2, err = trie.NewSecure(root, triedb, uint16(lim)) }); pp {
				ans = "panic"
				viol("panic/NewSecure/", fmt.Sprint(pv), nil)
			} else if err != nil {
				ans = errName(err)
			} else {
				ans = "ok"
				st = st2
				content = copyContent(commitContent)
			}
			toks = append(toks, "r:"+vh.Hex(root[:])+":"+parts[2])
			plain[i] = "r:" + vh.Hex(root[:]) + ":" + parts[2]
		case "u", "d":
			var err error
			op := "SecureTrie.TryUpdate"
			if parts[0] == "d" {
				op = "SecureTrie.TryDelete"
			}
			if pp, pv := vh.CatchPanic(func() {
				if parts[0] == "d" {
					err = st.TryDelete(k)
				} else {
					err = st.TryUpdate(k, v)
				}
			}); pp {
				ans = "panic"
				viol("panic/"+op+"/", fmt.Sprint(pv), nil)
			} else if err != nil {
				ans = errName(err)
			} else {
				ans = "ok"
				if len(v) == 0 {
					delete(content, string(hk))
				} else {
					content[string(hk)] = v
				}
				if parts[0] == "u" {
					preimages[string(hk)] = vh.UnHex(parts[1]) // the last key stored under this hash in the cache
				}
			}
			if parts[0] == "d" {
				delete(preimages, string(hk)) // dropped from the cache; an older committed preimage may still answer
				toks = append(toks, "d:"+parts[1])
			} else {
				toks = append(toks, "u:"+parts[1]+":"+vh.Hex(v))
			}
		case "g":
			var got []byte
			var err error
			if pp, pv := vh.CatchPanic(func() { got, err = st.TryGet(k) }); pp {
				ans = "panic"
				viol("panic/SecureTrie.TryGet/", fmt.Sprint(pv), nil)
			} else if err != nil {
				ans = errName(err)
			} else {
				ans = "v:" + vh.Hex(got)
				if !bytes.Equal(got, content[string(hk)]) {
					viol("get-differs-from-content/", "SecureTrie.TryGet differs from the content written", map[string]interface{}{"key": parts[1], "observed": ans, "expected": "v:" + vh.Hex(content[string(hk)])})
				}
			}
			toks = append(toks, "g:"+parts[1])
		default:
			commit := parts[0] == "c"
			var root common.Hash
			var err error
			if pp, pv := vh.CatchPanic(func() {
				if commit {
					root, err = st.Commit(nil)
				} else {
					root = st.Hash()
				}
			}); pp {
				ans = "panic"
				viol("panic/SecureTrie.Hash/", fmt.Sprint(pv), nil)
			} else if err != nil {
				ans = errName(err)
			} else {
				ans = "r:" + vh.Hex(root[:])
				if commit {
					lastCommit = root
					commitContent = copyContent(content)
				}
				if rb, ok := rebuildRoot(content); !ok || rb != root {
					viol("root-differs-from-sorted-rebuild/", "SecureTrie root differs from a plain trie over the hashed keys", map[string]interface{}{"root": vh.Hex(root[:]), "rebuild_root": vh.Hex(rb[:]), "content": contentString(content)})
				}
			}
			toks = append(toks, parts[0])
		}
		if shared {
			for j := range kbuf { // the caller's buffer is its own again as soon as the call returned
				kbuf[j] = 0xEE
			}
		}
		answers = append(answers, ans)
	}
	line := "srun " + strings.Join(toks, " ")
	c.Eval(class, sha16(line)+sha16(line+"#"))
	h.ask(line, func(m string) {
		outs := strings.Split(m, ";")
		if len(outs) != len(toks) {
			h.corr("run~k_step(protocol)", line, fmt.Sprintf("%d answers", len(toks)), m)
			return
		}
		for i, tok := range toks {
			cas := ""
			if answers[i] != outs[i] {
				cas = fmt.Sprintf("op#%d %s of secure history %s", i, plain[i], strings.Join(plain[:i+1], " "))
			}
			h.corr(secureNames[tok[0]], cas, answers[i], outs[i])
		}
	})
}

type rawList [][]byte

func (l rawList) Len() int            { return len(l) }
func (l rawList) GetRlp(i int) []byte { return l[i] }

func (h *H) deriveSha(n int) {
	c := h.c
	r := c.Rng
	l := make(rawList, n)
	content := map[string][]byte{}
	for i := range l {
		l[i] = r.Bytes([]int{1, 2, 20, 31, 32, 33, 60, 110}[r.Intn(8)])
		k, _ := rlp.EncodeToBytes(uint(i))
		content[string(k)] = l[i]
	}
	var root common.Hash
	cs := contentString(content)
	c.Eval(fmt.Sprintf("derive-sha/N=%d", n), sha16(cs))
	if p, pv := vh.CatchPanic(func() { root = types.DeriveSha(l) }); p {
		c.Violate("panic/DeriveSha/"+sha16(cs), fmt.Sprint(pv), map[string]string{"content": cs})
		return
	}
	if rb, ok := rebuildRoot(content); !ok || rb != root {
		c.Violate("root-differs-from-sorted-rebuild/"+sha16(cs), "DeriveSha differs from a trie over (rlp(i), item i)", map[string]string{"content": cs, "root": vh.Hex(root[:]), "rebuild_root": vh.Hex(rb[:])})
	}
	obs := vh.Hex(root[:])
	h.ask("mptroot "+cs, func(m string) {
		h.corr("DeriveSha~mpt_root", clipStr(cs, 1500), obs, m)
		specRootOracle(c, fmt.Sprintf("DeriveSha(N=%d)", n), cs, obs, m, map[string]interface{}{"content": clipStr(cs, 200000), "go_root": obs, "n": n})
	})
	if n <= 300 { // the code-shaped loop (Import/DeriveShaCode.v) on the same list
		items := make([]string, len(l))
		for i := range l {
			items[i] = vh.Hex(l[i])
		}
		arg := "-"
		if len(items) > 0 {
			arg = strings.Join(items, ",")
		}
		h.ask("dsha "+arg, func(m string) { h.corr("DeriveSha~derive_sha_code", fmt.Sprintf("N=%d", n), obs, m) })
	}
}

// ---------------------------------------------------------------- reference node sizes (boundary coverage)

type refKV struct {
	key []byte // nibbles, terminated by 16
	val []byte
}

// refEncode builds the node encoding of a content straight from the Yellow Paper definition
// (used only to classify which node sizes a directed content produces, and as a third opinion on
// the root); record is called for every non-root node with its kind and encoded length.
func refEncode(items []refKV, root bool, record func(kind string, n int)) []byte {
	ref := func(enc []byte) interface{} {
		if len(enc) < 32 {
			return rlp.RawValue(enc)
		}
		return crypto.Keccak256(enc)
	}
	var enc []byte
	kind := ""
	if len(items) == 1 {
		kind = "leaf"
		enc, _ = rlp.EncodeToBytes([]interface{}{trie.VerifHexToCompact(items[0].key), items[0].val})
	} else {
		l := 0
		for {
			ok := l < len(items[0].key)
			for _, it := range items {
				if l >= len(it.key) || it.key[l] != items[0].key[l] {
					ok = false
				}
			}
			if !ok {
				break
			}
			l++
		}
		if l > 0 {
			kind = "ext"
			sub := make([]refKV, len(items))
			for i, it := range items {
				sub[i] = refKV{it.key[l:], it.val}
			}
			enc, _ = rlp.EncodeToBytes([]interface{}{trie.VerifHexToCompact(items[0].key[:l]), ref(refEncode(sub, false, record))})
		} else {
			kind = "branch"
			elems := make([]interface{}, 17)
			for i := 0; i < 16; i++ {
				var sub []refKV
				for _, it := range items {
					if it.key[0] == byte(i) {
						sub = append(sub, refKV{it.key[1:], it.val})
					}
				}
				if len(sub) == 0 {
					elems[i] = []byte{}
				} else {
					elems[i] = ref(refEncode(sub, false, record))
				}
			}
			elems[16] = []byte{}
			for _, it := range items {
				if len(it.key) == 1 && it.key[0] == 16 {
					elems[16] = it.val
				}
			}
			enc, _ = rlp.EncodeToBytes(elems)
		}
	}
	if !root && record != nil {
		record(kind, len(enc))
	}
	return enc
}

func refItems(content map[string][]byte) []refKV {
	var items []refKV
	for _, k := range sortedKeys(content) {
		items = append(items, refKV{trie.VerifKeybytesToHex([]byte(k)), content[k]})
	}
	return items
}

// bigCommitCases: size thresholds are where batching bugs live.  One trie.Database.Commit carrying
// 0.5x, 1x-8 bytes, 1x+8 bytes and 2.5x aquadb.IdealBatchSize of node data (the constant is read from
// the code), then the root is re-read through the same Database (memory layer now empty) and through a
// FRESH Database over the same disk store; Database.Commit itself is compared with the two-layer model.
func (h *H) bigCommitCases() {
	limit := aquadb.IdealBatchSize
	val := func(n int, b byte) []byte { return bytes.Repeat([]byte{b}, n) }
	measure := func(keys [][]byte, vals [][]byte) int {
		_, tdb, t := newTrie()
		for i := range keys {
			t.Update(keys[i], vals[i])
		}
		if _, err := t.Commit(nil); err != nil {
			return -1
		}
		nodes, _ := trie.VerifDbDump(tdb)
		sum := 0
		for _, n := range nodes {
			sum += len(n.Blob)
		}
		return sum
	}
	type tc struct {
		name   string
		target int
		tune   bool
		model  bool
	}
	for _, t := range []tc{{"0.5x", limit / 2, false, true}, {"1x-8", limit - 8, true, false}, {"1x+8", limit + 8, true, false}, {"2.5x", limit * 5 / 2, false, false}} {
		n := t.target/1040 + 1
		var keys, vals [][]byte
		got := 0
		for try := 0; try < 12; try++ {
			keys = make([][]byte, n)
			vals = make([][]byte, n)
			for i := range keys {
				keys[i] = crypto.Keccak256([]byte("big" + strconv.Itoa(i)))
				vals[i] = val(1000, byte(0x40+i%64))
			}
			if t.tune {
				vals[n-1] = val(100, 0x7e)
			}
			got = measure(keys, vals)
			if !t.tune || got <= t.target-50 || n <= 2 {
				break
			}
			n--
		}
		if t.tune {
			for round := 0; round < 4 && got != t.target; round++ {
				l := len(vals[n-1]) + (t.target - got)
				if l < 1 {
					l = 1
				}
				vals[n-1] = val(l, 0x7e)
				got = measure(keys, vals)
			}
		}
		side := "below"
		if got >= limit {
			side = "at-or-above"
		}
		e := h.newExec(fmt.Sprintf("directed/big-commit/%s/%s-IdealBatchSize(%+d)", t.name, side, got-limit))
		e.shouldFlush = func(int) bool { return true }
		e.alterProof = func() bool { return false }
		e.askSpec = func() bool { return false }
		e.noModel = !t.model
		for i := range keys {
			e.step("u:" + vh.Hex(keys[i]) + ":" + vh.Hex(vals[i]))
		}
		e.step("c")
		if len(e.commitRoots) > 0 {
			r := e.commitRoots[len(e.commitRoots)-1]
			e.step("r:" + vh.Hex(r[:]))
			e.step("i")
			e.step("g:" + vh.Hex(keys[0]))
			e.step("p:" + vh.Hex(keys[n-1]))
		}
		e.final = true
		e.step("h")
		e.nontrivial = true
		e.finish(opNames)
	}
}

// boundaryCases: directed contents (every run, every seed) whose non-root leaf, extension and
// branch nodes have RLP encodings of exactly 31, 32 and 33 bytes: the inline-or-hash boundary.
func (h *H) boundaryCases() {
	c := h.c
	hit := map[string]int{}
	val := func(n int, b byte) []byte { return bytes.Repeat([]byte{b}, n) }
	run := func(class string, kvs [][2][]byte) {
		content := map[string][]byte{}
		for _, kv := range kvs {
			content[string(kv[0])] = kv[1]
		}
		interesting := false
		refEncode(refItems(content), true, func(kind string, n int) {
			if n >= 31 && n <= 33 {
				hit[fmt.Sprintf("%s=%d", kind, n)]++
				interesting = true
			}
		})
		if !interesting {
			return
		}
		e := h.newExec(class)
		e.shouldFlush = func(int) bool { return false }
		e.alterProof = func() bool { return false }
		e.askSpec = func() bool { return true }
		var toks []string
		for _, kv := range kvs {
			toks = append(toks, "u:"+vh.Hex(kv[0])+":"+vh.Hex(kv[1]))
		}
		toks = append(toks, "h", "c", "r:latest", "i", "p:"+vh.Hex(kvs[0][0]), "h")
		for i, t := range toks {
			if t == "r:latest" {
				if len(e.commitRoots) == 0 {
					continue
				}
				r := e.commitRoots[len(e.commitRoots)-1]
				t = "r:" + vh.Hex(r[:])
			}
			if i == len(toks)-1 {
				e.final = true
			}
			e.step(t)
		}
		e.nontrivial = true
		e.finish(opNames)
	}
	k1, k2, k3 := []byte{0x12, 0x34}, []byte{0x12, 0x56}, []byte{0x20}
	// leaves and the branch below the root extension
	for l1 := 1; l1 <= 34; l1++ {
		for _, l2 := range []int{1, 2, 9, 10, 11, 29} {
			run("directed/boundary/leaf+branch", [][2][]byte{{k1, val(l1, 0x11)}, {k2, val(l2, 0x91)}})
		}
	}
	// an extension in child position (below a root branch) over an embedded branch
	for l1 := 1; l1 <= 14; l1++ {
		for l2 := 1; l2 <= 14; l2++ {
			run("directed/boundary/ext", [][2][]byte{{k1, val(l1, 0x11)}, {k2, val(l2, 0x91)}, {k3, val(1, 0x07)}})
		}
	}
	// longer shared paths: extension key of 3 nibbles, branch with a value slot
	for l1 := 1; l1 <= 14; l1++ {
		for l2 := 1; l2 <= 14; l2++ {
			run("directed/boundary/ext3+value", [][2][]byte{{[]byte{0x12, 0x34, 0x56}, val(l1, 0x11)}, {[]byte{0x12, 0x34, 0x78}, val(l2, 0x91)}, {[]byte{0x12, 0x34}, val(2, 0x05)}, {k3, val(1, 0x07)}})
		}
	}
	var missing []string
	for _, kind := range []string{"leaf", "ext", "branch"} {
		for n := 31; n <= 33; n++ {
			key := fmt.Sprintf("%s=%d", kind, n)
			c.Res.Distribution["boundary-node/"+key] += hit[key]
			if hit[key] == 0 {
				missing = append(missing, key)
			}
		}
	}
	if len(missing) > 0 {
		c.Fatal("the directed boundary contents no longer produce non-root nodes of these kinds/sizes: %v", missing)
	}
}

// ---------------------------------------------------------------- replay

func (h *H) runReplay(file string) {
	c := h.c
	raw, err := os.ReadFile(file)
	if err != nil {
		c.Fatal("cannot read replay file: %v", err)
	}
	var top map[string]interface{}
	if err := json.Unmarshal(raw, &top); err != nil {
		c.Fatal("replay file is not a JSON object: %v", err)
	}
	rp, ok := top["replay"].(map[string]interface{})
	if !ok {
		rp = top
	}
	str := func(m map[string]interface{}, k string) string { s, _ := m[k].(string); return s }
	line := str(rp, "run")
	if line == "" {
		line = str(rp, "history")
	}
	done := false
	if line != "" {
		toks := strings.Fields(line)
		if len(toks) > 0 && toks[0] == "run" {
			toks = toks[1:]
		}
		flush := map[int]bool{}
		if fl, ok := rp["flush"].([]interface{}); ok {
			for _, f := range fl {
				if x, ok := f.(float64); ok {
					flush[int(x)] = true
				}
			}
		}
		e := h.newExec("replay/history")
		sharedSet := map[int]bool{}
		if sl, ok := rp["shared_key_ops"].([]interface{}); ok {
			for _, f := range sl {
				if x, ok := f.(float64); ok {
					sharedSet[int(x)] = true
				}
			}
		}
		e.sharedKey = func(idx int) bool { return sharedSet[idx] }
		e.shouldFlush = func(idx int) bool { return flush[idx] }
		e.alterProof = func() bool { return true }
		e.askSpec = func() bool { return true }
		for _, t := range toks {
			e.step(t)
		}
		e.nontrivial = true
		e.finish(opNames)
		done = true
	}
	if fh := str(rp, "fork_history"); fh != "" {
		h.runFork("replay/fork", strings.Fields(fh), true)
		done = true
	}
	if sh := str(rp, "secure_history"); sh != "" {
		h.runSecure("replay/secure", strings.Fields(sh))
		done = true
	}
	pr := rp
	if sub, ok := rp["proof"].(map[string]interface{}); ok {
		pr = sub
	}
	if str(pr, "root") != "" && pr["nodes"] != nil {
		var nodes [][]byte
		if l, ok := pr["nodes"].([]interface{}); ok {
			for _, x := range l {
				if s, ok := x.(string); ok {
					nodes = append(nodes, vh.UnHex(s))
				}
			}
		}
		root := common.BytesToHash(vh.UnHex(str(pr, "root")))
		key := vh.UnHex(str(pr, "key"))
		c.Eval("replay/proof", "proof")
		h.verifyCheck("VerifyProof(crafted)~verify_proof", root, key, nodes, "", nil)
		for _, n := range nodes {
			hexn := vh.Hex(n)
			obs := ""
			var s string
			var derr error
			if p, pv := vh.CatchPanic(func() { s, derr = trie.VerifDecodeNode(nil, n) }); p {
				obs = "panic"
				c.Violate(panicSig("decodeNode", true, pv, hexn), "decodeNode panics on this node encoding: "+fmt.Sprint(pv), map[string]interface{}{"node": hexn})
			} else if derr != nil {
				obs = "err"
			} else {
				obs = "ok " + s
			}
			h.ask("decode - "+hexn, func(m string) { h.corr("decodeNode~decode_node", hexn, obs, m) })
		}
		done = true
	}
	if !done {
		c.Fatal("replay object has neither a run line nor root/key/nodes")
	}
	h.flush()
}

// ---------------------------------------------------------------- main

func main() {
	c := vh.Init("C10")
	h := &H{c: c}
	nm := c.Scale(4, 8)
	if cpus := runtime.NumCPU(); nm > cpus {
		nm = cpus
	}
	if c.Replay != "" {
		nm = 1
	}
	for i := 0; i < nm; i++ {
		m := c.StartModel()
		defer m.Close()
		h.models = append(h.models, m)
	}
	c.Res.Rule = "operation histories (10..80 ops quick, up to 400 thorough; update 45% / delete 10% / get 10% / hash 7% / commit 8% / reopen of an earlier committed or merely hashed root 4% / " +
		"SetCacheLimit 3% / iterate 4% / prove+verify 6% / dump, plus a dump after 30% of the ops; a quarter of the histories commit after every 1-3 updates with cache limit 0..2 so that nodes are unloaded and re-read; " +
		"20% of the commits are followed by Database.Commit to disk) over one of four key universes: variable-length keys of 0..4 bytes over {00,01,10,11,ff} with many keys being prefixes of others (incl. the empty key), " +
		"keccak-hashed 32-byte keys, 32-byte keys differing only in their last 1..4 nibbles, and rlp(index) keys as DeriveSha builds them; values of length 0(=delete),1,31,32,33,100 and 2..5. " +
		"Every history is executed on the Go trie with direct oracles (sorted rebuild, reference content for get/iterate/reopen/proofs, altered and truncated proofs) and sent as one `run` line to the extracted model; " +
		"a history is distinct non-trivial when it contains a commit, reopen or proof. Separate streams: malformed/crafted node encodings through decodeNode and VerifyProof (valid proof nodes with one byte altered/cut/extended, " +
		"hand-built 2- and 17-element lists with boundary compact keys and reference sizes, wrong arities, trailing garbage), hex/compact key encodings, SecureTrie over keccak keys, DeriveSha against the specification root, Keccak-256 itself, " +
		"fork histories (update/delete/hash with shallow copies `cpy := *t` / SecureTrie.Copy taken at random points, mostly of never-hashed nodes; one side is continued, the other must keep content, iteration and root)."
	c.Assume("trie.Database reference counting / GC (Dereference) is not exercised; nodes are readable from the memory layer or disk")
	c.Note("VerifyProof on the empty trie: Prove emits no node, so absence cannot be proven for the empty root; reported with the stable signature prove-empty-trie-absence-not-verifiable (theorem C10_empty_trie_absence_proof_refuted)")

	if c.Replay != "" {
		h.replay = true
		h.runReplay(c.Replay)
		h.noteCounts()
		c.Finish()
		return
	}

	// 0. directed history (every run, every seed): proofs on the empty trie, before the
	// first update and after the trie became empty again (known finding
	// prove-empty-trie-absence-not-verifiable), and proofs of presence / absence around it.
	{
		e := h.newExec("directed/empty-trie-proof")
		e.shouldFlush = func(int) bool { return false }
		e.alterProof = func() bool { return true }
		e.askSpec = func() bool { return true }
		for _, t := range strings.Fields("p:0x01 h u:0x01:0x02 p:0x01 p:0x0102 p:0x c d:0x01 p:0x01 h x") {
			e.step(t)
		}
		e.nontrivial = true
		e.finish(opNames)
	}

	// 0b. directed contents on the 31/32/33-byte inline-or-hash boundary
	h.boundaryCases()

	// 0c. directed commits around the write-batch threshold aquadb.IdealBatchSize
	h.bigCommitCases()

	// 7. Keccak validation
	for i, n := range []int{0, 1, 31, 32, 33, 55, 135, 136, 137, 272, 300, 532} {
		b := c.Rng.Bytes(n)
		c.Eval("keccak", "")
		_ = i
		hb := vh.Hex(b)
		obs := vh.Hex(crypto.Keccak256(b))
		h.ask("keccak "+hb, func(m string) { h.corr("crypto.Keccak256~keccak256", hb, obs, m) })
	}

	// 5. encodings
	h.encodings()

	// 4. malformed nodes
	h.malformedStream()

	// 6. SecureTrie / DeriveSha
	// directed (every seed): consecutive calls through ONE key buffer, key lengths < 32, = 32, > 32
	for _, kl := range []int{5, 32, 40} {
		k1, k2, k3 := bytes.Repeat([]byte{0x11}, kl), bytes.Repeat([]byte{0x22}, kl), bytes.Repeat([]byte{0x33}, kl)
		h.runSecure("secure/key-buffer-reuse/directed", []string{
			"*u:" + vh.Hex(k1) + ":0x0101", "*u:" + vh.Hex(k2) + ":0x0202", "*g:" + vh.Hex(k1), "*g:" + vh.Hex(k2), "h",
			"*g:" + vh.Hex(k3), "*u:" + vh.Hex(k3) + ":0x0303", "*d:" + vh.Hex(k1), "*g:" + vh.Hex(k2), "*g:" + vh.Hex(k1), "c",
			"g:" + vh.Hex(k3), "*u:" + vh.Hex(k2) + ":0x", "*g:" + vh.Hex(k3), "h"})
		// preimages: GetKey after update, after delete without commit (cache entry dropped), after commit + delete (store answers)
		h1, h2 := vh.Hex(crypto.Keccak256(k1)), vh.Hex(crypto.Keccak256(k2))
		h.runSecure("secure/getkey/directed", []string{
			"u:" + vh.Hex(k1) + ":0x0101", "k:" + h1, "d:" + vh.Hex(k1), "k:" + h1, "u:" + vh.Hex(k2) + ":0x0202", "c", "k:" + h2,
			"d:" + vh.Hex(k2), "k:" + h2, "u:" + vh.Hex(k1) + ":0x", "k:" + h1, "c", "r:latest:1", "k:" + h1, "k:" + h2, "g:" + vh.Hex(k2)})
	}
	for i := 0; i < c.Scale(12, 120); i++ {
		h.secureHistory(i < 3)
	}
	// directed list lengths around the one- and two-byte rlp(index) key boundaries, every run
	dn := []int{0, 1, 2, 17, 126, 127, 128, 129, 130, 255, 256, 257, 1000}
	if c.Thorough() {
		dn = append(dn, 3, 16, 200, 511, 512, 513, 2000)
	}
	for _, n := range dn {
		h.deriveSha(n)
	}
	h.flush()

	// 1-3. histories
	nh := c.Scale(120, 3000)
	for i := 0; i < nh; i++ {
		n := 10 + c.Rng.Intn(71)
		if c.Thorough() && c.Rng.Chance(40) {
			n = 10 + c.Rng.Intn(391)
		}
		h.genHistory(n)
		if c.Thorough() && len(h.queue) >= 64 {
			h.flush()
		}
	}
	h.flush()

	// 8. fork discipline: shallow copies of a trie value share nodes; the untouched value keeps its content (fork.go)
	h.forkCases()
	h.refcountCases()
	h.noteCounts()
	c.Finish()
}
